/-
  Base vocabulary of the executable model. Core Lean only (no Mathlib): the same definitions are
  (a) executed by `Driver/Main.lean` at `K := Rat` (or `Float`), and
  (b) reasoned about in `Proofs/`, `Props/` with `K` any Mathlib `Field`.
  `K` is described by *raw* operation classes only, so that both instantiations are definitionally
  the operations of the instance at hand.
-/
namespace Ixai

/-- Real-valued library functions used by the kernels (`np.exp`, `np.log`, `np.floor`, `math.sqrt`).
    Uninterpreted in proofs unless a hypothesis says otherwise; `Float`'s in the driver. -/
class RealOps (K : Type) where
  exp : K → K
  log : K → K
  floor : K → K
  sqrt : K → K

/-- Source of the draws of Python's global generators, as explicit input.
    `reals i` is the `i`-th value returned by `random.random()`,
    `idxs i n` the `i`-th value returned by `random.randrange(n)` / `randint(0, n-1)` when the code
    requested range `n` (so theorems can state `idxs i n < n` exactly as the library guarantees). -/
structure Rnd (K : Type) where
  reals : Nat → K
  idxs : Nat → Nat → Nat
  rpos : Nat := 0
  ipos : Nat := 0

def Rnd.nextReal {K : Type} (r : Rnd K) : K × Rnd K :=
  (r.reals r.rpos, { r with rpos := r.rpos + 1 })

def Rnd.nextIdx {K : Type} (r : Rnd K) (n : Nat) : Nat × Rnd K :=
  (r.idxs r.ipos n, { r with ipos := r.ipos + 1 })

/-- `a ** n` for a natural exponent, by repeated multiplication. -/
def npow {K : Type} [Mul K] [OfNat K 1] (a : K) : Nat → K
  | 0 => 1
  | n + 1 => npow a n * a

/-- sum of a list, left to right starting at `0` (Python's `sum`). -/
def lsum {K : Type} [Add K] [OfNat K 0] (l : List K) : K := l.foldl (· + ·) 0

end Ixai
