/-
  Hand-written model of the bookkeeping of `TreeStorage` (ixai/storage/tree_storage.py) and `TreeImputer`
  (ixai/imputer/tree_imputer.py, `use_storage=True` path) over an abstract tree ORACLE: river's Hoeffding trees are
  outside /repo and are not modelled.  Per update and feature the oracle reports the id of the leaf the observation is
  routed to and the ids of all current leaves (after `learn_one`); per imputation the routed leaf id.
  A leaf reservoir is the always-insert reservoir `GeometricReservoirStorage(size=L, constant_probability=1.0)`,
  modelled directly by the GENERATED kernel with p = 1.
-/
import IxaiVerif.Model.Dict
import IxaiVerif.Gen.GeometricReservoirStorage

namespace Ixai.Tree
open Ixai.Gen

variable {K : Type} [Add K] [Sub K] [Mul K] [Div K] [NatCast K] [OfNat K 0] [OfNat K 1] [LE K] [DecidableLE K]

/-- reservoirs of one feature: leaf id ↦ reservoir of full data points (`P` = type of a data point) -/
abbrev Reservoirs (K P : Type) := List (Nat × GeometricReservoirStorage K P Unit)

def findR {K P : Type} (rs : Reservoirs K P) (leaf : Nat) : Option (GeometricReservoirStorage K P Unit) :=
  (rs.find? (fun e => e.1 == leaf)).map Prod.snd

/-- `_update_data_reservoirs` for one feature (after `fix:` a088161): create the routed leaf's reservoir if it is new, then — on
    EVERY update — drop the reservoirs whose leaf id is no longer a leaf of the tree; finally insert the data point into the
    routed leaf's reservoir. -/
def updateFeature {P : Type} (L : Nat) (rs : Reservoirs K P) (leaf : Nat) (allLeaves : List Nat) (x : P) (rnd : Rnd K) :
    Reservoirs K P × Rnd K :=
  let rs0 := if (findR rs leaf).isSome then rs
    else rs ++ [(leaf, GeometricReservoirStorage.init L (some (1 : K)) false)]
  let rs1 := rs0.filter (fun e => allLeaves.contains e.1)
  -- `data_reservoir[leaf_id].update(x)`: a KeyError if the routed id was itself deleted; modelled as "no insertion"
  match findR rs1 leaf with
  | none => (rs1, rnd)
  | some r =>
    let (r', rnd') := r.update x () rnd
    (rs1.map (fun e => if e.1 == leaf then (e.1, r') else e), rnd')

/-- the shipped behaviour before the fix, kept to document the defect: the clean-up ran only when the routed leaf id was new -/
def updateFeatureShipped {P : Type} (L : Nat) (rs : Reservoirs K P) (leaf : Nat) (allLeaves : List Nat) (x : P) (rnd : Rnd K) :
    Reservoirs K P × Rnd K :=
  let rs1 := if (findR rs leaf).isSome then rs
    else (rs ++ [(leaf, GeometricReservoirStorage.init L (some (1 : K)) false)]).filter (fun e => allLeaves.contains e.1)
  match findR rs1 leaf with
  | none => (rs1, rnd)
  | some r =>
    let (r', rnd') := r.update x () rnd
    (rs1.map (fun e => if e.1 == leaf then (e.1, r') else e), rnd')

structure State (K P : Type) where
  reservoirs : List (Nat × Reservoirs K P)   -- feature ↦ reservoirs
  seen : Nat

def init {P : Type} (features : List Nat) : State K P := { reservoirs := features.map (fun f => (f, [])), seen := 0 }

/-- oracle answers for one update: per feature (in the order of the instance's keys) the routed leaf and all leaves -/
abbrev UpdateOracle := List (Nat × (Nat × List Nat))

def update {P : Type} (L : Nat) (s : State K P) (x : P) (oracle : UpdateOracle) (rnd : Rnd K) : State K P × Rnd K :=
  let step := fun (acc : List (Nat × Reservoirs K P) × Rnd K) (o : Nat × (Nat × List Nat)) =>
    match acc.1.find? (fun e => e.1 == o.1) with
    | none => acc                       -- feature not stored: skipped
    | some e =>
      let (rs', rnd') := updateFeature L e.2 o.2.1 o.2.2 x acc.2
      (acc.1.map (fun e' => if e'.1 == o.1 then (e'.1, rs') else e'), rnd')
  let (res, rnd') := oracle.foldl step (s.reservoirs, rnd)
  ({ reservoirs := res, seen := s.seen + 1 }, rnd')

def len {P : Type} (s : State K P) : Nat := s.seen

/-- TreeImputer with `use_storage=True`: for every requested feature, the value that feature has in a data point
    drawn from the reservoir of the routed leaf, or the tree's own fall-back value when that leaf has no reservoir.
    `P := Nat → V` (an instance); `pick f` is the index drawn (`randint(0, len-1)`), `fallback f` the tree's value. -/
def imputeValue {V : Type} (s : State K (Nat → V)) (f : Nat) (leaf : Nat) (pick : Nat) (fallback : V) : V :=
  match s.reservoirs.find? (fun e => e.1 == f) with
  | none => fallback
  | some e =>
    match findR e.2 leaf with
    | none => fallback
    | some r =>
      match r.storage_x[pick]? with
      | some p => p f
      | none => fallback

def imputeInput {V : Type} (s : State K (Nat → V)) (x : Nat → V) (S : List Nat) (leafOf : Nat → Nat) (pick : Nat → Nat)
    (fallback : Nat → V) : Nat → V :=
  fun f => if S.contains f then imputeValue s f (leafOf f) (pick f) (fallback f) else x f

end Ixai.Tree
