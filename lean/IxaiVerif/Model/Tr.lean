/-
  `Tr`: the base tracker chosen by `dynamic_setting` (the two *generated* kernels under one type), and
  `MV`: the hand-written model of `MultiValueTracker` (ixai/utils/tracker/multi_value.py).
-/
import IxaiVerif.Model.Dict
import IxaiVerif.Gen.WelfordTracker
import IxaiVerif.Gen.ExponentialSmoothingTracker

namespace Ixai
open Ixai.Gen

variable {K : Type} [Add K] [Sub K] [Mul K] [Div K] [NatCast K] [OfNat K 0] [OfNat K 1] [RealOps K]

/-- a base tracker: `WelfordTracker()` (static mode) or `ExponentialSmoothingTracker(alpha)` (dynamic mode) -/
inductive Tr (K : Type) where
  | w (t : WelfordTracker K)
  | e (t : ExponentialSmoothingTracker K)

namespace Tr

/-- which tracker an explainer starts from: `none` = static (Welford), `some α` = dynamic (smoothing with α) -/
def init (alpha : Option K) : Tr K :=
  match alpha with
  | none => .w WelfordTracker.init
  | some a => .e (ExponentialSmoothingTracker.init a)

def update (t : Tr K) (v : K) : Tr K :=
  match t with
  | .w t => .w (t.update v)
  | .e t => .e (t.update v)

def get (t : Tr K) : K :=
  match t with
  | .w t => t.tracked_value
  | .e t => t.tracked_value

def N (t : Tr K) : Nat :=
  match t with
  | .w t => t.N
  | .e t => t.N

end Tr

/-- `MultiValueTracker`: one lazily created copy of the base tracker per key -/
structure MV (K : Type) where
  trackers : Dict (Tr K)
  N : Nat
  base : Tr K

namespace MV

def init (base : Tr K) : MV K := { trackers := [], N := 0, base := base }

/-- `update(values)`: keys in the update get their value (a new key gets a fresh copy of the base tracker first),
    tracked keys missing from the update get 0; the call is counted once. -/
def update (m : MV K) (values : Dict K) : MV K :=
  let old := m.trackers.map (fun (kt : Nat × Tr K) => (kt.1, kt.2.update (values.getD kt.1 0)))
  let fresh := (values.filter (fun kv => !(m.trackers.has kv.1))).map (fun kv => (kv.1, m.base.update kv.2))
  { m with trackers := old ++ fresh, N := m.N + 1 }

/-- `get()` / `__call__` -/
def get (m : MV K) : Dict K := m.trackers.map (fun kt => (kt.1, kt.2.get))

/-- value of one key (0 for an untracked key; only used for tracked keys, see `Proofs/MultiValue.lean`) -/
def getKey (m : MV K) (k : Nat) : K := m.get.getD k 0

variable [DecidableEq K]

/-- `get_normalized()` (after the repair of the zero-sum test): raw values for at most one key, all zeros for a zero
    sum, otherwise value / sum -/
def getNormalized (m : MV K) : Dict K :=
  let vals := m.get
  if vals.length ≤ 1 then vals
  else
    let total := lsum (vals.map Prod.snd)
    if total = 0 then vals.map (fun kv => (kv.1, (0 : K)))
    else vals.map (fun kv => (kv.1, kv.2 / total))

end MV
end Ixai
