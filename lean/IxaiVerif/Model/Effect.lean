/-
  Effectful layer of the incremental explainers: the same `explain_one` as `Model/Explainer.lean`, but with callbacks
  that may FAIL, in the order of effects of the Python code, with a global invocation counter and an event log.

  `M α := World → Except Err α × World` keeps the world on failure (unlike `StateT σ (Except ε)`), so "what has been
  mutated before the failing call" is represented faithfully.  Oracles are indexed by the invocation counter: a
  universally quantified oracle is "any behaviour, failing at any position(s)" (C17), a constant one is a
  deterministic callback (C15, agreement with the pure layer).
-/
import IxaiVerif.Model.Explainer

namespace Ixai

inductive Err where
  | model | loss | imputer | storage
deriving DecidableEq, Repr

inductive Ev where
  | model | loss | impute (S : List Nat) (n : Nat) | storage
deriving DecidableEq, Repr

structure World (K : Type) where
  est : Est K
  seen : Nat
  calls : Nat
  log : List Ev

def M (K : Type) (α : Type) := World K → Except Err α × World K

namespace M
variable {K : Type} {α β : Type}

def pure (a : α) : M K α := fun w => (.ok a, w)
def bind (m : M K α) (f : α → M K β) : M K β := fun w =>
  match m w with
  | (.ok a, w') => f a w'
  | (.error e, w') => (.error e, w')

instance : Monad (M K) where
  pure := M.pure
  bind := M.bind

def get : M K (World K) := fun w => (.ok w, w)
def modify (f : World K → World K) : M K Unit := fun w => (.ok (), f w)

/-- invoke a callback: log the event, advance the invocation counter, return what the oracle answers -/
def call (ev : Ev) (oracle : Nat → Except Err α) : M K α := fun w =>
  (oracle w.calls, { w with calls := w.calls + 1, log := w.log ++ [ev] })

/-- sequential map (Python list comprehension / for loop with effects) -/
def mapM' (f : α → M K β) : List α → M K (List β)
  | [] => M.pure []
  | a :: as => M.bind (f a) (fun b => M.bind (mapM' f as) (fun bs => M.pure (b :: bs)))

end M

variable {K : Type} [Add K] [Sub K] [Mul K] [Div K] [NatCast K] [OfNat K 0] [OfNat K 1] [RealOps K] [DecidableEq K]

structure Oracles (K V Y : Type) where
  model : Nat → Inst V → Except Err (Dict K)
  loss : Nat → Y → Dict K → Except Err K
  storage : Nat → Except Err Unit
  /-- a user-supplied imputer as a black box: predictions for (subset, n) -/
  impute : Nat → List Nat → Nat → Except Err (List (Dict K))

section
variable {V Y : Type} (O : Oracles K V Y)

def callModel (x : Inst V) : M K (Dict K) := M.call .model (fun c => O.model c x)
def callLoss (y : Y) (p : Dict K) : M K K := M.call .loss (fun c => O.loss c y p)
def callStorage : M K Unit := M.call .storage O.storage
def callImputeUser (S : List Nat) (n : Nat) : M K (List (Dict K)) := M.call (.impute S n) (fun c => O.impute c S n)

/-- the library's MarginalImputer (joint strategy): `n` model evaluations on overlaid inputs; the row choice of inner
    sample `j` of this imputer call is `rowOf c j` with `c` the invocation counter at entry -/
def imputeMarginalJoint (rows : Nat → Inst V) (rowOf : Nat → Nat → Nat) (x : Inst V) (S : List Nat) (n : Nat) :
    M K (List (Dict K)) :=
  M.bind M.get (fun w =>
    M.mapM' (fun j => callModel O (overlay x S (rows (rowOf w.calls j)))) (List.range n))

/-- IncrementalPFI.explain_one (repaired order: compute, then storage, then commit) -/
def pfiExplainM (names : List Nat) (imputeM : List Nat → Nat → M K (List (Dict K)))
    (x : Inst V) (y : Y) (n : Nat) (updateStorage : Bool) : M K (Dict K) :=
  M.bind M.get (fun w0 =>
  M.bind (if w0.seen ≥ 1 then
      M.bind (callModel O x) (fun orig =>
      M.bind (callLoss O y orig) (fun origLoss =>
      M.bind (M.mapM' (fun f =>
          M.bind (imputeM [f] n) (fun preds =>
          M.bind (M.mapM' (callLoss O y) preds) (fun losses =>
          M.pure (f, meanK losses - origLoss)))) names) (fun cs =>
      M.pure (some cs))))
    else M.pure none) (fun contribs? =>
  M.bind (if updateStorage then callStorage O else M.pure ()) (fun _ =>
  M.bind (M.modify (fun w =>
      { w with est := (match contribs? with
                       | some cs => commitImportance w.est names cs
                       | none => w.est),
               seen := w.seen + 1 })) (fun _ =>
  M.bind M.get (fun w => M.pure w.est.importanceValues)))))

/-- the permutation chain with effects -/
def sageChainM (imputeM : List Nat → Nat → M K (List (Dict K))) (y : Y) (n : Nat) :
    (perm : List Nat) → (notInS : List Nat) → (prev : K) → M K (Dict K)
  | [], _, _ => M.pure []
  | f :: rest, notInS, prev =>
    let notInS' := notInS.erase f
    M.bind (imputeM notInS' n) (fun preds =>
    M.bind (callLoss O y (meanOutput preds)) (fun fl =>
    M.bind (sageChainM imputeM y n rest notInS' fl) (fun tail =>
    M.pure ((f, prev - fl) :: tail))))

/-- IncrementalSage.explain_one (repaired order) -/
def sageExplainM (names : List Nat) (imputeM : List Nat → Nat → M K (List (Dict K)))
    (x : Inst V) (y : Y) (n : Nat) (perm : List Nat) (updateStorage : Bool) : M K (Dict K) :=
  M.bind M.get (fun w0 =>
  M.bind (if w0.seen ≥ 1 then
      M.bind (callModel O x) (fun pred =>
      M.bind (callLoss O y pred) (fun ml =>
      let mp' := w0.est.margPred.update pred
      let mpn := mp'.getNormalized
      M.bind (callLoss O y mpn) (fun margL =>
      M.bind (sageChainM O imputeM y n perm names margL) (fun contribs =>
      M.pure (some (ml, mp', mpn, margL, contribs))))))
    else M.pure none) (fun upd? =>
  M.bind (if updateStorage then callStorage O else M.pure ()) (fun _ =>
  M.bind (M.modify (fun w =>
      { w with est := (match upd? with
                       | some (ml, mp', mpn, margL, contribs) =>
                         commitImportance { w.est with modelLoss := w.est.modelLoss.update ml, margPred := mp',
                                                       margPredCur := mpn, margLoss := w.est.margLoss.update margL }
                           names contribs
                       | none => w.est),
               seen := w.seen + 1 })) (fun _ =>
  M.bind M.get (fun w => M.pure w.est.importanceValues)))))

/-! ### BatchSage.explain_many with effects -/

/-- sequential left fold with effects (a Python `for` loop that updates an accumulator) -/
def M.foldlM' {α β : Type} (f : β → α → M K β) : β → List α → M K β
  | b, [] => M.pure b
  | b, a :: as => M.bind (f b a) (fun b' => M.foldlM' f b' as)

/-- the feature order drawn for one observation: `[names[i] for i in np.random.permutation(len(names))]`, the draw being
    indexed by the invocation counter at the start of that observation -/
def permChainAt (names : List Nat) (permutation : Nat → Nat → List Nat) (c : Nat) : List Nat :=
  (permutation c names.length).map (fun i => names.getD i 0)

/-- one explained observation of `explain_many`: loss of the data set's mean prediction, then the permutation chain; the
    contributions are added to the running per-feature sums -/
def batchObsM (names : List Nat) (permutation : Nat → Nat → List Nat)
    (imputeMx : Inst V → List Nat → Nat → M K (List (Dict K))) (n : Nat) (mp : Dict K) (acc : Dict K) (xy : Inst V × Y) :
    M K (Dict K) :=
  M.bind M.get (fun w =>
  M.bind (callLoss O xy.2 mp) (fun l0 =>
  M.bind (sageChainM O (imputeMx xy.1) xy.2 n (permChainAt names permutation w.calls) names l0) (fun contribs =>
  M.pure (addContribs acc contribs))))

/-- `BatchSage.explain_many(x_data, y_data, n)`: one (row-wise) batch prediction, the per-observation chains over
    `zip(x_data, y_data)`, division by the number of explained observations (by `len(x_data)` when nothing was explained) -/
def batchSageM (names : List Nat) (permutation : Nat → Nat → List Nat)
    (imputeMx : Inst V → List Nat → Nat → M K (List (Dict K))) (xs : List (Inst V)) (ys : List Y) (n : Nat) : M K (Dict K) :=
  M.bind (M.mapM' (callModel O) xs) (fun preds =>
  let mp := meanOutput preds
  let data := List.zip xs ys
  M.bind (M.foldlM' (batchObsM O names permutation imputeMx n mp) (names.map (fun f => (f, (0 : K)))) data) (fun sums =>
  let nd := if data.isEmpty then xs.length else data.length
  M.pure (sums.map (fun kv => (kv.1, kv.2 / (nd : K))))))

end
end Ixai
