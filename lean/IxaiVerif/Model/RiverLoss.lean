/-
  Hand-written model of `RiverMetricToLossFunction` (ixai/utils/wrappers/river.py) and of the probe in
  `_get_loss_function_from_river_metric` (ixai/utils/validators/loss.py) over an abstract river metric.
  The metric object is shared mutable state `σ`; every adapter call performs update → get → revert on it.
-/
import IxaiVerif.Model.Dict

namespace Ixai

/-- an abstract river metric; `A` is what `update/revert` receive: (y_true, y_pred) -/
structure Metric (σ A K : Type) where
  fresh : σ
  update : σ → A → σ
  revert : σ → A → σ
  get : σ → K
  biggerIsBetter : Bool

namespace Metric
variable {σ A K : Type} [Neg K]

def sign (m : Metric σ A K) (v : K) : K := if m.biggerIsBetter then -v else v

/-- one call of the adapter on the shared metric state -/
def lossCall (m : Metric σ A K) (st : σ) (a : A) : K × σ :=
  let st1 := m.update st a
  let v := m.get st1
  let st2 := m.revert st1 a
  (m.sign v, st2)

/-- any number of calls, by any number of adapters sharing the metric object: the calls are a sequence on one state -/
def lossCalls (m : Metric σ A K) (st : σ) : List A → List K × σ
  | [] => ([], st)
  | a :: rest =>
    let (v, st') := m.lossCall st a
    let (vs, st'') := lossCalls m st' rest
    (v :: vs, st'')

/-- the validator's probe: update and revert with a probe argument, then one adapter call -/
def probe (m : Metric σ A K) (st : σ) (p q : A) : σ :=
  let st := m.revert (m.update st p) p
  (m.lossCall st q).2

end Metric

/-- what a single-value metric receives from the prediction dict: `y_prediction.get('output', 0)`;
    label 0 stands for 'output' -/
def singleValueArg {K : Type} [OfNat K 0] (pred : Dict K) : K := pred.getD 0 0

/-- a concrete metric for non-vacuity: running mean of a per-pair score `g` (river's `Mean`-based metrics such as MAE/MSE):
    state = (count, mean) -/
def meanMetric {A K : Type} [Add K] [Sub K] [Div K] [NatCast K] [OfNat K 0] (g : A → K) (bib : Bool) :
    Metric (Nat × K) A K where
  fresh := (0, 0)
  update := fun s a => let n := s.1 + 1; (n, s.2 + (g a - s.2) / (n : K))
  revert := fun s a => let n := s.1 - 1; if n = 0 then (0, 0) else (n, s.2 - (g a - s.2) / (n : K))
  get := fun s => s.2
  biggerIsBetter := bib

end Ixai
