/-
  Hand-written model of ixai/utils/tracker/sliding_window.py (after the two `fix:` commits: `np.nan`, and
  reset-then-write-then-advance).  The NumPy buffer of NaNs is a list of `Option K` (NaN ↔ `none`);
  `np.nanmean/nanvar/nanstd` are the statistics of the present entries.
-/
import IxaiVerif.Model.Basic

namespace Ixai

structure SW (K : Type) where
  window : List (Option K)
  pos : Nat        -- window_k: next write position
  k : Nat

namespace SW
variable {K : Type} [Add K] [Sub K] [Mul K] [Div K] [NatCast K] [OfNat K 0] [OfNat K 1] [RealOps K]

def init (k : Nat) : SW K := { window := List.replicate k none, pos := 0, k := k }

/-- `if self.window_k >= self.k: self.window_k = 0;  window[window_k] = v;  window_k += 1` -/
def update (s : SW K) (v : K) : SW K :=
  let p := if s.pos ≥ s.k then 0 else s.pos
  { s with window := s.window.set p (some v), pos := p + 1 }

/-- the shipped (pre-fix) update, kept to document the defect: after a wrap the position is reset but not advanced -/
def updateShipped (s : SW K) (v : K) : SW K :=
  if s.pos < s.k then { s with window := s.window.set s.pos (some v), pos := s.pos + 1 }
  else { s with window := s.window.set 0 (some v), pos := 0 }

def present (s : SW K) : List K := s.window.filterMap id

def mean (s : SW K) : K := lsum s.present / (s.present.length : K)
def var (s : SW K) : K :=
  let m := s.mean
  lsum (s.present.map (fun v => (v - m) * (v - m))) / (s.present.length : K)
def std (s : SW K) : K := RealOps.sqrt s.var

end SW
end Ixai
