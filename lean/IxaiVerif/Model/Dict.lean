/-
  Python dicts as association lists (insertion order, keys assumed distinct — a `dict` guarantees that).
  Keys are natural numbers: the harness numbers feature names and output labels by first appearance.
-/
import IxaiVerif.Model.Basic

namespace Ixai

abbrev Dict (V : Type) := List (Nat × V)

namespace Dict
variable {V : Type}

def keys (d : Dict V) : List Nat := d.map Prod.fst

def find? (d : Dict V) (k : Nat) : Option V :=
  match d with
  | [] => none
  | (k', v) :: rest => if k' = k then some v else find? rest k

def has (d : Dict V) (k : Nat) : Bool := (d.find? k).isSome

/-- `d.get(k, dflt)` -/
def getD (d : Dict V) (k : Nat) (dflt : V) : V := (d.find? k).getD dflt

/-- `d[k] = v`: an existing key keeps its position, a new key goes last -/
def set (d : Dict V) (k : Nat) (v : V) : Dict V :=
  match d with
  | [] => [(k, v)]
  | (k', v') :: rest => if k' = k then (k', v) :: rest else (k', v') :: set rest k v

/-- `{k: v for (k, v) in pairs}`: later pairs overwrite earlier ones with the same key -/
def ofPairs (l : List (Nat × V)) : Dict V := l.foldl (fun d kv => d.set kv.1 kv.2) []

end Dict

section Mean
variable {K : Type} [Add K] [Div K] [NatCast K] [OfNat K 0]

/-- labels of a list of outputs in order of first appearance (`{label for output in outputs for label in output}`;
    Python iterates a set here, the order is immaterial for everything that is compared) -/
def allLabels (outs : List (Dict K)) : List Nat :=
  outs.foldl (fun acc o => o.keys.foldl (fun acc k => if acc.contains k then acc else acc ++ [k]) acc) []

/-- `_get_mean_model_output`: per label the mean over all outputs, a missing label counting as 0 -/
def meanOutput (outs : List (Dict K)) : Dict K :=
  (allLabels outs).map (fun l => (l, lsum (outs.map (fun o => o.getD l 0)) / (outs.length : K)))

end Mean

end Ixai
