/-
  Hand-written model of ixai/imputer/{marginal_imputer,default_imputer}.py.
  An instance is a function from feature index to value (`Inst V`); the harness numbers the features.
  Random row choices are explicit inputs: for inner sample `j`, `choice j f` is the index of the stored row that
  feature `f` is taken from (joint strategy: the same row for all features of a sample).
-/
import IxaiVerif.Model.Dict

namespace Ixai

abbrev Inst (V : Type) := Nat → V

section
variable {V : Type} {O : Type}

/-- `{**x_i, **sampled_values}` where `sampled_values = {f: src f for f in subset}` -/
def overlay (x : Inst V) (S : List Nat) (src : Nat → V) : Inst V :=
  fun f => if S.contains f then src f else x f

/-- `{**x_i, **sampled_values}` with `sampled_values` a dict (association list): its entries win -/
def overlayD (x : Inst V) (sampled : Dict V) : Inst V :=
  fun f => (sampled.find? f).getD (x f)

/-- the next `random.randrange(n)`: `idxs p n` is what the generator returns for the `p`-th index draw when asked for range `n`;
    the state is the number of index draws made so far -/
def drawIdx (idxs : Nat → Nat → Nat) (n : Nat) : StateM Nat Nat := fun p => (idxs p n, p + 1)

/-- MarginalImputer, joint strategy: one stored row per inner sample -/
def jointInputs (rows : Nat → Inst V) (S : List Nat) (x : Inst V) (n : Nat) (rowOf : Nat → Nat) : List (Inst V) :=
  (List.range n).map (fun j => overlay x S (rows (rowOf j)))

/-- MarginalImputer, product strategy: an independently chosen stored row per imputed feature and inner sample -/
def productInputs (rows : Nat → Inst V) (S : List Nat) (x : Inst V) (n : Nat) (rowOf : Nat → Nat → Nat) : List (Inst V) :=
  (List.range n).map (fun j => overlay x S (fun f => rows (rowOf j f) f))

/-- DefaultImputer: the configured default values; one model evaluation, repeated `n` times -/
def defaultInput (values : Inst V) (S : List Nat) (x : Inst V) : Inst V := overlay x S values

def imputeJoint (model : Inst V → O) (rows : Nat → Inst V) (S : List Nat) (x : Inst V) (n : Nat) (rowOf : Nat → Nat) : List O :=
  (jointInputs rows S x n rowOf).map model

def imputeProduct (model : Inst V → O) (rows : Nat → Inst V) (S : List Nat) (x : Inst V) (n : Nat)
    (rowOf : Nat → Nat → Nat) : List O :=
  (productInputs rows S x n rowOf).map model

def imputeDefault (model : Inst V → O) (values : Inst V) (S : List Nat) (x : Inst V) (n : Nat) : List O :=
  List.replicate n (model (defaultInput values S x))

end
end Ixai
