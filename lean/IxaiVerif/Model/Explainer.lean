/-
  Hand-written model (pure layer) of the explainers:
    ixai/explainer/base.py, pfi.py, sage/incremental.py, sage/batch.py, sage/interval.py
  written in the order of effects of the Python code *after* the `fix:` commits recorded in known_findings.txt
  (everything is computed first, the trackers are committed last).

  Callbacks are parameters: `model : Inst V → Dict K`, `loss : Y → Dict K → K`, and for one explained observation the
  imputer is the function `imp : List Nat → List (Dict K)` giving the predictions it returns for a feature subset
  (storage content and random draws are absorbed in it; `Model/Imputer.lean` gives the library imputers).
  The effectful layer with failures, call order and event log is `Model/Effect.lean`; it is proved to agree with this
  layer when no callback fails.
-/
import IxaiVerif.Model.Tr
import IxaiVerif.Model.Imputer
import IxaiVerif.Gen.IntervalStorage

namespace Ixai

variable {K : Type} [Add K] [Sub K] [Mul K] [Div K] [NatCast K] [OfNat K 0] [OfNat K 1] [RealOps K] [DecidableEq K]

/-- the estimates of an incremental explainer (`BaseIncrementalFeatureImportance`) -/
structure Est (K : Type) where
  importance : MV K          -- _importance_trackers
  variance : MV K            -- _variance_trackers
  margLoss : Tr K            -- _marginal_loss_tracker
  modelLoss : Tr K           -- _model_loss_tracker
  margPred : MV K            -- _marginal_prediction_tracker
  margPredCur : Dict K       -- marginal_prediction (attribute of IncrementalSage)

/-- constructor: all five trackers are deep copies of one base tracker; `alpha = none` is the static mode -/
def Est.init (alpha : Option K) : Est K :=
  let base : Tr K := Tr.init alpha
  { importance := MV.init base, variance := MV.init base, margLoss := base, modelLoss := base,
    margPred := MV.init base, margPredCur := [] }

/-- `0.001 if smoothing_alpha is None else smoothing_alpha`, the range assertion, and the choice of base tracker.
    `dflt` is the numeral 0.001 in `K`. Returns `none` when the assertion fails. -/
def configAlpha [LT K] [DecidableLT K] [LE K] [DecidableLE K] (dynamic : Bool) (alpha : Option K) (dflt : K) : Option (Option K) :=
  let a := alpha.getD dflt
  if dynamic then
    if decide ((0 : K) < a) && decide (a ≤ (1 : K)) then some (some a) else none
  else some none

def sq (a : K) : K := a * a

/-- variance update shared by PFI and SAGE: `(contribution[f] - importance_values[f]) ** 2` with the importance
    values *after* they were updated with the contributions -/
def commitImportance (e : Est K) (names : List Nat) (contribs : Dict K) : Est K :=
  let imp' := e.importance.update contribs
  let vars : Dict K := names.map (fun f => (f, sq (contribs.getD f 0 - imp'.getKey f)))
  { e with importance := imp', variance := e.variance.update vars }

/-! ### IncrementalPFI -/

/-- `np.mean(losses)` -/
def meanK (l : List K) : K := lsum l / (l.length : K)

/-- per-feature contribution: mean loss over the imputed predictions (single-feature subset) minus original loss -/
def pfiContribs {V Y : Type} (names : List Nat) (model : Inst V → Dict K) (loss : Y → Dict K → K)
    (x : Inst V) (y : Y) (imp : List Nat → List (Dict K)) : Dict K :=
  let orig := loss y (model x)
  names.map (fun f => (f, meanK ((imp [f]).map (loss y)) - orig))

/-- one `explain_one` of IncrementalPFI on the estimates; `first = true` is the call with `seen_samples = 0`,
    which only seeds the storage -/
def pfiStep {V Y : Type} (names : List Nat) (model : Inst V → Dict K) (loss : Y → Dict K → K)
    (e : Est K) (first : Bool) (x : Inst V) (y : Y) (imp : List Nat → List (Dict K)) : Est K :=
  if first then e else commitImportance e names (pfiContribs names model loss x y imp)

/-! ### IncrementalSage -/

/-- the permutation chain: reveal features one at a time; the imputer gets the features *not yet* revealed -/
def sageChain {Y : Type} (loss : Y → Dict K → K) (y : Y) (imp : List Nat → List (Dict K)) :
    (perm : List Nat) → (notInS : List Nat) → (prev : K) → Dict K
  | [], _, _ => []
  | f :: rest, notInS, prev =>
    let notInS' := notInS.erase f
    let fl := loss y (meanOutput (imp notInS'))
    (f, prev - fl) :: sageChain loss y imp rest notInS' fl

def sageStep {V Y : Type} (names : List Nat) (model : Inst V → Dict K) (loss : Y → Dict K → K)
    (e : Est K) (first : Bool) (x : Inst V) (y : Y) (perm : List Nat) (imp : List Nat → List (Dict K)) : Est K :=
  if first then e else
    let pred := model x
    let ml := loss y pred
    let mp' := e.margPred.update pred
    let mpn := mp'.getNormalized
    let margL := loss y mpn
    let contribs := sageChain loss y imp perm names margL
    let e := { e with modelLoss := e.modelLoss.update ml, margPred := mp', margPredCur := mpn,
                      margLoss := e.margLoss.update margL }
    commitImportance e names contribs

/-- reported losses: offset by one when `loss_bigger_is_better` -/
def Est.marginalLoss (e : Est K) (lbb : Bool) : K := e.margLoss.get + (if lbb then 1 else 0)
def Est.modelLossV (e : Est K) (lbb : Bool) : K := e.modelLoss.get + (if lbb then 1 else 0)
def Est.explainedLoss (e : Est K) (lbb : Bool) : K := e.marginalLoss lbb - e.modelLossV lbb
def Est.importanceValues (e : Est K) : Dict K := e.importance.get
def Est.variances (e : Est K) : Dict K := e.variance.get

/-! ### BatchSage / IntervalSage -/

/-- add a contribution to the running per-feature sums (`sage_values[feature] += contribution`) -/
def addContribs (acc : Dict K) (contribs : Dict K) : Dict K :=
  acc.map (fun kv => (kv.1, kv.2 + contribs.getD kv.1 0))

/-- `BatchSage.explain_many`: `data` the explained observations, `perms`/`imps` the order and imputer behaviour used
    for each of them; the empty-coalition baseline is the mean prediction over the explained data -/
def batchSage {V Y : Type} (names : List Nat) (model : Inst V → Dict K) (loss : Y → Dict K → K)
    (data : List (Inst V × Y)) (perms : List (List Nat)) (imps : List (List Nat → List (Dict K))) : Dict K :=
  let margPred := meanOutput (data.map (fun d => model d.1))
  let zero : Dict K := names.map (fun f => (f, (0 : K)))
  let per := (data.zip (perms.zip imps)).map (fun (d : (Inst V × Y) × (List Nat × (List Nat → List (Dict K)))) =>
    sageChain loss d.1.2 d.2.2 d.2.1 names (loss d.1.2 margPred))
  let sums := per.foldl addContribs zero
  sums.map (fun kv => (kv.1, kv.2 / (data.length : K)))

/-- IntervalSage state: window storage (generated kernel), call counter, last reported values -/
structure IntervalState (K V Y : Type) where
  storage : Gen.IntervalStorage (Inst V) Y
  seen : Nat
  values : Dict K

def IntervalState.init {V Y : Type} (names : List Nat) (storageLength : Nat) : IntervalState K V Y :=
  { storage := Gen.IntervalStorage.init storageLength true, seen := 0, values := names.map (fun f => (f, (0 : K))) }

/-- one `IntervalSage.explain_one`; returns the new state and whether the values were recomputed -/
def intervalStep {V Y : Type} (names : List Nat) (model : Inst V → Dict K) (loss : Y → Dict K → K)
    (intervalLength : Nat) (s : IntervalState K V Y) (x : Inst V) (y : Y) (updateStorage force : Bool)
    (perms : List (List Nat)) (imps : List (List Nat → List (Dict K))) : IntervalState K V Y × Bool :=
  let st := if updateStorage then s.storage.update x y else s.storage
  let seen := s.seen + 1
  if !force && seen % intervalLength != 0 then
    ({ s with storage := st, seen := seen }, false)
  else
    let data := st.storage_x.zip st.storage_y
    ({ storage := st, seen := seen, values := batchSage names model loss data perms imps }, true)

/-! ### normalisation and confidence bound (ixai/explainer/base.py) -/

def maxL [LE K] [DecidableLE K] : List K → K
  | [] => 0
  | a :: rest => rest.foldl (fun m v => if m ≤ v then v else m) a
def minL [LE K] [DecidableLE K] : List K → K
  | [] => 0
  | a :: rest => rest.foldl (fun m v => if v ≤ m then v else m) a

/-- Python's `max(l)` / `min(l)` without a `default`: `ValueError` on the empty list -/
def maxE [LE K] [DecidableLE K] (l : List K) : Except String K :=
  if l.isEmpty then throw "ValueError" else pure (maxL l)
def minE [LE K] [DecidableLE K] (l : List K) : Except String K :=
  if l.isEmpty then throw "ValueError" else pure (minL l)

/-- `_normalize_importance_values` (after the repair of the zero test); `delta = true` is mode 'delta' -/
def normalize [LE K] [DecidableLE K] (vals : Dict K) (delta : Bool) : Dict K :=
  let l := vals.map Prod.snd
  let factor := if delta then maxL l - minL l else lsum l
  if factor = 0 then vals.map (fun kv => (kv.1, (0 : K))) else vals.map (fun kv => (kv.1, kv.2 / factor))

/-- `get_confidence_bound(delta)` for one feature:
    `(1 - alpha) ** seen + (1 / sqrt(delta)) * sqrt(variance) * sqrt(alpha / (2 - alpha))` -/
def confBound (alpha : K) (seen : Nat) (variance delta : K) : K :=
  npow (1 - alpha) seen + (1 / RealOps.sqrt delta) * RealOps.sqrt variance * RealOps.sqrt (alpha / ((1 + 1) - alpha))

end Ixai
