/-
  Hand-written model of the model wrappers (ixai/utils/wrappers/{base,sklearn,torch,river}.py) and of
  `validate_model_function` (ixai/utils/validators/model.py).
  NumPy arrays are (shape, row-major data); the wrapped prediction function is a parameter.  What NumPy, torch and
  sklearn actually do is outside the model and is covered by the correspondence run only (C14 is partial).
-/
import IxaiVerif.Model.Dict

namespace Ixai.Wrapper

/-- an n-dimensional array: shape and row-major data -/
structure Arr (V : Type) where
  shape : List Nat
  data : List V

def Arr.size {V : Type} (a : Arr V) : Nat := a.data.length

/-- a feature dict in insertion order (keys = feature ids) -/
abbrev FDict (V : Type) := List (Nat × V)

def fget {V : Type} (x : FDict V) (f : Nat) : Option V := (x.find? (fun kv => kv.1 == f)).map Prod.snd

/-- the row handed to the model: with feature names, those features in that order (a missing one is a KeyError = none);
    without, the dict's values in insertion order -/
def rowOf {V : Type} (names : Option (List Nat)) (x : FDict V) : Option (List V) :=
  match names with
  | some ns => ns.mapM (fun f => fget x f)
  | none => some (x.map Prod.snd)

/-- `convert_1d_input_to_arr`: shape (1, d) -/
def convert1d {V : Type} (names : Option (List Nat)) (x : FDict V) : Option (Arr V) :=
  (rowOf names x).map (fun r => { shape := [1, r.length], data := r })

/-- `convert_2d_input_to_arr`: shape (n, d) -/
def convert2d {V : Type} (names : Option (List Nat)) (xs : List (FDict V)) : Option (Arr V) :=
  (xs.mapM (rowOf names)).map (fun rows =>
    { shape := [rows.length, (rows.headD []).length], data := rows.flatten })

/-- labels of the canonical output dict: `'output'` for a single value, the position otherwise -/
inductive Label where
  | output
  | idx (i : Nat)
deriving DecidableEq, Repr

/-- `convert_arr_output_to_dict` (after the fix for size-one arrays of any shape) -/
def outDict {V : Type} (y : Arr V) : List (Label × V) :=
  match y.data with
  | [v] => [(Label.output, v)]
  | vs => (List.range vs.length).zip vs |>.map (fun iv => (Label.idx iv.1, iv.2))

/-- i-th row of a batch output of shape (n, …): `y_predictions[i]` -/
def rowAt {V : Type} (y : Arr V) (i : Nat) : Arr V :=
  let n := y.shape.headD 1
  let w := if n = 0 then 0 else y.data.length / n
  { shape := y.shape.tail, data := (y.data.drop (i * w)).take w }

/-- Sklearn/Torch wrapper called with one dict -/
def callOne {V W : Type} (names : Option (List Nat)) (predict : Arr V → Arr W) (x : FDict V) : Option (List (Label × W)) :=
  (convert1d names x).map (fun a => outDict (predict a))

/-- Sklearn/Torch wrapper called with a list of dicts: the canonical dicts of the rows of the batch output, in order -/
def callMany {V W : Type} (names : Option (List Nat)) (predict : Arr V → Arr W) (xs : List (FDict V)) :
    Option (List (List (Label × W))) :=
  (convert2d names xs).map (fun a =>
    let y := predict a
    (List.range (y.shape.headD 0)).map (fun i => outDict (rowAt y i)))

/-! river wrapper -/

/-- what a river prediction function returns -/
inductive RiverOut (K : Type) where
  | dict (d : List (Nat × K))     -- predict_proba_one: passed through
  | num (v : K)                   -- regressor / numeric label
  | label (s : Nat)               -- string class label (numbered)

/-- `_extend_dict` with the set of labels seen so far (kept in first-seen order); returns the output and the new set.
    Keys of the one-hot dict are label numbers. -/
def extendDict {K : Type} [OfNat K 0] [OfNat K 1] (seen : List Nat) (y : RiverOut K) :
    (List (Nat × K) ⊕ List (Label × K)) × List Nat :=
  match y with
  | .dict d => (.inl d, seen)
  | .num v => (.inr [(Label.output, v)], seen)
  | .label s =>
    let seen' := if seen.contains s then seen else seen ++ [s]
    (.inl (seen'.map (fun l => (l, if l = s then (1 : K) else (0 : K)))), seen')

/-! validate_model_function -/

/-- what the validator can see of the object it is given -/
inductive Owner where
  | wrapper            -- already an instance of Wrapper
  | boundSklearn       -- bound method whose owner type name contains 'sklearn'
  | boundRiver         -- bound method whose owner type name contains 'river'
  | boundOther         -- bound method of something else
  | torchModule        -- no __self__, is a torch.nn.Module
  | plain              -- plain function / other callable

inductive Wrapped where
  | unchanged | sklearn | river | torch
deriving DecidableEq, Repr

def validate : Owner → Wrapped
  | .wrapper => .unchanged
  | .boundSklearn => .sklearn
  | .boundRiver => .river
  | .boundOther => .unchanged
  | .torchModule => .torch
  | .plain => .unchanged

end Ixai.Wrapper
