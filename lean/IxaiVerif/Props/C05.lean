/-
  C05 — BatchSage / IntervalSage: efficiency and recomputation schedule.
  "The values returned by BatchSage (both modes) and IntervalSage sum to the mean, over the explained
  observations, of the loss of the data set's mean prediction minus the loss of the model's own prediction, and
  each value is the average over observations of that feature's chain contribution. IntervalSage recomputes only
  on calls whose ordinal is a multiple of interval_length (or when forced), over exactly the most recent
  storage_length observations, and on every other call returns the previous values unchanged without evaluating
  the model."

  The theorems are about `Ixai.batchSage`, `Ixai.sageChain`, `Ixai.intervalStep` (Model/Explainer.lean) and, for
  the window, about the generated `Ixai.Gen.IntervalStorage` through C07. `K` is any field (characteristic 0 is
  not needed here), `V`/`Y` arbitrary types of feature values / targets, `model`, `loss` and the per-observation
  imputers `imps` arbitrary functions.

  BatchSage "original mode" (rows drawn from the explained data set, overlay of the revealed features) performs
  the same arithmetic with a different imputer; it is the same `batchSage` with that `imp` plugged in, so every
  theorem below covers it (all of them quantify over arbitrary `imps`). The faithfulness premise of
  `batch_efficiency_faithful` is discharged for the library imputers by `Ixai.C06.empty_subset_faithful`.

  Hypotheses. `names ≠ []` is needed for the efficiency statements and was not in the informal property: with no
  features there is no chain step, the values sum to 0, while the right-hand side is in general not 0
  (`efficiency_needs_names`). `data ≠ []` is not needed in a field (`a / 0 = 0` on both sides) and is therefore
  not assumed; `perms.length = imps.length = data.length` is only needed to read the zipped list as "one term per
  explained observation" and in the corollary.
-/
import IxaiVerif.Proofs.Batch
import IxaiVerif.Props.C07
import IxaiVerif.Props.C06
import Mathlib.Data.Rat.Defs
import Mathlib.Tactic.NormNum

set_option linter.unusedSectionVars false
namespace Ixai.C05
open Ixai Ixai.Gen

section Batch
variable {K : Type} [Field K] {V Y : Type}

/-- the reported dict has exactly the feature names as keys, in order -/
theorem batch_keys (names : List Nat) (model : Inst V → Dict K) (loss : Y → Dict K → K)
    (data : List (Inst V × Y)) (perms : List (List Nat)) (imps : List (List Nat → List (Dict K))) :
    (batchSage names model loss data perms imps).keys = names := by
  rw [batchSage_eq]; exact Dict.keys_tabulate _ _

/-- keys of one chain = the permutation used, and its contributions telescope -/
theorem chain_keys (loss : Y → Dict K → K) (y : Y) (imp : List Nat → List (Dict K))
    (perm notInS : List Nat) (prev : K) :
    (sageChain loss y imp perm notInS prev).keys = perm :=
  sageChain_keys loss y imp perm notInS prev

theorem chain_telescopes (loss : Y → Dict K → K) (y : Y) (imp : List Nat → List (Dict K))
    (names perm : List Nat) (hn : names.Nodup) (hne : names ≠ []) (hp : perm.Perm names) (prev : K) :
    (names.map (fun f => (sageChain loss y imp perm names prev).getD f 0)).sum =
      prev - loss y (meanOutput (imp [])) :=
  sageChain_total loss y imp names perm hn hne hp prev

/-- each value is the average over the explained observations of that feature's chain contribution
    (one summand per observation: the zipped list has `data.length` entries) -/
theorem batch_values_are_means (names : List Nat) (model : Inst V → Dict K) (loss : Y → Dict K → K)
    (data : List (Inst V × Y)) (perms : List (List Nat)) (imps : List (List Nat → List (Dict K)))
    (hperms : perms.length = data.length) (himps : imps.length = data.length)
    (f : Nat) (hf : f ∈ names) :
    (data.zip (perms.zip imps)).length = data.length ∧
    (batchSage names model loss data perms imps).getD f 0 =
      ((data.zip (perms.zip imps)).map (fun d =>
        (sageChain loss d.1.2 d.2.2 d.2.1 names
          (loss d.1.2 (meanOutput (data.map (fun d => model d.1))))).getD f 0)).sum / (data.length : K) := by
  refine ⟨by simp [hperms, himps], ?_⟩
  rw [batchSage_eq, Dict.getD_tabulate names _ hf]
  simp [batchChains, List.map_map, Function.comp_def]

/-- efficiency: the values sum to the mean over observations of
    (loss of the data set's mean prediction − loss of the prediction for the empty remaining subset) -/
theorem batch_efficiency (names : List Nat) (model : Inst V → Dict K) (loss : Y → Dict K → K)
    (data : List (Inst V × Y)) (perms : List (List Nat)) (imps : List (List Nat → List (Dict K)))
    (hn : names.Nodup) (hne : names ≠ []) (hp : ∀ p ∈ perms, p.Perm names) :
    (names.map (fun f => (batchSage names model loss data perms imps).getD f 0)).sum =
      ((data.zip (perms.zip imps)).map (fun d =>
        loss d.1.2 (meanOutput (data.map (fun d => model d.1))) - loss d.1.2 (meanOutput (d.2.2 [])))).sum
        / (data.length : K) := by
  have h1 : names.map (fun f => (batchSage names model loss data perms imps).getD f 0) =
      names.map (fun f => ((batchChains names model loss data perms imps).map
        (fun c => c.getD f 0)).sum / (data.length : K)) := by
    apply List.map_congr_left
    intro f hf
    rw [batchSage_eq, Dict.getD_tabulate names _ hf]
  rw [h1, batch_sum_map_div]
  congr 1
  refine (sum_sum_comm names (batchChains names model loss data perms imps) (fun c f => c.getD f 0)).trans ?_
  simp only [batchChains, List.map_map, Function.comp_def]
  congr 1
  apply List.map_congr_left
  intro d hd
  have hd2 : d.2.1 ∈ perms := (List.of_mem_zip (List.of_mem_zip hd).2).1
  exact sageChain_total loss d.1.2 d.2.2 names d.2.1 hn hne (hp _ hd2) _

/-- … with imputers that are faithful on the empty subset (all library imputers, C06): the mean over the
    explained observations of (loss of the data set's mean prediction − loss of the model's own prediction) -/
theorem batch_efficiency_faithful (names : List Nat) (model : Inst V → Dict K) (loss : Y → Dict K → K)
    (data : List (Inst V × Y)) (perms : List (List Nat)) (imps : List (List Nat → List (Dict K)))
    (hn : names.Nodup) (hne : names ≠ []) (hp : ∀ p ∈ perms, p.Perm names)
    (hperms : perms.length = data.length) (himps : imps.length = data.length)
    (hfaith : ∀ d ∈ data.zip (perms.zip imps), meanOutput (d.2.2 []) = model d.1.1) :
    (names.map (fun f => (batchSage names model loss data perms imps).getD f 0)).sum =
      (data.map (fun d =>
        loss d.2 (meanOutput (data.map (fun d => model d.1))) - loss d.2 (model d.1))).sum
        / (data.length : K) := by
  rw [batch_efficiency names model loss data perms imps hn hne hp]
  congr 1
  have h2 : (data.zip (perms.zip imps)).map (fun d =>
        loss d.1.2 (meanOutput (data.map (fun d => model d.1))) - loss d.1.2 (meanOutput (d.2.2 []))) =
      ((data.zip (perms.zip imps)).map Prod.fst).map (fun d =>
        loss d.2 (meanOutput (data.map (fun d => model d.1))) - loss d.2 (model d.1)) := by
    rw [List.map_map]
    apply List.map_congr_left
    intro d hd
    simp only [Function.comp_def, hfaith d hd]
  rw [h2, List.map_fst_zip (by simp [hperms, himps])]

end Batch

/-! ### IntervalSage -/
section Interval
variable {K : Type} [Field K] {V Y : Type}

/-- The schedule. `calls` are the first `t - 1` calls on a freshly constructed explainer, `c` is call number
    `t = calls.length + 1`; `s` the state before it, `r` what it returns (new state, "recomputed" flag).
    * the call counter counts calls;
    * call `t` recomputes iff it is forced or `t` is a multiple of `interval_length`;
    * otherwise the reported values are those of the previous state — in that branch of `intervalStep` neither
      `model` nor `loss` nor an imputer occurs, so none of them is evaluated;
    * when it recomputes, the values are `batchSage` over the window content, which (C07 `interval_aligned`, for
      the generated storage code, needing `1 ≤ storage_length`) is exactly the last
      `min (#calls so far with update_storage) storage_length` stored observations in arrival order, where the
      stored stream is the sub-sequence of calls (including this one) that had `update_storage = true`.
    `1 ≤ intervalLength` is not used by the proof (`t % 0 = t ≠ 0` in ℕ: never a multiple); it is assumed because
    Python's `%` raises for 0, i.e. the model mirrors the code only for `interval_length ≥ 1`. -/
theorem interval_schedule (names : List Nat) (model : Inst V → Dict K) (loss : Y → Dict K → K)
    (intervalLength storageLength : Nat) (_hL : 1 ≤ intervalLength) (hS : 1 ≤ storageLength)
    (calls : List (IntervalCall K V Y)) (c : IntervalCall K V Y) :
    let s := intervalRun names model loss intervalLength storageLength calls
    let r := intervalStep names model loss intervalLength s c.x c.y c.updateStorage c.force c.perms c.imps
    let obs := storedStream (calls ++ [c])
    s.seen = calls.length ∧ r.1.seen = calls.length + 1 ∧
    (r.2 = true ↔ (c.force = true ∨ (calls.length + 1) % intervalLength = 0)) ∧
    (r.2 = false → r.1.values = s.values) ∧
    (r.2 = true → r.1.values =
      batchSage names model loss (obs.drop (obs.length - storageLength)) c.perms c.imps) ∧
    r.1.storage.storage_x.zip r.1.storage.storage_y = obs.drop (obs.length - storageLength) ∧
    (obs.drop (obs.length - storageLength)).length = min obs.length storageLength := by
  intro s r obs
  obtain ⟨h1, h2, h3, h4, h5⟩ := intervalStep_spec names model loss intervalLength s c.x c.y c.updateStorage
    c.force c.perms c.imps
  have hseen : s.seen = calls.length := intervalRun_seen names model loss intervalLength storageLength calls
  have hst : r.1.storage = Interval.run storageLength true obs := by
    have := intervalRun_storage names model loss intervalLength storageLength (calls ++ [c])
    rw [intervalRun_snoc] at this
    exact this
  have hwin : r.1.storage.storage_x.zip r.1.storage.storage_y = obs.drop (obs.length - storageLength) := by
    rw [hst]; exact C07.interval_aligned storageLength hS obs
  refine ⟨hseen, by rw [← hseen]; exact h1, by rw [← hseen]; exact h3, h4, ?_, hwin, ?_⟩
  · intro hr; rw [← hwin]; exact h5 hr
  · rw [List.length_drop]; omega

/-- after `t` calls the counter is `t`, and the window holds the last `min(#stored, storage_length)` stored
    observations (state form of the above, for the state *after* a sequence of calls) -/
theorem interval_state (names : List Nat) (model : Inst V → Dict K) (loss : Y → Dict K → K)
    (intervalLength storageLength : Nat) (hS : 1 ≤ storageLength) (calls : List (IntervalCall K V Y)) :
    let s := intervalRun names model loss intervalLength storageLength calls
    let obs := storedStream calls
    s.seen = calls.length ∧
    s.storage.storage_x.zip s.storage.storage_y = obs.drop (obs.length - storageLength) ∧
    s.storage.storage_x.length = min obs.length storageLength := by
  intro s obs
  have hst : s.storage = Interval.run storageLength true obs :=
    intervalRun_storage names model loss intervalLength storageLength calls
  refine ⟨intervalRun_seen names model loss intervalLength storageLength calls, ?_, ?_⟩
  · rw [hst]; exact C07.interval_aligned storageLength hS obs
  · rw [hst]; exact (C07.interval_len storageLength hS true obs).1

end Interval

/-! non-vacuity over ℚ: two features, model `x ↦ {0: x 0 + 2 x 1}`, squared-error loss on label 0, the default
    imputer with default value 0 and one inner sample -/
section Examples

def modelE : Inst ℚ → Dict ℚ := fun x => [(0, x 0 + 2 * x 1)]
def lossE : ℚ → Dict ℚ → ℚ := fun y p => (y - p.getD 0 0) * (y - p.getD 0 0)
def impE (x : Inst ℚ) : List Nat → List (Dict ℚ) := fun S => imputeDefault modelE (fun _ => 0) S x 1
def x1 : Inst ℚ := fun f => if f = 0 then 1 else 2
def x2 : Inst ℚ := fun f => if f = 0 then 3 else 0
def dataE : List (Inst ℚ × ℚ) := [(x1, 5), (x2, 3)]

/-- the hypotheses of `batch_efficiency_faithful` hold for this instance -/
example : [0, 1].Nodup ∧ [0, 1] ≠ [] ∧ (∀ p ∈ [[0, 1], [1, 0]], p.Perm [0, 1]) := by decide
example : ∀ d ∈ dataE.zip ([[0, 1], [1, 0]].zip [impE x1, impE x2]), meanOutput (d.2.2 []) = modelE d.1.1 := by
  intro d hd
  simp only [dataE, List.zip_cons_cons, List.zip_nil_right, List.mem_cons, List.not_mem_nil, or_false] at hd
  rcases hd with rfl | rfl <;>
    exact (C06.empty_subset_faithful modelE (fun _ => fun _ => 0) (fun _ => 0) _ 1 le_rfl (by decide)
      (fun _ => 0) (fun _ _ => 0)).2.2

/-- the reported values, computed from the definitions: obs 1 contributes (−15, 16), obs 2 contributes (9, −8) -/
example : batchSage [0, 1] modelE lossE dataE [[0, 1], [1, 0]] [impE x1, impE x2] = [(0, -3), (1, 4)] := by
  norm_num [batchSage, sageChain, addContribs, meanOutput, allLabels, Dict.keys, Dict.getD, Dict.find?, lsum,
    modelE, lossE, dataE, impE, x1, x2, imputeDefault, defaultInput, overlay]

example : sageChain lossE 5 (impE x1) [0, 1] [0, 1] 1 = [(0, -15), (1, 16)] ∧
    sageChain lossE 3 (impE x2) [1, 0] [0, 1] 1 = [(1, -8), (0, 9)] := by
  norm_num [sageChain, meanOutput, allLabels, Dict.keys, Dict.getD, Dict.find?, lsum,
    modelE, lossE, impE, x1, x2, imputeDefault, defaultInput, overlay]

/-- both sides of `batch_efficiency_faithful` on this instance: −3 + 4 = ((5−4)² − 0 + (3−4)² − 0) / 2 = 1 -/
example : (dataE.map (fun d =>
      lossE d.2 (meanOutput (dataE.map (fun d => modelE d.1))) - lossE d.2 (modelE d.1))).sum
    / (dataE.length : ℚ) = 1 := by
  norm_num [meanOutput, allLabels, Dict.keys, Dict.getD, Dict.find?, lsum, modelE, lossE, dataE, x1, x2]

/-- why `names ≠ []` is a hypothesis -/
theorem efficiency_needs_names :
    (([] : List Nat).map (fun f =>
      (batchSage [] modelE lossE dataE ([[], []] : List (List Nat)) [impE x1, impE x2]).getD f 0)).sum = 0 ∧
    ((dataE.zip (([[], []] : List (List Nat)).zip [impE x1, impE x2])).map (fun d =>
        lossE d.1.2 (meanOutput (dataE.map (fun d => modelE d.1))) - lossE d.1.2 (meanOutput (d.2.2 [])))).sum
        / (dataE.length : ℚ) = 1 := by
  norm_num [meanOutput, allLabels, Dict.keys, Dict.getD, Dict.find?, lsum, modelE, lossE, dataE, impE, x1, x2,
    imputeDefault, defaultInput, overlay]

/-! IntervalSage: interval_length 2, storage_length 2; calls 1–3 (call 2 does not update the storage) -/
def callE (x : Inst ℚ) (y : ℚ) (upd force : Bool) : IntervalCall ℚ ℚ ℚ :=
  { x := x, y := y, updateStorage := upd, force := force, perms := [[0, 1], [1, 0]], imps := [impE x1, impE x2] }

def callsE : List (IntervalCall ℚ ℚ ℚ) := [callE x2 3 true false, callE x1 5 false false, callE x1 5 true false]

example : (intervalRun [0, 1] modelE lossE 2 2 callsE).seen = 3 := by decide
example : (callsE.map (fun c => c.updateStorage)) = [true, false, true] := by decide
/-- call 4 recomputes; call 3 does not unless forced -/
example : (intervalCallStep [0, 1] modelE lossE 2 (intervalRun [0, 1] modelE lossE 2 2 callsE)
    (callE x2 3 true false)).2 = true := by decide
example : (intervalCallStep [0, 1] modelE lossE 2 (intervalRun [0, 1] modelE lossE 2 2 (callsE.take 2))
    (callE x1 5 true false)).2 = false := by decide
example : (intervalCallStep [0, 1] modelE lossE 2 (intervalRun [0, 1] modelE lossE 2 2 (callsE.take 2))
    (callE x1 5 true true)).2 = true := by decide
/-- the window after call 4: the targets of the last two *stored* observations (calls 3 and 4) -/
example : (intervalCallStep [0, 1] modelE lossE 2 (intervalRun [0, 1] modelE lossE 2 2 callsE)
    (callE x2 3 true false)).1.storage.storage_y = [5, 3] := by decide

/-- call 4 (a multiple of interval_length = 2) recomputes over the window `[(x1, 5), (x2, 3)] = dataE` -/
example : (intervalCallStep [0, 1] modelE lossE 2 (intervalRun [0, 1] modelE lossE 2 2 callsE)
    (callE x2 3 true false)).1.values = [(0, -3), (1, 4)] := by
  have h := (interval_schedule [0, 1] modelE lossE 2 2 (by decide) (by decide) callsE
    (callE x2 3 true false)).2.2.2.2.1 (by decide)
  rw [intervalCallStep, h]
  have : (storedStream (callsE ++ [callE x2 3 true false])).drop
      ((storedStream (callsE ++ [callE x2 3 true false])).length - 2) = dataE := by
    simp [storedStream, callsE, callE, dataE]
  rw [this]
  norm_num [callE, batchSage, sageChain, addContribs, meanOutput, allLabels, Dict.keys, Dict.getD, Dict.find?, lsum,
    modelE, lossE, dataE, impE, x1, x2, imputeDefault, defaultInput, overlay]

end Examples

end Ixai.C05
