/-
  C10 — Welford and exponential-smoothing trackers equal their closed forms.
  The theorems are about `Ixai.Gen.WelfordTracker` / `Ixai.Gen.ExponentialSmoothingTracker`, i.e. about the Lean
  text regenerated from `ixai/utils/tracker/{base,welford,exponential_smoothing}.py` on every run; `run` is the
  left fold of the generated `update` from the generated `init` ("symbolic state, value and alpha executed
  through the shipped update code"). `K` is an arbitrary field of characteristic 0 (ℚ, ℝ, …).
-/
import IxaiVerif.Proofs.Tracker
import Mathlib.Algebra.Order.Ring.Defs
import Mathlib.Algebra.Order.BigOperators.Group.List
import Mathlib.Tactic.Linarith
import Mathlib.Data.Rat.Defs

set_option linter.unusedSectionVars false
namespace Ixai.C10
open Ixai Ixai.Gen

section Field
variable {K : Type} [Field K] [CharZero K] [RealOps K]

/-- both trackers count their updates -/
theorem welford_N (vs : List K) : (Welford.run vs).N = vs.length := Welford.run_N vs
theorem es_N (α : K) (vs : List K) : (ES.run α vs).N = vs.length := ES.run_N α vs

/-- WelfordTracker reports the arithmetic mean of all values seen -/
theorem welford_mean (vs : List K) (hne : vs ≠ []) :
    (Welford.run vs).mean = vs.sum / (vs.length : K) := by
  have h := (Welford.run_inv vs).1
  have hl : (vs.length : K) ≠ 0 := by
    have : vs.length ≠ 0 := by simpa [List.length_eq_zero_iff] using hne
    exact_mod_cast this
  simp only [WelfordTracker.mean]
  field_simp; linear_combination h

/-- the accumulated `sum_squares` is the sum of squared deviations from the (final) mean -/
theorem welford_sum_squares (vs : List K) :
    (Welford.run vs).sum_squares = (vs.map (fun v => (v - (Welford.run vs).mean) * (v - (Welford.run vs).mean))).sum := by
  obtain ⟨h1, h2⟩ := Welford.run_inv vs
  rw [Welford.sum_sq_dev, h2]; simp only [WelfordTracker.mean]
  linear_combination (-2 * (Welford.run vs).tracked_value) * h1

/-- … hence `var` is the population variance (and `0` before any update, via `max(N, 1)`) -/
theorem welford_var (vs : List K) (hne : vs ≠ []) :
    (Welford.run vs).var =
      (vs.map (fun v => (v - vs.sum / (vs.length : K)) * (v - vs.sum / (vs.length : K)))).sum / (vs.length : K) := by
  have hpos : 1 ≤ vs.length := List.length_pos_iff.mpr hne
  rw [← welford_mean vs hne, ← welford_sum_squares]
  simp only [WelfordTracker.var, welford_N, Nat.max_eq_left hpos]

theorem welford_var_empty : (Welford.run ([] : List K)).var = 0 := by
  simp [WelfordTracker.var, Welford.run]

/-- `std` is `sqrt var` in the generated code; with a square root that behaves like one on non-negative numbers
    it is the non-negative root of the variance. -/
theorem welford_std_def (vs : List K) : (Welford.run vs).std = RealOps.sqrt (Welford.run vs).var := rfl

/-- exponential smoothing: explicit weighted sum  Σ_{i<n} α (1-α)^(n-1-i) v_i  (0-based i) -/
theorem es_closed (α : K) (vs : List K) :
    (ES.run α vs).tracked_value =
      ∑ i ∈ Finset.range vs.length, α * (1 - α) ^ (vs.length - 1 - i) * vs.getD i 0 := by
  rw [ES.run_cf]
  induction vs using List.reverseRecOn with
  | nil => simp [ES.cf]
  | append_singleton vs v ih =>
    simp only [List.reverse_append, List.reverse_singleton, List.singleton_append, ES.cf, ih,
      List.length_append, List.length_singleton, Finset.sum_range_succ, Finset.mul_sum]
    have e1 : vs.length + 1 - 1 - vs.length = 0 := by omega
    have e2 : (vs ++ [v]).getD vs.length 0 = v := by simp [List.getD]
    rw [e1, e2, pow_zero, mul_one, add_comm]
    congr 1
    apply Finset.sum_congr rfl
    intro i hi
    have hi' : i < vs.length := Finset.mem_range.mp hi
    have e3 : vs.length + 1 - 1 - i = (vs.length - 1 - i) + 1 := by omega
    have e4 : (vs ++ [v]).getD i 0 = vs.getD i 0 := by
      simp [List.getD, List.getElem?_append_left hi']
    rw [e3, e4, pow_succ]; ring

/-- smoothing is started at zero and α = 1 reports the last value -/
theorem es_alpha_one (vs : List K) (v : K) : (ES.run 1 (vs ++ [v])).tracked_value = v := by
  rw [ES.run_snoc, (ES.update_spec _ v).2.2, ES.run_alpha]; ring

/-- linearity of the Welford mean in the inputs -/
theorem welford_linear (a b : K) (xs ys : List K) (hlen : xs.length = ys.length) :
    (Welford.run (List.zipWith (fun x y => a * x + b * y) xs ys)).mean =
      a * (Welford.run xs).mean + b * (Welford.run ys).mean := by
  rcases xs with _ | ⟨x, xs⟩
  · have : ys = [] := by simpa using hlen.symm
    subst this; simp [Welford.run, WelfordTracker.mean]
  · rcases ys with _ | ⟨y, ys⟩
    · simp at hlen
    · have hz : (List.zipWith (fun x y => a * x + b * y) (x :: xs) (y :: ys)) ≠ [] := by simp
      rw [welford_mean _ hz, welford_mean (x :: xs) (by simp), welford_mean (y :: ys) (by simp)]
      have hsum : ∀ (l1 l2 : List K), l1.length = l2.length →
          (List.zipWith (fun x y => a * x + b * y) l1 l2).sum = a * l1.sum + b * l2.sum := by
        intro l1
        induction l1 with
        | nil => intro l2 h; have : l2 = [] := by simpa using h.symm
                 subst this; simp
        | cons u l1 ih =>
          intro l2 h
          rcases l2 with _ | ⟨w, l2⟩
          · simp at h
          · simp only [List.zipWith_cons_cons, List.sum_cons, ih l2 (by simpa using h)]; ring
      rw [hsum _ _ hlen]
      have hl : ((List.zipWith (fun x y => a * x + b * y) (x :: xs) (y :: ys)).length : K) = ((x :: xs).length : K) := by
        have hxy : xs.length = ys.length := by simpa using hlen
        simp [List.length_zipWith, hxy]
      have hl2 : (((y :: ys).length : ℕ) : K) = ((x :: xs).length : K) := by rw [hlen]
      rw [hl, hl2]
      have hne : (((x :: xs).length : ℕ) : K) ≠ 0 := by
        simp only [List.length_cons]; push_cast; exact Nat.cast_add_one_ne_zero _
      field_simp

/-- linearity of the smoothed value in the inputs -/
theorem es_linear (α a b : K) (xs ys : List K) (hlen : xs.length = ys.length) :
    (ES.run α (List.zipWith (fun x y => a * x + b * y) xs ys)).tracked_value =
      a * (ES.run α xs).tracked_value + b * (ES.run α ys).tracked_value := by
  simp only [ES.run_cf]
  have key : ∀ (l1 l2 : List K), l1.length = l2.length →
      ES.cf α (List.zipWith (fun x y => a * x + b * y) l1 l2) = a * ES.cf α l1 + b * ES.cf α l2 := by
    intro l1
    induction l1 with
    | nil => intro l2 h; have : l2 = [] := by simpa using h.symm
             subst this; simp [ES.cf]
    | cons u l1 ih =>
      intro l2 h
      rcases l2 with _ | ⟨w, l2⟩
      · simp at h
      · simp only [List.zipWith_cons_cons, ES.cf, ih l2 (by simpa using h)]; ring
  have hrev : (List.zipWith (fun x y => a * x + b * y) xs ys).reverse =
      List.zipWith (fun x y => a * x + b * y) xs.reverse ys.reverse := by
    rw [List.reverse_zipWith hlen]
  rw [hrev, key _ _ (by simpa using hlen)]

end Field

section Ordered
variable {K : Type} [Field K] [LinearOrder K] [IsStrictOrderedRing K] [RealOps K]

/-- the Welford mean lies between the smallest and the largest input -/
theorem welford_between_min_max (vs : List K) (hne : vs ≠ []) (lo hi : K)
    (hlo : ∀ v ∈ vs, lo ≤ v) (hhi : ∀ v ∈ vs, v ≤ hi) :
    lo ≤ (Welford.run vs).mean ∧ (Welford.run vs).mean ≤ hi := by
  rw [welford_mean vs hne]
  have hpos : (0 : K) < (vs.length : K) := by
    exact_mod_cast List.length_pos_iff.mpr hne
  have h1 : (vs.length : K) * lo ≤ vs.sum := by
    have := List.card_nsmul_le_sum vs lo hlo
    simpa [nsmul_eq_mul] using this
  have h2 : vs.sum ≤ (vs.length : K) * hi := by
    have := List.sum_le_card_nsmul vs hi hhi
    simpa [nsmul_eq_mul] using this
  constructor
  · rw [le_div_iff₀ hpos]; linarith
  · rw [div_le_iff₀ hpos]; linarith

/-- the variance reported by Welford is non-negative -/
theorem welford_var_nonneg (vs : List K) : 0 ≤ (Welford.run vs).var := by
  simp only [WelfordTracker.var]
  apply div_nonneg
  · rw [welford_sum_squares]
    apply List.sum_nonneg
    intro x hx
    obtain ⟨v, _, rfl⟩ := List.mem_map.mp hx
    exact mul_self_nonneg _
  · exact Nat.cast_nonneg _

/-- with a genuine square root, `std` is the non-negative root of `var` -/
theorem welford_std (vs : List K)
    (hsqrt : ∀ x : K, 0 ≤ x → RealOps.sqrt x * RealOps.sqrt x = x ∧ 0 ≤ RealOps.sqrt x) :
    (Welford.run vs).std * (Welford.run vs).std = (Welford.run vs).var ∧ 0 ≤ (Welford.run vs).std := by
  rw [welford_std_def]; exact hsqrt _ (welford_var_nonneg vs)

/-- the smoothed value lies in the convex hull of zero and the inputs (for 0 ≤ α ≤ 1) -/
theorem es_in_hull_zero_inputs (α : K) (h0 : 0 ≤ α) (h1 : α ≤ 1) (vs : List K) (lo hi : K)
    (hlo0 : lo ≤ 0) (hhi0 : 0 ≤ hi) (hlo : ∀ v ∈ vs, lo ≤ v) (hhi : ∀ v ∈ vs, v ≤ hi) :
    lo ≤ (ES.run α vs).tracked_value ∧ (ES.run α vs).tracked_value ≤ hi := by
  induction vs using List.reverseRecOn with
  | nil => simp [ES.run, ExponentialSmoothingTracker.init, hlo0, hhi0]
  | append_singleton vs v ih =>
    have ih' := ih (fun w hw => hlo w (by simp [hw])) (fun w hw => hhi w (by simp [hw]))
    rw [ES.run_snoc, (ES.update_spec _ v).2.2, ES.run_alpha]
    have hv1 := hlo v (by simp)
    have hv2 := hhi v (by simp)
    have h1a : 0 ≤ 1 - α := by linarith
    constructor
    · nlinarith [mul_le_mul_of_nonneg_left ih'.1 h1a, mul_le_mul_of_nonneg_left hv1 h0]
    · nlinarith [mul_le_mul_of_nonneg_left ih'.2 h1a, mul_le_mul_of_nonneg_left hv2 h0]

end Ordered

/-! non-vacuity: concrete streams through the generated code at `K := ℚ` -/
section Examples
instance : RealOps ℚ := ⟨id, id, id, id⟩
example : (Welford.run ([1, 2, 3, 6] : List ℚ)).mean = 3 := by
  rw [welford_mean _ (by simp)]; norm_num
example : (Welford.run ([1, 2, 3, 6] : List ℚ)).var = 7 / 2 := by
  rw [welford_var _ (by simp)]; norm_num
example : (ES.run (1/2 : ℚ) [4, 8]).tracked_value = 5 := by
  rw [es_closed]; norm_num [Finset.sum_range_succ, List.getD]
end Examples

end Ixai.C10
