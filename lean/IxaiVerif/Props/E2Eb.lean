/-
  E2Eb — a stream of EFFECTFUL `explain_one` calls with caught failures is the PURE stream of its successful calls.

  `for (x, y) in stream: try: explainer.explain_one(x, y) except: pass` in the effectful layer (`Model/Effect.lean`,
  callbacks fail at any positions, `C17.runCatching`) versus the pure layer (`Model/Explainer.lean`, `runSage`/`runPFI`
  of `Proofs/Explainer.lean`, about which C01/C02/C03 are stated).

   1. `pfiExplainM_ok_pure` — the PFI analogue of `E2E.sageExplainM_ok_pure`: a successful effectful call is the pure
      `pfiStep` for the imputer answers actually received.
   2. `sage_stream_is_pure_stream_of_successes`, `pfi_stream_is_pure_stream_of_successes` — after the stream, the
      estimates are `runSage` / `runPFI` over a list `steps` of pure observations that is in one-to-one, in-order
      correspondence with the SUCCESSFUL calls (`succCalls`, as many as there are `.ok` results): same `x`, `y`, order,
      and an imputer function made of the answers this very call received. A failed call leaves `seen` unchanged, so
      the first successful call is the pure layer's "first" call (`seen = 0`), whatever failed before it.
      `*_stream_from`: the same from any world (`runFrom`, `first` flag `seen = 0` of the starting world).
   3. `pfi_spec_with_failures`, `sage_spec_with_failures`, `sage_spec_with_failures_feature` — composition with
      C02 / C03: the trackers are the running statistics of the contributions of the successful explained calls
      (all successful calls but the first); failed calls contribute nothing.

  Hypotheses: `OAnswers O model loss` (callbacks deterministic where they answer, failing anywhere; any storage
  oracle), framed imputer computations, `names.Nodup`, for SAGE the orders are permutations of `names`.
-/
import IxaiVerif.Proofs.E2Eb
import IxaiVerif.Props.E2E
import IxaiVerif.Props.C02
import IxaiVerif.Props.C03

set_option linter.unusedSectionVars false
namespace Ixai.E2Eb
open Ixai Ixai.E2E
open Ixai.C17 (runCatching sage_failure_atomic pfi_failure_atomic)

section Main
variable {K : Type} [Field K] [CharZero K] [RealOps K] [DecidableEq K] {V Y : Type}

/-! ### 1. one successful PFI call -/

/-- (restated from `Proofs/E2Eb.lean`) a successful effectful `explain_one` of IncrementalPFI is the pure `pfiStep`
    for an imputer function `imp` made of the answers received during this run -/
theorem pfiExplainM_ok_pure' {O : Oracles K V Y} {model : Inst V → Dict K} {loss : Y → Dict K → K}
    {imputeM : List Nat → Nat → M K (List (Dict K))} {n : Nat} {x : Inst V} {y : Y}
    (hO : OAnswers O model loss) (imp0 : List Nat → List (Dict K))
    {names : List Nat} (hn : names.Nodup) (hframe : ∀ S n, Frame (imputeM S n))
    (upd : Bool) (w : World K) (d : Dict K)
    (h : (pfiExplainM O names imputeM x y n upd w).1 = .ok d) :
    ∃ imp : List Nat → List (Dict K),
      (∀ S, (∃ w1, (imputeM S n w1).1 = .ok (imp S)) ∨ imp S = imp0 S) ∧
      (1 ≤ w.seen → ∀ f ∈ names, ∃ w1, (imputeM [f] n w1).1 = .ok (imp [f])) ∧
      (pfiExplainM O names imputeM x y n upd w).2.est =
        pfiStep names model loss w.est (decide (w.seen = 0)) x y imp ∧
      (pfiExplainM O names imputeM x y n upd w).2.seen = w.seen + 1 :=
  pfiExplainM_ok_pure hO imp0 hn hframe upd w d h

/-! ### 2. streams -/

/-- one call of the stream, as a computation -/
def sageCall (O : Oracles K V Y) (names : List Nat) (n : Nat) (o : SageCall K V Y) : M K (Dict K) :=
  sageExplainM O names o.1 o.2.1 o.2.2.1 n o.2.2.2.1 o.2.2.2.2
def pfiCall (O : Oracles K V Y) (names : List Nat) (n : Nat) (o : PfiCall K V Y) : M K (Dict K) :=
  pfiExplainM O names o.1 o.2.1 o.2.2.1 n o.2.2.2

theorem sageCalls_eq (O : Oracles K V Y) (names : List Nat) (n : Nat) (obs : List (SageCall K V Y)) :
    sageCalls O names n obs = obs.map (sageCall O names n) := rfl
theorem pfiCalls_eq (O : Oracles K V Y) (names : List Nat) (n : Nat) (obs : List (PfiCall K V Y)) :
    pfiCalls O names n obs = obs.map (pfiCall O names n) := rfl

/-- the pure observation `s` is the successful effectful call `o` started in world `w`: same `x`, `y`, order; every
    `s.imp S` is an answer the imputer computation of `o` gives for `S` (or the default `imp0 S`, for subsets that were
    not asked); if the call explained (`1 ≤ seen`), the answer for the empty subset is among them -/
def SageMatch (names : List Nat) (n : Nat) (imp0 : List Nat → List (Dict K)) (o : SageCall K V Y) (w : World K)
    (s : SageObs K V Y) : Prop :=
  s.x = o.2.1 ∧ s.y = o.2.2.1 ∧ s.perm = o.2.2.2.1 ∧
  (∀ S, (∃ w1, (o.1 S n w1).1 = .ok (s.imp S)) ∨ s.imp S = imp0 S) ∧
  (1 ≤ w.seen → names ≠ [] → ∃ w1, (o.1 [] n w1).1 = .ok (s.imp []))

/-- the same for PFI; if the call explained, the answers for all `[f]`, `f ∈ names`, are among them -/
def PfiMatch (names : List Nat) (n : Nat) (imp0 : List Nat → List (Dict K)) (o : PfiCall K V Y) (w : World K)
    (s : PfiObs K V Y) : Prop :=
  s.x = o.2.1 ∧ s.y = o.2.2.1 ∧
  (∀ S, (∃ w1, (o.1 S n w1).1 = .ok (s.imp S)) ∨ s.imp S = imp0 S) ∧
  (1 ≤ w.seen → ∀ f ∈ names, ∃ w1, (o.1 [f] n w1).1 = .ok (s.imp [f]))

/-- `steps` is the pure stream of the successful calls of the effectful stream `obs` started in `w0`: as many steps as
    `.ok` results; step `i` matches the `i`-th successful call (`succCalls`: the successful calls in order, each with
    the world it was started in); the `i`-th successful call was started with `seen = w0.seen + i` -/
def SageTrace (O : Oracles K V Y) (names : List Nat) (n : Nat) (imp0 : List Nat → List (Dict K))
    (obs : List (SageCall K V Y)) (w0 : World K) (steps : List (SageObs K V Y)) : Prop :=
  steps.length = (runResults (sageCalls O names n obs) w0).countP isOk ∧
  List.Forall₂ (fun s ow => SageMatch names n imp0 ow.1 ow.2 s) steps (succCalls (sageCall O names n) obs w0) ∧
  (succCalls (sageCall O names n) obs w0).map (fun ow => ow.2.seen) = List.range' w0.seen steps.length

def PfiTrace (O : Oracles K V Y) (names : List Nat) (n : Nat) (imp0 : List Nat → List (Dict K))
    (obs : List (PfiCall K V Y)) (w0 : World K) (steps : List (PfiObs K V Y)) : Prop :=
  steps.length = (runResults (pfiCalls O names n obs) w0).countP isOk ∧
  List.Forall₂ (fun s ow => PfiMatch names n imp0 ow.1 ow.2 s) steps (succCalls (pfiCall O names n) obs w0) ∧
  (succCalls (pfiCall O names n) obs w0).map (fun ow => ow.2.seen) = List.range' w0.seen steps.length

/-- SAGE, from any world: the estimates after the stream with caught failures are the fold of the pure `sageStep`
    over exactly the successful calls; `first` is `true` for the first successful call iff the stream started with
    `seen = 0` (`runFrom step first e (s :: rest) = rest.foldl (step false) (step first e s)`) -/
theorem sage_stream_from (names : List Nat) (hn : names.Nodup) (model : Inst V → Dict K) (loss : Y → Dict K → K)
    (O : Oracles K V Y) (hO : OAnswers O model loss) (imp0 : List Nat → List (Dict K)) (n : Nat)
    (obs : List (SageCall K V Y)) (hobs : ∀ o ∈ obs, (∀ S n, Frame (o.1 S n)) ∧ o.2.2.2.1.Perm names)
    (w : World K) :
    ∃ steps : List (SageObs K V Y), SageTrace O names n imp0 obs w steps ∧
      (runCatching (sageCalls O names n obs) w).est =
        runFrom (sageStepObs names model loss) (decide (w.seen = 0)) w.est steps := by
  have hseen : ∀ o ∈ obs, SeenStep (sageCall O names n o) := by
    intro o ho
    unfold sageCall; rw [sageExplainM_eq]
    exact seenStep_of_shape (fun w => Frame.sageComputeM (hobs o ho).1 _ w) (Frame.storageM _)
  obtain ⟨steps, hm, hfin⟩ := stream_fold (sageCall O names n) (sageStepObs names model loss)
    (SageMatch names n imp0) obs
    (fun o ho w e he => sage_failure_atomic O names o.1 (hobs o ho).1 _ _ n _ _ w e he)
    (fun o ho w a ha => by
      obtain ⟨imp, hans, hlast, he, hs⟩ :=
        sageExplainM_ok_pure hO imp0 (hobs o ho).2 hn (hobs o ho).1 _ w a ha
      exact ⟨⟨o.2.1, o.2.2.1, o.2.2.2.1, imp⟩, ⟨rfl, rfl, rfl, hans, hlast⟩, he, hs⟩) w
  have hlen : steps.length = (succCalls (sageCall O names n) obs w).length := hm.length_eq
  refine ⟨steps, ⟨?_, hm, ?_⟩, ?_⟩
  · rw [hlen, succCalls_length, sageCalls_eq]
  · rw [hlen]; exact succCalls_seen _ obs hseen w
  · rw [← runWorld_eq_runCatching, sageCalls_eq]; exact hfin

/-- PFI, from any world -/
theorem pfi_stream_from (names : List Nat) (hn : names.Nodup) (model : Inst V → Dict K) (loss : Y → Dict K → K)
    (O : Oracles K V Y) (hO : OAnswers O model loss) (imp0 : List Nat → List (Dict K)) (n : Nat)
    (obs : List (PfiCall K V Y)) (hobs : ∀ o ∈ obs, ∀ S n, Frame (o.1 S n)) (w : World K) :
    ∃ steps : List (PfiObs K V Y), PfiTrace O names n imp0 obs w steps ∧
      (runCatching (pfiCalls O names n obs) w).est =
        runFrom (pfiStepObs names model loss) (decide (w.seen = 0)) w.est steps := by
  have hseen : ∀ o ∈ obs, SeenStep (pfiCall O names n o) := by
    intro o ho
    unfold pfiCall; rw [pfiExplainM_eq]
    exact seenStep_of_shape (fun w => Frame.pfiComputeM (hobs o ho) w) (Frame.storageM _)
  obtain ⟨steps, hm, hfin⟩ := stream_fold (pfiCall O names n) (pfiStepObs names model loss)
    (PfiMatch names n imp0) obs
    (fun o ho w e he => pfi_failure_atomic O names o.1 (hobs o ho) _ _ n _ w e he)
    (fun o ho w a ha => by
      obtain ⟨imp, hans, hfeat, he, hs⟩ := pfiExplainM_ok_pure hO imp0 hn (hobs o ho) _ w a ha
      exact ⟨⟨o.2.1, o.2.2.1, imp⟩, ⟨rfl, rfl, hans, hfeat⟩, he, hs⟩) w
  have hlen : steps.length = (succCalls (pfiCall O names n) obs w).length := hm.length_eq
  refine ⟨steps, ⟨?_, hm, ?_⟩, ?_⟩
  · rw [hlen, succCalls_length, pfiCalls_eq]
  · rw [hlen]; exact succCalls_seen _ obs hseen w
  · rw [← runWorld_eq_runCatching, pfiCalls_eq]; exact hfin

theorem runFrom_sage (names : List Nat) (model : Inst V → Dict K) (loss : Y → Dict K → K) (alpha : Option K)
    (steps : List (SageObs K V Y)) :
    runFrom (sageStepObs names model loss) true (Est.init alpha) steps = runSage names model loss alpha steps := by
  cases steps <;> rfl

theorem runFrom_pfi (names : List Nat) (model : Inst V → Dict K) (loss : Y → Dict K → K) (alpha : Option K)
    (steps : List (PfiObs K V Y)) :
    runFrom (pfiStepObs names model loss) true (Est.init alpha) steps = runPFI names model loss alpha steps := by
  cases steps <;> rfl

/-- **SAGE: the effectful stream with caught failures is the pure stream of its successes.** From the initial world
    (`est = Est.init alpha`, `seen = 0`), callbacks deterministic where they answer and failing at ANY positions, any
    storage oracle, framed imputer computations, orders permutations of the duplicate-free `names`: there is a list
    of pure observations, one per SUCCESSFUL call, in order, with that call's `x`, `y`, order and the imputer answers
    it received (`SageTrace`), such that the estimates after the stream are `runSage` of it — whose `first` flag is
    `true` exactly for the head, i.e. for the first successful call. -/
theorem sage_stream_is_pure_stream_of_successes (alpha : Option K) (names : List Nat) (hn : names.Nodup)
    (model : Inst V → Dict K) (loss : Y → Dict K → K) (O : Oracles K V Y) (hO : OAnswers O model loss)
    (imp0 : List Nat → List (Dict K)) (n : Nat) (obs : List (SageCall K V Y))
    (hobs : ∀ o ∈ obs, (∀ S n, Frame (o.1 S n)) ∧ o.2.2.2.1.Perm names)
    (w0 : World K) (h0 : w0.est = Est.init alpha) (hs0 : w0.seen = 0) :
    ∃ steps : List (SageObs K V Y), SageTrace O names n imp0 obs w0 steps ∧
      (runCatching (sageCalls O names n obs) w0).est = runSage names model loss alpha steps := by
  obtain ⟨steps, ht, hfin⟩ := sage_stream_from names hn model loss O hO imp0 n obs hobs w0
  refine ⟨steps, ht, ?_⟩
  rw [hfin, h0, hs0]; exact runFrom_sage names model loss alpha steps

/-- **PFI: the effectful stream with caught failures is the pure stream of its successes.** -/
theorem pfi_stream_is_pure_stream_of_successes (alpha : Option K) (names : List Nat) (hn : names.Nodup)
    (model : Inst V → Dict K) (loss : Y → Dict K → K) (O : Oracles K V Y) (hO : OAnswers O model loss)
    (imp0 : List Nat → List (Dict K)) (n : Nat) (obs : List (PfiCall K V Y))
    (hobs : ∀ o ∈ obs, ∀ S n, Frame (o.1 S n))
    (w0 : World K) (h0 : w0.est = Est.init alpha) (hs0 : w0.seen = 0) :
    ∃ steps : List (PfiObs K V Y), PfiTrace O names n imp0 obs w0 steps ∧
      (runCatching (pfiCalls O names n obs) w0).est = runPFI names model loss alpha steps := by
  obtain ⟨steps, ht, hfin⟩ := pfi_stream_from names hn model loss O hO imp0 n obs hobs w0
  refine ⟨steps, ht, ?_⟩
  rw [hfin, h0, hs0]; exact runFrom_pfi names model loss alpha steps

/-! ### reading a trace -/

/-- the steps' orders are those of calls of the stream -/
theorem SageTrace.perm {O : Oracles K V Y} {names : List Nat} {n : Nat} {imp0 : List Nat → List (Dict K)}
    {obs : List (SageCall K V Y)} {w0 : World K} {steps : List (SageObs K V Y)}
    (h : SageTrace O names n imp0 obs w0 steps) (hobs : ∀ o ∈ obs, o.2.2.2.1.Perm names) :
    ∀ s ∈ steps, s.perm.Perm names := by
  intro s hs
  obtain ⟨ow, how, hm⟩ := forall₂_exists_right h.2.1 s hs
  have : ow.1 ∈ obs := (succCalls_sublist _ obs w0).subset (List.mem_map.mpr ⟨ow, how, rfl⟩)
  rw [hm.2.2.1]; exact hobs _ this

/-- from `seen = 0`: all steps but the first belong to calls that explained, so (for `names ≠ []`) the imputer answer
    for the empty subset was received -/
theorem SageTrace.tail {O : Oracles K V Y} {names : List Nat} {n : Nat} {imp0 : List Nat → List (Dict K)}
    {obs : List (SageCall K V Y)} {w0 : World K} {steps : List (SageObs K V Y)}
    (h : SageTrace O names n imp0 obs w0 steps) (hne : names ≠ []) :
    List.Forall₂ (fun s ow => ∃ w1, (ow.1.1 [] n w1).1 = .ok (s.imp [])) steps.tail
      (succCalls (sageCall O names n) obs w0).tail := by
  refine forall₂_tail_of_seen (s0 := w0.seen) h.2.1 ?_ (fun s ow hm hs => hm.2.2.2.2 hs hne)
  rw [h.2.2, h.2.1.length_eq]

/-- from `seen = 0`: all steps but the first belong to calls that explained: the answers for all single-feature
    subsets were received from the imputer during that call -/
theorem PfiTrace.tail {O : Oracles K V Y} {names : List Nat} {n : Nat} {imp0 : List Nat → List (Dict K)}
    {obs : List (PfiCall K V Y)} {w0 : World K} {steps : List (PfiObs K V Y)}
    (h : PfiTrace O names n imp0 obs w0 steps) :
    List.Forall₂ (fun s ow => s.x = ow.1.2.1 ∧ s.y = ow.1.2.2.1 ∧
        ∀ f ∈ names, ∃ w1, (ow.1.1 [f] n w1).1 = .ok (s.imp [f])) steps.tail
      (succCalls (pfiCall O names n) obs w0).tail := by
  refine forall₂_tail_of_seen (s0 := w0.seen) h.2.1 ?_ (fun s ow hm hs => ⟨hm.1, hm.2.1, hm.2.2.2 hs⟩)
  rw [h.2.2, h.2.1.length_eq]

/-! ### 3. the specifications C02 / C03 under failing callbacks -/

/-- **C02 with failures.** After a PFI stream with caught failures, for `f ∈ names`: the importance of `f` is the
    running statistic (`Tr.update` folded from `Tr.init alpha`) of `pfiContrib model loss f s` over `steps.tail`, the
    successful calls but the first — `pfiContrib … f s = meanK ((s.imp [f]).map (loss s.y)) - loss s.y (model s.x)`
    with `s.imp [f]` the predictions the imputer returned for `[f]` during that call (`PfiTrace.tail`) —, the variance
    the running statistic of the squared deviations, and once two calls have succeeded these ARE the trackers of `f`.
    Failed calls contribute nothing. -/
theorem pfi_spec_with_failures (alpha : Option K) (names : List Nat) (hn : names.Nodup)
    (model : Inst V → Dict K) (loss : Y → Dict K → K) (O : Oracles K V Y) (hO : OAnswers O model loss)
    (imp0 : List Nat → List (Dict K)) (n : Nat) (obs : List (PfiCall K V Y))
    (hobs : ∀ o ∈ obs, ∀ S n, Frame (o.1 S n))
    (w0 : World K) (h0 : w0.est = Est.init alpha) (hs0 : w0.seen = 0) :
    ∃ steps : List (PfiObs K V Y), PfiTrace O names n imp0 obs w0 steps ∧
      ∀ f ∈ names,
        (runCatching (pfiCalls O names n obs) w0).est.importance.getKey f =
          ((steps.tail.map (pfiContrib model loss f)).foldl Tr.update (Tr.init alpha)).get ∧
        (runCatching (pfiCalls O names n obs) w0).est.variance.getKey f =
          ((devSeries (Tr.init alpha) (steps.tail.map (pfiContrib model loss f))).foldl Tr.update
            (Tr.init alpha)).get ∧
        (2 ≤ (runResults (pfiCalls O names n obs) w0).countP isOk →
          (runCatching (pfiCalls O names n obs) w0).est.importance.trackers.find? f =
            some ((steps.tail.map (pfiContrib model loss f)).foldl Tr.update (Tr.init alpha)) ∧
          (runCatching (pfiCalls O names n obs) w0).est.variance.trackers.find? f =
            some ((devSeries (Tr.init alpha) (steps.tail.map (pfiContrib model loss f))).foldl Tr.update
              (Tr.init alpha))) := by
  obtain ⟨steps, ht, hfin⟩ :=
    pfi_stream_is_pure_stream_of_successes alpha names hn model loss O hO imp0 n obs hobs w0 h0 hs0
  refine ⟨steps, ht, fun f hf => ?_⟩
  rw [hfin]
  obtain ⟨v1, v2⟩ := C02.pfi_values names model loss alpha steps f hf
  refine ⟨v1, v2, fun h2 => ?_⟩
  apply C02.pfi_refines_spec names model loss alpha steps f hf
  intro hnil
  have : steps.length ≤ 1 := by
    cases steps with
    | nil => simp
    | cons s rest => simp only [List.tail_cons] at hnil; subst hnil; simp
  rw [ht.1] at this; omega

/-- **C03 with failures.** After a SAGE stream with caught failures every tracker of the explainer is the running
    statistic of the per-observation quantities of `steps.tail`, the successful calls but the first (each with the
    imputer answers it received); failed calls contribute nothing. -/
theorem sage_spec_with_failures (alpha : Option K) (names : List Nat) (hn : names.Nodup)
    (model : Inst V → Dict K) (loss : Y → Dict K → K) (O : Oracles K V Y) (hO : OAnswers O model loss)
    (imp0 : List Nat → List (Dict K)) (n : Nat) (obs : List (SageCall K V Y))
    (hobs : ∀ o ∈ obs, (∀ S n, Frame (o.1 S n)) ∧ o.2.2.2.1.Perm names)
    (w0 : World K) (h0 : w0.est = Est.init alpha) (hs0 : w0.seen = 0) :
    ∃ steps : List (SageObs K V Y), SageTrace O names n imp0 obs w0 steps ∧
      (runCatching (sageCalls O names n obs) w0).est.importance =
        MV.run (Tr.init alpha) (sageContribsFrom names model loss (MV.init (Tr.init alpha)) steps.tail) ∧
      (runCatching (sageCalls O names n obs) w0).est.variance =
        MV.run (Tr.init alpha) (varDicts names (MV.init (Tr.init alpha))
          (sageContribsFrom names model loss (MV.init (Tr.init alpha)) steps.tail)) ∧
      (runCatching (sageCalls O names n obs) w0).est.margLoss =
        (sageMargLosses model loss (MV.init (Tr.init alpha)) steps.tail).foldl Tr.update (Tr.init alpha) ∧
      (runCatching (sageCalls O names n obs) w0).est.modelLoss =
        (steps.tail.map (fun s => loss s.y (model s.x))).foldl Tr.update (Tr.init alpha) ∧
      (runCatching (sageCalls O names n obs) w0).est.margPred =
        MV.run (Tr.init alpha) (steps.tail.map (fun s => model s.x)) := by
  obtain ⟨steps, ht, hfin⟩ :=
    sage_stream_is_pure_stream_of_successes alpha names hn model loss O hO imp0 n obs hobs w0 h0 hs0
  refine ⟨steps, ht, ?_⟩
  rw [hfin]
  exact C03.sage_refines_spec names model loss alpha steps

/-- per feature: importance and variance of `f ∈ names` are the base tracker run over the contributions of `f` in the
    successful explained calls (resp. over their squared deviations); once two calls have succeeded these are the
    trackers of `f` -/
theorem sage_spec_with_failures_feature (alpha : Option K) (names : List Nat) (hn : names.Nodup)
    (model : Inst V → Dict K) (loss : Y → Dict K → K) (O : Oracles K V Y) (hO : OAnswers O model loss)
    (imp0 : List Nat → List (Dict K)) (n : Nat) (obs : List (SageCall K V Y))
    (hobs : ∀ o ∈ obs, (∀ S n, Frame (o.1 S n)) ∧ o.2.2.2.1.Perm names)
    (w0 : World K) (h0 : w0.est = Est.init alpha) (hs0 : w0.seen = 0) :
    ∃ steps : List (SageObs K V Y), SageTrace O names n imp0 obs w0 steps ∧
      ∀ f ∈ names,
        (runCatching (sageCalls O names n obs) w0).est.importance.getKey f =
          (((sageContribsFrom names model loss (MV.init (Tr.init alpha)) steps.tail).map
            (fun c => c.getD f 0)).foldl Tr.update (Tr.init alpha)).get ∧
        (runCatching (sageCalls O names n obs) w0).est.variance.getKey f =
          ((devSeries (Tr.init alpha) ((sageContribsFrom names model loss (MV.init (Tr.init alpha)) steps.tail).map
            (fun c => c.getD f 0))).foldl Tr.update (Tr.init alpha)).get ∧
        (2 ≤ (runResults (sageCalls O names n obs) w0).countP isOk →
          (runCatching (sageCalls O names n obs) w0).est.importance.trackers.find? f =
            some (((sageContribsFrom names model loss (MV.init (Tr.init alpha)) steps.tail).map
              (fun c => c.getD f 0)).foldl Tr.update (Tr.init alpha)) ∧
          (runCatching (sageCalls O names n obs) w0).est.variance.trackers.find? f =
            some ((devSeries (Tr.init alpha)
              ((sageContribsFrom names model loss (MV.init (Tr.init alpha)) steps.tail).map
                (fun c => c.getD f 0))).foldl Tr.update (Tr.init alpha))) := by
  obtain ⟨steps, ht, hfin⟩ :=
    sage_stream_is_pure_stream_of_successes alpha names hn model loss O hO imp0 n obs hobs w0 h0 hs0
  refine ⟨steps, ht, fun f hf => ?_⟩
  rw [hfin]
  obtain ⟨v1, v2, v3⟩ := C03.sage_refines_spec_feature names model loss alpha steps
    (ht.perm (fun o ho => (hobs o ho).2)) f hf
  refine ⟨v1, v2, fun h2 => v3 ?_⟩
  intro hnil
  have : steps.length ≤ 1 := by
    cases steps with
    | nil => simp
    | cons s rest => simp only [List.tail_cons] at hnil; subst hnil; simp
  rw [ht.1] at this; omega

end Main

/-! ### non-vacuity: the toy streams of `Props/E2E.lean` (callbacks over `ℚ` failing at listed invocations) -/
section Examples

local instance : RealOps ℚ := ⟨id, id, id, id⟩

/-- the hypotheses on the SAGE toy stream (library imputer) -/
theorem toySage_hobs : ∀ o ∈ toyObs.map (MargCall.toCall (toyO [0, 6])),
    (∀ S n, Frame (o.1 S n)) ∧ o.2.2.2.1.Perm [0, 1] := by
  intro c hc
  obtain ⟨o, ho, rfl⟩ := List.mem_map.mp hc
  exact ⟨Frame.imputeMarginalJoint o.rows o.rowOf o.x, (toyObs_ok o ho).1⟩

/-- SAGE toy stream: calls 1 and 3 fail (storage, loss), calls 2, 4, 5 succeed; the successful calls are those with
    `y = 4, 1, 7`, started with `seen = 0, 1, 2` -/
example : (runResults toyCalls toyW0).map isOk = [false, true, false, true, true] ∧
    (succCalls (sageCall (toyO [0, 6]) [0, 1] 1) (toyObs.map (MargCall.toCall (toyO [0, 6]))) toyW0).map
      (fun ow => (ow.1.2.2.1, ow.1.2.2.2.1, ow.2.seen, ow.2.calls)) =
      [(4, [0, 1], 0, 1), (1, [0, 1], 1, 7), (7, [1, 0], 2, 15)] := by decide +kernel

/-- the theorems apply to it: all hypotheses are satisfiable by oracles that do fail -/
example := sage_stream_is_pure_stream_of_successes none [0, 1] (by decide) toyModel toyLoss (toyO [0, 6])
  (toyO_answers _) (fun _ => []) 1 (toyObs.map (MargCall.toCall (toyO [0, 6]))) toySage_hobs toyW0 rfl rfl
example := sage_spec_with_failures none [0, 1] (by decide) toyModel toyLoss (toyO [0, 6])
  (toyO_answers _) (fun _ => []) 1 (toyObs.map (MargCall.toCall (toyO [0, 6]))) toySage_hobs toyW0 rfl rfl
example := sage_spec_with_failures_feature none [0, 1] (by decide) toyModel toyLoss (toyO [0, 6])
  (toyO_answers _) (fun _ => []) 1 (toyObs.map (MargCall.toCall (toyO [0, 6]))) toySage_hobs toyW0 rfl rfl

/-- the witness, explicitly: the three successful calls with the answers of the library imputer (the pure
    `imputeJoint` for the same stored rows and row choices) -/
def toySageSteps : List (SageObs ℚ ℚ ℚ) :=
  [ ⟨toyX 1 2, 4, [0, 1], fun _ => []⟩,
    ⟨toyX 0 1, 1, [0, 1], fun S => imputeJoint toyModel toyRows S (toyX 0 1) 1 (fun _ => 0)⟩,
    ⟨toyX 4 1, 7, [1, 0], fun S => imputeJoint toyModel toyRows S (toyX 4 1) 1 (fun _ => 0)⟩ ]

/-- … and the effectful stream with two caught failures evaluates to the pure stream of the three successes -/
example :
    (runCatching toyCalls toyW0).est.importanceValues =
      (runSage [0, 1] toyModel toyLoss none toySageSteps).importanceValues ∧
    (runCatching toyCalls toyW0).est.variances = (runSage [0, 1] toyModel toyLoss none toySageSteps).variances ∧
    (runCatching toyCalls toyW0).est.margLoss.get = (runSage [0, 1] toyModel toyLoss none toySageSteps).margLoss.get ∧
    (runCatching toyCalls toyW0).est.modelLoss.get =
      (runSage [0, 1] toyModel toyLoss none toySageSteps).modelLoss.get ∧
    (runCatching toyCalls toyW0).est.margPredCur = (runSage [0, 1] toyModel toyLoss none toySageSteps).margPredCur ∧
    (runSage [0, 1] toyModel toyLoss none toySageSteps).importanceValues = [(0, 15/2), (1, -7/2)] := by
  decide +kernel

/-- the witness matches the successful calls, and its imputer functions are the answers the effectful imputer gives
    (second successful call, started at invocation counter 7) -/
example : toySageSteps.map (fun s => (s.y, s.perm)) =
      (succCalls (sageCall (toyO [0, 6]) [0, 1] 1) (toyObs.map (MargCall.toCall (toyO [0, 6]))) toyW0).map
        (fun ow => (ow.1.2.2.1, ow.1.2.2.2.1)) ∧
    ∀ S ∈ [[], [0], [1], [0, 1]],
      (imputeMarginalJoint (toyO [0, 6]) E2E.toyRows (fun _ _ => 0) (toyX 0 1) S 1 { toyW0 with calls := 7 }).1 =
        .ok (imputeJoint toyModel E2E.toyRows S (toyX 0 1) 1 (fun _ => 0)) := by decide +kernel

/-- the contributions of the two successful explained calls (the failed third call contributes nothing) -/
example : sageContribsFrom [0, 1] toyModel toyLoss (MV.init (Tr.init none)) toySageSteps.tail =
    [[(0, 0), (1, 0)], [(1, -7), (0, 15)]] := by decide +kernel

/-- PFI toy stream (user imputer; invocations 0 and 5 fail): calls 1 and 3 fail, calls 2, 4, 5 succeed -/
example : (runResults toyPfiCalls toyW0).map isOk = [false, true, false, true, true] ∧
    (succCalls (pfiCall (toyO [0, 5]) [0, 1] 1) toyPfiObs toyW0).map (fun ow => (ow.1.2.2.1, ow.2.seen)) =
      [(4, 0), (1, 1), (7, 2)] := by decide +kernel

example := pfi_stream_is_pure_stream_of_successes none [0, 1] (by decide) toyModel toyLoss (toyO [0, 5])
  (toyO_answers _) (fun _ => []) 1 toyPfiObs toyPfiObs_frame toyW0 rfl rfl
example := pfi_spec_with_failures none [0, 1] (by decide) toyModel toyLoss (toyO [0, 5])
  (toyO_answers _) (fun _ => []) 1 toyPfiObs toyPfiObs_frame toyW0 rfl rfl

def toyPfiSteps : List (PfiObs ℚ ℚ ℚ) :=
  [ ⟨toyX 1 2, 4, fun _ => []⟩, ⟨toyX 0 1, 1, fun _ => [[(0, 1)]]⟩, ⟨toyX 4 1, 7, fun _ => [[(0, 1)]]⟩ ]

example :
    (runCatching toyPfiCalls toyW0).est.importanceValues =
      (runPFI [0, 1] toyModel toyLoss none toyPfiSteps).importanceValues ∧
    (runCatching toyPfiCalls toyW0).est.variances = (runPFI [0, 1] toyModel toyLoss none toyPfiSteps).variances ∧
    toyPfiSteps.tail.map (pfiContrib toyModel toyLoss 0) = [-1, 35] ∧
    (runPFI [0, 1] toyModel toyLoss none toyPfiSteps).importanceValues = [(0, 17), (1, 17)] := by
  decide +kernel

/-- a single successful PFI call as a pure step (`pfiExplainM_ok_pure` applies; `seen = 1`, so it explains) -/
example := pfiExplainM_ok_pure (x := toyX 3 5) (y := (10 : ℚ)) (n := 1) (toyO_answers [100]) (fun _ => [])
  (names := [0, 1]) (by decide) (Frame.callImputeUser (O := toyO [100])) true { toyW0 with seen := 1 }

end Examples

end Ixai.E2Eb
