/-
  Bridge between the GENERATED `_get_mean_model_output` (Gen/MeanModelOutput.lean, translated statement by statement from
  ixai/explainer/base.py by tools/py2lean_eff.py) and the hand-written `meanOutput` of Model/Dict.lean used by the SAGE models
  (C01, C03, C05).  Python iterates the SET of labels in an unspecified order; model and translation use the order of first
  appearance (immaterial for everything that is compared: the result is a dict).
-/
import IxaiVerif.Gen.MeanModelOutput
import IxaiVerif.Proofs.GenBridge

namespace Ixai.GenMeanOutput
open Ixai

variable {K : Type} [Add K] [Div K] [NatCast K] [OfNat K 0]

/-- adding the unseen keys of one output keeps the label list duplicate-free -/
theorem addKeys_nodup (ks : List Nat) : ∀ (acc : List Nat), acc.Nodup →
    (ks.foldl (fun acc k => if acc.contains k then acc else acc ++ [k]) acc).Nodup := by
  induction ks with
  | nil => intro acc h; simpa using h
  | cons k ks ih =>
    intro acc h
    simp only [List.foldl_cons]
    by_cases hc : acc.contains k
    · simp only [hc, ↓reduceIte]; exact ih acc h
    · simp only [hc, Bool.false_eq_true, ↓reduceIte]
      apply ih
      rw [List.nodup_append]
      refine ⟨h, by simp, ?_⟩
      intro a ha b hb
      simp only [List.mem_singleton] at hb
      subst hb
      intro hab
      subst hab
      exact hc (by simpa using ha)

theorem allLabels_nodup (outs : List (Dict K)) : (allLabels outs).Nodup := by
  unfold allLabels
  suffices h : ∀ (acc : List Nat), acc.Nodup →
      (outs.foldl (fun acc o => o.keys.foldl (fun acc k => if acc.contains k then acc else acc ++ [k]) acc) acc).Nodup from
    h [] List.nodup_nil
  induction outs with
  | nil => intro acc h; simpa using h
  | cons o outs ih => intro acc h; simp only [List.foldl_cons]; exact ih _ (addKeys_nodup o.keys acc h)

/-- the generated function IS the model's `meanOutput` -/
theorem mean_output_generated_eq_model (outs : List (Dict K)) : Gen.get_mean_model_output outs = meanOutput outs := by
  unfold Gen.get_mean_model_output meanOutput
  simp only [Id.run, pure]
  exact Dict.ofPairs_map_of_nodup (allLabels outs) _ (allLabels_nodup outs)

end Ixai.GenMeanOutput
