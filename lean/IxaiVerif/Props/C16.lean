/-
  C16 — "Normalised importance values keep the ratios of the raw values; in 'sum' mode they add up to one, in
  'delta' mode their range is one, and when the normaliser is zero they are all 0.0 …  Tracked variances are
  non-negative [C10: `welford_var_nonneg`], and the confidence bound of every feature is the positive finite number
  (1-alpha)^t + sqrt(variance * alpha / ((2-alpha) * delta)), hence non-increasing in delta."
  The theorems are about `Ixai.normalize`, `Ixai.confBound` (`Model/Explainer.lean`, the model of
  `_normalize_importance_values` and `get_confidence_bound` in ixai/explainer/base.py).
  `K` is a linearly ordered field.  The square root of the model is the uninterpreted `RealOps.sqrt`; the
  confidence-bound theorems assume `GenuineSqrt K` (it is a square root on non-negatives) and are then instantiated
  for ℝ with `Real.sqrt`.
-/
import IxaiVerif.Proofs.Normalize
import Mathlib.Tactic.NormNum
import Mathlib.Data.Rat.Defs
import Mathlib.Analysis.Real.Sqrt
import Mathlib.Analysis.SpecialFunctions.Log.Basic

set_option linter.unusedSectionVars false
namespace Ixai.C16
open Ixai

/-! ### normalisation -/
section Normalize
variable {K : Type} [Field K] [LinearOrder K] [IsStrictOrderedRing K] [RealOps K]

/-- the normaliser of mode 'sum' is the sum of the raw values, that of mode 'delta' their range -/
theorem normFactor_sum (vals : Dict K) : normFactor vals false = lsum (vals.map Prod.snd) := rfl
theorem normFactor_delta (vals : Dict K) :
    normFactor vals true = maxL (vals.map Prod.snd) - minL (vals.map Prod.snd) := rfl

/-- the range is never negative -/
theorem normFactor_delta_nonneg (vals : Dict K) : 0 ≤ normFactor vals true :=
  maxL_sub_minL_nonneg _

/-- normalisation keeps the features and their order -/
theorem normalize_keys (vals : Dict K) (delta : Bool) : (Ixai.normalize vals delta).keys = vals.keys := by
  rw [normalize_eq]; split <;> simp [Dict.keys, Function.comp_def]

/-- non-zero normaliser: every normalised value times the normaliser is the raw value (position by position) -/
theorem normalize_ratio (vals : Dict K) (delta : Bool) (h : normFactor vals delta ≠ 0) :
    List.Forall₂ (fun n r => n.1 = r.1 ∧ n.2 * normFactor vals delta = r.2) (Ixai.normalize vals delta) vals := by
  rw [normalize_of_ne vals delta h, List.forall₂_map_left_iff]
  apply List.forall₂_same.mpr
  intro kv _
  exact ⟨rfl, div_mul_cancel₀ _ h⟩

/-- the same, feature by feature (`d.get(f, 0)`) -/
theorem normalize_ratio_get (vals : Dict K) (delta : Bool) (h : normFactor vals delta ≠ 0) (f : Nat) :
    (Ixai.normalize vals delta).getD f 0 * normFactor vals delta = vals.getD f 0 := by
  rw [normalize_of_ne vals delta h, getD_map_snd vals (fun x => x / normFactor vals delta) (by simp)]
  exact div_mul_cancel₀ _ h

/-- hence the normalised values keep the ratios of the raw values: for any two features `n_f / n_g = r_f / r_g`,
    stated without division (and true for a zero normaliser as well, where all normalised values are 0) -/
theorem normalize_keeps_ratios (vals : Dict K) (delta : Bool) (f g : Nat) :
    (Ixai.normalize vals delta).getD f 0 * vals.getD g 0 = (Ixai.normalize vals delta).getD g 0 * vals.getD f 0 := by
  by_cases h : normFactor vals delta = 0
  · rw [normalize_of_eq vals delta h]
    have := getD_map_snd vals (fun _ => (0 : K)) rfl
    simp only [this, zero_mul]
  · rw [← normalize_ratio_get vals delta h f, ← normalize_ratio_get vals delta h g]; ring

/-- mode 'sum': the normalised values add up to one -/
theorem normalize_sum_one (vals : Dict K) (h : lsum (vals.map Prod.snd) ≠ 0) :
    lsum ((Ixai.normalize vals false).map Prod.snd) = 1 := by
  have h' : normFactor vals false ≠ 0 := h
  have := rawVals_normalize_of_ne vals false h'
  simp only [rawVals] at this
  rw [this, lsum_eq_sum, sum_map_div, normFactor_sum, lsum_eq_sum]
  rw [lsum_eq_sum] at h
  exact div_self h

/-- mode 'delta': the range of the normalised values is one -/
theorem normalize_delta_range_one (vals : Dict K) (h : maxL (vals.map Prod.snd) ≠ minL (vals.map Prod.snd)) :
    maxL ((Ixai.normalize vals true).map Prod.snd) - minL ((Ixai.normalize vals true).map Prod.snd) = 1 := by
  have h' : normFactor vals true ≠ 0 := by rw [normFactor_delta]; exact sub_ne_zero.mpr h
  have hpos : 0 < normFactor vals true := lt_of_le_of_ne (normFactor_delta_nonneg vals) (Ne.symm h')
  have := rawVals_normalize_of_ne vals true h'
  simp only [rawVals] at this
  rw [this, maxL_map_div _ _ hpos, minL_map_div _ _ hpos, ← sub_div]
  exact div_self h'

/-- zero normaliser (either mode): every normalised value is `0` -/
theorem normalize_zero_factor (vals : Dict K) (delta : Bool) (h : normFactor vals delta = 0) :
    ∀ kv ∈ Ixai.normalize vals delta, kv.2 = 0 := by
  rw [normalize_of_eq vals delta h]
  intro kv hkv
  obtain ⟨_, _, rfl⟩ := List.mem_map.mp hkv
  rfl

end Normalize

/-! ### confidence bound -/
section ConfBound
variable {K : Type} [Field K] [LinearOrder K] [IsStrictOrderedRing K] [RealOps K]

/-- the three square roots of the shipped expression combine into one -/
theorem conf_bound_formula (hs : GenuineSqrt K) (α : K) (t : Nat) (variance δ : K)
    (hα0 : 0 < α) (hα1 : α ≤ 1) (hδ0 : 0 < δ) (hv : 0 ≤ variance) :
    confBound α t variance δ = (1 - α) ^ t + RealOps.sqrt (variance * α / ((2 - α) * δ)) := by
  have h2 : (0 : K) < 2 - α := by linarith
  have e : variance * α / ((2 - α) * δ) = 1 / δ * variance * (α / (2 - α)) := by
    field_simp
  have hq : 0 ≤ α / (2 - α) := div_nonneg (le_of_lt hα0) (le_of_lt h2)
  have hd : 0 ≤ 1 / δ := le_of_lt (one_div_pos.mpr hδ0)
  simp only [confBound, npow_eq_pow, one_add_one_eq_two]
  rw [e, hs.sqrt_mul _ _ (mul_nonneg hd hv) hq, hs.sqrt_mul _ _ hd hv, hs.sqrt_one_div δ hδ0]

/-- the argument of the square root -/
theorem conf_bound_arg_nonneg (α variance δ : K) (hα0 : 0 < α) (hα1 : α ≤ 1) (hδ0 : 0 < δ) (hv : 0 ≤ variance) :
    0 ≤ variance * α / ((2 - α) * δ) := by
  have h2 : (0 : K) < 2 - α := by linarith
  exact div_nonneg (mul_nonneg hv (le_of_lt hα0)) (le_of_lt (mul_pos h2 hδ0))

theorem conf_bound_nonneg (hs : GenuineSqrt K) (α : K) (t : Nat) (variance δ : K)
    (hα0 : 0 < α) (hα1 : α ≤ 1) (hδ0 : 0 < δ) (hv : 0 ≤ variance) :
    0 ≤ confBound α t variance δ := by
  rw [conf_bound_formula hs α t variance δ hα0 hα1 hδ0 hv]
  exact add_nonneg (pow_nonneg (by linarith) t)
    (hs.nonneg _ (conf_bound_arg_nonneg α variance δ hα0 hα1 hδ0 hv))

/-- the bound is positive as soon as `α < 1` (first term) or the variance is positive (second term) -/
theorem conf_bound_pos (hs : GenuineSqrt K) (α : K) (t : Nat) (variance δ : K)
    (hα0 : 0 < α) (hα1 : α ≤ 1) (hδ0 : 0 < δ) (hv : 0 ≤ variance) (h : α < 1 ∨ 0 < variance) :
    0 < confBound α t variance δ := by
  rw [conf_bound_formula hs α t variance δ hα0 hα1 hδ0 hv]
  have h2 : (0 : K) < 2 - α := by linarith
  rcases h with h | h
  · exact add_pos_of_pos_of_nonneg (pow_pos (by linarith) t)
      (hs.nonneg _ (conf_bound_arg_nonneg α variance δ hα0 hα1 hδ0 hv))
  · exact add_pos_of_nonneg_of_pos (pow_nonneg (by linarith) t)
      (hs.sqrt_pos _ (div_pos (mul_pos h hα0) (mul_pos h2 hδ0)))

/-- the bound does not increase when `delta` grows -/
theorem conf_bound_antitone (hs : GenuineSqrt K) (α : K) (t : Nat) (variance δ₁ δ₂ : K)
    (hα0 : 0 < α) (hα1 : α ≤ 1) (hδ0 : 0 < δ₁) (hδ : δ₁ ≤ δ₂) (hv : 0 ≤ variance) :
    confBound α t variance δ₂ ≤ confBound α t variance δ₁ := by
  have hδ2 : 0 < δ₂ := lt_of_lt_of_le hδ0 hδ
  have h2 : (0 : K) < 2 - α := by linarith
  rw [conf_bound_formula hs α t variance δ₁ hα0 hα1 hδ0 hv, conf_bound_formula hs α t variance δ₂ hα0 hα1 hδ2 hv]
  apply add_le_add_right
  apply hs.sqrt_le_sqrt _ _ (conf_bound_arg_nonneg α variance δ₂ hα0 hα1 hδ2 hv)
  apply div_le_div_of_nonneg_left (mul_nonneg hv (le_of_lt hα0)) (mul_pos h2 hδ0)
  exact mul_le_mul_of_nonneg_left hδ (le_of_lt h2)

end ConfBound

/-! ### the real numbers: `sqrt` is `Real.sqrt` -/
section RealInst

/-- the library functions over ℝ -/
@[reducible] noncomputable def realOps : RealOps ℝ :=
  ⟨Real.exp, Real.log, fun x => (⌊x⌋ : ℝ), Real.sqrt⟩
attribute [local instance] realOps

/-- the square-root hypothesis holds over ℝ -/
theorem genuineSqrt_real : GenuineSqrt ℝ :=
  fun _ hx => ⟨Real.mul_self_sqrt hx, Real.sqrt_nonneg _⟩

theorem conf_bound_formula_real (α : ℝ) (t : Nat) (variance δ : ℝ)
    (hα0 : 0 < α) (hα1 : α ≤ 1) (hδ0 : 0 < δ) (hv : 0 ≤ variance) :
    confBound α t variance δ = (1 - α) ^ t + Real.sqrt (variance * α / ((2 - α) * δ)) :=
  conf_bound_formula genuineSqrt_real α t variance δ hα0 hα1 hδ0 hv

theorem conf_bound_nonneg_real (α : ℝ) (t : Nat) (variance δ : ℝ)
    (hα0 : 0 < α) (hα1 : α ≤ 1) (hδ0 : 0 < δ) (hv : 0 ≤ variance) :
    0 ≤ confBound α t variance δ :=
  conf_bound_nonneg genuineSqrt_real α t variance δ hα0 hα1 hδ0 hv

theorem conf_bound_pos_real (α : ℝ) (t : Nat) (variance δ : ℝ)
    (hα0 : 0 < α) (hα1 : α ≤ 1) (hδ0 : 0 < δ) (hv : 0 ≤ variance) (h : α < 1 ∨ 0 < variance) :
    0 < confBound α t variance δ :=
  conf_bound_pos genuineSqrt_real α t variance δ hα0 hα1 hδ0 hv h

theorem conf_bound_antitone_real (α : ℝ) (t : Nat) (variance δ₁ δ₂ : ℝ)
    (hα0 : 0 < α) (hα1 : α ≤ 1) (hδ0 : 0 < δ₁) (hδ : δ₁ ≤ δ₂) (hv : 0 ≤ variance) :
    confBound α t variance δ₂ ≤ confBound α t variance δ₁ :=
  conf_bound_antitone genuineSqrt_real α t variance δ₁ δ₂ hα0 hα1 hδ0 hδ hv

/-- α = 1/2, t = 2, variance = 3, δ = 1/4:  (1/2)² + sqrt(3·(1/2) / ((3/2)·(1/4))) = 1/4 + sqrt 4 = 9/4 -/
example : confBound (1 / 2 : ℝ) 2 3 (1 / 4) = 9 / 4 := by
  rw [conf_bound_formula_real _ _ _ _ (by norm_num) (by norm_num) (by norm_num) (by norm_num)]
  have h : (3 : ℝ) * (1 / 2) / ((2 - 1 / 2) * (1 / 4)) = 2 * 2 := by norm_num
  rw [h, Real.sqrt_mul_self (by norm_num)]; norm_num

end RealInst

/-! ### non-vacuity of the normalisation theorems: concrete dicts at `K := ℚ` -/
section Examples
local instance : RealOps ℚ := ⟨id, id, id, id⟩

example : Ixai.normalize ([(0, 1), (1, 3)] : Dict ℚ) false = [(0, 1 / 4), (1, 3 / 4)] := by
  norm_num [Ixai.normalize, lsum]
example : Ixai.normalize ([(0, 1), (1, 3), (2, 2)] : Dict ℚ) true = [(0, 1 / 2), (1, 3 / 2), (2, 1)] := by
  norm_num [Ixai.normalize, maxL, minL]
example : Ixai.normalize ([(0, 1), (1, -1)] : Dict ℚ) false = [(0, 0), (1, 0)] := by
  norm_num [Ixai.normalize, lsum]
example : Ixai.normalize ([(0, 5), (1, 5)] : Dict ℚ) true = [(0, 0), (1, 0)] := by
  norm_num [Ixai.normalize, maxL, minL]
/-- the hypotheses of the theorems hold on these dicts -/
example : lsum (([(0, 1), (1, 3)] : Dict ℚ).map Prod.snd) ≠ 0 := by norm_num [lsum]
example : maxL (([(0, 1), (1, 3), (2, 2)] : Dict ℚ).map Prod.snd) ≠ minL (([(0, 1), (1, 3), (2, 2)] : Dict ℚ).map Prod.snd) := by
  norm_num [maxL, minL]
example : normFactor ([(0, 1), (1, -1)] : Dict ℚ) false = 0 := by norm_num [normFactor, rawVals, lsum]
example : lsum ((Ixai.normalize ([(0, 1), (1, 3)] : Dict ℚ) false).map Prod.snd) = 1 :=
  normalize_sum_one _ (by norm_num [lsum])
end Examples

end Ixai.C16
