/-
  C03 — incremental SAGE refines its specification.
  Per explained observation the contribution of a feature is the loss before revealing it minus the loss after; the
  imputer receives exactly the features not yet revealed; the chain starts at the loss of the normalised running mean
  prediction; and importance values, variances, marginal loss, model loss and marginal prediction are the configured
  running statistics of these per-observation quantities. `marginalLoss`/`modelLossV` are both offset by one when
  `loss_bigger_is_better`.

  Setting as in C01 (`SageObs`, `runSage`; the explained observations are `steps.tail`). Per-observation quantities:
  * `sageLossAt loss y imp perm names prev j`: the loss after revealing the first `j` features of the order `perm`:
    `prev` for `j = 0`, otherwise `loss y (meanOutput (imp (names.diff (perm.take j))))` — the imputer is called with the
    feature names minus the first `j` entries of the order (`imputer_gets_complement`);
  * `sageChain … = [(perm[j], lossAt j - lossAt (j+1))]_j` (`sage_chain_closed_form`, `sage_contribution`);
  * `sageMargLosses` / `sageContribsFrom`: along the stream, the starting loss of observation `t` is
    `loss y_t (mp_t.getNormalized)` where `mp_t` is the marginal-prediction tracker updated with the predictions of the
    explained observations up to and including `t` (C12 says what that tracker holds), and the contribution dict is the
    chain from that starting loss.
  The running statistics are folds of the *generated* tracker update (`Tr.update`, per key through `MV`, see C12) from
  `Tr.init alpha`; closed forms follow from C10 exactly as in C02.
-/
import IxaiVerif.Proofs.Explainer
import IxaiVerif.Props.C10
import IxaiVerif.Props.C12

set_option linter.unusedSectionVars false
namespace Ixai.C03
open Ixai Ixai.Gen

variable {K : Type} [Field K] [CharZero K] [RealOps K] [DecidableEq K] {V Y : Type}

/-! ### one explained observation: the permutation chain -/

/-- the chain in closed form -/
theorem sage_chain_closed_form (loss : Y → Dict K → K) (y : Y) (imp : List Nat → List (Dict K))
    (perm names : List Nat) (prev : K) :
    sageChain loss y imp perm names prev =
      (List.range perm.length).map (fun j => (perm.getD j 0,
        sageLossAt loss y imp perm names prev j - sageLossAt loss y imp perm names prev (j + 1))) :=
  sageChain_eq loss y imp perm names prev

/-- the chain starts at the given loss (in `sageStep`: the loss of the normalised running mean prediction) and after
    position `j` the loss is that of the mean prediction with the not-yet-revealed features imputed -/
theorem sage_loss_at (loss : Y → Dict K → K) (y : Y) (imp : List Nat → List (Dict K)) (perm names : List Nat)
    (prev : K) :
    sageLossAt loss y imp perm names prev 0 = prev ∧
    ∀ j, sageLossAt loss y imp perm names prev (j + 1) =
      loss y (meanOutput (imp (names.diff (perm.take (j + 1))))) := ⟨rfl, fun _ => rfl⟩

/-- the subset handed to the imputer at chain position `j`: exactly the names not among the first `j+1` of the order -/
theorem imputer_gets_complement (names perm : List Nat) (hn : names.Nodup) (j g : Nat) :
    g ∈ names.diff (perm.take (j + 1)) ↔ g ∈ names ∧ g ∉ perm.take (j + 1) :=
  hn.mem_sdiff_iff

/-- … it keeps the order of `names` -/
theorem imputer_subset_eq_filter (names perm : List Nat) (hn : names.Nodup) (j : Nat) :
    names.diff (perm.take (j + 1)) = names.filter (· ∉ perm.take (j + 1)) := hn.sdiff_eq_filter

/-- … and for the last feature of a permutation of the names it is empty -/
theorem imputer_last_empty (names perm : List Nat) (hn : names.Nodup) (hp : perm.Perm names) :
    names.diff (perm.take ((perm.length - 1) + 1)) = [] := by
  have : perm.take ((perm.length - 1) + 1) = perm := List.take_of_length_le (by omega)
  rw [this]; exact diff_perm_eq_nil names perm hp hn

/-- contribution of the `j`-th revealed feature: loss before revealing it minus loss after -/
theorem sage_contribution (loss : Y → Dict K → K) (y : Y) (imp : List Nat → List (Dict K))
    (perm names : List Nat) (prev : K) (hpn : perm.Nodup) (j : Nat) (hj : j < perm.length) :
    (sageChain loss y imp perm names prev).getD perm[j] 0 =
      sageLossAt loss y imp perm names prev j - sageLossAt loss y imp perm names prev (j + 1) := by
  apply Dict.getD_of_mem
  · rw [sageChain_keys_explainer]; exact hpn
  · rw [sageChain_eq]
    refine List.mem_map.mpr ⟨j, List.mem_range.mpr hj, ?_⟩
    simp [List.getD_eq_getElem?_getD, hj]

/-! ### the estimates along the stream -/

/-- every tracker of the explainer is the running statistic of the per-observation quantities -/
theorem sage_refines_spec (names : List Nat) (model : Inst V → Dict K) (loss : Y → Dict K → K) (alpha : Option K)
    (steps : List (SageObs K V Y)) :
    (runSage names model loss alpha steps).importance =
      MV.run (Tr.init alpha) (sageContribsFrom names model loss (MV.init (Tr.init alpha)) steps.tail) ∧
    (runSage names model loss alpha steps).variance =
      MV.run (Tr.init alpha) (varDicts names (MV.init (Tr.init alpha))
        (sageContribsFrom names model loss (MV.init (Tr.init alpha)) steps.tail)) ∧
    (runSage names model loss alpha steps).margLoss =
      (sageMargLosses model loss (MV.init (Tr.init alpha)) steps.tail).foldl Tr.update (Tr.init alpha) ∧
    (runSage names model loss alpha steps).modelLoss =
      (steps.tail.map (fun s => loss s.y (model s.x))).foldl Tr.update (Tr.init alpha) ∧
    (runSage names model loss alpha steps).margPred =
      MV.run (Tr.init alpha) (steps.tail.map (fun s => model s.x)) := by
  cases steps with
  | nil => simp [runSage, Est.init, MV.run, sageContribsFrom, sageMargLosses, varDicts]
  | cons s rest =>
    rw [runSage_cons]
    exact sage_foldl names model loss rest (Est.init alpha)

/-- the `marginal_prediction` attribute: the normalised view of the marginal-prediction tracker (empty before the
    first explained observation) -/
theorem sage_marg_pred_cur (names : List Nat) (model : Inst V → Dict K) (loss : Y → Dict K → K) (alpha : Option K)
    (steps : List (SageObs K V Y)) :
    (runSage names model loss alpha steps).margPredCur =
      if steps.tail = [] then [] else (runSage names model loss alpha steps).margPred.getNormalized := by
  have key : ∀ (rest : List (SageObs K V Y)) (e : Est K),
      (rest.foldl (sageStepObs names model loss false) e).margPredCur =
        if rest = [] then e.margPredCur
        else (rest.foldl (sageStepObs names model loss false) e).margPred.getNormalized := by
    intro rest
    induction rest with
    | nil => intro e; rfl
    | cons s rest ih =>
      intro e
      rw [List.foldl_cons, ih]
      by_cases h : rest = []
      · subst h; simp [sageStepObs, sageStep]
      · simp [h]
  cases steps with
  | nil => rfl
  | cons s rest => rw [runSage_cons, key]; rfl

/-- the reported losses: tracker value, plus one when `loss_bigger_is_better` -/
theorem sage_reported_losses (names : List Nat) (model : Inst V → Dict K) (loss : Y → Dict K → K) (alpha : Option K)
    (steps : List (SageObs K V Y)) (lbb : Bool) :
    (runSage names model loss alpha steps).marginalLoss lbb =
      ((sageMargLosses model loss (MV.init (Tr.init alpha)) steps.tail).foldl Tr.update (Tr.init alpha)).get +
        (if lbb then 1 else 0) ∧
    (runSage names model loss alpha steps).modelLossV lbb =
      ((steps.tail.map (fun s => loss s.y (model s.x))).foldl Tr.update (Tr.init alpha)).get +
        (if lbb then 1 else 0) := by
  obtain ⟨-, -, h3, h4, -⟩ := sage_refines_spec names model loss alpha steps
  simp only [Est.marginalLoss, Est.modelLossV, h3, h4, and_self]

/-- the marginal prediction per label: the running statistic of that label's predictions since it first appeared
    (0 where a prediction omits the label), by C12 -/
theorem sage_marg_pred_label (names : List Nat) (model : Inst V → Dict K) (loss : Y → Dict K → K) (alpha : Option K)
    (steps : List (SageObs K V Y)) (l : Nat) :
    (runSage names model loss alpha steps).margPred.getKey l =
      ((MV.series (steps.tail.map (fun s => model s.x)) l).foldl Tr.update (Tr.init alpha)).get := by
  rw [(sage_refines_spec names model loss alpha steps).2.2.2.2]
  exact C12.mv_per_key_init alpha _ l

/-- per feature: the importance tracker is the base tracker run over that feature's contributions, the variance
    tracker the base tracker run over the squared deviations from the freshly updated estimate -/
theorem sage_refines_spec_feature (names : List Nat) (model : Inst V → Dict K) (loss : Y → Dict K → K)
    (alpha : Option K) (steps : List (SageObs K V Y)) (hp : ∀ s ∈ steps, s.perm.Perm names) (f : Nat)
    (hf : f ∈ names) :
    (runSage names model loss alpha steps).importance.getKey f =
      (((sageContribsFrom names model loss (MV.init (Tr.init alpha)) steps.tail).map
        (fun c => c.getD f 0)).foldl Tr.update (Tr.init alpha)).get ∧
    (runSage names model loss alpha steps).variance.getKey f =
      ((devSeries (Tr.init alpha) ((sageContribsFrom names model loss (MV.init (Tr.init alpha)) steps.tail).map
        (fun c => c.getD f 0))).foldl Tr.update (Tr.init alpha)).get ∧
    (steps.tail ≠ [] →
      (runSage names model loss alpha steps).importance.trackers.find? f =
        some (((sageContribsFrom names model loss (MV.init (Tr.init alpha)) steps.tail).map
          (fun c => c.getD f 0)).foldl Tr.update (Tr.init alpha)) ∧
      (runSage names model loss alpha steps).variance.trackers.find? f =
        some ((devSeries (Tr.init alpha) ((sageContribsFrom names model loss (MV.init (Tr.init alpha)) steps.tail).map
          (fun c => c.getD f 0))).foldl Tr.update (Tr.init alpha))) := by
  obtain ⟨h1, h2, -⟩ := sage_refines_spec names model loss alpha steps
  have hpt : ∀ s ∈ steps.tail, s.perm.Perm names := fun s hs => hp s (List.mem_of_mem_tail hs)
  have hkeys := sageContribsFrom_keys names model loss (MV.init (Tr.init alpha)) steps.tail f hf hpt
  have hvk : ∀ d ∈ varDicts names (MV.init (Tr.init alpha))
      (sageContribsFrom names model loss (MV.init (Tr.init alpha)) steps.tail), f ∈ Dict.keys d :=
    fun d hd => by rw [varDicts_keys names _ _ d hd]; exact hf
  have hb : (MV.init (Tr.init alpha)).virt f = Tr.init alpha := rfl
  have v1 : (runSage names model loss alpha steps).importance.virt f =
      ((sageContribsFrom names model loss (MV.init (Tr.init alpha)) steps.tail).map
        (fun c => c.getD f 0)).foldl Tr.update (Tr.init alpha) := by
    rw [h1, MV.run, MV.foldl_virt _ _ f hkeys, hb]
  have v2 : (runSage names model loss alpha steps).variance.virt f =
      (devSeries (Tr.init alpha) ((sageContribsFrom names model loss (MV.init (Tr.init alpha)) steps.tail).map
        (fun c => c.getD f 0))).foldl Tr.update (Tr.init alpha) := by
    rw [h2, MV.run, MV.foldl_virt _ _ f hvk, varDicts_getD names _ _ f hf (by simp [MV.init]) hkeys, hb]
  have b1 : (runSage names model loss alpha steps).importance.base.get = 0 := by
    rw [h1, MV.run, MV.foldl_base]; simp [MV.init]
  have b2 : (runSage names model loss alpha steps).variance.base.get = 0 := by
    rw [h2, MV.run, MV.foldl_base]; simp [MV.init]
  refine ⟨by rw [MV.getKey_eq_virt _ f b1, v1], by rw [MV.getKey_eq_virt _ f b2, v2], ?_⟩
  intro hne
  have hc : sageContribsFrom names model loss (MV.init (Tr.init alpha)) steps.tail ≠ [] := by
    intro h
    have := congrArg List.length h
    rw [sageContribsFrom_length] at this
    exact hne (List.length_eq_zero_iff.mp (by simpa using this))
  have k1 : f ∈ (runSage names model loss alpha steps).importance.trackers.keys := by
    rw [h1, MV.run]; exact MV.mem_keys_foldl _ _ f hc hkeys
  have k2 : f ∈ (runSage names model loss alpha steps).variance.trackers.keys := by
    rw [h2, MV.run]
    apply MV.mem_keys_foldl _ _ f _ hvk
    intro h
    cases hs : sageContribsFrom names model loss (MV.init (Tr.init alpha)) steps.tail with
    | nil => exact hc hs
    | cons a l => rw [hs] at h; simp [varDicts] at h
  exact ⟨by rw [MV.find?_eq_virt _ f k1, v1], by rw [MV.find?_eq_virt _ f k2, v2]⟩

/-- static mode, closed form: the importance of `f` is the uniform mean of its contributions -/
theorem sage_static_mean (names : List Nat) (model : Inst V → Dict K) (loss : Y → Dict K → K)
    (steps : List (SageObs K V Y)) (hp : ∀ s ∈ steps, s.perm.Perm names) (f : Nat) (hf : f ∈ names)
    (hne : steps.tail ≠ []) :
    (runSage names model loss none steps).importance.getKey f =
      ((sageContribsFrom names model loss (MV.init (Tr.init none)) steps.tail).map (fun c => c.getD f 0)).sum /
        (steps.tail.length : K) := by
  rw [(sage_refines_spec_feature names model loss none steps hp f hf).1, Tr.foldl_init_none]
  have hc : (sageContribsFrom names model loss (MV.init (Tr.init none)) steps.tail).map (fun c => c.getD f 0) ≠ [] := by
    intro h
    have := congrArg List.length h
    rw [List.length_map, sageContribsFrom_length] at this
    exact hne (List.length_eq_zero_iff.mp (by simpa using this))
  have := C10.welford_mean _ hc
  simpa [WelfordTracker.mean, Tr.get, sageContribsFrom_length] using this

/-- dynamic mode, closed form: exponential smoothing of the contributions, newest weight α, started at zero -/
theorem sage_dynamic (names : List Nat) (model : Inst V → Dict K) (loss : Y → Dict K → K) (α : K)
    (steps : List (SageObs K V Y)) (hp : ∀ s ∈ steps, s.perm.Perm names) (f : Nat) (hf : f ∈ names) :
    (runSage names model loss (some α) steps).importance.getKey f =
      ES.cf α ((sageContribsFrom names model loss (MV.init (Tr.init (some α))) steps.tail).map
        (fun c => c.getD f 0)).reverse := by
  rw [(sage_refines_spec_feature names model loss (some α) steps hp f hf).1, Tr.foldl_init_some]
  exact ES.run_cf α _

/-! ### non-vacuity at `K := ℚ` (same data as C01) -/
section Examples

def exModel : Inst ℚ → Dict ℚ := fun x => [(0, x 0 + 2 * x 1)]
def exLoss : ℚ → Dict ℚ → ℚ := fun y out => (out.getD 0 0 - y) * (out.getD 0 0 - y)
def exX (a b : ℚ) : Inst ℚ := fun i => if i = 0 then a else b
def exObs (a b y : ℚ) (perm : List Nat) : SageObs ℚ ℚ ℚ :=
  { x := exX a b, y := y, perm := perm, imp := fun S => imputeDefault exModel (fun _ => 1) S (exX a b) 2 }
def exSteps : List (SageObs ℚ ℚ ℚ) := [exObs 1 1 3 [0, 1], exObs 2 0 1 [1, 0], exObs 0 3 7 [0, 1]]

/-- the two chains: predictions 2 and 6, running mean prediction 2 then 4 -/
example : sageMargLosses exModel exLoss (MV.init (Tr.init none)) exSteps.tail = [1, 9] ∧
    sageContribsFrom [0, 1] exModel exLoss (MV.init (Tr.init none)) exSteps.tail =
      [[(1, 1), (0, -1)], [(0, -16), (1, 24)]] := by decide +kernel
example : (runSage [0, 1] exModel exLoss none exSteps).importanceValues = [(1, 25/2), (0, -17/2)] ∧
    (runSage [0, 1] exModel exLoss none exSteps).margLoss.get = 5 ∧
    (runSage [0, 1] exModel exLoss none exSteps).modelLoss.get = 1 ∧
    (runSage [0, 1] exModel exLoss none exSteps).margPredCur = [(0, 4)] := by decide +kernel
example : ∀ s ∈ exSteps, s.perm.Perm [0, 1] := by decide
example : ([0, 1, 2, 3] : List Nat).diff ([2, 0, 3, 1].take (1 + 1)) = [1, 3] := by decide

end Examples

end Ixai.C03
