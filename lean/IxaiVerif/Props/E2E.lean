/-
  E2E — end-to-end theorems about the EFFECTFUL layer (`Model/Effect.lean`) for streams in which callbacks fail, the
  caller catches the exception and goes on:  `for (x, y) in stream: try: explainer.explain_one(x, y) except: pass`.

  They compose
    C17  (failure atomicity: a failed call leaves estimates and `seen` untouched; `runCatching`, `*_stream_resume`),
    C15' (`E2E.sageExplainM_ok_pure`: a SUCCESSFUL effectful call is the pure `sageStep` for the imputer function made
          of the answers actually received — the variant of `C15.sage_agrees_with_pure` that does not need total
          oracles),
    C01  (`SageInv.step`: the pure step preserves the efficiency invariant, from ANY estimates satisfying it and for
          both values of `first` — a failed first call leaves `seen = 0`, so the next call is again a "first" one),
    C16a (`commit_nonneg`, the one-step fact behind `pfi_step_nonneg` / `sage_step_nonneg`).

  Callbacks. `O : Oracles K V Y` is indexed by the global invocation counter; it is universally quantified, so ANY
  pattern of failures at ANY positions is covered. For efficiency the callbacks are "deterministic where they answer"
  (`OAnswers O model loss`: `∀ c x r, O.model c x = .ok r → r = model x` and
  `∀ c y p r, O.loss c y p = .ok r → r = loss y p`); the storage oracle is arbitrary. For the variances and for
  `seen` nothing at all is assumed about the oracles.
  A call of the stream (`SageCall` / `PfiCall`) carries its own imputer computation (the storage it reads changes from
  call to call), observation, feature order and `update_storage` flag. Hypotheses on the imputer computation:
  `Frame` (it does not touch the estimates; both imputers of the model are instances), and for efficiency that its
  successful answers for the empty subset are faithful (`∀ w r, (imputeM [] n w).1 = .ok r → meanOutput r = model x`);
  `sage_efficiency_with_failures_marginal` discharges both for the library's marginal imputer.
  "After every call": the theorems hold for every stream, and every prefix of a stream is a stream
  (`sage_efficiency_with_failures_prefix`).
-/
import IxaiVerif.Proofs.E2E
import IxaiVerif.Props.C17
import IxaiVerif.Props.C16a

set_option linter.unusedSectionVars false
namespace Ixai.E2E
open Ixai Ixai.C17

/-! ### streams of calls -/
section Streams
variable {K : Type} [Add K] [Sub K] [Mul K] [Div K] [NatCast K] [OfNat K 0] [OfNat K 1] [RealOps K] [DecidableEq K]
variable {V Y : Type}

/-- one `explain_one` call of IncrementalSage: imputer computation, `x`, `y`, feature order, `update_storage` -/
abbrev SageCall (K V Y : Type) := (List Nat → Nat → M K (List (Dict K))) × Inst V × Y × List Nat × Bool
/-- one `explain_one` call of IncrementalPFI: imputer computation, `x`, `y`, `update_storage` -/
abbrev PfiCall (K V Y : Type) := (List Nat → Nat → M K (List (Dict K))) × Inst V × Y × Bool

def sageCalls (O : Oracles K V Y) (names : List Nat) (n : Nat) (obs : List (SageCall K V Y)) : List (M K (Dict K)) :=
  obs.map (fun o => sageExplainM O names o.1 o.2.1 o.2.2.1 n o.2.2.2.1 o.2.2.2.2)

def pfiCalls (O : Oracles K V Y) (names : List Nat) (n : Nat) (obs : List (PfiCall K V Y)) : List (M K (Dict K)) :=
  obs.map (fun o => pfiExplainM O names o.1 o.2.1 o.2.2.1 n o.2.2.2)

theorem runWorld_eq_runCatching {α : Type} (steps : List (M K α)) (w : World K) :
    runWorld steps w = runCatching steps w := by
  induction steps generalizing w with
  | nil => rfl
  | cons m ms ih => simp only [runWorld, runCatching, List.foldl_cons]; exact ih _

theorem sageCalls_take (O : Oracles K V Y) (names : List Nat) (n k : Nat) (obs : List (SageCall K V Y)) :
    (sageCalls O names n obs).take k = sageCalls O names n (obs.take k) := by
  simp [sageCalls, List.map_take]

theorem pfiCalls_take (O : Oracles K V Y) (names : List Nat) (n k : Nat) (obs : List (PfiCall K V Y)) :
    (pfiCalls O names n obs).take k = pfiCalls O names n (obs.take k) := by
  simp [pfiCalls, List.map_take]

/-! ### 3. `seen` counts the successful calls — oracles of any kind -/

/-- after a stream of IncrementalSage calls with caught failures, `seen_samples` has grown by the number of calls
    that returned normally (`runResults`: the results of the calls in order) -/
theorem seen_counts_successes_sage (O : Oracles K V Y) (names : List Nat) (n : Nat) (obs : List (SageCall K V Y))
    (himp : ∀ o ∈ obs, ∀ S n, Frame (o.1 S n)) (w0 : World K) :
    (runCatching (sageCalls O names n obs) w0).seen =
      w0.seen + (runResults (sageCalls O names n obs) w0).countP isOk := by
  rw [← runWorld_eq_runCatching]
  apply seen_runWorld
  intro m hm
  obtain ⟨o, ho, rfl⟩ := List.mem_map.mp hm
  rw [sageExplainM_eq]
  exact seenStep_of_shape (fun w => Frame.sageComputeM (himp o ho) _ w) (Frame.storageM _)

theorem seen_counts_successes_pfi (O : Oracles K V Y) (names : List Nat) (n : Nat) (obs : List (PfiCall K V Y))
    (himp : ∀ o ∈ obs, ∀ S n, Frame (o.1 S n)) (w0 : World K) :
    (runCatching (pfiCalls O names n obs) w0).seen =
      w0.seen + (runResults (pfiCalls O names n obs) w0).countP isOk := by
  rw [← runWorld_eq_runCatching]
  apply seen_runWorld
  intro m hm
  obtain ⟨o, ho, rfl⟩ := List.mem_map.mp hm
  rw [pfiExplainM_eq]
  exact seenStep_of_shape (fun w => Frame.pfiComputeM (himp o ho) w) (Frame.storageM _)

/-- both explainers, from the initial world (`seen = 0`): `seen` IS the number of successful calls -/
theorem seen_counts_successes (O : Oracles K V Y) (names : List Nat) (n : Nat) (w0 : World K) (h0 : w0.seen = 0) :
    (∀ obs : List (SageCall K V Y), (∀ o ∈ obs, ∀ S n, Frame (o.1 S n)) →
      (runCatching (sageCalls O names n obs) w0).seen = (runResults (sageCalls O names n obs) w0).countP isOk) ∧
    (∀ obs : List (PfiCall K V Y), (∀ o ∈ obs, ∀ S n, Frame (o.1 S n)) →
      (runCatching (pfiCalls O names n obs) w0).seen = (runResults (pfiCalls O names n obs) w0).countP isOk) := by
  refine ⟨fun obs h => ?_, fun obs h => ?_⟩
  · rw [seen_counts_successes_sage O names n obs h w0, h0, Nat.zero_add]
  · rw [seen_counts_successes_pfi O names n obs h w0, h0, Nat.zero_add]

end Streams

/-! ### 1. efficiency of IncrementalSage under failing callbacks -/
section Efficiency
variable {K : Type} [Field K] [CharZero K] [RealOps K] [DecidableEq K] {V Y : Type}

/-- the hypotheses on one call of the stream: the imputer computation does not touch the estimates, the feature order
    is a permutation of the feature names, and whenever the imputer computation answers for the empty subset, the
    mean of the returned predictions is the model's prediction -/
def SageCallOk (names : List Nat) (model : Inst V → Dict K) (n : Nat) (o : SageCall K V Y) : Prop :=
  (∀ S n, Frame (o.1 S n)) ∧ o.2.2.2.1.Perm names ∧ ∀ w r, (o.1 [] n w).1 = .ok r → meanOutput r = model o.2.1

/-- the invariant of C01 (`SageInv`: efficiency identity + all loss / importance trackers in step) survives any
    stream with caught failures, from ANY world whose estimates satisfy it -/
theorem sageInv_with_failures (names : List Nat) (hne : names ≠ []) (hn : names.Nodup)
    (model : Inst V → Dict K) (loss : Y → Dict K → K) (O : Oracles K V Y) (hO : OAnswers O model loss)
    (n : Nat) (obs : List (SageCall K V Y)) (hobs : ∀ o ∈ obs, SageCallOk names model n o)
    (w0 : World K) (h0 : SageInv names w0.est) :
    SageInv names (runCatching (sageCalls O names n obs) w0).est := by
  refine sage_stream_resume (SageInv names) O names n obs (fun o ho => (hobs o ho).1) ?_ w0 h0
  intro o ho w a ha hinv
  exact SageInv_of_ok hO hne hn (hobs o ho).2.1 (hobs o ho).1 (hobs o ho).2.2 _ w a ha hinv

/-- **Efficiency with failures.** Callbacks deterministic where they answer and failing at ANY positions (any storage
    oracle), any stream of calls whose imputer computations are framed and faithful on the empty subset where they
    answer, feature orders permutations of the (non-empty, duplicate-free) feature names, from the initial estimates:
    after the stream — all failures caught — the importance values sum to marginal loss minus model loss. -/
theorem sage_efficiency_with_failures (alpha : Option K) (names : List Nat) (hne : names ≠ []) (hn : names.Nodup)
    (model : Inst V → Dict K) (loss : Y → Dict K → K) (O : Oracles K V Y) (hO : OAnswers O model loss)
    (n : Nat) (obs : List (SageCall K V Y)) (hobs : ∀ o ∈ obs, SageCallOk names model n o)
    (w0 : World K) (h0 : w0.est = Est.init alpha) :
    (names.map (fun f => (runCatching (sageCalls O names n obs) w0).est.importance.getKey f)).sum =
      (runCatching (sageCalls O names n obs) w0).est.margLoss.get -
        (runCatching (sageCalls O names n obs) w0).est.modelLoss.get := by
  have h := sageInv_with_failures names hne hn model loss O hO n obs hobs w0 (h0 ▸ SageInv.init names alpha)
  rw [← h.sum]
  congr 1
  apply List.map_congr_left
  intro f _
  exact MV.getKey_eq_virt _ f h.base0

/-- … which is the explainer's own explained loss, for both values of `loss_bigger_is_better` -/
theorem sage_efficiency_with_failures_explained (alpha : Option K) (names : List Nat) (hne : names ≠ [])
    (hn : names.Nodup) (model : Inst V → Dict K) (loss : Y → Dict K → K) (O : Oracles K V Y)
    (hO : OAnswers O model loss) (n : Nat) (obs : List (SageCall K V Y))
    (hobs : ∀ o ∈ obs, SageCallOk names model n o) (w0 : World K) (h0 : w0.est = Est.init alpha) (lbb : Bool) :
    (names.map (fun f => (runCatching (sageCalls O names n obs) w0).est.importance.getKey f)).sum =
      (runCatching (sageCalls O names n obs) w0).est.explainedLoss lbb := by
  rw [sage_efficiency_with_failures alpha names hne hn model loss O hO n obs hobs w0 h0]
  cases lbb <;> simp [Est.explainedLoss, Est.marginalLoss, Est.modelLossV]

/-- after every call: every prefix of the stream -/
theorem sage_efficiency_with_failures_prefix (alpha : Option K) (names : List Nat) (hne : names ≠ [])
    (hn : names.Nodup) (model : Inst V → Dict K) (loss : Y → Dict K → K) (O : Oracles K V Y)
    (hO : OAnswers O model loss) (n : Nat) (obs : List (SageCall K V Y))
    (hobs : ∀ o ∈ obs, SageCallOk names model n o) (w0 : World K) (h0 : w0.est = Est.init alpha) (k : Nat) :
    (names.map (fun f => (runCatching ((sageCalls O names n obs).take k) w0).est.importance.getKey f)).sum =
      (runCatching ((sageCalls O names n obs).take k) w0).est.margLoss.get -
        (runCatching ((sageCalls O names n obs).take k) w0).est.modelLoss.get := by
  rw [sageCalls_take]
  exact sage_efficiency_with_failures alpha names hne hn model loss O hO n (obs.take k)
    (fun o ho => hobs o (List.mem_of_mem_take ho)) w0 h0

/-- the tracked importance keys after a stream with caught failures: none (no call has explained yet), or the
    feature names -/
theorem sageKeys_with_failures (names : List Nat) (hn : names.Nodup)
    (model : Inst V → Dict K) (loss : Y → Dict K → K) (O : Oracles K V Y) (hO : OAnswers O model loss)
    (n : Nat) (obs : List (SageCall K V Y)) (hobs : ∀ o ∈ obs, (∀ S n, Frame (o.1 S n)) ∧ o.2.2.2.1.Perm names)
    (w0 : World K) (h0 : SageKeys names w0.est) :
    SageKeys names (runCatching (sageCalls O names n obs) w0).est := by
  refine sage_stream_resume (SageKeys names) O names n obs (fun o ho => (hobs o ho).1) ?_ w0 h0
  intro o ho w a ha hinv
  obtain ⟨imp, -, -, he, -⟩ := sageExplainM_ok_pure hO (fun _ => []) (hobs o ho).2 hn (hobs o ho).1 _ w a ha
  rw [he]
  by_cases hs : w.seen = 0
  · simpa [sageStep, hs] using hinv
  · have := SageKeys.step names model loss w.est ⟨o.2.1, o.2.2.1, o.2.2.2.1, imp⟩ (hobs o ho).2 hinv
    right; simpa [sageStepObs, hs] using this

/-- the same for the reported dictionary `importance_values`: its values sum to the explained loss -/
theorem sage_efficiency_with_failures_dict (alpha : Option K) (names : List Nat) (hne : names ≠ [])
    (hn : names.Nodup) (model : Inst V → Dict K) (loss : Y → Dict K → K) (O : Oracles K V Y)
    (hO : OAnswers O model loss) (n : Nat) (obs : List (SageCall K V Y))
    (hobs : ∀ o ∈ obs, SageCallOk names model n o) (w0 : World K) (h0 : w0.est = Est.init alpha) (lbb : Bool) :
    ((runCatching (sageCalls O names n obs) w0).est.importanceValues.map Prod.snd).sum =
      (runCatching (sageCalls O names n obs) w0).est.explainedLoss lbb := by
  have heff := sage_efficiency_with_failures_explained alpha names hne hn model loss O hO n obs hobs w0 h0 lbb
  have hk := sageKeys_with_failures names hn model loss O hO n obs (fun o ho => ⟨(hobs o ho).1, (hobs o ho).2.1⟩)
    w0 (h0 ▸ Or.inl rfl)
  generalize (runCatching (sageCalls O names n obs) w0).est = e at heff hk ⊢
  rw [← heff]
  simp only [Est.importanceValues]
  rcases hk with hk | hk
  · have h1 : e.importance.get = [] := by
      have := MV.get_keys e.importance
      rw [hk] at this
      simpa [Dict.keys] using this
    rw [h1]
    have h2 : ∀ f ∈ names, e.importance.getKey f = 0 := by
      intro f _; simp [MV.getKey, h1, Dict.getD]
    rw [List.map_congr_left h2]; simp
  · have hnd : (Dict.keys e.importance.get).Nodup := by
      rw [MV.get_keys]; exact hk.nodup_iff.mpr hn
    rw [← Dict.sum_getD_keys _ hnd, MV.get_keys]
    exact (hk.map _).sum_eq

/-- one call of the stream with the library's marginal imputer (joint strategy): the stored rows and the row choices
    at this call, the observation, the feature order, the `update_storage` flag -/
structure MargCall (V Y : Type) where
  rows : Nat → Inst V
  rowOf : Nat → Nat → Nat
  x : Inst V
  y : Y
  perm : List Nat
  upd : Bool

def MargCall.toCall (O : Oracles K V Y) (o : MargCall V Y) : SageCall K V Y :=
  (imputeMarginalJoint O o.rows o.rowOf o.x, o.x, o.y, o.perm, o.upd)

/-- the library imputer satisfies the hypotheses on a call (distinct output labels, `n ≥ 1`) -/
theorem MargCall.ok (names : List Nat) (model : Inst V → Dict K) (loss : Y → Dict K → K) (O : Oracles K V Y)
    (hO : OAnswers O model loss) (n : Nat) (hn1 : 1 ≤ n) (o : MargCall V Y) (hp : o.perm.Perm names)
    (hk : (model o.x).keys.Nodup) : SageCallOk names model n (o.toCall O) :=
  ⟨Frame.imputeMarginalJoint o.rows o.rowOf o.x, hp,
    fun w r h => imputeMarginalJoint_faithful hO o.rows o.rowOf o.x n hn1 hk w r h⟩

/-- **Efficiency with failures, library imputer.** The model callback — also when it is invoked by the imputer — and
    the loss callback answer deterministically or fail, at any positions; the storage fails or not, arbitrarily;
    stored rows and row choices are arbitrary and may change from call to call. -/
theorem sage_efficiency_with_failures_marginal (alpha : Option K) (names : List Nat) (hne : names ≠ [])
    (hn : names.Nodup) (model : Inst V → Dict K) (loss : Y → Dict K → K) (O : Oracles K V Y)
    (hO : OAnswers O model loss) (n : Nat) (hn1 : 1 ≤ n) (obs : List (MargCall V Y))
    (hobs : ∀ o ∈ obs, o.perm.Perm names ∧ (model o.x).keys.Nodup)
    (w0 : World K) (h0 : w0.est = Est.init alpha) :
    (names.map (fun f =>
        (runCatching (sageCalls O names n (obs.map (MargCall.toCall O))) w0).est.importance.getKey f)).sum =
      (runCatching (sageCalls O names n (obs.map (MargCall.toCall O))) w0).est.margLoss.get -
        (runCatching (sageCalls O names n (obs.map (MargCall.toCall O))) w0).est.modelLoss.get := by
  refine sage_efficiency_with_failures alpha names hne hn model loss O hO n _ ?_ w0 h0
  intro c hc
  obtain ⟨o, ho, rfl⟩ := List.mem_map.mp hc
  exact MargCall.ok names model loss O hO n hn1 o (hobs o ho).1 (hobs o ho).2

end Efficiency

/-! ### 2. variances are non-negative under failing callbacks — oracles of any kind -/
section Variance
variable {K : Type} [Field K] [LinearOrder K] [IsStrictOrderedRing K] [RealOps K] {V Y : Type}

theorem variance_nonneg_with_failures_sage (alpha : Option K) (hα : ∀ a, alpha = some a → 0 ≤ a ∧ a ≤ 1)
    (O : Oracles K V Y) (names : List Nat) (n : Nat) (obs : List (SageCall K V Y))
    (himp : ∀ o ∈ obs, ∀ S n, Frame (o.1 S n)) (w0 : World K) (h0 : w0.est = Est.init alpha) (f : Nat) :
    0 ≤ (runCatching (sageCalls O names n obs) w0).est.variance.getKey f := by
  apply MV.NonnegInv.getKey_nonneg
  refine sage_stream_resume (fun e => e.variance.NonnegInv) O names n obs himp ?_ w0
    (h0 ▸ C16a.init_nonneg alpha hα)
  intro o ho w a ha hinv
  rw [sageExplainM_eq] at ha ⊢
  obtain ⟨c, w1, -, he, -⟩ := explainShape_ok_inv (Frame.sageComputeM (himp o ho) _ w) (Frame.storageM _) ha
  rw [he]; exact sageCommit_nonneg names c w.est hinv

theorem variance_nonneg_with_failures_pfi (alpha : Option K) (hα : ∀ a, alpha = some a → 0 ≤ a ∧ a ≤ 1)
    (O : Oracles K V Y) (names : List Nat) (n : Nat) (obs : List (PfiCall K V Y))
    (himp : ∀ o ∈ obs, ∀ S n, Frame (o.1 S n)) (w0 : World K) (h0 : w0.est = Est.init alpha) (f : Nat) :
    0 ≤ (runCatching (pfiCalls O names n obs) w0).est.variance.getKey f := by
  apply MV.NonnegInv.getKey_nonneg
  refine pfi_stream_resume (fun e => e.variance.NonnegInv) O names n obs himp ?_ w0
    (h0 ▸ C16a.init_nonneg alpha hα)
  intro o ho w a ha hinv
  rw [pfiExplainM_eq] at ha ⊢
  obtain ⟨c, w1, -, he, -⟩ := explainShape_ok_inv (Frame.pfiComputeM (himp o ho) w) (Frame.storageM _) ha
  rw [he]; exact pfiCommit_nonneg names c w.est hinv

/-- **Variances with failures.** Static mode or `0 ≤ α ≤ 1`, ANY oracles (no determinism, failures anywhere), any
    framed imputer computations: after any stream of `explain_one` calls with caught failures, through either
    explainer, every tracked variance is `≥ 0` -/
theorem variance_nonneg_with_failures (alpha : Option K) (hα : ∀ a, alpha = some a → 0 ≤ a ∧ a ≤ 1)
    (O : Oracles K V Y) (names : List Nat) (n : Nat) (w0 : World K) (h0 : w0.est = Est.init alpha) :
    (∀ (obs : List (PfiCall K V Y)), (∀ o ∈ obs, ∀ S n, Frame (o.1 S n)) → ∀ f,
      0 ≤ (runCatching (pfiCalls O names n obs) w0).est.variance.getKey f) ∧
    (∀ (obs : List (SageCall K V Y)), (∀ o ∈ obs, ∀ S n, Frame (o.1 S n)) → ∀ f,
      0 ≤ (runCatching (sageCalls O names n obs) w0).est.variance.getKey f) :=
  ⟨fun obs h f => variance_nonneg_with_failures_pfi alpha hα O names n obs h w0 h0 f,
   fun obs h f => variance_nonneg_with_failures_sage alpha hα O names n obs h w0 h0 f⟩

end Variance

/-! ### non-vacuity: toy callbacks over `ℚ`, d = 2 features, n = 1, failing at the invocations listed in `bad` -/
section Examples

local instance : RealOps ℚ := ⟨id, id, id, id⟩

def toyModel : Inst ℚ → Dict ℚ := fun x => [(0, x 0 + 2 * x 1)]
def toyLoss : ℚ → Dict ℚ → ℚ := fun y p => (y - p.getD 0 0) * (y - p.getD 0 0)

/-- every callback fails exactly at the invocation numbers in `bad`, and answers deterministically elsewhere -/
def toyO (bad : List Nat) : Oracles ℚ ℚ ℚ where
  model c x := if c ∈ bad then .error .model else .ok (toyModel x)
  loss c y p := if c ∈ bad then .error .loss else .ok (toyLoss y p)
  storage c := if c ∈ bad then .error .storage else .ok ()
  impute c _ n := if c ∈ bad then .error .imputer else .ok (List.replicate n [(0, 1)])

/-- the hypothesis `OAnswers` is satisfiable by failing oracles -/
theorem toyO_answers (bad : List Nat) : OAnswers (toyO bad) toyModel toyLoss := by
  constructor
  · intro c x r h
    by_cases hc : c ∈ bad <;> simp [toyO, hc] at h
    exact h.symm
  · intro c y p r h
    by_cases hc : c ∈ bad <;> simp [toyO, hc] at h
    exact h.symm

def toyX (a b : ℚ) : Inst ℚ := fun f => if f = 0 then a else b
def toyRows : Nat → Inst ℚ := fun _ _ => 1

/-- five calls with the library imputer -/
def toyObs : List (MargCall ℚ ℚ) :=
  [ ⟨toyRows, fun _ _ => 0, toyX 3 5, 10, [1, 0], true⟩,
    ⟨toyRows, fun _ _ => 0, toyX 1 2, 4, [0, 1], true⟩,
    ⟨toyRows, fun _ _ => 0, toyX 2 2, 7, [1, 0], true⟩,
    ⟨toyRows, fun _ _ => 0, toyX 0 1, 1, [0, 1], true⟩,
    ⟨toyRows, fun _ _ => 0, toyX 4 1, 7, [1, 0], false⟩ ]

def toyW0 : World ℚ := { est := Est.init none, seen := 0, calls := 0, log := [] }

/-- invocations: call 1: storage 0 (FAILS; `seen` stays 0) — call 2 (again a "first" call): storage 1 —
    call 3: model 2, loss 3, loss 4, model 5, loss 6 (FAILS) — call 4: 7 … 14 — call 5: 15 … 21 -/
def toyCalls : List (M ℚ (Dict ℚ)) := sageCalls (toyO [0, 6]) [0, 1] 1 (toyObs.map (MargCall.toCall (toyO [0, 6])))

theorem toyObs_ok : ∀ o ∈ toyObs, o.perm.Perm [0, 1] ∧ (toyModel o.x).keys.Nodup := by
  intro o ho
  simp only [toyObs, List.mem_cons, List.not_mem_nil, or_false] at ho
  rcases ho with rfl | rfl | rfl | rfl | rfl <;> exact ⟨by decide, by decide⟩

-- which calls failed, with which error; the failed calls did not count
example : (runResults toyCalls toyW0).map isOk = [false, true, false, true, true] ∧
    (runResults toyCalls toyW0)[0]? = some (.error .storage) ∧
    (runResults toyCalls toyW0)[2]? = some (.error .loss) := by decide +kernel
example : (runCatching toyCalls toyW0).seen = 3 ∧ (runCatching toyCalls toyW0).calls = 22 := by decide +kernel

/-- `seen_counts_successes` applies -/
example : (runCatching toyCalls toyW0).seen = (runResults toyCalls toyW0).countP isOk :=
  (seen_counts_successes (toyO [0, 6]) [0, 1] 1 toyW0 rfl).1 _ (by
    intro c hc
    obtain ⟨o, -, rfl⟩ := List.mem_map.mp hc
    exact Frame.imputeMarginalJoint o.rows o.rowOf o.x)

/-- `sage_efficiency_with_failures_marginal` applies: all its hypotheses are satisfiable, by oracles that do fail.
    (No type ascription: the statement is the theorem's conclusion at these arguments, i.e. the first conjunct of
    the next example — there it is written with the operations of `ℚ` instead of those of the field `ℚ`.) -/
example := sage_efficiency_with_failures_marginal none [0, 1] (by simp) (by decide) toyModel toyLoss (toyO [0, 6])
  (toyO_answers _) 1 (Nat.le_refl 1) toyObs toyObs_ok toyW0 rfl

/-- the identity evaluated directly; the numbers are not trivial (importances 15/2 and -7/2, explained loss 5 - 1) -/
example : ([0, 1].map (fun f => (runCatching toyCalls toyW0).est.importance.getKey f)).sum =
      (runCatching toyCalls toyW0).est.margLoss.get - (runCatching toyCalls toyW0).est.modelLoss.get ∧
    (runCatching toyCalls toyW0).est.importanceValues = [(0, 15/2), (1, -7/2)] ∧
    (runCatching toyCalls toyW0).est.explainedLoss false = 4 := by decide +kernel

/-- after every call (every prefix), and in the dynamic mode with α = 1/3 -/
example : ∀ k ∈ [0, 1, 2, 3, 4, 5],
    ([0, 1].map (fun f => (runCatching (toyCalls.take k) toyW0).est.importance.getKey f)).sum =
      (runCatching (toyCalls.take k) toyW0).est.explainedLoss true := by decide +kernel
example : ([0, 1].map (fun f =>
      (runCatching toyCalls { toyW0 with est := Est.init (some (1/3)) }).est.importance.getKey f)).sum =
    (runCatching toyCalls { toyW0 with est := Est.init (some (1/3)) }).est.explainedLoss true ∧
    (runCatching toyCalls { toyW0 with est := Est.init (some (1/3)) }).est.explainedLoss true ≠ 0 := by
  decide +kernel

/-- `variance_nonneg_with_failures` applies (untyped for the same reason; the statement is
    `∀ f, 0 ≤ (runCatching toyCalls toyW0).est.variance.getKey f`); the variances are not all zero -/
example := (variance_nonneg_with_failures none (by intro a h; cases h) (toyO [0, 6]) [0, 1] 1 toyW0 rfl).2
  (toyObs.map (MargCall.toCall (toyO [0, 6]))) (by
    intro c hc
    obtain ⟨o, -, rfl⟩ := List.mem_map.mp hc
    exact Frame.imputeMarginalJoint o.rows o.rowOf o.x)
example : (runCatching toyCalls toyW0).est.variances = [(0, 225/8), (1, 49/8)] := by decide +kernel

/-- PFI stream with a user imputer, failing at invocations 0 and 5 -/
def toyPfiObs : List (PfiCall ℚ ℚ ℚ) :=
  [ (callImputeUser (toyO [0, 5]), toyX 3 5, 10, true), (callImputeUser (toyO [0, 5]), toyX 1 2, 4, true),
    (callImputeUser (toyO [0, 5]), toyX 2 2, 7, true), (callImputeUser (toyO [0, 5]), toyX 0 1, 1, true),
    (callImputeUser (toyO [0, 5]), toyX 4 1, 7, false) ]
def toyPfiCalls : List (M ℚ (Dict ℚ)) := pfiCalls (toyO [0, 5]) [0, 1] 1 toyPfiObs

theorem toyPfiObs_frame : ∀ o ∈ toyPfiObs, ∀ S n, Frame (o.1 S n) := by
  intro o ho
  simp only [toyPfiObs, List.mem_cons, List.not_mem_nil, or_false] at ho
  rcases ho with rfl | rfl | rfl | rfl | rfl <;> exact Frame.callImputeUser

example : (runResults toyPfiCalls toyW0).map isOk = [false, true, false, true, true] ∧
    (runResults toyPfiCalls toyW0)[2]? = some (.error .loss) ∧
    (runCatching toyPfiCalls toyW0).seen = 3 ∧
    (runCatching toyPfiCalls toyW0).est.variances = [(0, 162), (1, 162)] := by decide +kernel
example : (runCatching toyPfiCalls toyW0).seen = (runResults toyPfiCalls toyW0).countP isOk :=
  (seen_counts_successes (toyO [0, 5]) [0, 1] 1 toyW0 rfl).2 toyPfiObs toyPfiObs_frame
example := (variance_nonneg_with_failures none (by intro a h; cases h) (toyO [0, 5]) [0, 1] 1 toyW0 rfl).1
  toyPfiObs toyPfiObs_frame

end Examples

end Ixai.E2E
