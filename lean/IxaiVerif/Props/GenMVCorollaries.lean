/-
  C12 restated FOR THE GENERATED MultiValueTracker (Gen/MultiValueTracker.lean, translated statement by statement from
  ixai/utils/tracker/multi_value.py on every run), by rewriting with the bridge of Props/GenMV.lean: after any sequence of update dicts
  (distinct keys each) applied to a fresh tracker by the GENERATED `update`, what the GENERATED `get` / `get_normalized` report is what
  C12 says.
-/
import IxaiVerif.Props.GenMV
import IxaiVerif.Props.C12

namespace Ixai.GenMVCorollaries
open Ixai Ixai.GenMV

variable {K : Type} [Field K] [CharZero K] [RealOps K] [DecidableEq K]

/-- the state the generated code reaches from a fresh tracker -/
def genRun (base : Tr K) (us : List (Dict K)) : Gen.MVGen K := us.foldl Gen.MultiValueTracker.update ⟨[], [], base, 0⟩

/-- what the generated `get()` reports is the model's report -/
theorem generated_get (base : Tr K) (us : List (Dict K)) (hus : ∀ u ∈ us, u.keys.Nodup) :
    Gen.MultiValueTracker.__call__ (genRun base us) = (MV.run base us).get :=
  (run_generated_eq_model base us hus).2.1

/-- per key: the reported value of a tracked key is the base statistic of the values supplied for it since it first appeared, with 0
    substituted in the updates that omit it -/
theorem generated_per_key (base : Tr K) (us : List (Dict K)) (hus : ∀ u ∈ us, u.keys.Nodup) (k : Nat)
    (hk : k ∈ (genRun base us).tracked_keys) :
    (Gen.MultiValueTracker.__call__ (genRun base us)).getD k 0 = ((MV.series us k).foldl Tr.update base).get := by
  have hR := (run_generated_eq_model base us hus).1
  have hk' : k ∈ (MV.run base us).trackers.keys := by
    have : (genRun base us).tracked_keys = (MV.run base us).trackers.keys := hR.2.1
    rw [← this]; exact hk
  rw [generated_get base us hus]
  exact C12.mv_per_key base us k hk'

/-- the update count of the generated state is the number of update calls, and keys are never duplicated -/
theorem generated_N_and_keys (base : Tr K) (us : List (Dict K)) (hus : ∀ u ∈ us, u.keys.Nodup) :
    (genRun base us).N = us.length ∧ (genRun base us).tracked_keys.Nodup := by
  have hR := (run_generated_eq_model base us hus).1
  refine ⟨?_, ?_⟩
  · have : (genRun base us).N = (MV.run base us).N := hR.2.2.2
    rw [this]; exact C12.mv_N base us
  · have : (genRun base us).tracked_keys = (MV.run base us).trackers.keys := hR.2.1
    rw [this]; exact C12.mv_keys_nodup base us hus

/-- the generated normalised view: more than one key and a non-zero sum — the values add up to one -/
theorem generated_normalized_sum_one (base : Tr K) (us : List (Dict K)) (hus : ∀ u ∈ us, u.keys.Nodup)
    (h : 1 < (MV.run base us).get.length) (h0 : ((MV.run base us).get.map Prod.snd).sum ≠ 0) :
    ((Gen.MultiValueTracker.get_normalized (genRun base us)).map Prod.snd).sum = 1 := by
  have := (run_generated_eq_model base us hus).2.2
  have e : Gen.MultiValueTracker.get_normalized (genRun base us) = (MV.run base us).getNormalized := this
  rw [e]
  exact C12.mv_normalized_sum_one _ h h0

end Ixai.GenMVCorollaries
