/-
  C20 — on long floating-point streams the trackers stay close to the exact-arithmetic result computed
  from the same inputs, and all results are bounded whenever all inputs are.

  The floating-point trackers are the machine-generated `Ixai.Gen.Fl.*Tracker` (every arithmetic operation
  of the Python source wrapped in the rounding operator `fl`, in the source's operation order); the exact
  trackers are `Ixai.Gen.*Tracker`. Rounding model: `StdModel fl u`, i.e. `fl x = x (1 + δ)`, `|δ| ≤ u`
  (standard model, no overflow/underflow) over an arbitrary linearly ordered field.
-/
import IxaiVerif.Proofs.Rounding
import IxaiVerif.Props.C10
import Mathlib.Data.Rat.Defs
import Mathlib.Algebra.Order.Ring.Rat

set_option linter.unusedSectionVars false
namespace Ixai.C20
open Ixai Ixai.Gen

section ES
variable {K : Type} [Field K] [LinearOrder K] [IsStrictOrderedRing K]

/-- exact smoothed value is bounded by the inputs (hull theorem with `lo = -M`, `hi = M`) -/
theorem es_exact_bounded (α : K) (h0 : 0 ≤ α) (h1 : α ≤ 1) (vs : List K) (M : K)
    (hM : ∀ v ∈ vs, |v| ≤ M) (hM0 : 0 ≤ M) : |(ES.run α vs).tracked_value| ≤ M := by
  let _ : RealOps K := ⟨id, id, id, id⟩  -- `es_in_hull_zero_inputs` carries an (unused) `RealOps` section variable
  have := C10.es_in_hull_zero_inputs α h0 h1 vs (-M) M (by linarith) hM0
    (fun v hv => (abs_le.mp (hM v hv)).1) (fun v hv => (abs_le.mp (hM v hv)).2)
  exact abs_le.mpr this

/-- **C20 (exponential smoothing).** In floating point the smoothed value differs from the exact one by
    at most `4 u M / α`, independently of the stream length. -/
theorem es_fl_error {fl : K → K} {u : K} (hfl : StdModel fl u) (hu : 0 ≤ u) {α : K} (hα0 : 0 < α) (hα1 : α ≤ 1)
    (h16 : 16 * u ≤ α) (vs : List K) (M : K) (hM : ∀ v ∈ vs, |v| ≤ M) (hM0 : 0 ≤ M) :
    |(FlES.run fl α vs).tracked_value - (ES.run α vs).tracked_value| ≤ 4 * u * M / α := by
  induction vs using List.reverseRecOn with
  | nil => simp [FlES.run, ES.run]; positivity
  | append_singleton vs v ih =>
    have hM' : ∀ w ∈ vs, |w| ≤ M := fun w hw => hM w (by simp [hw])
    have ih' := ih hM'
    have hv : |v| ≤ M := hM v (by simp)
    have ht := es_exact_bounded α hα0.le hα1 vs M hM' hM0
    rw [FlES.run_snoc, ES.run_snoc, (FlES.update_spec fl _ v).2.2, (ES.update_spec _ v).2.2,
      FlES.run_alpha, ES.run_alpha]
    have hstep := FlES.step_error hfl (t' := (FlES.run fl α vs).tracked_value) hα0.le hα1 hu
      (by linarith) ht hv
    refine hstep.trans ?_
    have hE : 4 * u * M / α * α = 4 * u * M := by field_simp
    exact FlES.step_arith hα0 hα1 hu h16 hM0 hE rfl ih'

/-- **C20 (boundedness, exponential smoothing).** All floating-point results are bounded whenever the inputs are. -/
theorem es_fl_bounded {fl : K → K} {u : K} (hfl : StdModel fl u) (hu : 0 ≤ u) {α : K} (hα0 : 0 < α) (hα1 : α ≤ 1)
    (h16 : 16 * u ≤ α) (vs : List K) (M : K) (hM : ∀ v ∈ vs, |v| ≤ M) (hM0 : 0 ≤ M) :
    |(FlES.run fl α vs).tracked_value| ≤ 5 / 4 * M := by
  have he := es_fl_error hfl hu hα0 hα1 h16 vs M hM hM0
  have ht := es_exact_bounded α hα0.le hα1 vs M hM hM0
  have h4 : 4 * u * M / α ≤ 1 / 4 * M := by
    rw [div_le_iff₀ hα0]
    nlinarith [mul_le_mul_of_nonneg_right h16 hM0]
  have := abs_sub_abs_le_abs_sub (FlES.run fl α vs).tracked_value (ES.run α vs).tracked_value
  linarith

end ES

section Welford
variable {K : Type} [Field K] [LinearOrder K] [IsStrictOrderedRing K] [RealOps K]

/-- exact Welford mean is bounded by the inputs (also for the empty stream, where it is `0`) -/
theorem welford_exact_bounded (vs : List K) (M : K) (hM : ∀ v ∈ vs, |v| ≤ M) (hM0 : 0 ≤ M) :
    |(Welford.run vs).tracked_value| ≤ M := by
  rcases eq_or_ne vs [] with rfl | hne
  · simpa [Welford.run] using hM0
  · have := C10.welford_between_min_max vs hne (-M) M
      (fun v hv => (abs_le.mp (hM v hv)).1) (fun v hv => (abs_le.mp (hM v hv)).2)
    exact abs_le.mpr this

/-- **C20 (Welford mean).** In floating point the running mean of `n` values differs from the exact mean of the
    same values by at most `6 n u M`, as long as `n u ≤ 1/100`. -/
theorem welford_mean_fl_error {fl : K → K} {u : K} (hfl : StdModel fl u) (hu : 0 ≤ u) (vs : List K) (M : K)
    (hM : ∀ v ∈ vs, |v| ≤ M) (hM0 : 0 ≤ M) (hnu : (vs.length : K) * u ≤ 1 / 100) :
    |(FlWelford.run fl vs).tracked_value - (Welford.run vs).tracked_value| ≤ 6 * (vs.length : K) * u * M := by
  induction vs using List.reverseRecOn with
  | nil => simp [FlWelford.run, Welford.run]
  | append_singleton vs v ih =>
    have hM' : ∀ w ∈ vs, |w| ≤ M := fun w hw => hM w (by simp [hw])
    have hn : (0 : K) ≤ (vs.length : K) := Nat.cast_nonneg _
    have hnu' : ((vs.length : K) + 1) * u ≤ 1 / 100 := by
      simpa [List.length_append] using hnu
    have hnu0 : (vs.length : K) * u ≤ 1 / 100 := by nlinarith
    have hu100 : 100 * u ≤ 1 := by nlinarith
    have ih' := ih hM' hnu0
    have hv : |v| ≤ M := hM v (by simp)
    have hm := welford_exact_bounded vs M hM' hM0
    have hmn := welford_exact_bounded (vs ++ [v]) M hM hM0
    rw [Welford.run_snoc, (Welford.update_spec _ v).2.1, Welford.run_N] at hmn
    rw [FlWelford.run_snoc, Welford.run_snoc, (FlWelford.update_spec fl _ v).2.1,
      (Welford.update_spec _ v).2.1, FlWelford.run_N, Welford.run_N]
    have hD : 6 * (vs.length : K) * u * M ≤ 3 / 50 * M := by
      have : 6 * (vs.length : K) * u * M = 6 * ((vs.length : K) * u) * M := by ring
      rw [this]; gcongr; linarith
    have hstep := FlWelford.step_error hfl hn hu hu100 hv hm hmn ih' hD
    refine hstep.trans ?_
    have := FlWelford.step_arith hn hu hM0
    simpa [List.length_append] using this

/-- the same bound for the reported `mean` -/
theorem welford_mean_fl_error' {fl : K → K} {u : K} (hfl : StdModel fl u) (hu : 0 ≤ u) (vs : List K) (M : K)
    (hM : ∀ v ∈ vs, |v| ≤ M) (hM0 : 0 ≤ M) (hnu : (vs.length : K) * u ≤ 1 / 100) :
    |Fl.WelfordTracker.mean (FlWelford.run fl vs) - (Welford.run vs).mean| ≤ 6 * (vs.length : K) * u * M :=
  welford_mean_fl_error hfl hu vs M hM hM0 hnu

/-- **C20 (boundedness, Welford mean).** All floating-point means are bounded whenever the inputs are. -/
theorem welford_fl_bounded {fl : K → K} {u : K} (hfl : StdModel fl u) (hu : 0 ≤ u) (vs : List K) (M : K)
    (hM : ∀ v ∈ vs, |v| ≤ M) (hM0 : 0 ≤ M) (hnu : (vs.length : K) * u ≤ 1 / 100) :
    |(FlWelford.run fl vs).tracked_value| ≤ 53 / 50 * M := by
  have he := welford_mean_fl_error hfl hu vs M hM hM0 hnu
  have ht := welford_exact_bounded vs M hM hM0
  have h4 : 6 * (vs.length : K) * u * M ≤ 3 / 50 * M := by
    have : 6 * (vs.length : K) * u * M = 6 * ((vs.length : K) * u) * M := by ring
    rw [this]; gcongr; linarith
  have := abs_sub_abs_le_abs_sub (FlWelford.run fl vs).tracked_value (Welford.run vs).tracked_value
  linarith

/-- **C20 (boundedness, `sum_squares`).** The floating-point accumulator of squared deviations stays bounded:
    `|sum_squares| ≤ 5 n M²`. -/
theorem welford_ss_fl_bounded {fl : K → K} {u : K} (hfl : StdModel fl u) (hu : 0 ≤ u) (vs : List K) (M : K)
    (hM : ∀ v ∈ vs, |v| ≤ M) (hM0 : 0 ≤ M) (hnu : (vs.length : K) * u ≤ 1 / 100) :
    |(FlWelford.run fl vs).sum_squares| ≤ 5 * (vs.length : K) * M ^ 2 := by
  induction vs using List.reverseRecOn with
  | nil => simp [FlWelford.run]
  | append_singleton vs v ih =>
    have hM' : ∀ w ∈ vs, |w| ≤ M := fun w hw => hM w (by simp [hw])
    have hn : (0 : K) ≤ (vs.length : K) := Nat.cast_nonneg _
    have hnu' : ((vs.length : K) + 1) * u ≤ 1 / 100 := by
      simpa [List.length_append] using hnu
    have hnu0 : (vs.length : K) * u ≤ 1 / 100 := by nlinarith
    have hu100 : 100 * u ≤ 1 := by nlinarith
    have ih' := ih hM' hnu0
    have hv : |v| ≤ M := hM v (by simp)
    have ha := welford_fl_bounded hfl hu vs M hM' hM0 hnu0
    have hb := welford_fl_bounded hfl hu (vs ++ [v]) M hM hM0 hnu
    rw [FlWelford.run_snoc, (FlWelford.update_spec fl _ v).2.1] at hb
    rw [FlWelford.run_snoc, (FlWelford.update_spec fl _ v).2.2]
    refine (FlWelford.ss_step hfl hu100 hv ha hb ih').trans ?_
    have hM2 : 0 ≤ M ^ 2 := by positivity
    have e : (5 * (vs.length : K) * M ^ 2 + 221 / 50 * M ^ 2) * (1 + u) =
        (5 * (vs.length : K) + 221 / 50 + 5 * ((vs.length : K) * u) + 221 / 50 * u) * M ^ 2 := by ring
    have e2 : (((vs ++ [v]).length : ℕ) : K) = (vs.length : K) + 1 := by simp [List.length_append]
    rw [e, e2]
    gcongr
    linarith

/-- **C20 (boundedness, variance).** The reported floating-point variance is at most `5.05 M²`. -/
theorem welford_var_fl_bounded {fl : K → K} {u : K} (hfl : StdModel fl u) (hu : 0 ≤ u) (vs : List K) (M : K)
    (hM : ∀ v ∈ vs, |v| ≤ M) (hM0 : 0 ≤ M) (hnu : (vs.length : K) * u ≤ 1 / 100) :
    |Fl.WelfordTracker.var fl (FlWelford.run fl vs)| ≤ 101 / 20 * M ^ 2 := by
  have hM2 : 0 ≤ M ^ 2 := by positivity
  rcases Nat.eq_zero_or_pos vs.length with h0 | h0
  · -- empty stream: `u ≤ 1/100` is not available, but the variance is `fl (0 / 1) = 0`
    have hnil : vs = [] := List.length_eq_zero_iff.mp h0
    have hfl0 : fl 0 = 0 := by obtain ⟨δ, _, e⟩ := hfl 0; simpa using e
    subst hnil
    simp only [Fl.WelfordTracker.var, FlWelford.run, List.foldl_nil, FlWelford.init_ss, zero_div, hfl0, abs_zero]
    positivity
  · have hs := welford_ss_fl_bounded hfl hu vs M hM hM0 hnu
    simp only [Fl.WelfordTracker.var, FlWelford.run_N]
    have hq : |(FlWelford.run fl vs).sum_squares / ((Nat.max vs.length 1 : ℕ) : K)| ≤ 5 * M ^ 2 := by
      have hpos : (0 : K) < ((Nat.max vs.length 1 : ℕ) : K) := by
        exact_mod_cast Nat.lt_of_lt_of_le Nat.zero_lt_one (Nat.le_max_right _ _)
      have hle : (vs.length : K) ≤ ((Nat.max vs.length 1 : ℕ) : K) := by
        exact_mod_cast Nat.le_max_left _ _
      rw [abs_div, abs_of_pos hpos, div_le_iff₀ hpos]
      calc _ ≤ 5 * (vs.length : K) * M ^ 2 := hs
        _ = 5 * M ^ 2 * (vs.length : K) := by ring
        _ ≤ _ := by gcongr
    have h := FlWelford.abs_fl_le hfl hq
    have hu100 : u ≤ 1 / 100 := by
      have : (1 : K) ≤ (vs.length : K) := by exact_mod_cast h0
      nlinarith
    have : 5 * M ^ 2 * (1 + u) ≤ 5 * M ^ 2 * (1 + 1 / 100) := by gcongr
    linarith

/-- **C20 (no cancellation in `sum_squares`).** In exact arithmetic every increment of `sum_squares` equals
    `(N-1)/N * (v - mean_old)²` with `N` the new count, hence is non-negative. -/
theorem welford_increment_eq (s : WelfordTracker K) (v : K) :
    (s.update v).sum_squares - s.sum_squares =
      (s.N : K) / ((s.N : K) + 1) * (v - s.tracked_value) ^ 2 := by
  have h : ((s.N : K) + 1) ≠ 0 := Nat.cast_add_one_ne_zero _
  rw [(Welford.update_spec s v).2.2]; field_simp; ring

theorem welford_increment_nonneg (s : WelfordTracker K) (v : K) :
    s.sum_squares ≤ (s.update v).sum_squares := by
  have h := welford_increment_eq s v
  have hn : (0 : K) ≤ (s.N : K) := Nat.cast_nonneg _
  have : 0 ≤ (s.N : K) / ((s.N : K) + 1) * (v - s.tracked_value) ^ 2 := by positivity
  linarith

end Welford

/-! non-vacuity: a concrete non-identity rounding operator over `ℚ` that satisfies the standard model, and the
    theorems instantiated with it on concrete streams pushed through the generated code -/
section Examples

/-- always rounds away from zero by the relative amount `2⁻¹⁰` -/
def flQ (x : ℚ) : ℚ := x * (1 + 1 / 1024)

theorem flQ_std : StdModel flQ (1 / 1024) := fun x => ⟨1 / 1024, by norm_num [abs_of_nonneg], rfl⟩

example : flQ 1 ≠ 1 := by norm_num [flQ]

theorem mem_pm {vs : List ℚ} (h : ∀ v ∈ vs, v = 1 ∨ v = -1) : ∀ v ∈ vs, |v| ≤ (1 : ℚ) := by
  intro v hv; rcases h v hv with rfl | rfl <;> norm_num

/-- `es_fl_error`, hypotheses satisfied: α = 1/2, u = 2⁻¹⁰, M = 1, stream `[1, -1]` -/
example : |(FlES.run flQ (1 / 2) [1, -1]).tracked_value - (ES.run (1 / 2 : ℚ) [1, -1]).tracked_value|
    ≤ 4 * (1 / 1024) * 1 / (1 / 2) :=
  es_fl_error flQ_std (by norm_num) (by norm_num) (by norm_num) (by norm_num) [1, -1] 1
    (mem_pm (by simp)) (by norm_num)

/-- … and the two sides really differ (the statement is not about `fl = id`) -/
example : (FlES.run flQ (1 / 2) [1, -1]).tracked_value ≠ (ES.run (1 / 2 : ℚ) [1, -1]).tracked_value := by
  norm_num [FlES.run, ES.run, Fl.ExponentialSmoothingTracker.update, Fl.ExponentialSmoothingTracker.init,
    ExponentialSmoothingTracker.update, ExponentialSmoothingTracker.init, flQ]

example : |(FlES.run flQ (1 / 2) [1, -1]).tracked_value| ≤ 5 / 4 * 1 :=
  es_fl_bounded flQ_std (by norm_num) (by norm_num) (by norm_num) (by norm_num) [1, -1] 1
    (mem_pm (by simp)) (by norm_num)

/-- `welford_mean_fl_error`, hypotheses satisfied: u = 2⁻¹⁰, M = 1, stream `[1, -1, 1]` (n u = 3/1024 ≤ 1/100) -/
example : |(FlWelford.run flQ [1, -1, 1]).tracked_value - (Welford.run ([1, -1, 1] : List ℚ)).tracked_value|
    ≤ 6 * (([1, -1, 1] : List ℚ).length : ℚ) * (1 / 1024) * 1 :=
  welford_mean_fl_error flQ_std (by norm_num) [1, -1, 1] 1 (mem_pm (by simp)) (by norm_num) (by norm_num)

example : (FlWelford.run flQ [1, -1, 1]).tracked_value ≠ (Welford.run ([1, -1, 1] : List ℚ)).tracked_value := by
  norm_num [FlWelford.run, Welford.run, Fl.WelfordTracker.update, Fl.WelfordTracker.init,
    WelfordTracker.update, WelfordTracker.init, flQ]

example : |(FlWelford.run flQ [1, -1, 1]).tracked_value| ≤ 53 / 50 * 1 :=
  welford_fl_bounded flQ_std (by norm_num) [1, -1, 1] 1 (mem_pm (by simp)) (by norm_num) (by norm_num)

example : |(FlWelford.run flQ [1, -1, 1]).sum_squares| ≤ 5 * (([1, -1, 1] : List ℚ).length : ℚ) * 1 ^ 2 :=
  welford_ss_fl_bounded flQ_std (by norm_num) [1, -1, 1] 1 (mem_pm (by simp)) (by norm_num) (by norm_num)

example : |Fl.WelfordTracker.var flQ (FlWelford.run flQ [1, -1, 1])| ≤ 101 / 20 * 1 ^ 2 :=
  welford_var_fl_bounded flQ_std (by norm_num) [1, -1, 1] 1 (mem_pm (by simp)) (by norm_num) (by norm_num)

example : (Welford.run ([1, 2] : List ℚ)).sum_squares ≤ ((Welford.run ([1, 2] : List ℚ)).update 4).sum_squares :=
  welford_increment_nonneg _ _

end Examples

end Ixai.C20
