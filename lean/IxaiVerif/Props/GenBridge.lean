/-
  Bridge between the GENERATED explainers (Gen/IncrementalPFI.lean, Gen/IncrementalSage.lean: `explain_one` translated
  statement by statement from the Python source by tools/py2lean_eff.py) and the hand-written effectful model
  (Model/Effect.lean) that the property theorems C01–C03, C15, C17 and the end-to-end theorems are stated about.

  `feature_names` has no duplicates (a Python dict keyed by feature name cannot tell two equal names apart; the harness
  only uses distinct names), and `np.random.permutation(n)` returns a duplicate-free list of indices below `n`.
-/
import IxaiVerif.Proofs.GenBridge

namespace Ixai.GenBridge
open Ixai

variable {K : Type} [Add K] [Sub K] [Mul K] [Div K] [NatCast K] [OfNat K 0] [OfNat K 1] [RealOps K] [DecidableEq K]
variable {V Y : Type}

/-- the features in the order `[self.feature_names[i] for i in np.random.permutation(len(self.feature_names))]` -/
def permChain (names : List Nat) (permutation : Nat → List Nat) : List Nat :=
  (permutation names.length).map (fun i => names.getD i 0)

/-- the generated `IncrementalPFI.explain_one` IS the model `pfiExplainM` (with the effective inner-sample count) -/
theorem pfi_generated_eq_model (O : Oracles K V Y) (names : List Nat) (hnd : names.Nodup) (nDefault : Nat)
    (imputeM : List Nat → Nat → M K (List (Dict K))) (x : Inst V) (y : Y) (n? : Option Nat) (upd : Bool) :
    Gen.IncrementalPFI.explain_one O names nDefault imputeM x y n? upd
      = pfiExplainM O names imputeM x y (n?.getD nDefault) upd :=
  pfi_generated_eq_model' O names hnd nDefault imputeM x y n? upd

/-- the generated `IncrementalSage.explain_one` IS the model `sageExplainM` on the permutation chain -/
theorem sage_generated_eq_model (O : Oracles K V Y) (names : List Nat) (hnd : names.Nodup) (nDefault : Nat)
    (permutation : Nat → List Nat) (hperm : (permChain names permutation).Nodup)
    (imputeM : List Nat → Nat → M K (List (Dict K))) (x : Inst V) (y : Y) (n? : Option Nat) (upd : Bool) :
    Gen.IncrementalSage.explain_one O names nDefault permutation imputeM x y n? upd
      = sageExplainM O names imputeM x y (n?.getD nDefault) (permChain names permutation) upd :=
  sage_generated_eq_model' O names hnd nDefault permutation hperm imputeM x y n? upd

/-- the hypotheses are satisfiable: three distinct names, the permutation (2 0 1) of their positions -/
example : ([4, 7, 9] : List Nat).Nodup ∧ (permChain [4, 7, 9] (fun _ => [2, 0, 1])).Nodup
    ∧ permChain [4, 7, 9] (fun _ => [2, 0, 1]) = [9, 4, 7] := by decide

end Ixai.GenBridge

