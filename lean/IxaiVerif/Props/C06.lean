/-
  C06 — what an imputer feeds to the model and what it returns.
  "Every model evaluation made by an imputer uses an input that agrees with the explained instance on all
  features outside the requested subset and takes each feature inside it from the background: the configured
  default (DefaultImputer) or the value that feature has in a currently stored observation (MarginalImputer; the
  same stored observation for all features under the joint strategy). impute returns exactly n_samples
  predictions in the model's output form, returns the unperturbed prediction n_samples times for an empty
  subset, and never modifies the instance, the subset, or the storage."

  The theorems are about `Ixai.{jointInputs, productInputs, defaultInput, imputeJoint, imputeProduct,
  imputeDefault}` (Model/Imputer.lean). The model evaluations an imputer makes are, by definition of the
  `impute*` functions, `model z` for exactly the inputs `z` of the corresponding `*Inputs` list
  (`impute_evaluations` below records this), so statements about "every `z ∈ jointInputs …`" are statements about
  every model evaluation. `rows r` is the stored observation in slot `r`, `m` the number of stored rows; the
  random row choices `rowOf` are universally quantified, the range hypothesis on them (`< m`, Python's
  `random.choices` / `rng.choice` over the stored rows) is only used to conclude that the row is a genuinely
  stored one. Non-modification of instance/subset/storage is immediate for pure functions and is checked against
  the real code elsewhere; it is not stated here.
  `V` (feature values), `O` (model outputs) are arbitrary types; `K` is any field of characteristic 0.
-/
import IxaiVerif.Proofs.Imputer
import Mathlib.Data.Rat.Defs
import Mathlib.Tactic.NormNum

set_option linter.unusedSectionVars false
namespace Ixai.C06
open Ixai

section Inputs
variable {V O : Type}

/-- the model is evaluated on exactly the listed inputs (in order); DefaultImputer evaluates it on the single
    input `defaultInput …` and repeats the prediction -/
theorem impute_evaluations (model : Inst V → O) (rows : Nat → Inst V) (values : Inst V) (S : List Nat)
    (x : Inst V) (n : Nat) (rowOf : Nat → Nat) (rowOf₂ : Nat → Nat → Nat) :
    imputeJoint model rows S x n rowOf = (jointInputs rows S x n rowOf).map model ∧
    imputeProduct model rows S x n rowOf₂ = (productInputs rows S x n rowOf₂).map model ∧
    imputeDefault model values S x n = List.replicate n (model (defaultInput values S x)) :=
  ⟨rfl, rfl, rfl⟩

/-- the `j`-th input of each marginal strategy, exactly -/
theorem joint_input_at (rows : Nat → Inst V) (S : List Nat) (x : Inst V) (n : Nat) (rowOf : Nat → Nat)
    (j : Nat) (hj : j < n) :
    (jointInputs rows S x n rowOf)[j]? = some (overlay x S (rows (rowOf j))) := by
  simp [jointInputs, hj]

theorem product_input_at (rows : Nat → Inst V) (S : List Nat) (x : Inst V) (n : Nat) (rowOf : Nat → Nat → Nat)
    (j : Nat) (hj : j < n) :
    (productInputs rows S x n rowOf)[j]? = some (overlay x S (fun f => rows (rowOf j f) f)) := by
  simp [productInputs, hj]

/-- outside the requested subset every input agrees with the explained instance -/
theorem overlay_outside (rows : Nat → Inst V) (values : Inst V) (S : List Nat) (x : Inst V) (n : Nat)
    (rowOf : Nat → Nat) (rowOf₂ : Nat → Nat → Nat) (f : Nat) (hf : f ∉ S) :
    (∀ z ∈ jointInputs rows S x n rowOf, z f = x f) ∧
    (∀ z ∈ productInputs rows S x n rowOf₂, z f = x f) ∧
    defaultInput values S x f = x f := by
  refine ⟨?_, ?_, overlay_of_not_mem x S values hf⟩
  · intro z hz
    obtain ⟨j, _, rfl⟩ := List.mem_map.mp hz
    exact overlay_of_not_mem _ _ _ hf
  · intro z hz
    obtain ⟨j, _, rfl⟩ := List.mem_map.mp hz
    exact overlay_of_not_mem _ _ _ hf

/-- joint strategy: inside the subset every feature of an input comes from ONE stored row, the row drawn for
    that inner sample -/
theorem joint_inside (rows : Nat → Inst V) (S : List Nat) (x : Inst V) (n : Nat) (rowOf : Nat → Nat) :
    ∀ z ∈ jointInputs rows S x n rowOf, ∃ j < n, ∀ f ∈ S, z f = rows (rowOf j) f := by
  intro z hz
  obtain ⟨j, hj, rfl⟩ := List.mem_map.mp hz
  exact ⟨j, List.mem_range.mp hj, fun f hf => overlay_of_mem _ _ _ hf⟩

/-- … a genuinely stored row when the draws are in range -/
theorem joint_inside_stored (rows : Nat → Inst V) (S : List Nat) (x : Inst V) (n : Nat) (rowOf : Nat → Nat)
    (m : Nat) (hrow : ∀ j < n, rowOf j < m) :
    ∀ z ∈ jointInputs rows S x n rowOf, ∃ r < m, ∀ f ∈ S, z f = rows r f := by
  intro z hz
  obtain ⟨j, hj, h⟩ := joint_inside rows S x n rowOf z hz
  exact ⟨rowOf j, hrow j hj, h⟩

/-- product strategy: inside the subset each feature comes from the stored row drawn for that sample and feature -/
theorem product_inside (rows : Nat → Inst V) (S : List Nat) (x : Inst V) (n : Nat) (rowOf : Nat → Nat → Nat) :
    ∀ z ∈ productInputs rows S x n rowOf, ∃ j < n, ∀ f ∈ S, z f = rows (rowOf j f) f := by
  intro z hz
  obtain ⟨j, hj, rfl⟩ := List.mem_map.mp hz
  exact ⟨j, List.mem_range.mp hj, fun f hf => overlay_of_mem _ _ _ hf⟩

theorem product_inside_stored (rows : Nat → Inst V) (S : List Nat) (x : Inst V) (n : Nat)
    (rowOf : Nat → Nat → Nat) (m : Nat) (hrow : ∀ j < n, ∀ f ∈ S, rowOf j f < m) :
    ∀ z ∈ productInputs rows S x n rowOf, ∀ f ∈ S, ∃ r < m, z f = rows r f := by
  intro z hz f hf
  obtain ⟨j, hj, h⟩ := product_inside rows S x n rowOf z hz
  exact ⟨rowOf j f, hrow j hj f hf, h f hf⟩

/-- DefaultImputer: inside the subset the configured default -/
theorem default_inside (values : Inst V) (S : List Nat) (x : Inst V) :
    ∀ f ∈ S, defaultInput values S x f = values f :=
  fun _ hf => overlay_of_mem x S values hf

/-- exactly `n_samples` predictions -/
theorem impute_length (model : Inst V → O) (rows : Nat → Inst V) (values : Inst V) (S : List Nat)
    (x : Inst V) (n : Nat) (rowOf : Nat → Nat) (rowOf₂ : Nat → Nat → Nat) :
    (imputeJoint model rows S x n rowOf).length = n ∧
    (imputeProduct model rows S x n rowOf₂).length = n ∧
    (imputeDefault model values S x n).length = n := by
  simp [imputeJoint, imputeProduct, imputeDefault, jointInputs, productInputs]

/-- empty subset: the unperturbed prediction, `n_samples` times -/
theorem impute_empty_subset (model : Inst V → O) (rows : Nat → Inst V) (values : Inst V)
    (x : Inst V) (n : Nat) (rowOf : Nat → Nat) (rowOf₂ : Nat → Nat → Nat) :
    imputeJoint model rows [] x n rowOf = List.replicate n (model x) ∧
    imputeProduct model rows [] x n rowOf₂ = List.replicate n (model x) ∧
    imputeDefault model values [] x n = List.replicate n (model x) := by
  have h : ∀ g : Nat → Inst V, ((List.range n).map g).map model = (List.range n).map (fun j => model (g j)) := by
    intro g; simp [List.map_map, Function.comp_def]
  refine ⟨?_, ?_, ?_⟩
  · simp only [imputeJoint, jointInputs, h, overlay_nil]
    exact List.ext_getElem (by simp) (by simp)
  · simp only [imputeProduct, productInputs, h, overlay_nil]
    exact List.ext_getElem (by simp) (by simp)
  · simp only [imputeDefault, defaultInput, overlay_nil]

end Inputs

section Faithful
variable {V K : Type} [Field K] [CharZero K]

/-- the mean of `n ≥ 1` copies of an output with distinct labels is that output -/
theorem meanOutput_replicate (d : Dict K) (hd : d.keys.Nodup) (n : Nat) (hn : 1 ≤ n) :
    meanOutput (List.replicate n d) = d :=
  Ixai.meanOutput_replicate d hd n hn

/-- every library imputer is faithful on the empty subset: the aggregated prediction is the model's own.
    (`hkeys`: a Python dict has distinct keys; `hn`: `n_samples ≥ 1`.) -/
theorem empty_subset_faithful (model : Inst V → Dict K) (rows : Nat → Inst V) (values : Inst V)
    (x : Inst V) (n : Nat) (hn : 1 ≤ n) (hkeys : (model x).keys.Nodup)
    (rowOf : Nat → Nat) (rowOf₂ : Nat → Nat → Nat) :
    meanOutput (imputeJoint model rows [] x n rowOf) = model x ∧
    meanOutput (imputeProduct model rows [] x n rowOf₂) = model x ∧
    meanOutput (imputeDefault model values [] x n) = model x := by
  obtain ⟨h1, h2, h3⟩ := impute_empty_subset model rows values x n rowOf rowOf₂
  rw [h1, h2, h3]
  exact ⟨meanOutput_replicate _ hkeys n hn, meanOutput_replicate _ hkeys n hn, meanOutput_replicate _ hkeys n hn⟩

end Faithful

/-! non-vacuity: three stored rows `rows r f = 10 (r+1) + f`, instance `x f = 100 + f`, defaults `7`,
    subset `{0, 2}` of the features `0, 1, 2`; an input is displayed as `[z 0, z 1, z 2]` -/
section Examples

def rowsE : Nat → Inst ℕ := fun r f => 10 * (r + 1) + f
def xE : Inst ℕ := fun f => 100 + f
def show3 (z : Inst ℕ) : List ℕ := [z 0, z 1, z 2]

/-- joint: sample 0 uses row 2, sample 1 uses row 0 — both imputed features from the same row; feature 1 kept -/
example : (jointInputs rowsE [0, 2] xE 2 (fun j => if j = 0 then 2 else 0)).map show3 =
    [[30, 101, 32], [10, 101, 12]] := by decide

/-- product: sample 0 takes feature 0 from row 0 and feature 2 from row 2 -/
example : (productInputs rowsE [0, 2] xE 2 (fun j f => (j + f) % 3)).map show3 =
    [[10, 101, 32], [20, 101, 12]] := by decide

example : show3 (defaultInput (fun _ => 7) [0, 2] xE) = [7, 101, 7] := by decide

/-- the range hypothesis of `*_inside_stored` is satisfiable (m = 3 stored rows) -/
example : (∀ j < 2, (fun j => if j = 0 then 2 else 0) j < 3) ∧ (∀ j < 2, ∀ f ∈ [0, 2], (j + f) % 3 < 3) :=
  ⟨by decide, fun _ _ _ _ => Nat.mod_lt _ (by decide)⟩

/-- lengths and the empty subset, with the model "sum of the three features" -/
example : imputeJoint (fun z => z 0 + z 1 + z 2) rowsE [0, 2] xE 2 (fun j => j) = [123, 143] ∧
    imputeProduct (fun z => z 0 + z 1 + z 2) rowsE [] xE 3 (fun j f => (j + f) % 3) = [303, 303, 303] ∧
    imputeDefault (fun z => z 0 + z 1 + z 2) (fun _ => 7) [0, 2] xE 4 = [115, 115, 115, 115] := by decide

/-- `meanOutput_replicate` on a concrete two-label output over ℚ, computed from the definition -/
example : meanOutput (List.replicate 3 ([(0, 1/4), (1, 3/4)] : Dict ℚ)) = [(0, 1/4), (1, 3/4)] := by
  norm_num [meanOutput, allLabels, Dict.keys, Dict.getD, Dict.find?, lsum, List.replicate]

/-- the hypotheses of `empty_subset_faithful` are satisfiable: a two-label classifier output -/
example : (Dict.keys ([(0, 1/4), (1, 3/4)] : Dict ℚ)).Nodup := by decide

/-- why `hkeys`/`hn` are hypotheses: with a repeated key the mean drops the second entry, and the mean of zero
    predictions is the empty dict -/
example : meanOutput (List.replicate 1 ([(0, 1), (0, 2)] : Dict ℚ)) = [(0, 1)] := by
  norm_num [meanOutput, allLabels, Dict.keys, Dict.getD, Dict.find?, lsum, List.replicate]
example : meanOutput (List.replicate 0 ([(0, 1)] : Dict ℚ)) = [] := by
  simp [meanOutput, allLabels]

end Examples

end Ixai.C06
