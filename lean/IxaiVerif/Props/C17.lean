/-
  C17 — failure atomicity of `explain_one`.
  "If the model, the loss, the imputer or the storage raises during explain_one, the exception propagates and the
  explainer's estimates (importance values, variances, marginal and model loss, marginal prediction) are exactly what
  they were before the call. In particular, after catching the error and continuing the stream, the efficiency
  identity still holds."

  The theorems are about `pfiExplainM` / `sageExplainM` of `Model/Effect.lean` (the repaired order of effects:
  compute, then storage, then commit), for EVERY `O : Oracles K V Y` — every callback may return `.error` at any
  invocation(s) —, every imputer computation `imputeM` that itself does not touch the estimates
  (`∀ S n, Frame (imputeM S n)`; the two imputers of the model, `callImputeUser O` and
  `imputeMarginalJoint O rows rowOf x`, are instances: `Frame.callImputeUser`, `Frame.imputeMarginalJoint`),
  every `names x y n perm updateStorage` and every world `w`. `K` is any type with the raw operation instances the
  model takes; no algebraic law is used.

  `est : Est K` is the whole tuple of estimates (importance, variance, marginal loss, model loss, marginal
  prediction tracker, current marginal prediction); `seen` is `seen_samples`. The log and the invocation counter
  are ghost state and of course do record the failed attempt.

  Error propagation is stated in three strengths:
   * `*_total_ok`: if no callback fails the run does not fail;
   * `*_error_is_callback_error`: an error of the run is an error some callback returned
     (`OracleErrs`, any framed imputer whose errors satisfy `I`);
   * `*_error_is_last_call` (imputers that are `Tracked`, in particular both imputers of the model): fail-stop —
     the failing invocation is the LAST event of the log, the counter stands right behind it, the oracle of that
     kind returned exactly the reported error at exactly that counter value, all earlier invocations returned `.ok`;
   * `*_ok_all_calls_ok`: in a successful call every invocation made returned `.ok` (no error is swallowed);
   * `*_error_iff_some_call_failed`: the two combined into "error IFF some invocation made during the call failed",
     under the explicit extra hypothesis `PositionFailing O` (a callback's failing depends on the invocation counter
     only, not on its arguments). The hypothesis is needed because the log records event kinds, not arguments, so
     "the invocation made at counter c failed" can only be read off the log for such callbacks.
-/
import IxaiVerif.Proofs.Effect

set_option linter.unusedSectionVars false
namespace Ixai.C17
open Ixai

variable {K : Type} [Add K] [Sub K] [Mul K] [Div K] [NatCast K] [OfNat K 0] [OfNat K 1] [RealOps K] [DecidableEq K]
variable {V Y : Type}

/-! ### atomicity -/

theorem pfi_failure_atomic (O : Oracles K V Y) (names : List Nat) (imputeM : List Nat → Nat → M K (List (Dict K)))
    (himp : ∀ S n, Frame (imputeM S n)) (x : Inst V) (y : Y) (n : Nat) (updateStorage : Bool) (w : World K)
    (e : Err) (h : (pfiExplainM O names imputeM x y n updateStorage w).1 = .error e) :
    (pfiExplainM O names imputeM x y n updateStorage w).2.est = w.est ∧
    (pfiExplainM O names imputeM x y n updateStorage w).2.seen = w.seen := by
  rw [pfiExplainM_eq] at h ⊢
  exact explainShape_atomic (fun w0 => Frame.pfiComputeM himp w0) (Frame.storageM _) w e h

theorem sage_failure_atomic (O : Oracles K V Y) (names : List Nat) (imputeM : List Nat → Nat → M K (List (Dict K)))
    (himp : ∀ S n, Frame (imputeM S n)) (x : Inst V) (y : Y) (n : Nat) (perm : List Nat) (updateStorage : Bool)
    (w : World K) (e : Err) (h : (sageExplainM O names imputeM x y n perm updateStorage w).1 = .error e) :
    (sageExplainM O names imputeM x y n perm updateStorage w).2.est = w.est ∧
    (sageExplainM O names imputeM x y n perm updateStorage w).2.seen = w.seen := by
  rw [sageExplainM_eq] at h ⊢
  exact explainShape_atomic (fun w0 => Frame.sageComputeM himp perm w0) (Frame.storageM _) w e h

/-- the hypothesis on the imputer holds for both imputers of the model -/
example (O : Oracles K V Y) : ∀ S n, Frame (callImputeUser O S n) := Frame.callImputeUser
example (O : Oracles K V Y) (rows : Nat → Inst V) (rowOf : Nat → Nat → Nat) (x : Inst V) :
    ∀ S n, Frame (imputeMarginalJoint O rows rowOf x S n) := Frame.imputeMarginalJoint rows rowOf x

/-! ### resuming after a caught error -/

/-- any property of the estimates survives a failed call. Instance (C01, efficiency of IncrementalSage):
    `P e := lsum (e.importanceValues.map Prod.snd) = e.margLoss.get - e.modelLoss.get`. -/
theorem pfi_resume_keeps_invariant (P : Est K → Prop) (O : Oracles K V Y) (names : List Nat)
    (imputeM : List Nat → Nat → M K (List (Dict K))) (himp : ∀ S n, Frame (imputeM S n)) (x : Inst V) (y : Y)
    (n : Nat) (updateStorage : Bool) (w : World K) (e : Err) (hP : P w.est)
    (h : (pfiExplainM O names imputeM x y n updateStorage w).1 = .error e) :
    P (pfiExplainM O names imputeM x y n updateStorage w).2.est := by
  rw [(pfi_failure_atomic O names imputeM himp x y n updateStorage w e h).1]; exact hP

theorem sage_resume_keeps_invariant (P : Est K → Prop) (O : Oracles K V Y) (names : List Nat)
    (imputeM : List Nat → Nat → M K (List (Dict K))) (himp : ∀ S n, Frame (imputeM S n)) (x : Inst V) (y : Y)
    (n : Nat) (perm : List Nat) (updateStorage : Bool) (w : World K) (e : Err) (hP : P w.est)
    (h : (sageExplainM O names imputeM x y n perm updateStorage w).1 = .error e) :
    P (sageExplainM O names imputeM x y n perm updateStorage w).2.est := by
  rw [(sage_failure_atomic O names imputeM himp x y n perm updateStorage w e h).1]; exact hP

/-- `for step in stream: try: step() except: pass` — the world after the stream -/
def runCatching {α : Type} (steps : List (M K α)) (w : World K) : World K := steps.foldl (fun w m => (m w).2) w

/-- a stream with caught failures: if every step is failure-atomic and every SUCCESSFUL step preserves `P`, then `P`
    holds after the whole stream, however many steps failed -/
theorem stream_resume_keeps_invariant {α : Type} (P : Est K → Prop) (steps : List (M K α))
    (hatomic : ∀ m ∈ steps, ∀ w e, (m w).1 = .error e → (m w).2.est = w.est)
    (hok : ∀ m ∈ steps, ∀ w a, (m w).1 = .ok a → P w.est → P (m w).2.est)
    (w : World K) (hP : P w.est) : P (runCatching steps w).est := by
  induction steps generalizing w with
  | nil => exact hP
  | cons m ms ih =>
    refine ih (fun m' hm' => hatomic m' (List.mem_cons_of_mem _ hm'))
      (fun m' hm' => hok m' (List.mem_cons_of_mem _ hm')) (m w).2 ?_
    rcases hr : (m w).1 with e | a
    · rw [hatomic m List.mem_cons_self w e hr]; exact hP
    · exact hok m List.mem_cons_self w a hr hP

/-- the SAGE stream: observations with their imputer, permutation and storage flag; some calls fail, are caught,
    and the stream goes on. An invariant preserved by the successful calls (C01 via `C15.sage_agrees_with_pure`)
    holds at the end. -/
theorem sage_stream_resume (P : Est K → Prop) (O : Oracles K V Y) (names : List Nat) (n : Nat)
    (obs : List ((List Nat → Nat → M K (List (Dict K))) × Inst V × Y × List Nat × Bool))
    (himp : ∀ o ∈ obs, ∀ S n, Frame (o.1 S n))
    (hok : ∀ o ∈ obs, ∀ w a, (sageExplainM O names o.1 o.2.1 o.2.2.1 n o.2.2.2.1 o.2.2.2.2 w).1 = .ok a →
      P w.est → P (sageExplainM O names o.1 o.2.1 o.2.2.1 n o.2.2.2.1 o.2.2.2.2 w).2.est)
    (w : World K) (hP : P w.est) :
    P (runCatching (obs.map (fun o => sageExplainM O names o.1 o.2.1 o.2.2.1 n o.2.2.2.1 o.2.2.2.2)) w).est := by
  refine stream_resume_keeps_invariant P _ ?_ ?_ w hP
  · intro m hm w e he
    obtain ⟨o, ho, rfl⟩ := List.mem_map.mp hm
    exact (sage_failure_atomic O names o.1 (himp o ho) _ _ n _ _ w e he).1
  · intro m hm w a ha
    obtain ⟨o, ho, rfl⟩ := List.mem_map.mp hm
    exact hok o ho w a ha

theorem pfi_stream_resume (P : Est K → Prop) (O : Oracles K V Y) (names : List Nat) (n : Nat)
    (obs : List ((List Nat → Nat → M K (List (Dict K))) × Inst V × Y × Bool))
    (himp : ∀ o ∈ obs, ∀ S n, Frame (o.1 S n))
    (hok : ∀ o ∈ obs, ∀ w a, (pfiExplainM O names o.1 o.2.1 o.2.2.1 n o.2.2.2 w).1 = .ok a →
      P w.est → P (pfiExplainM O names o.1 o.2.1 o.2.2.1 n o.2.2.2 w).2.est)
    (w : World K) (hP : P w.est) :
    P (runCatching (obs.map (fun o => pfiExplainM O names o.1 o.2.1 o.2.2.1 n o.2.2.2)) w).est := by
  refine stream_resume_keeps_invariant P _ ?_ ?_ w hP
  · intro m hm w e he
    obtain ⟨o, ho, rfl⟩ := List.mem_map.mp hm
    exact (pfi_failure_atomic O names o.1 (himp o ho) _ _ n _ w e he).1
  · intro m hm w a ha
    obtain ⟨o, ho, rfl⟩ := List.mem_map.mp hm
    exact hok o ho w a ha

/-! ### the exception propagates -/

/-- no callback fails ⇒ the call does not fail -/
theorem pfi_total_ok (O : Oracles K V Y) (hO : OTotal O) (names : List Nat)
    (imputeM : List Nat → Nat → M K (List (Dict K))) (himp : ∀ S n, Total (imputeM S n)) (x : Inst V) (y : Y)
    (n : Nat) (updateStorage : Bool) (w : World K) :
    ∃ d, (pfiExplainM O names imputeM x y n updateStorage w).1 = .ok d := by
  rw [pfiExplainM_eq]
  exact explainShape_total (fun w0 => Total.pfiComputeM hO himp w0) (Total.storageM hO _) w

theorem sage_total_ok (O : Oracles K V Y) (hO : OTotal O) (names : List Nat)
    (imputeM : List Nat → Nat → M K (List (Dict K))) (himp : ∀ S n, Total (imputeM S n)) (x : Inst V) (y : Y)
    (n : Nat) (perm : List Nat) (updateStorage : Bool) (w : World K) :
    ∃ d, (sageExplainM O names imputeM x y n perm updateStorage w).1 = .ok d := by
  rw [sageExplainM_eq]
  exact explainShape_total (fun w0 => Total.sageComputeM hO himp perm w0) (Total.storageM hO _) w

/-- an error of the call is an error that the model, the loss, the storage or the imputer returned
    (`OracleErrs O I e`: `(∃ c x, O.model c x = .error e) ∨ (∃ c y p, O.loss c y p = .error e) ∨
    (∃ c, O.storage c = .error e) ∨ I e`) -/
theorem pfi_error_is_callback_error (O : Oracles K V Y) (I : Err → Prop) (names : List Nat)
    (imputeM : List Nat → Nat → M K (List (Dict K))) (himp : ∀ S n, ErrIn I (imputeM S n)) (x : Inst V) (y : Y)
    (n : Nat) (updateStorage : Bool) (w : World K) (e : Err)
    (h : (pfiExplainM O names imputeM x y n updateStorage w).1 = .error e) : OracleErrs O I e := by
  rw [pfiExplainM_eq] at h
  exact explainShape_errIn (fun w0 => ErrIn.pfiComputeM (fun S n => (himp S n).mono (fun _ h => .inr (.inr (.inr h)))) w0)
    (ErrIn.storageM _) w e h

theorem sage_error_is_callback_error (O : Oracles K V Y) (I : Err → Prop) (names : List Nat)
    (imputeM : List Nat → Nat → M K (List (Dict K))) (himp : ∀ S n, ErrIn I (imputeM S n)) (x : Inst V) (y : Y)
    (n : Nat) (perm : List Nat) (updateStorage : Bool) (w : World K) (e : Err)
    (h : (sageExplainM O names imputeM x y n perm updateStorage w).1 = .error e) : OracleErrs O I e := by
  rw [sageExplainM_eq] at h
  exact explainShape_errIn
    (fun w0 => ErrIn.sageComputeM (fun S n => (himp S n).mono (fun _ h => .inr (.inr (.inr h)))) perm w0)
    (ErrIn.storageM _) w e h

/-- instances of the imputer hypothesis: the user imputer fails with what `O.impute` returned, the library's marginal
    imputer with what `O.model` returned -/
example (O : Oracles K V Y) : ∀ S n, ErrIn (fun e => ∃ c S n, O.impute c S n = .error e) (callImputeUser O S n) :=
  ErrIn.callImputeUser
example (O : Oracles K V Y) (rows : Nat → Inst V) (rowOf : Nat → Nat → Nat) (x : Inst V) :
    ∀ S n, ErrIn (fun e => ∃ c x, O.model c x = .error e) (imputeMarginalJoint O rows rowOf x S n) :=
  ErrIn.imputeMarginalJoint rows rowOf x

/-- with the library imputer, a loss and a storage that never fail, a failing call reports an error the MODEL
    returned -/
theorem pfi_marginal_error_from_model (O : Oracles K V Y) (hl : ∀ c y p, ∃ l, O.loss c y p = .ok l)
    (hs : ∀ c, ∃ u, O.storage c = .ok u) (names : List Nat) (rows : Nat → Inst V) (rowOf : Nat → Nat → Nat)
    (x : Inst V) (y : Y) (n : Nat) (updateStorage : Bool) (w : World K) (e : Err)
    (h : (pfiExplainM O names (imputeMarginalJoint O rows rowOf x) x y n updateStorage w).1 = .error e) :
    ∃ c x', O.model c x' = .error e := by
  rcases pfi_error_is_callback_error O _ names _ (ErrIn.imputeMarginalJoint rows rowOf x) x y n updateStorage w e h
    with h | ⟨c, y', p, h⟩ | ⟨c, h⟩ | h
  · exact h
  · obtain ⟨l, hl⟩ := hl c y' p; rw [hl] at h; cases h
  · obtain ⟨u, hu⟩ := hs c; rw [hu] at h; cases h
  · exact h

/-- both explainers are `Tracked` (for a `Tracked` imputer): log and invocation counter move in lockstep, a failure is
    the failure of the last invocation made, all other invocations made returned `.ok` -/
theorem pfi_tracked (O : Oracles K V Y) (names : List Nat) (imputeM : List Nat → Nat → M K (List (Dict K)))
    (himp : ∀ S n, Tracked O (imputeM S n)) (x : Inst V) (y : Y) (n : Nat) (updateStorage : Bool) :
    Tracked O (pfiExplainM O names imputeM x y n updateStorage) := by
  rw [pfiExplainM_eq]
  exact explainShape_tracked (fun w0 => Tracked.pfiComputeM himp w0) (Tracked.storageM _)

theorem sage_tracked (O : Oracles K V Y) (names : List Nat) (imputeM : List Nat → Nat → M K (List (Dict K)))
    (himp : ∀ S n, Tracked O (imputeM S n)) (x : Inst V) (y : Y) (n : Nat) (perm : List Nat) (updateStorage : Bool) :
    Tracked O (sageExplainM O names imputeM x y n perm updateStorage) := by
  rw [sageExplainM_eq]
  exact explainShape_tracked (fun w0 => Tracked.sageComputeM himp perm w0) (Tracked.storageM _)

/-- fail-stop (error ⇒ a callback failed, and which one): the failing invocation is the last one made, the counter
    stands right behind it, every invocation before it returned `.ok`.
    `OracleErr O ev c e`: the oracle of the kind of `ev` returned `.error e` at counter value `c`;
    `AllOk O c evs`: the invocations `evs`, numbered from `c`, returned `.ok`. -/
theorem pfi_error_is_last_call (O : Oracles K V Y) (names : List Nat)
    (imputeM : List Nat → Nat → M K (List (Dict K))) (himp : ∀ S n, Tracked O (imputeM S n)) (x : Inst V) (y : Y)
    (n : Nat) (updateStorage : Bool) (w : World K) (e : Err)
    (h : (pfiExplainM O names imputeM x y n updateStorage w).1 = .error e) :
    ∃ pre ev, (pfiExplainM O names imputeM x y n updateStorage w).2.log = w.log ++ pre ++ [ev] ∧
      (pfiExplainM O names imputeM x y n updateStorage w).2.calls = w.calls + pre.length + 1 ∧
      AllOk O w.calls pre ∧ OracleErr O ev (w.calls + pre.length) e := by
  obtain ⟨evs, hl, hc, he, -⟩ := pfi_tracked O names imputeM himp x y n updateStorage w
  obtain ⟨pre, ev, rfl, hok, hor⟩ := he e h
  exact ⟨pre, ev, by rw [hl, List.append_assoc], by rw [hc, List.length_append]; rfl, hok, hor⟩

theorem sage_error_is_last_call (O : Oracles K V Y) (names : List Nat)
    (imputeM : List Nat → Nat → M K (List (Dict K))) (himp : ∀ S n, Tracked O (imputeM S n)) (x : Inst V) (y : Y)
    (n : Nat) (perm : List Nat) (updateStorage : Bool) (w : World K) (e : Err)
    (h : (sageExplainM O names imputeM x y n perm updateStorage w).1 = .error e) :
    ∃ pre ev, (sageExplainM O names imputeM x y n perm updateStorage w).2.log = w.log ++ pre ++ [ev] ∧
      (sageExplainM O names imputeM x y n perm updateStorage w).2.calls = w.calls + pre.length + 1 ∧
      AllOk O w.calls pre ∧ OracleErr O ev (w.calls + pre.length) e := by
  obtain ⟨evs, hl, hc, he, -⟩ := sage_tracked O names imputeM himp x y n perm updateStorage w
  obtain ⟨pre, ev, rfl, hok, hor⟩ := he e h
  exact ⟨pre, ev, by rw [hl, List.append_assoc], by rw [hc, List.length_append]; rfl, hok, hor⟩

/-- no error is swallowed (success ⇒ every callback invocation made returned `.ok`) -/
theorem pfi_ok_all_calls_ok (O : Oracles K V Y) (names : List Nat)
    (imputeM : List Nat → Nat → M K (List (Dict K))) (himp : ∀ S n, Tracked O (imputeM S n)) (x : Inst V) (y : Y)
    (n : Nat) (updateStorage : Bool) (w : World K) (d : Dict K)
    (h : (pfiExplainM O names imputeM x y n updateStorage w).1 = .ok d) :
    ∃ evs, (pfiExplainM O names imputeM x y n updateStorage w).2.log = w.log ++ evs ∧
      (pfiExplainM O names imputeM x y n updateStorage w).2.calls = w.calls + evs.length ∧ AllOk O w.calls evs := by
  obtain ⟨evs, hl, hc, -, ho⟩ := pfi_tracked O names imputeM himp x y n updateStorage w
  exact ⟨evs, hl, hc, ho d h⟩

theorem sage_ok_all_calls_ok (O : Oracles K V Y) (names : List Nat)
    (imputeM : List Nat → Nat → M K (List (Dict K))) (himp : ∀ S n, Tracked O (imputeM S n)) (x : Inst V) (y : Y)
    (n : Nat) (perm : List Nat) (updateStorage : Bool) (w : World K) (d : Dict K)
    (h : (sageExplainM O names imputeM x y n perm updateStorage w).1 = .ok d) :
    ∃ evs, (sageExplainM O names imputeM x y n perm updateStorage w).2.log = w.log ++ evs ∧
      (sageExplainM O names imputeM x y n perm updateStorage w).2.calls = w.calls + evs.length ∧
      AllOk O w.calls evs := by
  obtain ⟨evs, hl, hc, -, ho⟩ := sage_tracked O names imputeM himp x y n perm updateStorage w
  exact ⟨evs, hl, hc, ho d h⟩

/-- the IFF, for callbacks whose failing depends on the position only (`PositionFailing O`: at a given counter value
    a callback fails for all arguments or for none — "the k-th invocation fails"; added hypothesis, needed because
    the log does not record arguments; satisfiable: see the examples below): the call is an error iff some
    callback invocation made during the call failed -/
theorem pfi_error_iff_some_call_failed (O : Oracles K V Y) (hP : PositionFailing O) (names : List Nat)
    (imputeM : List Nat → Nat → M K (List (Dict K))) (himp : ∀ S n, Tracked O (imputeM S n)) (x : Inst V) (y : Y)
    (n : Nat) (updateStorage : Bool) (w : World K) :
    ∃ evs, (pfiExplainM O names imputeM x y n updateStorage w).2.log = w.log ++ evs ∧
      (pfiExplainM O names imputeM x y n updateStorage w).2.calls = w.calls + evs.length ∧
      ((∃ e, (pfiExplainM O names imputeM x y n updateStorage w).1 = .error e) ↔ ¬ AllOk O w.calls evs) :=
  (pfi_tracked O names imputeM himp x y n updateStorage).error_iff hP w

theorem sage_error_iff_some_call_failed (O : Oracles K V Y) (hP : PositionFailing O) (names : List Nat)
    (imputeM : List Nat → Nat → M K (List (Dict K))) (himp : ∀ S n, Tracked O (imputeM S n)) (x : Inst V) (y : Y)
    (n : Nat) (perm : List Nat) (updateStorage : Bool) (w : World K) :
    ∃ evs, (sageExplainM O names imputeM x y n perm updateStorage w).2.log = w.log ++ evs ∧
      (sageExplainM O names imputeM x y n perm updateStorage w).2.calls = w.calls + evs.length ∧
      ((∃ e, (sageExplainM O names imputeM x y n perm updateStorage w).1 = .error e) ↔ ¬ AllOk O w.calls evs) :=
  (sage_tracked O names imputeM himp x y n perm updateStorage).error_iff hP w

example (O : Oracles K V Y) : ∀ S n, Tracked O (callImputeUser O S n) := Tracked.callImputeUser
example (O : Oracles K V Y) (rows : Nat → Inst V) (rowOf : Nat → Nat → Nat) (x : Inst V) :
    ∀ S n, Tracked O (imputeMarginalJoint O rows rowOf x S n) := Tracked.imputeMarginalJoint rows rowOf x

/-! ### non-vacuity: toy callbacks over `Rat`, d = 2 features, n = 1, the k-th invocation fails -/
section Examples

local instance : RealOps Rat := ⟨id, id, id, id⟩

/-- every callback fails at invocation number `k` (and only there) with the error of its own kind -/
def toyO (k : Nat) : Oracles Rat Rat Rat where
  model c x := if c = k then .error .model else .ok [(0, x 0 + 2 * x 1)]
  loss c y p := if c = k then .error .loss else .ok ((y - p.getD 0 0) * (y - p.getD 0 0))
  storage c := if c = k then .error .storage else .ok ()
  impute c _ n := if c = k then .error .imputer else .ok (List.replicate n [(0, 1)])

/-- the hypothesis of `*_error_iff_some_call_failed` is satisfiable -/
example (k : Nat) : PositionFailing (toyO k) := by
  intro ev c e h hok
  by_cases hc : c = k <;> cases ev <;> simp [OracleErr, OracleOk, toyO, hc] at h hok

def toyX : Inst Rat := fun f => if f = 0 then 3 else 5
def toyRows : Nat → Inst Rat := fun _ _ => 1
def toyW : World Rat := { est := Est.init none, seen := 1, calls := 0, log := [] }

/-- PFI with the library imputer: invocations 0 model, 1 loss, 2 model, 3 loss, 4 model, 5 loss, 6 storage -/
def toyPfi (k : Nat) : Except Err (Dict Rat) × World Rat :=
  pfiExplainM (toyO k) [0, 1] (imputeMarginalJoint (toyO k) toyRows (fun _ _ => 0) toyX) toyX 10 1 true toyW

/-- SAGE with a user imputer: 0 model, 1 loss, 2 loss, 3 impute, 4 loss, 5 impute, 6 loss, 7 storage -/
def toySage (k : Nat) : Except Err (Dict Rat) × World Rat :=
  sageExplainM (toyO k) [0, 1] (callImputeUser (toyO k)) toyX 10 1 [1, 0] true toyW

-- (a) failing runs: the error of the failing callback comes out, the estimates are untouched, the log shows where
example : (toyPfi 4).1 = .error .model ∧ (toyPfi 4).2.est = toyW.est ∧ (toyPfi 4).2.seen = 1 ∧
    (toyPfi 4).2.log = [.model, .loss, .model, .loss, .model] := ⟨rfl, rfl, rfl, rfl⟩
example : (toyPfi 3).1 = .error .loss ∧ (toyPfi 3).2.est = toyW.est := ⟨rfl, rfl⟩
example : (toyPfi 6).1 = .error .storage ∧ (toyPfi 6).2.est = toyW.est ∧ (toyPfi 6).2.seen = 1 ∧
    (toyPfi 6).2.log = [.model, .loss, .model, .loss, .model, .loss, .storage] := ⟨rfl, rfl, rfl, rfl⟩
example : (toySage 5).1 = .error .imputer ∧ (toySage 5).2.est = toyW.est ∧
    (toySage 5).2.log = [.model, .loss, .loss, .impute [0] 1, .loss, .impute [] 1] := ⟨rfl, rfl, rfl⟩
example : (toySage 7).1 = .error .storage ∧ (toySage 7).2.est = toyW.est ∧ (toySage 7).2.seen = 1 :=
  ⟨rfl, rfl, rfl⟩

-- (b) successful runs DO change the estimates (so "unchanged" above is not an artefact of a model that never commits)
example : (toyPfi 100).1.toOption = some [(0, -8), (1, 16)] ∧
    (toyPfi 100).2.est.importanceValues = [(0, -8), (1, 16)] ∧ toyW.est.importanceValues = [] ∧
    (toyPfi 100).2.seen = 2 ∧
    (toyPfi 100).2.log = [.model, .loss, .model, .loss, .model, .loss, .storage] := by decide +kernel
example : (toySage 100).1.toOption = some [(1, -72), (0, 0)] ∧
    (toySage 100).2.est.importanceValues = [(1, -72), (0, 0)] ∧ (toySage 100).2.est.margPredCur = [(0, 13)] ∧
    toyW.est.margPredCur = [] ∧ (toySage 100).2.seen = 2 := by decide +kernel

-- the IFF theorem instantiated at a failing toy run
example : ∃ evs, (toyPfi 4).2.log = toyW.log ++ evs ∧ (toyPfi 4).2.calls = toyW.calls + evs.length ∧
    ((∃ e, (toyPfi 4).1 = .error e) ↔ ¬ AllOk (toyO 4) toyW.calls evs) :=
  pfi_error_iff_some_call_failed (toyO 4)
    (by intro ev c e h hok
        by_cases hc : c = 4 <;> cases ev <;> simp [OracleErr, OracleOk, toyO, hc] at h hok)
    [0, 1] _ (Tracked.imputeMarginalJoint toyRows _ toyX) toyX 10 1 true toyW

end Examples

end Ixai.C17
