/-
  C16a — tracked variances are non-negative.
  Over an ordered field, in every reachable state of IncrementalPFI or IncrementalSage — any stream, any callbacks
  (model, loss, imputer behaviour, feature orders; no hypothesis on them at all), static mode or dynamic mode with
  `0 ≤ α ≤ 1` (the range the library asserts) — every tracked variance `e.variance.getKey f` is `≥ 0`, for every key
  `f` (an untracked key reads 0). Reason: each variance update is a square (`sq (contribution - estimate)`), an omitted
  key is updated with 0, and the Welford mean / the smoothing with `0 ≤ α ≤ 1` of non-negative numbers started at 0 is
  non-negative (one-step facts from the generated kernels' `update_spec`).
  The bound `α ≤ 1` is needed: see `variance_negative_for_alpha_gt_one`.
-/
import IxaiVerif.Proofs.Explainer
import IxaiVerif.Props.C10

set_option linter.unusedSectionVars false
namespace Ixai.C16a
open Ixai Ixai.Gen

variable {K : Type} [Field K] [LinearOrder K] [IsStrictOrderedRing K] [RealOps K] {V Y : Type}

/-- one `explain_one` of either explainer (first call or not) keeps the variance trackers non-negative -/
theorem pfi_step_nonneg (names : List Nat) (model : Inst V → Dict K) (loss : Y → Dict K → K) (first : Bool)
    (e : Est K) (s : PfiObs K V Y) (h : e.variance.NonnegInv) :
    (pfiStepObs names model loss first e s).variance.NonnegInv := by
  cases first
  · simp only [pfiStepObs, pfiStep, Bool.false_eq_true, if_false]; exact commit_nonneg _ _ _ h
  · simpa [pfiStepObs, pfiStep] using h

theorem sage_step_nonneg (names : List Nat) (model : Inst V → Dict K) (loss : Y → Dict K → K) (first : Bool)
    (e : Est K) (s : SageObs K V Y) (h : e.variance.NonnegInv) :
    (sageStepObs names model loss first e s).variance.NonnegInv := by
  cases first
  · simp only [sageStepObs, sageStep, Bool.false_eq_true, if_false]; exact commit_nonneg _ _ _ h
  · simpa [sageStepObs, sageStep] using h

theorem init_nonneg (alpha : Option K) (hα : ∀ a, alpha = some a → 0 ≤ a ∧ a ≤ 1) :
    (Est.init alpha).variance.NonnegInv := MV.NonnegInv.init alpha hα

/-- IncrementalPFI: every tracked variance is non-negative after any stream -/
theorem variance_nonneg_pfi (alpha : Option K) (hα : ∀ a, alpha = some a → 0 ≤ a ∧ a ≤ 1) (names : List Nat)
    (model : Inst V → Dict K) (loss : Y → Dict K → K) (steps : List (PfiObs K V Y)) (f : Nat) :
    0 ≤ (runPFI names model loss alpha steps).variance.getKey f := by
  apply MV.NonnegInv.getKey_nonneg
  cases steps with
  | nil => exact init_nonneg alpha hα
  | cons s rest =>
    rw [runPFI_cons]
    have : ∀ e : Est K, e.variance.NonnegInv →
        (rest.foldl (pfiStepObs names model loss false) e).variance.NonnegInv := by
      induction rest with
      | nil => intro e he; exact he
      | cons s rest ih => intro e he; exact ih _ (pfi_step_nonneg names model loss false e s he)
    exact this _ (init_nonneg alpha hα)

/-- IncrementalSage: every tracked variance is non-negative after any stream -/
theorem variance_nonneg_sage (alpha : Option K) (hα : ∀ a, alpha = some a → 0 ≤ a ∧ a ≤ 1) (names : List Nat)
    (model : Inst V → Dict K) (loss : Y → Dict K → K) (steps : List (SageObs K V Y)) (f : Nat) :
    0 ≤ (runSage names model loss alpha steps).variance.getKey f := by
  apply MV.NonnegInv.getKey_nonneg
  cases steps with
  | nil => exact init_nonneg alpha hα
  | cons s rest =>
    rw [runSage_cons]
    have : ∀ e : Est K, e.variance.NonnegInv →
        (rest.foldl (sageStepObs names model loss false) e).variance.NonnegInv := by
      induction rest with
      | nil => intro e he; exact he
      | cons s rest ih => intro e he; exact ih _ (sage_step_nonneg names model loss false e s he)
    exact this _ (init_nonneg alpha hα)

/-- both explainers, as one statement -/
theorem variance_nonneg (alpha : Option K) (hα : ∀ a, alpha = some a → 0 ≤ a ∧ a ≤ 1) (names : List Nat)
    (model : Inst V → Dict K) (loss : Y → Dict K → K) :
    (∀ (steps : List (PfiObs K V Y)) (f : Nat), 0 ≤ (runPFI names model loss alpha steps).variance.getKey f) ∧
    (∀ (steps : List (SageObs K V Y)) (f : Nat), 0 ≤ (runSage names model loss alpha steps).variance.getKey f) :=
  ⟨variance_nonneg_pfi alpha hα names model loss, variance_nonneg_sage alpha hα names model loss⟩

/-! ### non-vacuity at `K := ℚ` -/
section Examples

def exModel : Inst ℚ → Dict ℚ := fun x => [(0, x 0 + 2 * x 1)]
def exLoss : ℚ → Dict ℚ → ℚ := fun y out => (out.getD 0 0 - y) * (out.getD 0 0 - y)
def exX (a b : ℚ) : Inst ℚ := fun i => if i = 0 then a else b
def exObs (a b y : ℚ) : PfiObs ℚ ℚ ℚ :=
  { x := exX a b, y := y, imp := fun S => imputeDefault exModel (fun _ => 1) S (exX a b) 2 }
def exSteps : List (PfiObs ℚ ℚ ℚ) := [exObs 1 1 3, exObs 2 0 1, exObs 0 3 7, exObs 1 0 0]

/-- the hypothesis on alpha is satisfiable, and the variances are not trivially zero -/
example : ∀ a : ℚ, some (1/2 : ℚ) = some a → 0 ≤ a ∧ a ≤ 1 := by
  intro a h; cases h; norm_num
example : (runPFI [0, 1] exModel exLoss (some (1/2)) exSteps).variance.getKey 1 = 63/2 := by decide +kernel
example : (runPFI [0, 1] exModel exLoss none exSteps).variances = [(0, 4/27), (1, 832/27)] := by decide +kernel

/-- with α > 1 a smoothed variance can become negative (α = 2; the library asserts 0 < α ≤ 1) -/
theorem variance_negative_for_alpha_gt_one :
    (runPFI [0, 1] exModel exLoss (some 2) [exObs 1 1 3, exObs 2 0 1, exObs 0 0 (-2)]).variance.getKey 1 = -96 := by
  decide +kernel

end Examples

end Ixai.C16a
