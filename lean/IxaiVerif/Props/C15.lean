/-
  C15 — what one `explain_one` does, counted (the countable part of the property).
  "One explain_one call on an incremental explainer counts one seen sample, evaluates the model exactly
  1 + d * n_inner times with the default imputer (none on the first call) … and updates the storage exactly once
  with (x, y) after the explanation was computed — or not at all when update_storage is False … The returned dict
  equals the importance_values property."

  The theorems are about `pfiExplainM` / `sageExplainM` of `Model/Effect.lean` with the library's marginal imputer
  `imputeMarginalJoint O rows rowOf x`, for callbacks that never fail (`OTotal O`: the model, loss and storage oracles
  return `.ok` at every invocation; their VALUES are arbitrary and may depend on the invocation counter), every
  `rows rowOf names x y n updateStorage` and every world `w`; `d = names.length`, and for SAGE `perm.length = d`.
  The events a run appends to the log are determined exactly (`pfi_log_exact`, `sage_log_exact`):

      PFI :  model loss (model^n loss^n)^d  [storage]        SAGE :  model loss loss (model^n loss)^d  [storage]

  (nothing but `[storage]` on the first call, `w.seen = 0`), and the counting statements are read off that.
  `storage_once_last`: the storage event is the last event of the call, so every model / imputer invocation of this
  step precedes the storage update — an observation is never part of its own background sample.
  `returns_importance_values` needs no hypothesis at all (any oracles, any imputer, any successful run).

  `*_agrees_with_pure`: for deterministic callbacks (`ODet O model loss`) and an imputer computation that is framed
  and returns `imp S` for the `n` of the call (`∀ S, Returns (imputeM S n) (imp S)`, i.e.
  `∀ S w, (imputeM S n w).1 = .ok (imp S)`; the hypothesis is stated for the `n` at hand rather than for all `n`,
  which would exclude the library imputer, whose answer has length `n`), the estimates after the call are
  `pfiStep` / `sageStep` of the pure layer (`Model/Explainer.lean`) — this transports C01, C02, C03 to the effectful
  layer. Instances of the imputer hypothesis: `Returns.callImputeUser` and `Returns.imputeMarginalJoint`
  (row choices not depending on the invocation counter; the result is `imputeJoint` of `Model/Imputer.lean`).
-/
import IxaiVerif.Proofs.Effect

set_option linter.unusedSectionVars false
namespace Ixai.C15
open Ixai

variable {K : Type} [Add K] [Sub K] [Mul K] [Div K] [NatCast K] [OfNat K 0] [OfNat K 1] [RealOps K] [DecidableEq K]
variable {V Y : Type}

/-! ### the exact log of a call -/

theorem pfi_log_exact (O : Oracles K V Y) (hO : OTotal O) (rows : Nat → Inst V) (rowOf : Nat → Nat → Nat)
    (names : List Nat) (x : Inst V) (y : Y) (n : Nat) (updateStorage : Bool) (w : World K) :
    (∃ d, (pfiExplainM O names (imputeMarginalJoint O rows rowOf x) x y n updateStorage w).1 = .ok d) ∧
    (pfiExplainM O names (imputeMarginalJoint O rows rowOf x) x y n updateStorage w).2.seen = w.seen + 1 ∧
    (pfiExplainM O names (imputeMarginalJoint O rows rowOf x) x y n updateStorage w).2.log =
      w.log ++ ((if w.seen = 0 then [] else pfiEvents names.length n) ++ storageEvents updateStorage) := by
  rw [pfiExplainM_eq]
  have hF := Frame.pfiComputeM (O := O) (names := names) (x := x) (y := y) (n := n)
    (Frame.imputeMarginalJoint (O := O) rows rowOf x) w
  by_cases h : w.seen = 0
  · rw [if_pos h]
    refine explainShape_emit (P := fun b => b = none) hF (Frame.storageM _) ?_ (Emit.storageM hO _)
    rw [pfiComputeM_zero h]; exact Emit.pure none
  · rw [if_neg h]
    exact explainShape_emit hF (Frame.storageM _)
      (Emit.pfiComputeM hO (fun S => Emit.imputeMarginalJoint hO rows rowOf x S n) (by omega))
      (Emit.storageM hO _)

theorem sage_log_exact (O : Oracles K V Y) (hO : OTotal O) (rows : Nat → Inst V) (rowOf : Nat → Nat → Nat)
    (names : List Nat) (x : Inst V) (y : Y) (n : Nat) (perm : List Nat) (updateStorage : Bool) (w : World K) :
    (∃ d, (sageExplainM O names (imputeMarginalJoint O rows rowOf x) x y n perm updateStorage w).1 = .ok d) ∧
    (sageExplainM O names (imputeMarginalJoint O rows rowOf x) x y n perm updateStorage w).2.seen = w.seen + 1 ∧
    (sageExplainM O names (imputeMarginalJoint O rows rowOf x) x y n perm updateStorage w).2.log =
      w.log ++ ((if w.seen = 0 then [] else sageEvents perm.length n) ++ storageEvents updateStorage) := by
  rw [sageExplainM_eq]
  have hF := Frame.sageComputeM (O := O) (names := names) (x := x) (y := y) (n := n)
    (Frame.imputeMarginalJoint (O := O) rows rowOf x) perm w
  by_cases h : w.seen = 0
  · rw [if_pos h]
    refine explainShape_emit (P := fun b => b = none) hF (Frame.storageM _) ?_ (Emit.storageM hO _)
    rw [sageComputeM_zero h]; exact Emit.pure none
  · rw [if_neg h]
    exact explainShape_emit hF (Frame.storageM _)
      (Emit.sageComputeM hO (fun S => Emit.imputeMarginalJoint hO rows rowOf x S n) (by omega))
      (Emit.storageM hO _)

/-! ### one seen sample -/

theorem pfi_seen_counts (O : Oracles K V Y) (hO : OTotal O) (rows : Nat → Inst V) (rowOf : Nat → Nat → Nat)
    (names : List Nat) (x : Inst V) (y : Y) (n : Nat) (updateStorage : Bool) (w : World K) :
    (pfiExplainM O names (imputeMarginalJoint O rows rowOf x) x y n updateStorage w).2.seen = w.seen + 1 :=
  (pfi_log_exact O hO rows rowOf names x y n updateStorage w).2.1

theorem sage_seen_counts (O : Oracles K V Y) (hO : OTotal O) (rows : Nat → Inst V) (rowOf : Nat → Nat → Nat)
    (names : List Nat) (x : Inst V) (y : Y) (n : Nat) (perm : List Nat) (updateStorage : Bool) (w : World K) :
    (sageExplainM O names (imputeMarginalJoint O rows rowOf x) x y n perm updateStorage w).2.seen = w.seen + 1 :=
  (sage_log_exact O hO rows rowOf names x y n perm updateStorage w).2.1

/-! ### model evaluations: `1 + d * n`, none on the first call -/

theorem pfi_model_call_budget (O : Oracles K V Y) (hO : OTotal O) (rows : Nat → Inst V) (rowOf : Nat → Nat → Nat)
    (names : List Nat) (x : Inst V) (y : Y) (n : Nat) (updateStorage : Bool) (w : World K) :
    ∃ evs, (pfiExplainM O names (imputeMarginalJoint O rows rowOf x) x y n updateStorage w).2.log = w.log ++ evs ∧
      evs.count .model = if w.seen = 0 then 0 else 1 + names.length * n := by
  refine ⟨_, (pfi_log_exact O hO rows rowOf names x y n updateStorage w).2.2, ?_⟩
  rw [List.count_append, storageEvents_count_model]
  split
  · rfl
  · rw [pfiEvents_count_model]; rfl

theorem sage_model_call_budget (O : Oracles K V Y) (hO : OTotal O) (rows : Nat → Inst V) (rowOf : Nat → Nat → Nat)
    (names : List Nat) (x : Inst V) (y : Y) (n : Nat) (perm : List Nat) (hperm : perm.length = names.length)
    (updateStorage : Bool) (w : World K) :
    ∃ evs, (sageExplainM O names (imputeMarginalJoint O rows rowOf x) x y n perm updateStorage w).2.log =
        w.log ++ evs ∧
      evs.count .model = if w.seen = 0 then 0 else 1 + names.length * n := by
  refine ⟨_, (sage_log_exact O hO rows rowOf names x y n perm updateStorage w).2.2, ?_⟩
  rw [List.count_append, storageEvents_count_model]
  split
  · rfl
  · rw [sageEvents_count_model, hperm]; rfl

/-! ### the storage is updated exactly once, last — or not at all -/

theorem pfi_storage_once_last (O : Oracles K V Y) (hO : OTotal O) (rows : Nat → Inst V) (rowOf : Nat → Nat → Nat)
    (names : List Nat) (x : Inst V) (y : Y) (n : Nat) (w : World K) :
    (∃ pre, (pfiExplainM O names (imputeMarginalJoint O rows rowOf x) x y n true w).2.log =
        w.log ++ pre ++ [.storage] ∧ pre.count .storage = 0) ∧
    (∃ evs, (pfiExplainM O names (imputeMarginalJoint O rows rowOf x) x y n false w).2.log = w.log ++ evs ∧
      evs.count .storage = 0) := by
  refine ⟨⟨if w.seen = 0 then [] else pfiEvents names.length n, ?_, ?_⟩,
    ⟨_, (pfi_log_exact O hO rows rowOf names x y n false w).2.2, ?_⟩⟩
  · rw [(pfi_log_exact O hO rows rowOf names x y n true w).2.2, List.append_assoc]; rfl
  · split
    · rfl
    · exact pfiEvents_count_storage _ _
  · rw [List.count_append]
    split
    · rfl
    · rw [pfiEvents_count_storage]; rfl

theorem sage_storage_once_last (O : Oracles K V Y) (hO : OTotal O) (rows : Nat → Inst V) (rowOf : Nat → Nat → Nat)
    (names : List Nat) (x : Inst V) (y : Y) (n : Nat) (perm : List Nat) (w : World K) :
    (∃ pre, (sageExplainM O names (imputeMarginalJoint O rows rowOf x) x y n perm true w).2.log =
        w.log ++ pre ++ [.storage] ∧ pre.count .storage = 0) ∧
    (∃ evs, (sageExplainM O names (imputeMarginalJoint O rows rowOf x) x y n perm false w).2.log = w.log ++ evs ∧
      evs.count .storage = 0) := by
  refine ⟨⟨if w.seen = 0 then [] else sageEvents perm.length n, ?_, ?_⟩,
    ⟨_, (sage_log_exact O hO rows rowOf names x y n perm false w).2.2, ?_⟩⟩
  · rw [(sage_log_exact O hO rows rowOf names x y n perm true w).2.2, List.append_assoc]; rfl
  · split
    · rfl
    · exact sageEvents_count_storage _ _
  · rw [List.count_append]
    split
    · rfl
    · rw [sageEvents_count_storage]; rfl

/-! ### the returned dict is the `importance_values` property -/

theorem pfi_returns_importance_values (O : Oracles K V Y) (names : List Nat)
    (imputeM : List Nat → Nat → M K (List (Dict K))) (x : Inst V) (y : Y) (n : Nat) (updateStorage : Bool)
    (w : World K) (d : Dict K) (h : (pfiExplainM O names imputeM x y n updateStorage w).1 = .ok d) :
    d = (pfiExplainM O names imputeM x y n updateStorage w).2.est.importanceValues := by
  rw [pfiExplainM_eq] at h ⊢; exact explainShape_returns w d h

theorem sage_returns_importance_values (O : Oracles K V Y) (names : List Nat)
    (imputeM : List Nat → Nat → M K (List (Dict K))) (x : Inst V) (y : Y) (n : Nat) (perm : List Nat)
    (updateStorage : Bool) (w : World K) (d : Dict K)
    (h : (sageExplainM O names imputeM x y n perm updateStorage w).1 = .ok d) :
    d = (sageExplainM O names imputeM x y n perm updateStorage w).2.est.importanceValues := by
  rw [sageExplainM_eq] at h ⊢; exact explainShape_returns w d h

/-! ### agreement with the pure layer -/

theorem pfi_agrees_with_pure (O : Oracles K V Y) (model : Inst V → Dict K) (loss : Y → Dict K → K)
    (hO : ODet O model loss) (names : List Nat) (imputeM : List Nat → Nat → M K (List (Dict K)))
    (imp : List Nat → List (Dict K)) (n : Nat) (hframe : ∀ S n, Frame (imputeM S n))
    (himp : ∀ S w, (imputeM S n w).1 = .ok (imp S)) (x : Inst V) (y : Y) (updateStorage : Bool) (w : World K) :
    (pfiExplainM O names imputeM x y n updateStorage w).2.est =
      pfiStep names model loss w.est (decide (w.seen = 0)) x y imp ∧
    (pfiExplainM O names imputeM x y n updateStorage w).2.seen = w.seen + 1 ∧
    (pfiExplainM O names imputeM x y n updateStorage w).1 =
      .ok (pfiStep names model loss w.est (decide (w.seen = 0)) x y imp).importanceValues := by
  rw [pfiExplainM_eq]
  have hF := Frame.pfiComputeM (O := O) (names := names) (x := x) (y := y) (n := n) hframe w
  by_cases h : w.seen = 0
  · have hA : (pfiComputeM O names imputeM x y n w w).1 = .ok none := by rw [pfiComputeM_zero h]; rfl
    obtain ⟨h1, h2, h3, -⟩ :=
      explainShape_ok_run (g := pfiCommit names) hF (Frame.storageM _) hA (Total.storageM hO.total updateStorage)
    have e : pfiStep names model loss w.est (decide (w.seen = 0)) x y imp = pfiCommit names none w.est := by
      simp [pfiStep, h, pfiCommit]
    rw [e]; exact ⟨h2, h3, h1⟩
  · have hA := Returns.pfiComputeM (names := names) (x := x) (y := y) hO himp (w0 := w) (by omega) w
    obtain ⟨h1, h2, h3, -⟩ :=
      explainShape_ok_run (g := pfiCommit names) hF (Frame.storageM _) hA (Total.storageM hO.total updateStorage)
    have e : pfiStep names model loss w.est (decide (w.seen = 0)) x y imp =
        pfiCommit names (some (pfiContribs names model loss x y imp)) w.est := by
      simp [pfiStep, h, pfiCommit]
    rw [e]; exact ⟨h2, h3, h1⟩

theorem sage_agrees_with_pure (O : Oracles K V Y) (model : Inst V → Dict K) (loss : Y → Dict K → K)
    (hO : ODet O model loss) (names : List Nat) (imputeM : List Nat → Nat → M K (List (Dict K)))
    (imp : List Nat → List (Dict K)) (n : Nat) (hframe : ∀ S n, Frame (imputeM S n))
    (himp : ∀ S w, (imputeM S n w).1 = .ok (imp S)) (x : Inst V) (y : Y) (perm : List Nat) (updateStorage : Bool)
    (w : World K) :
    (sageExplainM O names imputeM x y n perm updateStorage w).2.est =
      sageStep names model loss w.est (decide (w.seen = 0)) x y perm imp ∧
    (sageExplainM O names imputeM x y n perm updateStorage w).2.seen = w.seen + 1 ∧
    (sageExplainM O names imputeM x y n perm updateStorage w).1 =
      .ok (sageStep names model loss w.est (decide (w.seen = 0)) x y perm imp).importanceValues := by
  rw [sageExplainM_eq]
  have hF := Frame.sageComputeM (O := O) (names := names) (x := x) (y := y) (n := n) hframe perm w
  by_cases h : w.seen = 0
  · have hA : (sageComputeM O names imputeM x y n perm w w).1 = .ok none := by rw [sageComputeM_zero h]; rfl
    obtain ⟨h1, h2, h3, -⟩ :=
      explainShape_ok_run (g := sageCommit names) hF (Frame.storageM _) hA (Total.storageM hO.total updateStorage)
    have e : sageStep names model loss w.est (decide (w.seen = 0)) x y perm imp = sageCommit names none w.est := by
      simp [sageStep, h, sageCommit]
    rw [e]; exact ⟨h2, h3, h1⟩
  · have hA := Returns.sageComputeM (names := names) (x := x) (y := y) hO himp (perm := perm) (w0 := w) (by omega) w
    obtain ⟨h1, h2, h3, -⟩ :=
      explainShape_ok_run (g := sageCommit names) hF (Frame.storageM _) hA (Total.storageM hO.total updateStorage)
    have e : sageStep names model loss w.est (decide (w.seen = 0)) x y perm imp =
        sageCommit names (some (loss y (model x), w.est.margPred.update (model x),
          (w.est.margPred.update (model x)).getNormalized, loss y (w.est.margPred.update (model x)).getNormalized,
          sageChain loss y imp perm names (loss y (w.est.margPred.update (model x)).getNormalized))) w.est := by
      simp [sageStep, h, sageCommit]
    rw [e]; exact ⟨h2, h3, h1⟩

/-- instances of the imputer hypotheses of `*_agrees_with_pure`: a deterministic user imputer, and the library
    imputer with counter-independent row choices (then `imp S = imputeJoint model rows S x n r`) -/
example (O : Oracles K V Y) (imp : List Nat → List (Dict K)) (n : Nat) (h : ∀ c S, O.impute c S n = .ok (imp S)) :
    (∀ S n, Frame (callImputeUser O S n)) ∧ (∀ S w, (callImputeUser O S n w).1 = .ok (imp S)) :=
  ⟨Frame.callImputeUser, fun S => Returns.callImputeUser (fun c => h c S)⟩
example (O : Oracles K V Y) (model : Inst V → Dict K) (loss : Y → Dict K → K) (hO : ODet O model loss)
    (rows : Nat → Inst V) (r : Nat → Nat) (x : Inst V) (n : Nat) :
    (∀ S n, Frame (imputeMarginalJoint O rows (fun _ j => r j) x S n)) ∧
    (∀ S w, (imputeMarginalJoint O rows (fun _ j => r j) x S n w).1 = .ok (imputeJoint model rows S x n r)) :=
  ⟨Frame.imputeMarginalJoint rows _ x, fun S => Returns.imputeMarginalJoint hO rows r x S n⟩

/-! ### non-vacuity: a deterministic, never failing toy instance over `Rat`, d = 2 features, n = 3 -/
section Examples

local instance : RealOps Rat := ⟨id, id, id, id⟩

def toyModel : Inst Rat → Dict Rat := fun x => [(0, x 0 + 2 * x 1)]
def toyLoss : Rat → Dict Rat → Rat := fun y p => (y - p.getD 0 0) * (y - p.getD 0 0)
def toyO : Oracles Rat Rat Rat where
  model _ x := .ok (toyModel x)
  loss _ y p := .ok (toyLoss y p)
  storage _ := .ok ()
  impute _ _ n := .ok (List.replicate n [(0, 1)])

/-- the hypotheses `ODet` (hence `OTotal`) are satisfiable -/
example : ODet toyO toyModel toyLoss := ⟨fun _ _ => rfl, fun _ _ _ => rfl, fun _ => rfl⟩

def toyX : Inst Rat := fun f => if f = 0 then 3 else 5
def toyRows : Nat → Inst Rat := fun r _ => (r : Rat)
def toyW (seen : Nat) : World Rat := { est := Est.init none, seen := seen, calls := 0, log := [.storage] }

def toyPfi (seen : Nat) (upd : Bool) : Except Err (Dict Rat) × World Rat :=
  pfiExplainM toyO [0, 1] (imputeMarginalJoint toyO toyRows (fun _ j => j) toyX) toyX 10 3 upd (toyW seen)
def toySage (seen : Nat) (upd : Bool) : Except Err (Dict Rat) × World Rat :=
  sageExplainM toyO [0, 1] (imputeMarginalJoint toyO toyRows (fun _ j => j) toyX) toyX 10 3 [1, 0] upd (toyW seen)

-- a later call: 1 + 2 * 3 = 7 model evaluations, storage once and last; the first call: storage only
example : (toyPfi 1 true).2.log = [.storage] ++
    [.model, .loss, .model, .model, .model, .loss, .loss, .loss, .model, .model, .model, .loss, .loss, .loss,
     .storage] ∧ (toyPfi 1 true).2.seen = 2 ∧ (toyPfi 1 true).2.log.count .model = 7 := by decide +kernel
example : (toyPfi 0 true).2.log = [.storage, .storage] ∧ (toyPfi 0 true).2.seen = 1 ∧
    (toyPfi 0 false).2.log = [.storage] := by decide +kernel
example : (toySage 1 true).2.log = [.storage] ++
    [.model, .loss, .loss, .model, .model, .model, .loss, .model, .model, .model, .loss, .storage] ∧
    (toySage 1 false).2.log.count .storage = 1 ∧ (toySage 1 true).2.log.count .model = 7 := by decide +kernel
-- the returned dict is the importance_values property, and it is not trivially empty
example : (toyPfi 1 true).1.toOption = some (toyPfi 1 true).2.est.importanceValues ∧
    (toyPfi 1 true).2.est.importanceValues ≠ [] := by decide +kernel

end Examples

end Ixai.C15
