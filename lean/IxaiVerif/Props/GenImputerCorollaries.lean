/-
  C06 restated FOR THE GENERATED imputers (Gen/MarginalImputer.lean, Gen/DefaultImputer.lean, translated statement by statement from
  ixai/imputer/*.py on every run), by rewriting with the bridge of Props/GenImputer.lean.
-/
import IxaiVerif.Props.GenImputer
import IxaiVerif.Props.C06

namespace Ixai.GenImputerCorollaries
open Ixai Ixai.GenImputer

variable {V O : Type}

/-- exactly `n_samples` predictions, for both strategies and the default imputer -/
theorem generated_length (idxs : Nat → Nat → Nat) (model : Inst V → O) (rows : Nat → Inst V) (m : Nat) (values : Inst V)
    (S : List Nat) (hS : S.Nodup) (x : Inst V) (n p : Nat) :
    (Gen.MarginalImputer.impute idxs model true rows m S x n p).1.length = n ∧
    (Gen.MarginalImputer.impute idxs model false rows m S x n p).1.length = n ∧
    (Gen.DefaultImputer.impute model values S x n).length = n := by
  rw [marginal_joint_generated_eq_model, marginal_product_generated_eq_model idxs model rows m S hS, default_generated_eq_model]
  exact C06.impute_length model rows values S x n _ _

/-- empty subset: the unperturbed prediction `n_samples` times, and no random draw is consumed by the product strategy -/
theorem generated_empty_subset (idxs : Nat → Nat → Nat) (model : Inst V → O) (rows : Nat → Inst V) (m : Nat) (values : Inst V)
    (x : Inst V) (n p : Nat) :
    (Gen.MarginalImputer.impute idxs model true rows m [] x n p).1 = List.replicate n (model x) ∧
    Gen.MarginalImputer.impute idxs model false rows m [] x n p = (List.replicate n (model x), p) ∧
    Gen.DefaultImputer.impute model values [] x n = List.replicate n (model x) := by
  have h := C06.impute_empty_subset model rows values x n (fun j => idxs (p + j) m)
    (fun j f => idxs (p + j * ([] : List Nat).length + ([] : List Nat).idxOf f) m)
  rw [marginal_joint_generated_eq_model, marginal_product_generated_eq_model idxs model rows m [] List.nodup_nil,
    default_generated_eq_model]
  refine ⟨h.1, ?_, h.2.2⟩
  rw [h.2.1]; simp

/-- joint strategy with in-range draws: the generated imputer's predictions are the model evaluated on inputs that agree with the instance
    outside the subset and take ALL subset features from one stored row -/
theorem generated_joint_inputs (idxs : Nat → Nat → Nat) (hidx : ∀ q k, 0 < k → idxs q k < k) (model : Inst V → O)
    (rows : Nat → Inst V) (m : Nat) (hm : 0 < m) (S : List Nat) (x : Inst V) (n p : Nat) :
    ∃ inputs : List (Inst V), (Gen.MarginalImputer.impute idxs model true rows m S x n p).1 = inputs.map model ∧
      (∀ z ∈ inputs, ∀ f, f ∉ S → z f = x f) ∧ (∀ z ∈ inputs, ∃ r < m, ∀ f ∈ S, z f = rows r f) := by
  refine ⟨jointInputs rows S x n (fun j => idxs (p + j) m), ?_, ?_, ?_⟩
  · rw [marginal_joint_generated_eq_model]; rfl
  · intro z hz f hf
    exact (C06.overlay_outside rows x S x n (fun j => idxs (p + j) m) (fun _ _ => 0) f hf).1 z hz
  · exact C06.joint_inside_stored rows S x n _ m (fun j _ => hidx (p + j) m hm)

end Ixai.GenImputerCorollaries
