/-
  C11 — "After any number n of updates, SlidingWindowTracker(k) reports the mean, variance and standard deviation
  of exactly the last min(n, k) values supplied."
  The theorems are about the hand-written model `Ixai.SW` (`Model/SlidingWindow.lean`) of
  ixai/utils/tracker/sliding_window.py after its two `fix:` commits; `SW.run k vs` is the left fold of `SW.update`
  from `SW.init k`.  `K` is any field (ℚ, ℝ, …); the ordered part is only needed for the sign of `std`.
  The last theorem documents the defect of the shipped update (`SW.updateShipped`).
-/
import IxaiVerif.Proofs.SlidingWindow
import Mathlib.Algebra.Order.Field.Basic
import Mathlib.Algebra.Order.BigOperators.Group.List
import Mathlib.Tactic.Linarith
import Mathlib.Tactic.NormNum
import Mathlib.Data.Rat.Defs
import Mathlib.Analysis.Real.Sqrt

set_option linter.unusedSectionVars false
namespace Ixai.C11
open Ixai

section Contents
variable {K : Type}

/-- the values present in the buffer are, as a multiset, exactly the last `min n k` values supplied -/
theorem sliding_contents (k : Nat) (hk : 1 ≤ k) (vs : List K) :
    (SW.run k vs).present.Perm (vs.drop (vs.length - k)) := SW.present_perm k hk vs

/-- … and there are `min n k` of them -/
theorem sliding_count (k : Nat) (hk : 1 ≤ k) (vs : List K) :
    (SW.run k vs).present.length = min vs.length k := by
  rw [(sliding_contents k hk vs).length_eq]; exact SW.lastK_length k vs

/-- shape of the state: the buffer keeps its length `k`, the write position stays within it -/
theorem sliding_shape (k : Nat) (hk : 1 ≤ k) (vs : List K) :
    (SW.run k vs).window.length = k ∧ (SW.run k vs).pos ≤ k ∧ (SW.run k vs).k = k :=
  ⟨SW.run_window_length k hk vs, SW.run_pos_le k hk vs, SW.run_k k hk vs⟩

end Contents

section Field
variable {K : Type} [Field K] [RealOps K]

/-- the reported mean is the arithmetic mean of the last `min n k` values -/
theorem sliding_mean (k : Nat) (hk : 1 ≤ k) (vs : List K) (_hne : vs ≠ []) :
    (SW.run k vs).mean = (vs.drop (vs.length - k)).sum / ((min vs.length k : Nat) : K) := by
  simp only [SW.mean, lsum_eq_sum]
  rw [sliding_count k hk vs, (sliding_contents k hk vs).sum_eq]

/-- the reported variance is the population variance of the last `min n k` values -/
theorem sliding_var (k : Nat) (hk : 1 ≤ k) (vs : List K) (hne : vs ≠ []) :
    (SW.run k vs).var =
      ((vs.drop (vs.length - k)).map (fun v =>
          (v - (vs.drop (vs.length - k)).sum / ((min vs.length k : Nat) : K)) *
          (v - (vs.drop (vs.length - k)).sum / ((min vs.length k : Nat) : K)))).sum
        / ((min vs.length k : Nat) : K) := by
  simp only [SW.var, lsum_eq_sum]
  rw [sliding_count k hk vs, sliding_mean k hk vs hne,
    ((sliding_contents k hk vs).map _).sum_eq]

/-- `std` is `sqrt var` -/
theorem sliding_std_def (k : Nat) (vs : List K) : (SW.run k vs).std = RealOps.sqrt (SW.run k vs).var := rfl

/-- for a non-empty stream the divisor `min n k` is not zero (in characteristic 0), so the quotients above are
    genuine quotients -/
theorem sliding_divisor_ne_zero [CharZero K] (k : Nat) (hk : 1 ≤ k) (vs : List K) (hne : vs ≠ []) :
    ((min vs.length k : Nat) : K) ≠ 0 := by
  have : 1 ≤ vs.length := List.length_pos_iff.mpr hne
  have h : min vs.length k ≠ 0 := by omega
  exact_mod_cast h

end Field

section Ordered
variable {K : Type} [Field K] [LinearOrder K] [IsStrictOrderedRing K] [RealOps K]

/-- the reported variance is non-negative -/
theorem sliding_var_nonneg (k : Nat) (vs : List K) : 0 ≤ (SW.run k vs).var := by
  simp only [SW.var, lsum_eq_sum]
  apply div_nonneg
  · apply List.sum_nonneg
    intro x hx
    obtain ⟨v, _, rfl⟩ := List.mem_map.mp hx
    exact mul_self_nonneg _
  · exact Nat.cast_nonneg _

/-- with a genuine square root, `std` is the non-negative root of the variance of the last `min n k` values -/
theorem sliding_std (k : Nat) (vs : List K)
    (hsqrt : ∀ x : K, 0 ≤ x → RealOps.sqrt x * RealOps.sqrt x = x ∧ 0 ≤ RealOps.sqrt x) :
    (SW.run k vs).std * (SW.run k vs).std = (SW.run k vs).var ∧ 0 ≤ (SW.run k vs).std := by
  rw [sliding_std_def]; exact hsqrt _ (sliding_var_nonneg k vs)

end Ordered

/-! ### the shipped defect -/

/-- the run of the *shipped* update -/
def runShipped {K : Type} (k : Nat) (vs : List K) : SW K := vs.foldl SW.updateShipped (SW.init k)

/-- With the shipped update, `k = 2` and the stream `1, 2, 3, 4` the buffer holds `{4, 2}`: after the wrap the
    position is reset but not advanced, so `4` overwrites `3` and the stale `2` survives. -/
theorem sliding_shipped_loses_value :
    (runShipped 2 [1, 2, 3, 4] : SW Nat).window = [some 4, some 2] ∧
    ¬ (runShipped 2 [1, 2, 3, 4] : SW Nat).present.Perm [3, 4] ∧
    (SW.run 2 [1, 2, 3, 4] : SW Nat).window = [some 3, some 4] := by
  decide

/-! ### non-vacuity: concrete streams at `K := ℚ` -/
section Examples
local instance : RealOps ℚ := ⟨id, id, id, id⟩

example : (SW.run 2 ([1, 2, 3, 6] : List ℚ)).window = [some 3, some 6] := by
  simp [SW.run, SW.update, SW.init]
example : (SW.run 3 ([1, 2] : List ℚ)).window = [some 1, some 2, none] := by
  simp [SW.run, SW.update, SW.init]
example : (SW.run 2 ([1, 2, 3, 6] : List ℚ)).present.length = 2 := by
  rw [sliding_count 2 (by norm_num)]; rfl
example : (SW.run 2 ([1, 2, 3, 6] : List ℚ)).mean = 9 / 2 := by
  rw [sliding_mean 2 (by norm_num) _ (by simp)]; norm_num
example : (SW.run 2 ([1, 2, 3, 6] : List ℚ)).var = 9 / 4 := by
  rw [sliding_var 2 (by norm_num) _ (by simp)]; norm_num
example : (SW.run 3 ([1, 2] : List ℚ)).mean = 3 / 2 := by
  rw [sliding_mean 3 (by norm_num) _ (by simp)]; norm_num
example : (SW.run 2 ([1, 3, 7] : List ℚ)).var = 4 := by
  rw [sliding_var 2 (by norm_num) _ (by simp)]; norm_num
end Examples

/-! the square-root hypothesis of `sliding_std` is satisfiable: `Real.sqrt` over ℝ -/
section RealExample
noncomputable local instance : RealOps ℝ := ⟨id, id, id, Real.sqrt⟩

example : ∀ x : ℝ, 0 ≤ x → RealOps.sqrt x * RealOps.sqrt x = x ∧ 0 ≤ RealOps.sqrt x :=
  fun _ hx => ⟨Real.mul_self_sqrt hx, Real.sqrt_nonneg _⟩

example (k : Nat) (vs : List ℝ) :
    (SW.run k vs).std * (SW.run k vs).std = (SW.run k vs).var ∧ 0 ≤ (SW.run k vs).std :=
  sliding_std k vs (fun _ hx => ⟨Real.mul_self_sqrt hx, Real.sqrt_nonneg _⟩)

example : (SW.run 2 ([1, 3, 7] : List ℝ)).std = 2 := by
  rw [sliding_std_def, sliding_var 2 (by norm_num) _ (by simp)]
  have h : (4 : ℝ) = 2 * 2 := by norm_num
  norm_num
  show Real.sqrt 4 = 2
  rw [h, Real.sqrt_mul_self (by norm_num)]
end RealExample

end Ixai.C11
