/-
  Bridge between the GENERATED `_normalize_importance_values` (Gen/NormalizeImportance.lean, translated statement by statement
  from ixai/explainer/base.py by tools/py2lean_eff.py) and the hand-written `normalize` of Model/Explainer.lean that the theorems
  of C16 are stated about.  A Python dict has distinct keys.
-/
import IxaiVerif.Gen.NormalizeImportance
import IxaiVerif.Proofs.GenBridge
import IxaiVerif.Props.C16

namespace Ixai.GenNormalize
open Ixai

variable {K : Type} [Add K] [Sub K] [Mul K] [Div K] [NatCast K] [OfNat K 0] [OfNat K 1] [RealOps K] [DecidableEq K] [LE K] [DecidableLE K]

/-- a dict comprehension over the items of a dict with distinct keys that keeps the keys is a `map` -/
theorem ofPairs_map_items {W : Type} (d : Dict K) (hk : d.keys.Nodup) (g : Nat × K → W) :
    Dict.ofPairs (d.map (fun kv => (kv.1, g kv))) = d.map (fun kv => (kv.1, g kv)) := by
  unfold Dict.ofPairs
  rw [Dict.foldl_set_of_nodup _ _ (by simpa [List.map_map, Function.comp_def, Dict.keys] using hk) (by intro k _ h; cases h)]
  simp

/-- mode 'delta' and mode 'sum' return the model's `normalize`; any other mode raises NotImplementedError -/
theorem normalize_generated_eq_model (vals : Dict K) (hk : vals.keys.Nodup) :
    Gen.normalize_importance_values vals "delta" = .ok (normalize vals true) ∧
    Gen.normalize_importance_values vals "sum" = .ok (normalize vals false) ∧
    ∀ m : String, m ≠ "delta" → m ≠ "sum" → Gen.normalize_importance_values vals m = .error "NotImplementedError" := by
  have h0 := ofPairs_map_items vals hk (fun _ => (0 : K))
  refine ⟨?_, ?_, ?_⟩
  · unfold Gen.normalize_importance_values normalize
    by_cases hf : maxL (vals.map Prod.snd) - minL (vals.map Prod.snd) = 0
    · simp [hf, h0, bind, Except.bind, pure, Except.pure]
    · have h1 := ofPairs_map_items vals hk (fun kv => kv.2 / (maxL (vals.map Prod.snd) - minL (vals.map Prod.snd)))
      simp [hf, h1, bind, Except.bind, pure, Except.pure]
  · unfold Gen.normalize_importance_values normalize
    by_cases hf : lsum (vals.map Prod.snd) = 0
    · simp [hf, h0, bind, Except.bind, pure, Except.pure]
    · have h1 := ofPairs_map_items vals hk (fun kv => kv.2 / lsum (vals.map Prod.snd))
      simp [hf, h1, bind, Except.bind, pure, Except.pure]
  · intro m hd hs
    unfold Gen.normalize_importance_values
    simp [hd, hs, bind, Except.bind, throw, throwThe, MonadExceptOf.throw]

/-- combined with C16: the generated function, called with mode 'sum' on a dict whose values do not sum to zero, returns values that
    sum to one -/
theorem generated_sum_one {K : Type} [Field K] [LinearOrder K] [IsStrictOrderedRing K] [RealOps K] (vals : Dict K)
    (hk : vals.keys.Nodup) (h : lsum (vals.map Prod.snd) ≠ 0) :
    ∃ d, Gen.normalize_importance_values vals "sum" = .ok d ∧ lsum (d.map Prod.snd) = 1 :=
  ⟨_, (normalize_generated_eq_model vals hk).2.1, C16.normalize_sum_one vals h⟩

/-- before the first estimate exists the importance dictionary is empty: the generated function returns the empty dictionary in
    both modes (fix 7374397; the zero-normaliser branch handles it because `max(…, default=0) - min(…, default=0) = 0`) -/
theorem generated_empty :
    Gen.normalize_importance_values ([] : Dict K) "delta" = .ok [] ∧
    Gen.normalize_importance_values ([] : Dict K) "sum" = .ok [] := by
  have h := normalize_generated_eq_model ([] : Dict K) (by simp [Dict.keys])
  refine ⟨h.1.trans ?_, h.2.1.trans ?_⟩ <;> simp [normalize]

/-- the code as shipped before fix 7374397 (`max(l) - min(l)` without defaults) in mode 'delta': Python's `max` of an empty
    sequence raises, so an empty importance dictionary had NO normalised view -/
def normalizeDeltaShipped (importance_values : Dict K) : Except String (Dict K) := do
  let l := importance_values.map Prod.snd
  let factor : K := (← maxE l) - (← minE l)
  if decide (factor = (0 : K)) then
    return importance_values.map (fun kv => (kv.1, (0 : K)))
  return importance_values.map (fun kv => (kv.1, kv.2 / factor))

theorem shipped_delta_raises_on_empty : normalizeDeltaShipped ([] : Dict K) = .error "ValueError" := by
  simp [normalizeDeltaShipped, maxE, bind, Except.bind, throw, throwThe, MonadExceptOf.throw]

/-- on a non-empty dictionary the shipped form and the repaired one agree: the repair changes nothing else -/
theorem shipped_delta_eq_model_nonempty (vals : Dict K) (hne : vals ≠ []) :
    normalizeDeltaShipped vals = .ok (normalize vals true) := by
  have hl : (vals.map Prod.snd).isEmpty = false := by
    cases vals with
    | nil => exact absurd rfl hne
    | cons a t => rfl
  unfold normalizeDeltaShipped normalize
  by_cases hf : maxL (vals.map Prod.snd) - minL (vals.map Prod.snd) = 0
  · simp [maxE, minE, hl, hf, bind, Except.bind, pure, Except.pure]
  · simp [maxE, minE, hl, hf, bind, Except.bind, pure, Except.pure]

section Examples
local instance : RealOps ℚ := ⟨id, id, id, id⟩
/-- the hypotheses are satisfiable, on a concrete dict -/
example : (Dict.keys ([(2, 1), (5, 3)] : Dict ℚ)).Nodup ∧ lsum (([(2, 1), (5, 3)] : Dict ℚ).map Prod.snd) ≠ 0 := by
  constructor
  · decide
  · norm_num [lsum]
end Examples

end Ixai.GenNormalize
