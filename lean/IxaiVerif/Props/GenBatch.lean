/-
  Bridge between the GENERATED `BatchSage.explain_many` (Gen/BatchSage.lean, translated statement by statement from
  ixai/explainer/sage/batch.py by tools/py2lean_eff.py) and the models: first the hand-written effectful `batchSageM`
  (Model/Effect.lean), then — when the callbacks answer like pure functions and nothing fails — the pure `batchSage`
  (Model/Explainer.lean) that the theorems of C05 (values are per-observation means of chain contributions, efficiency)
  are stated about.

  `feature_names` has no duplicates and every permutation draw yields a duplicate-free chain of feature names
  (`np.random.permutation(d)` is a permutation of `range(d)`) that is as long as `feature_names` (`hfull`), i.e. it
  covers every name.  `hfull` is needed for the first theorem: `batchSageM` adds `contribs.getD k 0`, literally `+ 0`, to
  the sum of a name without contribution, the generated code leaves such a sum untouched, and `x + 0 = x` is not
  available over the raw operation classes (names `[3]`, the empty draw, one observation and an addition with
  `0 + 0 ≠ 0` give different results).  The second theorem does not use it.
-/
import IxaiVerif.Proofs.GenBatch
set_option linter.unusedVariables false

namespace Ixai.GenBatch
open Ixai

variable {K : Type} [Add K] [Sub K] [Mul K] [Div K] [NatCast K] [OfNat K 0] [OfNat K 1] [RealOps K] [DecidableEq K]
variable {V Y : Type}

/-- every draw gives a duplicate-free chain of feature names -/
def PermOk (names : List Nat) (permutation : Nat → Nat → List Nat) : Prop :=
  ∀ c, (permChainAt names permutation c).Nodup ∧ ∀ f ∈ permChainAt names permutation c, f ∈ names

/-- the generated `BatchSage.explain_many` IS the effectful model `batchSageM` -/
theorem batch_generated_eq_model (O : Oracles K V Y) (names : List Nat) (hnd : names.Nodup) (nDefault : Nat)
    (permutation : Nat → Nat → List Nat) (hperm : PermOk names permutation)
    (hfull : ∀ c, (permChainAt names permutation c).length = names.length)
    (imputeMx : Inst V → List Nat → Nat → M K (List (Dict K))) (xs : List (Inst V)) (ys : List Y) (n? : Option Nat)
    (verbose : Bool) :
    Gen.BatchSage.explain_many O names nDefault permutation imputeMx xs ys n? verbose
      = batchSageM O names permutation imputeMx xs ys (n?.getD nDefault) :=
  batch_generated_eq_model' O names hnd nDefault permutation hperm hfull imputeMx xs ys n? verbose

/-- when the model and loss oracles answer like the pure functions `model` and `loss` and the imputer computations leave the
    estimates alone, a successful `batchSageM` returns the pure `batchSage` of Model/Explainer.lean on the zipped data, for the
    feature orders it drew (each a duplicate-free chain of names) and the imputer behaviours it observed; the explainer's
    estimates are untouched -/
theorem batchSageM_ok_pure (O : Oracles K V Y) (model : Inst V → Dict K) (loss : Y → Dict K → K) (hO : E2E.OAnswers O model loss)
    (names : List Nat) (permutation : Nat → Nat → List Nat) (hperm : PermOk names permutation)
    (imputeMx : Inst V → List Nat → Nat → M K (List (Dict K))) (himp : ∀ x S n, Frame (imputeMx x S n))
    (xs : List (Inst V)) (ys : List Y) (hlen : xs.length = ys.length) (hne : xs ≠ []) (n : Nat) (w : World K) (d : Dict K)
    (h : (batchSageM O names permutation imputeMx xs ys n w).1 = .ok d) :
    ∃ (perms : List (List Nat)) (imps : List (List Nat → List (Dict K))),
      perms.length = xs.length ∧ imps.length = xs.length ∧
      (∀ p ∈ perms, p.Nodup ∧ ∀ f ∈ p, f ∈ names) ∧
      d = batchSage names model loss (List.zip xs ys) perms imps ∧
      (batchSageM O names permutation imputeMx xs ys n w).2.est = w.est :=
  batchSageM_ok_pure' hO names permutation hperm imputeMx himp xs ys hlen hne n w d h

/-- both together, for the GENERATED code: a successful run of what batch.py says now returns the pure `batchSage` of the explained
    data for the feature orders drawn and the imputer behaviours observed (to which C05's `batch_values_are_means` and
    `batch_efficiency` apply), and leaves the explainer's estimates alone -/
theorem generated_batch_ok_pure (O : Oracles K V Y) (model : Inst V → Dict K) (loss : Y → Dict K → K) (hO : E2E.OAnswers O model loss)
    (names : List Nat) (hnd : names.Nodup) (nDefault : Nat) (permutation : Nat → Nat → List Nat) (hperm : PermOk names permutation)
    (hfull : ∀ c, (permChainAt names permutation c).length = names.length)
    (imputeMx : Inst V → List Nat → Nat → M K (List (Dict K))) (himp : ∀ x S n, Frame (imputeMx x S n))
    (xs : List (Inst V)) (ys : List Y) (hlen : xs.length = ys.length) (hne : xs ≠ []) (n? : Option Nat) (verbose : Bool)
    (w : World K) (d : Dict K)
    (h : (Gen.BatchSage.explain_many O names nDefault permutation imputeMx xs ys n? verbose w).1 = .ok d) :
    ∃ (perms : List (List Nat)) (imps : List (List Nat → List (Dict K))),
      perms.length = xs.length ∧ imps.length = xs.length ∧
      (∀ p ∈ perms, p.Nodup ∧ ∀ f ∈ p, f ∈ names) ∧
      d = batchSage names model loss (List.zip xs ys) perms imps ∧
      (Gen.BatchSage.explain_many O names nDefault permutation imputeMx xs ys n? verbose w).2.est = w.est := by
  rw [batch_generated_eq_model O names hnd nDefault permutation hperm hfull] at h ⊢
  exact batchSageM_ok_pure O model loss hO names permutation hperm imputeMx himp xs ys hlen hne _ w d h

/-- the hypotheses are satisfiable: the identity permutation of two names -/
example : PermOk [3, 8] (fun _ _ => [0, 1]) ∧ ∀ c, (permChainAt [3, 8] (fun _ _ => [0, 1]) c).length = [3, 8].length := by
  refine ⟨?_, ?_⟩ <;> intro c <;> simp [permChainAt]

end Ixai.GenBatch
