/-
  C09 — GeometricReservoirStorage follows its inclusion law.
  "Once a GeometricReservoirStorage of size k is full, each new observation enters with the configured constant
  probability p (default 1/k) and replaces a uniformly chosen slot. Hence after n observations one that arrived at
  time t > k is retained with probability p(1-p/k)^(n-t) and each of the first k with (1-p/k)^(n-k); with p = 1 every
  new observation is stored."

  Three layers:
   * what one `update` of the GENERATED kernel does with its two draws (`geom_update_full`, `geom_default_p`,
     `geom_p_one_always_stores`) — by unfolding the code regenerated from geometric_reservoir_storage.py;
   * the law of one step: summing the generated update over the outcomes of its draws, an acceptance of weight `a`
     (= P(U ≤ p) = p for U uniform on [0,1): trusted) and `size` equally likely slots, is exactly the expectation
     functional `Reservoir.stepE` (`geom_step_law`);
   * the inclusion law of the chain of such steps, for every k ≥ 1, n, t and every p in any field of characteristic 0
     (`geom_retention_late`, `geom_retention_early`, `geom_newest_p_one`; proved in Proofs/Reservoir.lean).
-/
import IxaiVerif.Proofs.Storage
import IxaiVerif.Proofs.Reservoir
import Mathlib.Algebra.Order.Field.Basic
import Mathlib.Tactic.NormNum
import Mathlib.Tactic.Linarith

set_option linter.unusedSectionVars false
namespace Ixai.C09
open Ixai Ixai.Gen

section Code
variable {K : Type} [Field K] [LinearOrder K] [IsStrictOrderedRing K] {X Y : Type}

/-- a full reservoir: the new observation enters iff the drawn real is ≤ p, into the slot drawn for range `size` -/
theorem geom_update_full (s : GeometricReservoirStorage K X Y) (x : X) (y : Y) (rnd : Rnd K)
    (hfull : s.storage_x.length = s.size) :
    (s.update x y rnd).1.storage_x =
      (if rnd.reals rnd.rpos ≤ s.constant_probability then s.storage_x.set (rnd.idxs rnd.ipos s.size) x
       else s.storage_x) := by
  have h := (Geometric.update_spec s x y rnd).1
  rw [h, if_neg (by omega)]

/-- the reservoir never changes its capacity or p -/
theorem geom_params_fixed (s : GeometricReservoirStorage K X Y) (x : X) (y : Y) (rnd : Rnd K) :
    (s.update x y rnd).1.size = s.size ∧ (s.update x y rnd).1.constant_probability = s.constant_probability :=
  ⟨(Geometric.update_spec s x y rnd).2.2.1, (Geometric.update_spec s x y rnd).2.2.2.2⟩

/-- `constant_probability = None` means p = 1/k -/
theorem geom_default_p (size : ℕ) (st : Bool) :
    (GeometricReservoirStorage.init size none st : GeometricReservoirStorage K X Y).constant_probability = 1 / (size : K) := by
  simp [GeometricReservoirStorage.init]

theorem geom_explicit_p (size : ℕ) (p : K) (st : Bool) :
    (GeometricReservoirStorage.init size (some p) st : GeometricReservoirStorage K X Y).constant_probability = p := by
  simp [GeometricReservoirStorage.init]

/-- with p = 1 every draw u ∈ [0,1] is accepted: the newest observation is always stored (used by TreeStorage, C19) -/
theorem geom_p_one_always_stores (s : GeometricReservoirStorage K X Y) (x : X) (y : Y) (rnd : Rnd K)
    (hp : s.constant_probability = 1) (hu : rnd.reals rnd.rpos ≤ 1)
    (hlen : s.storage_x.length ≤ s.size)
    (hidx : rnd.idxs rnd.ipos s.size < s.size) :
    x ∈ (s.update x y rnd).1.storage_x := by
  have h := (Geometric.update_spec s x y rnd).1
  rw [h]
  by_cases hlt : s.storage_x.length < s.size
  · simp [hlt]
  · have hfull : s.storage_x.length = s.size := by omega
    rw [if_neg hlt, hp, if_pos hu]
    exact List.mem_set (by omega) x
    
end Code

section Law
variable {K : Type} [Field K] [LinearOrder K] [IsStrictOrderedRing K] {Y : Type}
open Finset

/-- The law of one generated step on a full reservoir of arrival tags: weight `1 - a` on the outcomes of the real draw
    that are rejected, weight `a` on the accepted ones, each of the `size` slot outcomes equally likely.  Whatever
    concrete draws realise these outcomes (`rndR` rejected; `rndA j` accepted with slot j), the sum is `stepE`. -/
theorem geom_step_law (s : GeometricReservoirStorage K ℕ Y) (t : ℕ) (y : Y) (a : K) (f : List ℕ → K)
    (rndR : Rnd K) (rndA : ℕ → Rnd K)
    (hfull : s.storage_x.length = s.size)
    (hR : ¬ rndR.reals rndR.rpos ≤ s.constant_probability)
    (hA : ∀ j, (rndA j).reals (rndA j).rpos ≤ s.constant_probability ∧ (rndA j).idxs (rndA j).ipos s.size = j) :
    (1 - a) * f (s.update t y rndR).1.storage_x
        + a * ((1 : K) / s.size) * ∑ j ∈ range s.size, f (s.update t y (rndA j)).1.storage_x
      = Reservoir.stepE s.size a t s.storage_x f := by
  unfold Reservoir.stepE
  rw [geom_update_full s t y rndR hfull, if_neg hR]
  congr 2
  apply Finset.sum_congr rfl
  intro j _
  rw [geom_update_full s t y (rndA j) hfull, if_pos (hA j).1, (hA j).2]

end Law

section Chain
variable {K : Type} [Field K] [CharZero K]

/-- an observation that arrived at time t > k is retained after n observations with probability p (1 - p/k)^(n-t) -/
theorem geom_retention_late (k n t : ℕ) (hk : 1 ≤ k) (ht : k < t) (htn : t ≤ n) (p : K) :
    Reservoir.runE k (fun _ => p) k (n - k) (List.range' 1 k) (Reservoir.ind {t}) = p * (1 - p / k) ^ (n - t) :=
  Reservoir.geom_retention_late k n t hk ht htn p

/-- each of the first k observations is retained with probability (1 - p/k)^(n-k) -/
theorem geom_retention_early (k n t : ℕ) (hk : 1 ≤ k) (ht1 : 1 ≤ t) (htk : t ≤ k) (hn : k ≤ n) (p : K) :
    Reservoir.runE k (fun _ => p) k (n - k) (List.range' 1 k) (Reservoir.ind {t}) = (1 - p / k) ^ (n - k) :=
  Reservoir.geom_retention_early k n t hk ht1 htk hn p

/-- p = 1: the newest observation is retained with probability one -/
theorem geom_newest_p_one (k n : ℕ) (hk : 1 ≤ k) (hn : k < n) :
    Reservoir.runE k (fun _ => (1 : K)) k (n - k) (List.range' 1 k) (Reservoir.ind {n}) = 1 :=
  Reservoir.geom_newest_p_one k n hk hn

end Chain

/-! non-vacuity -/
section Examples
/-- capacity 2, p = 1/2, four arrivals: arrival 3 is retained with probability 1/2 · (1 - 1/4) = 3/8 -/
example : Reservoir.runE 2 (fun _ => (1/2 : ℚ)) 2 (4 - 2) (List.range' 1 2) (Reservoir.ind {3}) = 3 / 8 := by
  rw [geom_retention_late 2 4 3 (by norm_num) (by norm_num) (by norm_num)]; norm_num

/-- a concrete full reservoir through the generated code: u = 1/4 ≤ p = 1/2 is accepted into slot 1 -/
example : ((GeometricReservoirStorage.update
      ({ storage_x := [1, 2], storage_y := [], size := 2, store_targets := false, constant_probability := (1/2 : ℚ) } :
        GeometricReservoirStorage ℚ ℕ ℕ) 3 0
      { reals := fun _ => 1/4, idxs := fun _ _ => 1 }).1.storage_x) = [1, 3] := by
  rw [geom_update_full _ _ _ _ rfl]; norm_num
end Examples

end Ixai.C09
