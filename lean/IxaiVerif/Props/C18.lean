/-
  C18 — results are reproducible from the global seeds.
  "All randomness comes from Python's and NumPy's global generators: with both seeded identically, replaying the same
  stream through identically configured storages, imputers and explainers … yields identical storage contents and
  bit-identical importance values. Results do not depend on wall-clock time, object identities, or on other library
  objects created or used before."

  A Lean function is deterministic by construction, so "the model is a function of its arguments" carries no
  information about the code; the property is carried by the record/replay correspondence of the check (DESIGN.md
  section 6, C18), and C18 is claimed at level `other`.  What IS a theorem, and is used by that correspondence, is
  LOCALITY of the draws: the regenerated kernels consume the random source only at the current read positions — one
  step's result is determined by the state, the observation and the (at most two reals, one index) draws it consumes,
  advances the positions by exactly the number of draws consumed, and never looks at any other part of the source.
  Hence two runs whose recorded draw logs coincide coincide everywhere.
-/
import IxaiVerif.Gen.GeometricReservoirStorage
import IxaiVerif.Gen.UniformReservoirStorage
import IxaiVerif.Model.Imputer
import Mathlib.Algebra.Order.Field.Basic
import Mathlib.Algebra.Order.Field.Rat
import Mathlib.Data.Rat.Defs

set_option linter.unusedSectionVars false
namespace Ixai.C18
open Ixai Ixai.Gen

section Geometric
variable {K : Type} [Field K] [LinearOrder K] [IsStrictOrderedRing K] {X Y : Type}

/-- the geometric update as an explicit function of the two draws it may consume -/
def geomCore (s : GeometricReservoirStorage K X Y) (x : X) (y : Y) (u : K) (j : ℕ) : GeometricReservoirStorage K X Y :=
  if s.storage_x.length < s.size then
    { s with storage_x := s.storage_x ++ [x], storage_y := if s.store_targets then s.storage_y ++ [y] else s.storage_y }
  else if u ≤ s.constant_probability then
    { s with storage_x := s.storage_x.set j x, storage_y := if s.store_targets then s.storage_y.set j y else s.storage_y }
  else s

theorem geom_update_eq_core (s : GeometricReservoirStorage K X Y) (x : X) (y : Y) (r : Rnd K) :
    (s.update x y r).1 = geomCore s x y (r.reals r.rpos) (r.idxs r.ipos s.size) := by
  simp only [GeometricReservoirStorage.update, Rnd.nextReal, Rnd.nextIdx, geomCore]
  by_cases hlt : s.storage_x.length < s.size <;> cases h : s.store_targets <;>
    by_cases hp : r.reals r.rpos ≤ s.constant_probability <;> simp [hlt, hp, h]

/-- a geometric-reservoir update depends on the random source only through the real and the index at the read positions -/
theorem geom_update_local (s : GeometricReservoirStorage K X Y) (x : X) (y : Y) (r₁ r₂ : Rnd K)
    (hreal : r₁.reals r₁.rpos = r₂.reals r₂.rpos)
    (hidx : r₁.idxs r₁.ipos s.size = r₂.idxs r₂.ipos s.size) :
    (s.update x y r₁).1 = (s.update x y r₂).1 := by
  rw [geom_update_eq_core, geom_update_eq_core, hreal, hidx]

/-- … and consumes at most one real and one index -/
theorem geom_update_consumes (s : GeometricReservoirStorage K X Y) (x : X) (y : Y) (r : Rnd K) :
    (s.update x y r).2.reals = r.reals ∧ (s.update x y r).2.idxs = r.idxs ∧
    r.rpos ≤ (s.update x y r).2.rpos ∧ (s.update x y r).2.rpos ≤ r.rpos + 1 ∧
    r.ipos ≤ (s.update x y r).2.ipos ∧ (s.update x y r).2.ipos ≤ r.ipos + 1 := by
  simp only [GeometricReservoirStorage.update, Rnd.nextReal, Rnd.nextIdx]
  by_cases hlt : s.storage_x.length < s.size <;> cases h : s.store_targets <;>
    by_cases hp : r.reals r.rpos ≤ s.constant_probability <;> simp [hlt, hp, h]

end Geometric

section Uniform
variable {K : Type} [Field K] [DecidableEq K] [RealOps K] {X Y : Type}

/-- the uniform (Algorithm L) update as an explicit function of the draws it may consume -/
def uniformCore (s : UniformReservoirStorage K X Y) (x : X) (y : Y) (u1 u2 : K) (j : ℕ) : UniformReservoirStorage K X Y :=
  if s.stored_samples + 1 ≤ s.size then
    { s with stored_samples := s.stored_samples + 1, storage_x := s.storage_x ++ [x],
             storage_y := if s.store_targets then s.storage_y ++ [y] else s.storage_y }
  else if s.algo_l_counter = ((s.stored_samples : K) + 1) then
    let w := s.algo_wt * RealOps.exp (RealOps.log u1 / (s.size : K))
    { s with stored_samples := s.stored_samples + 1, storage_x := s.storage_x.set j x,
             storage_y := if s.store_targets then s.storage_y.set j y else s.storage_y,
             algo_wt := w,
             algo_l_counter := s.algo_l_counter + (RealOps.floor (RealOps.log u2 / RealOps.log (1 - w)) + 1) }
  else { s with stored_samples := s.stored_samples + 1 }

theorem uniform_update_eq_core (s : UniformReservoirStorage K X Y) (x : X) (y : Y) (r : Rnd K) :
    (s.update x y r).1 = uniformCore s x y (r.reals r.rpos) (r.reals (r.rpos + 1)) (r.idxs r.ipos s.size) := by
  simp only [UniformReservoirStorage.update, Rnd.nextReal, Rnd.nextIdx, uniformCore]
  by_cases hlt : s.stored_samples + 1 ≤ s.size <;> cases h : s.store_targets <;>
    by_cases hp : s.algo_l_counter = ((s.stored_samples : K) + 1) <;> simp [hlt, hp, h]

/-- a uniform-reservoir update depends on the random source only through two reals and one index at the read positions -/
theorem uniform_update_local (s : UniformReservoirStorage K X Y) (x : X) (y : Y) (r₁ r₂ : Rnd K)
    (hreal0 : r₁.reals r₁.rpos = r₂.reals r₂.rpos)
    (hreal1 : r₁.reals (r₁.rpos + 1) = r₂.reals (r₂.rpos + 1))
    (hidx : r₁.idxs r₁.ipos s.size = r₂.idxs r₂.ipos s.size) :
    (s.update x y r₁).1 = (s.update x y r₂).1 := by
  rw [uniform_update_eq_core, uniform_update_eq_core, hreal0, hreal1, hidx]

theorem uniform_update_consumes (s : UniformReservoirStorage K X Y) (x : X) (y : Y) (r : Rnd K) :
    (s.update x y r).2.reals = r.reals ∧ (s.update x y r).2.idxs = r.idxs ∧
    r.rpos ≤ (s.update x y r).2.rpos ∧ (s.update x y r).2.rpos ≤ r.rpos + 2 ∧
    r.ipos ≤ (s.update x y r).2.ipos ∧ (s.update x y r).2.ipos ≤ r.ipos + 1 := by
  simp only [UniformReservoirStorage.update, Rnd.nextReal, Rnd.nextIdx]
  by_cases hlt : s.stored_samples + 1 ≤ s.size <;> cases h : s.store_targets <;>
    by_cases hp : s.algo_l_counter = ((s.stored_samples : K) + 1) <;> simp [hlt, hp, h] <;> omega

end Uniform

section Imputer
variable {V O : Type}

/-- the joint imputer's predictions are determined by the row choices of its n inner samples (and nothing else) -/
theorem joint_local (model : Inst V → O) (rows : Nat → Inst V) (S : List Nat) (x : Inst V) (n : Nat) (c₁ c₂ : Nat → Nat)
    (h : ∀ j < n, c₁ j = c₂ j) : imputeJoint model rows S x n c₁ = imputeJoint model rows S x n c₂ := by
  simp only [imputeJoint, jointInputs]
  congr 1
  apply List.map_congr_left
  intro j hj
  rw [h j (List.mem_range.mp hj)]

end Imputer

/-! non-vacuity: two different sources that agree at the read positions give the same state -/
example (s : GeometricReservoirStorage ℚ ℕ ℕ) :
    (s.update 3 0 { reals := fun _ => 1/4, idxs := fun _ _ => 1 }).1 =
    (s.update 3 0 { reals := fun i => if i = 0 then 1/4 else 9, idxs := fun i _ => if i = 0 then 1 else 0 }).1 :=
  geom_update_local s 3 0 _ _ rfl rfl

end Ixai.C18
