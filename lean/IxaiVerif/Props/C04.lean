/-
  C04 — the per-observation contributions are unbiased for the quantity defined by the storage contents.
  "The expected contribution added for an observation equals the exact quantity defined by the current storage
  contents: for SAGE the Shapley value of the game whose coalition value is the expected loss under the imputer, for
  PFI the expected loss increase when the feature is resampled. Equivalently, feature orders are uniform over all d!
  permutations and background rows are drawn uniformly from the whole storage — one row for all imputed features under
  the joint strategy, an independent row per feature under the product strategy, and uniformly from the whole data set
  in BatchSage's original mode."

  Probability model. No measure theory: an expectation is an explicit finite average over the outcomes of the draws,
  all outcomes equally likely, weights in `K` (a field of characteristic 0).
  * one joint-strategy imputer call with `n` inner samples on a storage of `m` rows draws `r : Fin n → Fin m`
    (inner sample ↦ row index); `Er n m g = (∑ r, g r) / m^n`. `rowFn r : Nat → Nat` is `r` as the `rowOf` argument
    of `Ixai.imputeJoint`;
  * one explained SAGE observation draws an order `π` of `names` and, for every chain position `p < d`
    (`d = names.length`), independent row draws `R p`; `ER d n m g = (∑ R, g R) / (m^n)^d` averages over
    `R : Fin d → Fin n → Fin m`; `Eorders names g = (∑_{π ∈ names.permutations} g π) / d!` averages over the orders
    (`orders_enumeration`: for duplicate-free `names` that list has no duplicates, `d!` entries, and contains exactly
    the permutations of `names`). `sage_update_unbiased` also states the left-hand side as one average over the
    `d! · (m^n)^d` joint outcomes.
  * imputer behaviour for an outcome `R`: the chain over a permutation of `d` distinct names requests subsets of
    lengths `d-1, …, 0` at positions `0, …, d-1`, so `jointImp … R T = imputeJoint model rows T x n (rowFn (R p))` with
    `p = d - 1 - T.length` (`Unbiased.posOf`, `joint_imp_position`).
  The game: `v T = Er[ loss y (meanOutput (imputeJoint model rows T x n ·)) ]` for the set `T` of *imputed* features;
  `w S` for the set `S` of *revealed* features is `l0` for `S = []` and `v (names.diff S)` otherwise, where `l0` is the
  start loss of the chain (loss of the normalised running-mean prediction; for BatchSage the loss of the data set's mean
  prediction) — fixed, it does not depend on the draws of this call.

  Results: (P) `pfi_update_unbiased`, `pfi_contribution_unbiased`, `pfi_joint_eq_product_on_singleton`;
  (S) `marginalisation`, `sage_contribution_expectation`, `sage_update_unbiased` (permutation-average form of the
  Shapley value, `sage_update_is_shapley`), `sage_update_subset_form` (subset weights `|S|!(d-|S|-1)!/d!`),
  `sage_update_unbiased_generic` / `_product` (any imputer with independent draws per chain position; product strategy);
  (O) `overlay_swap`, `orig_eq_joint`, `batch_orig_update_unbiased`.

  Hypotheses beyond the informal statement: `names.Nodup` (a dict's keys), `1 ≤ m` (non-empty storage; the library
  only explains once the storage is seeded), `1 ≤ n` for PFI (with `n = 0` `np.mean([])` is not a number), `f ∈ names`.
  `1 ≤ d` follows from `f ∈ names` / `j < π.length`. For the original mode: the model reads only features in `names`
  (`hmodel`), which is how "the instance only has features from names" is expressed for function-valued instances.
-/
import IxaiVerif.Proofs.Unbiased
import IxaiVerif.Props.C02
import IxaiVerif.Props.C03
import Mathlib.Data.Rat.Defs
import Mathlib.Tactic.NormNum

set_option linter.unusedSectionVars false
namespace Ixai.C04
open Ixai Ixai.Unbiased

variable {K : Type} [Field K] [CharZero K] [RealOps K] [DecidableEq K] {V Y : Type}

/-! ### expectations as explicit finite averages -/

/-- expectation over the row draws of one imputer call: `m^n` equally likely outcomes -/
def Er (n m : Nat) (g : (Fin n → Fin m) → K) : K := (∑ r, g r) / (m : K) ^ n

/-- expectation over the independent row draws of the `d` chain positions: `(m^n)^d` equally likely outcomes -/
def ER (d n m : Nat) (g : (Fin d → Fin n → Fin m) → K) : K := (∑ R, g R) / ((m : K) ^ n) ^ d

theorem Er_eq_E (n m : Nat) (g : (Fin n → Fin m) → K) : Er n m g = E g := by simp [Er, E]
theorem ER_eq_E (d n m : Nat) (g : (Fin d → Fin n → Fin m) → K) : ER d n m g = E g := by simp [ER, E]

/-- **marginalisation**, general form: for finitely many independent uniform coordinates `R i : α`, the average of a
    function of coordinate `i` alone is its average over `α` -/
theorem marginalisation {ι α : Type} [Fintype ι] [DecidableEq ι] [Fintype α] [Nonempty α] (i : ι) (g : α → K) :
    (∑ R : ι → α, g (R i)) / (Fintype.card α : K) ^ Fintype.card ι = (∑ a, g a) / (Fintype.card α : K) := by
  have := E_coord (K := K) i g
  simpa [E] using this

/-- marginalisation for the row draws of the chain positions -/
theorem marginalisation_rows (d n m : Nat) (hm : 1 ≤ m) (p : Fin d) (g : (Fin n → Fin m) → K) :
    ER d n m (fun R => g (R p)) = Er n m g := by
  have : Nonempty (Fin m) := ⟨⟨0, hm⟩⟩
  rw [ER_eq_E, Er_eq_E]; exact E_coord p g

/-! ### (P) PFI -/

/-- the expected mean loss over the `n` inner samples, feature `f` replaced from a uniformly drawn stored row, is the
    average over the whole storage of the loss with `f` resampled -/
theorem pfi_update_unbiased (model : Inst V → Dict K) (loss : Y → Dict K → K) (rows : Nat → Inst V) (x : Inst V)
    (y : Y) (f n m : Nat) (hn : 1 ≤ n) (hm : 1 ≤ m) :
    Er n m (fun r => meanK ((imputeJoint model rows [f] x n (rowFn r)).map (loss y))) =
      (∑ j : Fin m, loss y (model (overlay x [f] (rows j)))) / (m : K) := by
  rw [Er_eq_E, E_meanK_imputeJoint model rows [f] x n m hn hm (loss y), E_fin_eq]

/-- the same for any subset `S` (PFI uses singletons) -/
theorem joint_mean_loss_unbiased (model : Inst V → Dict K) (loss : Y → Dict K → K) (rows : Nat → Inst V)
    (x : Inst V) (y : Y) (S : List Nat) (n m : Nat) (hn : 1 ≤ n) (hm : 1 ≤ m) :
    Er n m (fun r => meanK ((imputeJoint model rows S x n (rowFn r)).map (loss y))) =
      (∑ j : Fin m, loss y (model (overlay x S (rows j)))) / (m : K) := by
  rw [Er_eq_E, E_meanK_imputeJoint model rows S x n m hn hm (loss y), E_fin_eq]

/-- expected PFI contribution of `f` = expected loss increase when `f` is resampled from the storage. The explainer
    makes one imputer call per feature, each with its own draws: `R i` are the draws of call `i : ι`, `call T` says
    which call serves subset `T` (any assignment) -/
theorem pfi_contribution_unbiased {ι : Type} [Fintype ι] [DecidableEq ι] (call : List Nat → ι)
    (names : List Nat) (model : Inst V → Dict K) (loss : Y → Dict K → K) (rows : Nat → Inst V)
    (x : Inst V) (y : Y) (f n m : Nat) (hf : f ∈ names) (hn : 1 ≤ n) (hm : 1 ≤ m) :
    E (fun R : ι → Fin n → Fin m =>
        (pfiContribs names model loss x y (fun T => imputeJoint model rows T x n (rowFn (R (call T))))).getD f 0) =
      (∑ j : Fin m, loss y (model (overlay x [f] (rows j)))) / (m : K) - loss y (model x) := by
  have : Nonempty (Fin m) := ⟨⟨0, hm⟩⟩
  have hc : ∀ R : ι → Fin n → Fin m,
      (pfiContribs names model loss x y (fun T => imputeJoint model rows T x n (rowFn (R (call T))))).getD f 0 =
        meanK ((imputeJoint model rows [f] x n (rowFn (R (call [f])))).map (loss y)) - loss y (model x) :=
    fun R => C02.pfi_contribution names model loss
      ⟨x, y, fun T => imputeJoint model rows T x n (rowFn (R (call T)))⟩ f hf
  rw [E_congr hc, E_sub, E_const,
    E_coord (call [f]) (fun r : Fin n → Fin m => meanK ((imputeJoint model rows [f] x n (rowFn r)).map (loss y))),
    ← Er_eq_E, pfi_update_unbiased model loss rows x y f n m hn hm]

/-- on a singleton subset the joint and product strategies evaluate the model on the same inputs when the product's
    row choice for (sample `j`, feature `f`) is the joint's row choice for sample `j`; since both choices are uniform on
    the storage, the two strategies have the same law for PFI -/
theorem pfi_joint_eq_product_on_singleton {O : Type} (model : Inst V → O) (rows : Nat → Inst V) (f : Nat)
    (x : Inst V) (n : Nat) (rowOf : Nat → Nat) (rowOf₂ : Nat → Nat → Nat) (h : ∀ j, j < n → rowOf₂ j f = rowOf j) :
    productInputs rows [f] x n rowOf₂ = jointInputs rows [f] x n rowOf ∧
      imputeProduct model rows [f] x n rowOf₂ = imputeJoint model rows [f] x n rowOf := by
  have := productInputs_singleton rows f x n rowOf rowOf₂ h
  exact ⟨this, by simp only [imputeProduct, imputeJoint, this]⟩

/-! ### (S) SAGE, joint strategy -/

/-- imputer behaviour for the outcome `R` of the row draws: chain position `p` uses `R p` -/
def jointImp (model : Inst V → Dict K) (rows : Nat → Inst V) (x : Inst V) (n m d : Nat) (hd : 0 < d)
    (R : Fin d → Fin n → Fin m) : List Nat → List (Dict K) :=
  fun T => imputeJoint model rows T x n (rowFn (R (posOf d hd T)))

/-- coalition value of the set `T` of imputed features -/
def v (model : Inst V → Dict K) (loss : Y → Dict K → K) (rows : Nat → Inst V) (x : Inst V) (y : Y) (n m : Nat)
    (T : List Nat) : K :=
  Er n m (fun r => loss y (meanOutput (imputeJoint model rows T x n (rowFn r))))

/-- the game on the set `S` of revealed features -/
def w (model : Inst V → Dict K) (loss : Y → Dict K → K) (rows : Nat → Inst V) (x : Inst V) (y : Y) (n m : Nat)
    (names : List Nat) (l0 : K) (S : List Nat) : K :=
  if S = [] then l0 else v model loss rows x y n m (names.diff S)

/-- the joint kernel, to instantiate the generic lemmas of `Proofs/Unbiased.lean` -/
def jointKernel (model : Inst V → Dict K) (rows : Nat → Inst V) (x : Inst V) (n m : Nat) :
    List Nat → (Fin n → Fin m) → List (Dict K) :=
  fun T r => imputeJoint model rows T x n (rowFn r)

theorem jointImp_eq (model : Inst V → Dict K) (rows : Nat → Inst V) (x : Inst V) (n m d : Nat) (hd : 0 < d)
    (R : Fin d → Fin n → Fin m) :
    jointImp model rows x n m d hd R = drawImp d hd (jointKernel model rows x n m) R := rfl

theorem w_eq (model : Inst V → Dict K) (loss : Y → Dict K → K) (rows : Nat → Inst V) (x : Inst V) (y : Y)
    (n m : Nat) (names : List Nat) (l0 : K) (S : List Nat) :
    w model loss rows x y n m names l0 S = gameW loss y (jointKernel model rows x n m) names l0 S := by
  simp only [w, gameW, v, coalV, Er_eq_E, jointKernel]

/-- the position used for the subset requested at chain position `j` is `j` -/
theorem joint_imp_position (names π : List Nat) (hp : π.Perm names) (hd : 0 < names.length) (j : Nat)
    (hj : j < names.length) :
    (posOf names.length hd (names.diff (π.take (j + 1)))).val = j := by
  show names.length - 1 - (names.diff (π.take (j + 1))).length = j
  rw [length_diff_take names π hp (j + 1) hj]; omega

/-- for a fixed order `π` and chain position `j`: the expectation over all row draws of the contribution of feature
    `π[j]` is `w(first j features) - w(first j+1 features)` -/
theorem sage_contribution_expectation (model : Inst V → Dict K) (loss : Y → Dict K → K) (rows : Nat → Inst V)
    (x : Inst V) (y : Y) (n m : Nat) (hm : 1 ≤ m) (names π : List Nat) (hn : names.Nodup) (hp : π.Perm names)
    (l0 : K) (hd : 0 < names.length) (j : Nat) (hj : j < π.length) :
    ER names.length n m (fun R =>
        (sageChain loss y (jointImp model rows x n m names.length hd R) π names l0).getD π[j] 0) =
      w model loss rows x y n m names l0 (π.take j) - w model loss rows x y n m names l0 (π.take (j + 1)) := by
  have : Nonempty (Fin m) := ⟨⟨0, hm⟩⟩
  rw [ER_eq_E, w_eq, w_eq]
  exact E_contribution loss y (jointKernel model rows x n m) names π hn hp l0 hd j hj

/-- averaging also over the `d!` orders: the expected contribution of feature `f` is the permutation average of
    `w(features before f) - w(features before f, and f)` — the Shapley value, in permutation form, of the game
    `S ↦ w [] - w S` (loss reduction when the features `S` are revealed), see `sage_update_is_shapley`.
    The left-hand side is the uniform average over all `d! · (m^n)^d` joint outcomes (order, row draws). -/
theorem sage_update_unbiased (model : Inst V → Dict K) (loss : Y → Dict K → K) (rows : Nat → Inst V)
    (x : Inst V) (y : Y) (n m : Nat) (hm : 1 ≤ m) (names : List Nat) (hn : names.Nodup) (l0 : K)
    (hd : 0 < names.length) (f : Nat) (hf : f ∈ names) :
    (names.permutations.map (fun π => ∑ R : Fin names.length → Fin n → Fin m,
        (sageChain loss y (jointImp model rows x n m names.length hd R) π names l0).getD f 0)).sum /
        ((names.length.factorial : K) * ((m : K) ^ n) ^ names.length) =
      (names.permutations.map (fun π =>
        w model loss rows x y n m names l0 (pre π f) - w model loss rows x y n m names l0 (pre π f ++ [f]))).sum /
        (names.length.factorial : K) := by
  have : Nonempty (Fin m) := ⟨⟨0, hm⟩⟩
  have h := E_update loss y (jointKernel model rows x n m) names hn l0 hd f hf
  rw [Eorders_E_eq] at h
  simp only [Fintype.card_fun, Fintype.card_fin, Nat.cast_pow] at h
  simp only [w_eq]
  exact h

/-- two-stage form of the same statement -/
theorem sage_update_unbiased' (model : Inst V → Dict K) (loss : Y → Dict K → K) (rows : Nat → Inst V)
    (x : Inst V) (y : Y) (n m : Nat) (hm : 1 ≤ m) (names : List Nat) (hn : names.Nodup) (l0 : K)
    (hd : 0 < names.length) (f : Nat) (hf : f ∈ names) :
    Eorders names (fun π => ER names.length n m (fun R =>
        (sageChain loss y (jointImp model rows x n m names.length hd R) π names l0).getD f 0)) =
      Eorders names (fun π =>
        w model loss rows x y n m names l0 (pre π f) - w model loss rows x y n m names l0 (pre π f ++ [f])) := by
  have : Nonempty (Fin m) := ⟨⟨0, hm⟩⟩
  simp only [ER_eq_E, w_eq]
  exact E_update loss y (jointKernel model rows x n m) names hn l0 hd f hf

/-- Shapley value of a game `u` on lists of players, permutation-average form -/
def shapleyPerm (names : List Nat) (u : List Nat → K) (f : Nat) : K :=
  Eorders names (fun π => u (pre π f ++ [f]) - u (pre π f))

theorem sage_update_is_shapley (model : Inst V → Dict K) (loss : Y → Dict K → K) (rows : Nat → Inst V)
    (x : Inst V) (y : Y) (n m : Nat) (hm : 1 ≤ m) (names : List Nat) (hn : names.Nodup) (l0 : K)
    (hd : 0 < names.length) (f : Nat) (hf : f ∈ names) :
    Eorders names (fun π => ER names.length n m (fun R =>
        (sageChain loss y (jointImp model rows x n m names.length hd R) π names l0).getD f 0)) =
      shapleyPerm names (fun S => w model loss rows x y n m names l0 [] - w model loss rows x y n m names l0 S) f := by
  rw [sage_update_unbiased' model loss rows x y n m hm names hn l0 hd f hf]
  unfold shapleyPerm
  congr 1; funext π; ring

/-- `w` depends on the revealed features only as a set -/
theorem w_set (model : Inst V → Dict K) (loss : Y → Dict K → K) (rows : Nat → Inst V) (x : Inst V) (y : Y)
    (n m : Nat) (names : List Nat) (l0 : K) (S S' : List Nat) (h : S.Perm S') :
    w model loss rows x y n m names l0 S = w model loss rows x y n m names l0 S' := by
  unfold w
  by_cases hS : S = []
  · subst hS
    rw [List.Perm.eq_nil h.symm]
  · have hS' : S' ≠ [] := fun e => hS (by subst e; exact h.eq_nil)
    rw [if_neg hS, if_neg hS', h.diff_left names]

/-- subset-weight form of the same Shapley value: a set `S ⊆ names ∖ {f}` of features revealed before `f` has weight
    `|S|! (d - |S| - 1)! / d!` (`S ++ [f]` stands for `S ∪ {f}`; `w` depends on its argument only as a set, `w_set`;
    `(names.erase f).sublists` lists every subset of `names ∖ {f}` once, in the order of `names`) -/
theorem sage_update_subset_form (model : Inst V → Dict K) (loss : Y → Dict K → K) (rows : Nat → Inst V)
    (x : Inst V) (y : Y) (n m : Nat) (hm : 1 ≤ m) (names : List Nat) (hn : names.Nodup) (l0 : K)
    (hd : 0 < names.length) (f : Nat) (hf : f ∈ names) :
    Eorders names (fun π => ER names.length n m (fun R =>
        (sageChain loss y (jointImp model rows x n m names.length hd R) π names l0).getD f 0)) =
      ((names.erase f).sublists.map (fun S =>
        ((S.length.factorial : K) * ((names.length - 1 - S.length).factorial : K) / (names.length.factorial : K)) *
          (w model loss rows x y n m names l0 S - w model loss rows x y n m names l0 (S ++ [f])))).sum := by
  rw [sage_update_unbiased' model loss rows x y n m hm names hn l0 hd f hf,
    shapley_subset_form names hn f hf _ (w_set model loss rows x y n m names l0)]

/-- the order average is over exactly the `d!` permutations of `names`, each once -/
theorem orders_uniform (names : List Nat) (hn : names.Nodup) :
    names.permutations.Nodup ∧ names.permutations.length = names.length.factorial ∧
      ∀ π, π ∈ names.permutations ↔ π.Perm names := orders_enumeration names hn

/-! ### (S') any imputer with independent draws per chain position; product strategy -/

/-- generic form: `α` the (finite, non-empty) outcome type of one imputer call, `I T a` what the imputer returns for
    subset `T` on outcome `a`. Instances: joint strategy (above), product strategy, BatchSage original mode (below) -/
theorem sage_update_unbiased_generic {α : Type} [Fintype α] [Nonempty α] (loss : Y → Dict K → K) (y : Y)
    (I : List Nat → α → List (Dict K)) (names : List Nat) (hn : names.Nodup) (l0 : K) (hd : 0 < names.length)
    (f : Nat) (hf : f ∈ names) :
    (names.permutations.map (fun π => ∑ R : Fin names.length → α,
        (sageChain loss y (drawImp names.length hd I R) π names l0).getD f 0)).sum /
        ((names.length.factorial : K) * (Fintype.card α : K) ^ names.length) =
      (names.permutations.map (fun π =>
        gameW loss y I names l0 (pre π f) - gameW loss y I names l0 (pre π f ++ [f]))).sum /
        (names.length.factorial : K) := by
  have h := E_update loss y I names hn l0 hd f hf
  rw [Eorders_E_eq] at h
  exact h

/-- product strategy: the outcome of one call is a row index per (inner sample, feature); the feature `g` is
    identified by its position in `names` -/
def productKernel (model : Inst V → Dict K) (rows : Nat → Inst V) (x : Inst V) (n m : Nat) (names : List Nat)
    (hd : 0 < names.length) : List Nat → (Fin n → Fin names.length → Fin m) → List (Dict K) :=
  fun T a => imputeProduct model rows T x n
    (fun j g => if h : j < n then (a ⟨j, h⟩ ⟨names.idxOf g % names.length, Nat.mod_lt _ hd⟩).val else 0)

theorem sage_update_unbiased_product (model : Inst V → Dict K) (loss : Y → Dict K → K) (rows : Nat → Inst V)
    (x : Inst V) (y : Y) (n m : Nat) (hm : 1 ≤ m) (names : List Nat) (hn : names.Nodup) (l0 : K)
    (hd : 0 < names.length) (f : Nat) (hf : f ∈ names) :
    (names.permutations.map (fun π => ∑ R : Fin names.length → Fin n → Fin names.length → Fin m,
        (sageChain loss y (drawImp names.length hd (productKernel model rows x n m names hd) R) π names l0).getD f 0)).sum /
        ((names.length.factorial : K) * (((m : K) ^ names.length) ^ n) ^ names.length) =
      (names.permutations.map (fun π =>
        gameW loss y (productKernel model rows x n m names hd) names l0 (pre π f) -
          gameW loss y (productKernel model rows x n m names hd) names l0 (pre π f ++ [f]))).sum /
        (names.length.factorial : K) := by
  have : Nonempty (Fin m) := ⟨⟨0, hm⟩⟩
  have h := sage_update_unbiased_generic (K := K) loss y (productKernel model rows x n m names hd) names hn l0 hd f hf
  simpa only [Fintype.card_fun, Fintype.card_fin, Nat.cast_pow] using h

/-! ### (O) BatchSage original mode -/

/-- `{**row, **x_S}` (`row` from the data set, revealed features `S` from `x`) agrees on the features of `names` with
    `{**x, **row_T}`, `T = names ∖ S` the features not revealed -/
theorem overlay_swap (names : List Nat) (hn : names.Nodup) (row x : Inst V) (S : List Nat) {g : Nat}
    (hg : g ∈ names) : overlay row S x g = overlay x (names.diff S) row g :=
  Unbiased.overlay_swap names hn row x S hg

/-- hence for a model reading only the features in `names`, original mode (`imputeOrig`: row of the data set overlaid
    with the revealed features `names ∖ T` of `x`) is the joint strategy with the data set as storage -/
theorem orig_eq_joint {O : Type} (model : Inst V → O) (data : Nat → Inst V) (names : List Nat) (hn : names.Nodup)
    (hmodel : ∀ a b : Inst V, (∀ g ∈ names, a g = b g) → model a = model b)
    (T : List Nat) (x : Inst V) (n : Nat) (rowOf : Nat → Nat) :
    imputeOrig model data names T x n rowOf = imputeJoint model data T x n rowOf :=
  imputeOrig_eq_imputeJoint model data names hn hmodel T x n rowOf

/-- imputer behaviour of the original mode for the outcome `R` of the row draws -/
def origImp (model : Inst V → Dict K) (data : Nat → Inst V) (names : List Nat) (x : Inst V) (n m d : Nat)
    (hd : 0 < d) (R : Fin d → Fin n → Fin m) : List Nat → List (Dict K) :=
  fun T => imputeOrig model data names T x n (rowFn (R (posOf d hd T)))

/-- BatchSage original mode: same statement, the data set (`m` rows) in place of the storage; `l0` is the loss of the
    data set's mean prediction -/
theorem batch_orig_update_unbiased (model : Inst V → Dict K) (loss : Y → Dict K → K) (data : Nat → Inst V)
    (x : Inst V) (y : Y) (n m : Nat) (hm : 1 ≤ m) (names : List Nat) (hn : names.Nodup)
    (hmodel : ∀ a b : Inst V, (∀ g ∈ names, a g = b g) → model a = model b) (l0 : K)
    (hd : 0 < names.length) (f : Nat) (hf : f ∈ names) :
    (names.permutations.map (fun π => ∑ R : Fin names.length → Fin n → Fin m,
        (sageChain loss y (origImp model data names x n m names.length hd R) π names l0).getD f 0)).sum /
        ((names.length.factorial : K) * ((m : K) ^ n) ^ names.length) =
      (names.permutations.map (fun π =>
        w model loss data x y n m names l0 (pre π f) - w model loss data x y n m names l0 (pre π f ++ [f]))).sum /
        (names.length.factorial : K) := by
  have himp : ∀ R : Fin names.length → Fin n → Fin m,
      origImp model data names x n m names.length hd R = jointImp model data x n m names.length hd R := by
    intro R; funext T
    exact imputeOrig_eq_imputeJoint model data names hn hmodel T x n _
  simp only [himp]
  exact sage_update_unbiased model loss data x y n m hm names hn l0 hd f hf

/-! ### non-vacuity at `K := ℚ`: d = 2, m = 2, n = 1 (model, loss, instances as in C03) -/
section Examples
open Ixai.C03

def exRows : Nat → Inst ℚ := fun i => if i = 0 then exX 0 0 else exX 3 2
def exNames : List Nat := [0, 1]
theorem exNames_nodup : exNames.Nodup := by decide
theorem exNames_pos : 0 < exNames.length := by decide
theorem exNames_permutations : exNames.permutations = [[0, 1], [1, 0]] := by
  simp [exNames, List.permutations, List.permutationsAux_cons, List.permutationsAux2]

/-- marginalisation, evaluated: two coordinates with two values each -/
example : (∑ R : Fin 2 → Fin 2, (fun a : Fin 2 => ((a.val : ℚ) + 5)) (R 1)) / ((Fintype.card (Fin 2) : ℚ)) ^ Fintype.card (Fin 2)
    = 11 / 2 ∧ (∑ a : Fin 2, ((a.val : ℚ) + 5)) / (Fintype.card (Fin 2) : ℚ) = 11 / 2 := by decide +kernel

/-- (P): both sides evaluated; feature 0 of `x = (1, 1)` resampled from the rows `(0,0)`, `(3,2)`, target 3 -/
example : Er 1 2 (fun r => meanK ((imputeJoint exModel exRows [0] (exX 1 1) 1 (rowFn r)).map (exLoss 3))) = 5 / 2 ∧
    (∑ j : Fin 2, exLoss 3 (exModel (overlay (exX 1 1) [0] (exRows j)))) / ((2 : Nat) : ℚ) = 5 / 2 := by
  decide +kernel
example := pfi_update_unbiased exModel exLoss exRows (exX 1 1) (3 : ℚ) 0 1 2 (by decide) (by decide)
example := pfi_contribution_unbiased (ι := Fin 2) (fun T => ⟨T.headD 0 % 2, Nat.mod_lt _ (by decide)⟩) exNames
  exModel exLoss exRows (exX 1 1) (3 : ℚ) 0 1 2 (by decide) (by decide) (by decide)

/-- (S), fixed order `[1, 0]`, position 1 (feature 0), start loss 4: both sides evaluated -/
example : ER 2 1 2 (fun R => (sageChain exLoss 3 (jointImp exModel exRows (exX 1 1) 1 2 2 (by decide) R) [1, 0]
      exNames 4).getD 0 0) = 5 / 2 ∧
    w exModel exLoss exRows (exX 1 1) (3 : ℚ) 1 2 exNames 4 ([1, 0].take 1) -
      w exModel exLoss exRows (exX 1 1) (3 : ℚ) 1 2 exNames 4 ([1, 0].take 2) = 5 / 2 := by decide +kernel
example := sage_contribution_expectation exModel exLoss exRows (exX 1 1) (3 : ℚ) 1 2 (by decide) exNames [1, 0]
  exNames_nodup (by decide) 4 exNames_pos 1 (by decide)

/-- the game of the example: `w [] = 4` (start loss), `w [0] = 4`, `w [1] = 5/2`, `w [0,1] = w [1,0] = 0` -/
example : (fun S => w exModel exLoss exRows (exX 1 1) (3 : ℚ) 1 2 exNames 4 S) <$> [[], [0], [1], [0, 1], [1, 0]] =
    [4, 4, 5 / 2, 0, 0] := by decide +kernel

/-- (S), averaged over the 2 orders and the 4 row-draw outcomes: both sides evaluated, Shapley value 5/4 -/
example : (exNames.permutations.map (fun π => ∑ R : Fin exNames.length → Fin 1 → Fin 2,
        (sageChain exLoss (3 : ℚ) (jointImp exModel exRows (exX 1 1) 1 2 exNames.length exNames_pos R) π exNames 4).getD
          0 0)).sum / ((exNames.length.factorial : ℚ) * ((2 : ℚ) ^ 1) ^ exNames.length) = 5 / 4 ∧
    (exNames.permutations.map (fun π =>
        w exModel exLoss exRows (exX 1 1) (3 : ℚ) 1 2 exNames 4 (pre π 0) -
          w exModel exLoss exRows (exX 1 1) (3 : ℚ) 1 2 exNames 4 (pre π 0 ++ [0]))).sum /
        (exNames.length.factorial : ℚ) = 5 / 4 := by rw [exNames_permutations]; decide +kernel
example := sage_update_unbiased exModel exLoss exRows (exX 1 1) (3 : ℚ) 1 2 (by decide) exNames exNames_nodup 4
  exNames_pos 0 (by decide)
example := sage_update_unbiased_product exModel exLoss exRows (exX 1 1) (3 : ℚ) 1 2 (by decide) exNames
  exNames_nodup 4 exNames_pos 0 (by decide)

/-- subset-weight form evaluated: subsets `[]`, `[1]` of `names ∖ {0}`, weights 1/2 each -/
example : ((exNames.erase 0).sublists.map (fun S =>
      ((S.length.factorial : ℚ) * ((exNames.length - 1 - S.length).factorial : ℚ) / (exNames.length.factorial : ℚ)) *
        (w exModel exLoss exRows (exX 1 1) (3 : ℚ) 1 2 exNames 4 S -
          w exModel exLoss exRows (exX 1 1) (3 : ℚ) 1 2 exNames 4 (S ++ [0])))).sum = 5 / 4 := by decide +kernel
example := sage_update_subset_form exModel exLoss exRows (exX 1 1) (3 : ℚ) 1 2 (by decide) exNames exNames_nodup 4
  exNames_pos 0 (by decide)

/-- (O): `exModel` reads only the features 0 and 1 -/
theorem exModel_reads_names : ∀ a b : Inst ℚ, (∀ g ∈ exNames, a g = b g) → exModel a = exModel b := by
  intro a b h
  simp [exModel, h 0 (by decide), h 1 (by decide)]
example := batch_orig_update_unbiased exModel exLoss exRows (exX 1 1) (3 : ℚ) 1 2 (by decide) exNames exNames_nodup
  exModel_reads_names 4 exNames_pos 0 (by decide)
/-- original-mode inputs evaluated: row `(3,2)`, feature 1 revealed from `x = (1,1)` -/
example : (imputeOrig exModel exRows exNames [0] (exX 1 1) 1 (fun _ => 1)) = [[(0, 5)]] ∧
    (imputeJoint exModel exRows [0] (exX 1 1) 1 (fun _ => 1)) = [[(0, 5)]] := by decide +kernel

end Examples

end Ixai.C04
