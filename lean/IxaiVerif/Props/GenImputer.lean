/-
  Bridge between the GENERATED imputers (Gen/MarginalImputer.lean, Gen/DefaultImputer.lean: `impute`, `_sample`,
  `_sample_marginals`, `_sample_product_marginals` translated statement by statement from the Python source by
  tools/py2lean_eff.py) and the hand-written model of Model/Imputer.lean that the theorems of C06 (and, through
  `empty_subset_faithful`, C01/C05) are stated about.

  The state of `StateM Nat` is the number of index draws (`random.randrange`) made so far; `idxs p n` is the value of the
  `p`-th draw when the code asks for range `n`.  The row choices of the hand-written model are read off the draw sequence:
  joint strategy: inner sample `j` uses draw `p + j`; product strategy: feature number `i` of the subset in inner sample `j`
  uses draw `p + j * |S| + i`.
-/
import IxaiVerif.Proofs.GenImputer

namespace Ixai.GenImputer
open Ixai

variable {V O : Type}

/-- joint strategy: the generated `impute` returns the model's `imputeJoint` for the rows chosen by draws `p, p+1, …, p+n-1`
    and has then made `n` draws -/
theorem marginal_joint_generated_eq_model (idxs : Nat → Nat → Nat) (model : Inst V → O) (rows : Nat → Inst V) (m : Nat)
    (S : List Nat) (x : Inst V) (n p : Nat) :
    Gen.MarginalImputer.impute idxs model true rows m S x n p
      = (imputeJoint model rows S x n (fun j => idxs (p + j) m), p + n) := by
  exact marginal_joint_generated_eq_model' idxs model rows m S x n p

/-- product strategy (duplicate-free subset): feature `f` of inner sample `j` is taken from the row chosen by draw
    `p + j * |S| + (position of f in S)`; `n * |S|` draws are made -/
theorem marginal_product_generated_eq_model (idxs : Nat → Nat → Nat) (model : Inst V → O) (rows : Nat → Inst V) (m : Nat)
    (S : List Nat) (hS : S.Nodup) (x : Inst V) (n p : Nat) :
    Gen.MarginalImputer.impute idxs model false rows m S x n p
      = (imputeProduct model rows S x n (fun j f => idxs (p + j * S.length + S.idxOf f) m), p + n * S.length) := by
  exact marginal_product_generated_eq_model' idxs model rows m S hS x n p

/-- DefaultImputer: one evaluation on the instance overlaid with the configured values, returned `n` times -/
theorem default_generated_eq_model (model : Inst V → O) (values : Inst V) (S : List Nat) (x : Inst V) (n : Nat) :
    Gen.DefaultImputer.impute model values S x n = imputeDefault model values S x n := by
  exact default_generated_eq_model' model values S x n

/-- every index draw of the generated MarginalImputer asks for the range `m` = number of stored observations: if the
    generator's answers are below the requested range, all chosen rows are stored rows (joint strategy) -/
theorem marginal_joint_rows_in_range (idxs : Nat → Nat → Nat) (hidx : ∀ q k, 0 < k → idxs q k < k) (m : Nat) (hm : 0 < m)
    (p j : Nat) : (fun j => idxs (p + j) m) j < m := by
  exact hidx (p + j) m hm

/-- the hypotheses are satisfiable and the statement is not vacuous: two stored rows, subset [0, 2], two inner samples -/
example : ([0, 2] : List Nat).Nodup := by decide

end Ixai.GenImputer
