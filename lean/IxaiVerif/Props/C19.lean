/-
  C19 — TreeStorage / TreeImputer bookkeeping.
  "After every update a TreeStorage reports as its length the number of updates, keeps for each feature reservoirs
  only for leaves of that feature's current tree, each holding at most the configured number of complete, previously
  observed data points, and the newest observation is in the reservoir of the leaf it is routed to. TreeImputer
  changes only the requested features: when sampling from the storage each imputed value is the value that feature
  has in a data point held in the reservoir of the leaf the instance is routed to (falling back to the tree's own
  prediction only when that leaf has no reservoir yet) …; it returns n_samples predictions and modifies neither the
  instance nor the storage."

  The theorems are about `Ixai.Tree.{init,update,imputeInput}` (Model/Tree.lean), whose leaf reservoirs are the
  GENERATED `Ixai.Gen.GeometricReservoirStorage` created with `constant_probability = some 1`, `store_targets = false`.
  The incremental trees are an ORACLE: per update and feature it reports the routed leaf id and the list of all
  current leaf ids.  `Tree.run L features steps rnd` is the left fold of `Tree.update L` over
  `steps : List (P × UpdateOracle)` from `Tree.init features`, threading the random source.  `P` (the type of a data
  point) is arbitrary; the reservoirs store the `P` value itself ("complete data points").
  Lookups: `Tree.featureRes s f` is `self._data_reservoirs[f]`, `Tree.leafRes s f leaf` is
  `self._data_reservoirs[f][leaf]` (both `Option`).

  What holds for EVERY oracle behaviour, every draw, every `L` (no hypothesis at all):
    `tree_len`, `tree_features_fixed`, `tree_reservoir_bounded_observed`, `tree_keys_nodup`, `tree_imputer_*`;
  and, for a stored feature that occurs once in the update's oracle list (`OccursOnce`; the instance is a dict):
    `tree_keys_after_update` (the exact key list after an update), `tree_keys_are_leaves` (+ `_run`, `_lookup`).
  What needs named hypotheses:
   * `tree_newest_in_routed_leaf`: `1 ≤ L`, reals `≤ 1`, index draws in range (Python's `random()`/`randrange`),
     `RoutedLeafIsLeaf` (the routed id is among the ids the tree enumerates; monitored on the real trees), the
     feature is stored and occurs once in the oracle list (`OccursOnce`).
   * `tree_keys_are_leaves`: NO extra hypothesis any more.  The library now deletes stale reservoirs on EVERY update
     (`fix:` commit a088161; `Tree.updateFeature` creates the routed leaf's reservoir if it is new, THEN filters all
     reservoirs by the current leaves, then inserts), so the former hypothesis `CleanupFires` ("whenever some stored key
     is not a current leaf, the routed leaf id is new") is no longer needed and has been removed.  `RoutedLeafIsLeaf`
     is not needed either (if the routed id is itself not a leaf it is filtered out and nothing is inserted).
  The OLD DEFECT is documented on `Tree.updateFeatureShipped` (clean-up only in the branch that creates a reservoir for
  a new leaf id): `shipped_no_cleanup_when_routed_known` (keys unchanged whenever the routed id already has a
  reservoir, whatever the current leaves are) and the concrete `shipped_stale_key_remains_example` (a leaf id
  disappears while the instance is routed to an id that already has a reservoir: the stale key REMAINS under the
  shipped behaviour and is removed by the same step of the fixed `Tree.updateFeature`).
-/
import IxaiVerif.Proofs.Tree
import Mathlib.Algebra.Order.Field.Basic
import Mathlib.Tactic.NormNum

set_option linter.unusedSectionVars false
namespace Ixai.C19
open Ixai Ixai.Gen Ixai.Tree

/-! ### named hypotheses -/

/-- the leaf the tree routes the observation to is one of the leaves the tree enumerates -/
def RoutedLeafIsLeaf (leaf : ℕ) (allLeaves : List ℕ) : Prop := leaf ∈ allLeaves

section Storage
variable {K : Type} [Field K] [LinearOrder K] [IsStrictOrderedRing K] {P : Type}

/-- the storage reports as its length the number of updates -/
theorem tree_len (L : ℕ) (features : List ℕ) (steps : List (P × UpdateOracle)) (rnd : Rnd K) :
    len (run L features steps rnd).1 = steps.length :=
  run_seen L features steps rnd

/-- the feature keys never change -/
theorem tree_features_fixed (L : ℕ) (features : List ℕ) (steps : List (P × UpdateOracle)) (rnd : Rnd K) :
    (run L features steps rnd).1.reservoirs.map Prod.fst = features :=
  (run_good L features steps rnd).keys

/-- every reservoir of every feature: at most `L` data points, each one of the data points passed to `update` so far,
    and the parameters are those of `GeometricReservoirStorage(size=L, constant_probability=1.0)` without targets -/
theorem tree_reservoir_bounded_observed (L : ℕ) (features : List ℕ) (steps : List (P × UpdateOracle)) (rnd : Rnd K)
    (e : ℕ × Reservoirs K P) (he : e ∈ (run L features steps rnd).1.reservoirs)
    (lr : ℕ × GeometricReservoirStorage K P Unit) (hlr : lr ∈ e.2) :
    lr.2.storage_x.length ≤ L ∧ (∀ p ∈ lr.2.storage_x, p ∈ steps.map Prod.fst) ∧
    lr.2.size = L ∧ lr.2.constant_probability = 1 ∧ lr.2.store_targets = false := by
  have h := ((run_good L features steps rnd).good e he).good lr hlr
  exact ⟨h.len_le, h.observed, h.size_eq, h.cp_one, h.no_targets⟩

/-- the same through the dict lookups `_data_reservoirs[f][leaf]` -/
theorem tree_reservoir_bounded_observed_lookup (L : ℕ) (features : List ℕ) (steps : List (P × UpdateOracle))
    (rnd : Rnd K) (f leaf : ℕ) (r : GeometricReservoirStorage K P Unit)
    (hr : leafRes (run L features steps rnd).1 f leaf = some r) :
    r.storage_x.length ≤ L ∧ (∀ p ∈ r.storage_x, p ∈ steps.map Prod.fst) ∧
    r.size = L ∧ r.constant_probability = 1 ∧ r.store_targets = false := by
  obtain ⟨rs, hrs, hfind⟩ := leafRes_some hr
  exact tree_reservoir_bounded_observed L features steps rnd (f, rs) (featureRes_some_mem hrs) (leaf, r)
    (findR_some_mem hfind)

/-- no leaf id has two reservoirs -/
theorem tree_keys_nodup (L : ℕ) (features : List ℕ) (steps : List (P × UpdateOracle)) (rnd : Rnd K)
    (e : ℕ × Reservoirs K P) (he : e ∈ (run L features steps rnd).1.reservoirs) :
    (e.2.map Prod.fst).Nodup :=
  ((run_good L features steps rnd).good e he).nodup

/-- every stored feature has an entry -/
theorem tree_feature_has_entry (L : ℕ) (features : List ℕ) (steps : List (P × UpdateOracle)) (rnd : Rnd K)
    (f : ℕ) (hf : f ∈ features) : ∃ rs, featureRes (run L features steps rnd).1 f = some rs := by
  have hk : f ∈ (run L features steps rnd).1.reservoirs.map Prod.fst := by
    rw [tree_features_fixed]; exact hf
  obtain ⟨e, he⟩ := find_isSome_of_mem_keys hk
  exact ⟨e.2, by unfold featureRes; rw [he]; rfl⟩

/-- the newest observation is in the reservoir of the leaf it is routed to -/
theorem tree_newest_in_routed_leaf (L : ℕ) (hL : 1 ≤ L) (features : List ℕ) (steps : List (P × UpdateOracle))
    (x : P) (oracle : UpdateOracle) (rnd : Rnd K)
    (hreal : ∀ i, rnd.reals i ≤ 1) (hidx : ∀ i n, 0 < n → rnd.idxs i n < n)
    (f leaf : ℕ) (allLeaves : List ℕ) (hf : f ∈ features) (hocc : OccursOnce oracle f leaf allLeaves)
    (hleaf : RoutedLeafIsLeaf leaf allLeaves) :
    ∃ r, leafRes (run L features (steps ++ [(x, oracle)]) rnd).1 f leaf = some r ∧ x ∈ r.storage_x := by
  obtain ⟨rs, hrs⟩ := tree_feature_has_entry L features steps rnd f hf
  have hgood : GoodRs L (steps.map Prod.fst) rs :=
    (run_good L features steps rnd).good (f, rs) (featureRes_some_mem hrs)
  obtain ⟨hr1, hr2⟩ := run_rnd L features steps rnd
  rw [run_snoc]
  obtain ⟨rnd1, h1, h2, hres⟩ :=
    update_feature_entry L (run L features steps rnd).1 x oracle (run L features steps rnd).2 f leaf allLeaves rs hocc hrs
  obtain ⟨r, hfind, hx⟩ := updateFeature_newest hgood hL leaf allLeaves hleaf x rnd1
    (by intro i; rw [h1, hr1]; exact hreal i) (by intro i n hn; rw [h2, hr2]; exact hidx i n hn)
  refine ⟨r, ?_, hx⟩
  show leafRes (update L _ _ _ _).1 f leaf = some r
  unfold leafRes
  rw [hres]; exact hfind

/-- the exact key list of feature `f` after one update from ANY state: the old keys, plus the routed leaf if it had no
    reservoir yet, restricted to the current leaves (the clean-up runs on every update) -/
theorem tree_keys_after_update (L : ℕ) (s : State K P) (x : P) (oracle : UpdateOracle) (rnd : Rnd K)
    (f leaf : ℕ) (allLeaves : List ℕ) (rs : Reservoirs K P)
    (hocc : OccursOnce oracle f leaf allLeaves) (hrs : featureRes s f = some rs) :
    ∃ rs', featureRes (update L s x oracle rnd).1 f = some rs' ∧
      rs'.map Prod.fst =
        ((if leaf ∈ rs.map Prod.fst then rs.map Prod.fst
          else rs.map Prod.fst ++ [leaf]).filter (fun k => allLeaves.contains k)) := by
  obtain ⟨rnd1, _, _, hres⟩ := update_feature_entry L s x oracle rnd f leaf allLeaves rs hocc hrs
  exact ⟨_, hres, updateFeature_keys_eq L rs leaf allLeaves x rnd1⟩

/-- reservoirs only for leaves of the current tree: after an update from ANY state every reservoir key of `f` is one of
    that update's `allLeaves` — unconditionally -/
theorem tree_keys_are_leaves (L : ℕ) (s : State K P) (x : P) (oracle : UpdateOracle) (rnd : Rnd K)
    (f leaf : ℕ) (allLeaves : List ℕ) (rs : Reservoirs K P)
    (hocc : OccursOnce oracle f leaf allLeaves) (hrs : featureRes s f = some rs) :
    ∃ rs', featureRes (update L s x oracle rnd).1 f = some rs' ∧ ∀ k ∈ rs'.map Prod.fst, k ∈ allLeaves := by
  obtain ⟨rs', hres, hkeys⟩ := tree_keys_after_update L s x oracle rnd f leaf allLeaves rs hocc hrs
  refine ⟨rs', hres, ?_⟩
  intro k hk
  rw [hkeys, List.mem_filter] at hk
  simpa using hk.2

/-- the same for the last update of a run, for a stored feature -/
theorem tree_keys_are_leaves_run (L : ℕ) (features : List ℕ) (steps : List (P × UpdateOracle)) (x : P)
    (oracle : UpdateOracle) (rnd : Rnd K) (f leaf : ℕ) (allLeaves : List ℕ) (hf : f ∈ features)
    (hocc : OccursOnce oracle f leaf allLeaves) :
    ∃ rs', featureRes (run L features (steps ++ [(x, oracle)]) rnd).1 f = some rs' ∧
      ∀ k ∈ rs'.map Prod.fst, k ∈ allLeaves := by
  obtain ⟨rs, hrs⟩ := tree_feature_has_entry L features steps rnd f hf
  rw [run_snoc]
  exact tree_keys_are_leaves L _ x oracle _ f leaf allLeaves rs hocc hrs

/-- through the lookup: a leaf id that has a reservoir after the update is one of that update's `allLeaves` -/
theorem tree_keys_are_leaves_lookup (L : ℕ) (s : State K P) (x : P) (oracle : UpdateOracle) (rnd : Rnd K)
    (f leaf : ℕ) (allLeaves : List ℕ) (hocc : OccursOnce oracle f leaf allLeaves)
    (k : ℕ) (r : GeometricReservoirStorage K P Unit) (hr : leafRes (update L s x oracle rnd).1 f k = some r) :
    k ∈ allLeaves := by
  obtain ⟨rs', hrs', hfind⟩ := leafRes_some hr
  have hstored : ∃ rs, featureRes s f = some rs := by
    have hk : f ∈ (update L s x oracle rnd).1.reservoirs.map Prod.fst :=
      List.mem_map.2 ⟨(f, rs'), featureRes_some_mem hrs', rfl⟩
    rw [update_eq, foldl_ustep_keys] at hk
    obtain ⟨e, he⟩ := find_isSome_of_mem_keys hk
    exact ⟨e.2, by unfold featureRes; rw [he]; rfl⟩
  obtain ⟨rs, hrs⟩ := hstored
  obtain ⟨rs'', hres, hall⟩ := tree_keys_are_leaves L s x oracle rnd f leaf allLeaves rs hocc hrs
  rw [hrs'] at hres
  cases hres
  exact hall k (List.mem_map.2 ⟨(k, r), findR_some_mem hfind, rfl⟩)

/-- THE OLD DEFECT, on the shipped `_update_data_reservoirs` (`Tree.updateFeatureShipped`): when the routed leaf id
    already has a reservoir the clean-up branch is not executed and the keys stay as they are, whatever the current
    leaves are — in particular a key that is no longer a leaf remains -/
theorem shipped_no_cleanup_when_routed_known (L : ℕ) (rs : Reservoirs K P) (leaf : ℕ) (allLeaves : List ℕ) (x : P)
    (rnd : Rnd K) (hknown : leaf ∈ rs.map Prod.fst) :
    (updateFeatureShipped L rs leaf allLeaves x rnd).1.map Prod.fst = rs.map Prod.fst :=
  updateFeatureShipped_keys_known L rs leaf allLeaves x rnd hknown

end Storage

/-! ### TreeImputer (`use_storage=True`) -/
section Imputer
variable {K : Type} [Field K] [LinearOrder K] [IsStrictOrderedRing K] {V : Type}

/-- only the requested features change -/
theorem tree_imputer_only_subset (s : State K (ℕ → V)) (x : ℕ → V) (S : List ℕ) (leafOf pick : ℕ → ℕ)
    (fallback : ℕ → V) (f : ℕ) (hf : f ∉ S) : imputeInput s x S leafOf pick fallback f = x f := by
  simp [imputeInput, hf]

/-- a requested feature gets the value it has in the picked data point of the routed leaf's reservoir -/
theorem tree_imputer_value_from_leaf_reservoir (s : State K (ℕ → V)) (x : ℕ → V) (S : List ℕ) (leafOf pick : ℕ → ℕ)
    (fallback : ℕ → V) (f : ℕ) (hf : f ∈ S) (r : GeometricReservoirStorage K (ℕ → V) Unit)
    (hr : leafRes s f (leafOf f) = some r) (hp : pick f < r.storage_x.length) :
    imputeInput s x S leafOf pick fallback f = (r.storage_x[pick f]) f := by
  simp [imputeInput, hf, imputeValue_eq, hr, hp]

/-- … and the tree's own value only when the routed leaf has no reservoir -/
theorem tree_imputer_fallback (s : State K (ℕ → V)) (x : ℕ → V) (S : List ℕ) (leafOf pick : ℕ → ℕ)
    (fallback : ℕ → V) (f : ℕ) (hf : f ∈ S) (hr : leafRes s f (leafOf f) = none) :
    imputeInput s x S leafOf pick fallback f = fallback f := by
  simp [imputeInput, hf, imputeValue_eq, hr]

/-- on a storage produced by a run the imputed value of a requested feature is the value that feature has in a
    previously observed data point held in the routed leaf's reservoir -/
theorem tree_imputer_value_observed (L : ℕ) (features : List ℕ) (steps : List ((ℕ → V) × UpdateOracle)) (rnd : Rnd K)
    (x : ℕ → V) (S : List ℕ) (leafOf pick : ℕ → ℕ) (fallback : ℕ → V) (f : ℕ) (hf : f ∈ S)
    (r : GeometricReservoirStorage K (ℕ → V) Unit)
    (hr : leafRes (run L features steps rnd).1 f (leafOf f) = some r) (hp : pick f < r.storage_x.length) :
    ∃ p, p ∈ r.storage_x ∧ p ∈ steps.map Prod.fst ∧
      imputeInput (run L features steps rnd).1 x S leafOf pick fallback f = p f := by
  refine ⟨r.storage_x[pick f], List.getElem_mem hp, ?_, ?_⟩
  · exact (tree_reservoir_bounded_observed_lookup L features steps rnd f (leafOf f) r hr).2.1 _ (List.getElem_mem hp)
  · exact tree_imputer_value_from_leaf_reservoir _ x S leafOf pick fallback f hf r hr hp

end Imputer

/-! ### non-vacuity -/
section Examples

/-- a source of draws satisfying the draw hypotheses -/
def exRnd : Rnd ℚ := { reals := fun _ => 0, idxs := fun _ _ => 0 }

example : (∀ i, exRnd.reals i ≤ 1) ∧ (∀ i n, 0 < n → exRnd.idxs i n < n) :=
  ⟨fun _ => by simp [exRnd], fun _ _ h => h⟩

/-- capacity 2, features 0 and 1, data points 10, 11, 12, 13.  Feature 0's tree: a single leaf 1 which is split into
    leaves 2 and 3 before the third update (id 1 disappears); feature 1's tree keeps its single leaf 1. -/
def exSteps : List (ℕ × UpdateOracle) :=
  [(10, [(0, (1, [1])), (1, (1, [1]))]),
   (11, [(0, (1, [1])), (1, (1, [1]))]),
   (12, [(0, (2, [2, 3])), (1, (1, [1]))]),
   (13, [(0, (3, [2, 3])), (1, (1, [1]))])]

/-- (leaf id, stored data points) of a feature -/
def view (s : State ℚ ℕ) (f : ℕ) : Option (List (ℕ × List ℕ)) :=
  (featureRes s f).map (fun rs => rs.map (fun e => (e.1, e.2.storage_x)))

/-- before the split: leaf 1 holds both data points -/
example : view (run 2 [0, 1] (exSteps.take 2) exRnd).1 0 = some [(1, [10, 11])] := by decide +kernel

/-- the split: the routed leaf 2 is new, the stale key 1 is removed -/
example : view (run 2 [0, 1] (exSteps.take 3) exRnd).1 0 = some [(2, [12])] := by decide +kernel

example : view (run 2 [0, 1] exSteps exRnd).1 0 = some [(2, [12]), (3, [13])] := by decide +kernel

/-- feature 1: the full reservoir (p = 1) always takes the newest data point, into the drawn slot 0 -/
example : view (run 2 [0, 1] exSteps exRnd).1 1 = some [(1, [13, 11])] := by decide +kernel

example : len (run 2 [0, 1] exSteps exRnd).1 = 4 := by decide +kernel

/-- the hypotheses of `tree_newest_in_routed_leaf` (and of `tree_keys_are_leaves`: `OccursOnce`) hold at the split -/
example : OccursOnce [(0, (2, [2, 3])), (1, (1, [1]))] 0 2 [2, 3] ∧ RoutedLeafIsLeaf 2 [2, 3] := by
  refine ⟨⟨by decide, by decide⟩, by unfold RoutedLeafIsLeaf; decide⟩

/-- all hypotheses of `tree_newest_in_routed_leaf` are jointly satisfiable: the theorem applied to the split -/
example : ∃ r, leafRes (run 2 [0, 1] (exSteps.take 2 ++ [(12, [(0, (2, [2, 3])), (1, (1, [1]))])]) exRnd).1 0 2 = some r ∧
    12 ∈ r.storage_x :=
  tree_newest_in_routed_leaf 2 (by decide) [0, 1] (exSteps.take 2) 12 _ exRnd (fun _ => by simp [exRnd])
    (fun _ _ h => h) 0 2 [2, 3] (by decide) ⟨by decide, by decide⟩ (by unfold RoutedLeafIsLeaf; decide)

/-- `tree_keys_are_leaves_run` applied to the split -/
example : ∃ rs', featureRes (run 2 [0, 1] (exSteps.take 2 ++ [(12, [(0, (2, [2, 3])), (1, (1, [1]))])]) exRnd).1 0 = some rs' ∧
    ∀ k ∈ rs'.map Prod.fst, k ∈ [2, 3] :=
  tree_keys_are_leaves_run 2 [0, 1] (exSteps.take 2) 12 _ exRnd 0 2 [2, 3] (by decide) ⟨by decide, by decide⟩

/-- THE SCENARIO OF THE OLD DEFECT.  Feature 0's tree has leaves 1 and 2; both get a reservoir.  Then leaf 1 is split
    into 3 and 4 (id 1 disappears) while the instance is routed to leaf 2, which already has a reservoir. -/
def exStale : List (ℕ × UpdateOracle) :=
  [(10, [(0, (1, [1, 2]))]),
   (11, [(0, (2, [1, 2]))]),
   (12, [(0, (2, [2, 3, 4]))])]

/-- with the fixed library the clean-up runs on that update too: the stale key 1 is removed -/
example : view (run 2 [0] (exStale.take 2) exRnd).1 0 = some [(1, [10]), (2, [11])] := by decide +kernel

example : view (run 2 [0] exStale exRnd).1 0 = some [(2, [11, 12])] := by decide +kernel

/-- (leaf id, stored data points) of one feature's dict of reservoirs -/
def viewRs (rs : Reservoirs ℚ ℕ) : List (ℕ × List ℕ) := rs.map (fun e => (e.1, e.2.storage_x))

/-- feature 0's reservoirs after the first two updates of `exStale` (leaves 1 and 2 both have a reservoir) … -/
def exStaleRs : Reservoirs ℚ ℕ × Rnd ℚ :=
  let a := updateFeature 2 ([] : Reservoirs ℚ ℕ) 1 [1, 2] 10 exRnd
  updateFeature 2 a.1 2 [1, 2] 11 a.2

/-- … which is the state the run reaches -/
example : view (run 2 [0] (exStale.take 2) exRnd).1 0 = some (viewRs exStaleRs.1) := by decide +kernel

/-- the shipped behaviour (before `fix:` a088161) on the third update of `exStale`: the routed leaf 2 already has a
    reservoir, the branch that deletes stale reservoirs is not executed, and the key 1 REMAINS although it is not a leaf
    any more; the same step with the fixed `Tree.updateFeature` removes it -/
theorem shipped_stale_key_remains_example :
    viewRs exStaleRs.1 = [(1, [10]), (2, [11])] ∧
    viewRs (updateFeatureShipped 2 exStaleRs.1 2 [2, 3, 4] 12 exStaleRs.2).1 = [(1, [10]), (2, [11, 12])] ∧
    viewRs (updateFeature 2 exStaleRs.1 2 [2, 3, 4] 12 exStaleRs.2).1 = [(2, [11, 12])] ∧
    1 ∉ [2, 3, 4] := by
  refine ⟨?_, ?_, ?_, ?_⟩
  · decide +kernel
  · decide +kernel
  · decide +kernel
  · decide

/-- the hypothesis of `shipped_no_cleanup_when_routed_known` holds there: the routed leaf 2 is a known key -/
example : 2 ∈ exStaleRs.1.map Prod.fst := by decide +kernel

/-- under the shipped behaviour the stale reservoir was removed only by the next update that creates a reservoir
    (routed to the new leaf 3) -/
example :
    viewRs (updateFeatureShipped 2 (updateFeatureShipped 2 exStaleRs.1 2 [2, 3, 4] 12 exStaleRs.2).1 3 [2, 3, 4] 13
      (updateFeatureShipped 2 exStaleRs.1 2 [2, 3, 4] 12 exStaleRs.2).2).1 = [(2, [11, 12]), (3, [13])] := by
  decide +kernel

/-- a routed id that is itself not a leaf is filtered out again and nothing is inserted (no `RoutedLeafIsLeaf` needed
    for `tree_keys_are_leaves`) -/
example : viewRs (updateFeature 2 exStaleRs.1 7 [2, 3, 4] 12 exStaleRs.2).1 = [(2, [11])] := by decide +kernel

/-- the imputer on the first example: feature 0 is imputed from leaf 3's reservoir, feature 1 is left alone;
    data points are instances `ℕ → ℕ` here -/
def exInst (c : ℕ) : ℕ → ℕ := fun f => c + f

example :
    let s := (run (K := ℚ) 2 [0, 1]
      [(exInst 10, [(0, (1, [1])), (1, (1, [1]))]), (exInst 20, [(0, (1, [1])), (1, (1, [1]))])] exRnd).1
    imputeInput s (exInst 0) [0] (fun _ => 1) (fun _ => 1) (fun _ => 99) 0 = 20 ∧
    imputeInput s (exInst 0) [0] (fun _ => 1) (fun _ => 1) (fun _ => 99) 1 = 1 ∧
    imputeInput s (exInst 0) [0] (fun _ => 7) (fun _ => 1) (fun _ => 99) 0 = 99 := by
  decide +kernel

end Examples

end Ixai.C19
