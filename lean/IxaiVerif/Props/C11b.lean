/-
  C11 (tie by translation): the ring-buffer bookkeeping of `SlidingWindowTracker.__init__` / `update`, regenerated from
  ixai/utils/tracker/sliding_window.py on every run, IS the hand-written `SW.init` / `SW.update` that the theorems of
  Props/C11.lean are about (the NaN-aware statistics `np.nanmean/nanvar/nanstd` remain hand-modelled).
-/
import IxaiVerif.Gen.SlidingWindowTracker
import IxaiVerif.Model.SlidingWindow
import Mathlib.Algebra.Field.Basic

set_option linter.unusedSectionVars false
namespace Ixai.C11b
open Ixai

variable {K : Type} [Field K] [RealOps K]

/-- the generated state seen as the model's state -/
def toSW (g : Gen.SlidingWindowTracker K) : SW K := { window := g.sliding_window, pos := g.window_k, k := g.k }

theorem init_generated_eq_model (k : ℕ) : toSW (Gen.SlidingWindowTracker.init k : Gen.SlidingWindowTracker K) = SW.init k := rfl

theorem update_generated_eq_model (g : Gen.SlidingWindowTracker K) (v : K) :
    toSW (g.update v) = (toSW g).update v := by
  simp only [Gen.SlidingWindowTracker.update, SW.update, toSW]
  by_cases h : g.window_k ≥ g.k <;> simp [h]

/-- hence whole runs coincide -/
theorem run_generated_eq_model (k : ℕ) (vs : List K) :
    toSW (vs.foldl Gen.SlidingWindowTracker.update (Gen.SlidingWindowTracker.init k)) = vs.foldl SW.update (SW.init k) := by
  have key : ∀ (g : Gen.SlidingWindowTracker K), toSW (vs.foldl Gen.SlidingWindowTracker.update g) = vs.foldl SW.update (toSW g) := by
    induction vs with
    | nil => intro g; rfl
    | cons v vs ih => intro g; simp only [List.foldl_cons]; rw [ih, update_generated_eq_model]
  rw [key, init_generated_eq_model]

end Ixai.C11b
