/-
  C12 — MultiValueTracker.
  "A MultiValueTracker keeps one independent copy of its base tracker per key: a key's value is the base statistic
  of the values supplied for it since it first appeared, with 0 substituted in updates that omit it; keys are never
  dropped and the update count equals the number of update calls. The normalised view divides by the sum of the
  values, so with more than one key and a non-zero sum it adds up to one and preserves ratios; with a zero sum it is
  all zeros rather than NaN, and with at most one key it returns the raw values."

  `MV` (Model/Tr.lean) is the hand model of ixai/utils/tracker/multi_value.py over the base tracker `Tr`, which is the
  sum of the two *generated* kernels. `MV.run base us` is the left fold of `MV.update` over the update dicts `us`
  from `MV.init base`; `MV.series us k` is the list of values key `k` is fed: nothing before the first update that
  contains `k`, afterwards `u.get(k, 0)` for every update `u`. `K` is an arbitrary field of characteristic 0.
  Update dicts are Python dicts, i.e. have distinct keys: this is only needed for `mv_keys_nodup`.

  Remarks on the statements.
  * `mv_per_key` needs `k` to be tracked (or a base tracker that starts at 0, `mv_per_key_init`): an untracked key
    reads 0 (`mv_untracked_zero`), whatever the base tracker holds.
  * `mv_normalized_ratio` needs more than one key in addition to the non-zero sum: with exactly one key `get_normalized`
    returns the raw value `v`, not `v / v` (`mv_normalized_single`; see the last example).
-/
import IxaiVerif.Proofs.MultiValue
import IxaiVerif.Props.C10

set_option linter.unusedSectionVars false
namespace Ixai.C12
open Ixai Ixai.Gen

variable {K : Type} [Field K] [CharZero K] [RealOps K]

/-! ### one independent base tracker per key -/

/-- the tracker of key `k` is the base tracker updated with exactly the series of `k`; no tracker before `k` appears -/
theorem mv_tracker_of (base : Tr K) (us : List (Dict K)) (k : Nat) :
    (MV.run base us).trackers.find? k =
      if MV.series us k = [] then none else some ((MV.series us k).foldl Tr.update base) :=
  MV.run_find? base us k

/-- the tracked keys are exactly the keys that occurred in some update -/
theorem mv_tracked_iff (base : Tr K) (us : List (Dict K)) (k : Nat) :
    k ∈ (MV.run base us).trackers.keys ↔ ∃ u ∈ us, k ∈ u.keys := by
  rw [← Dict.find?_isSome_iff, mv_tracker_of]
  have := MV.series_eq_nil_iff us k
  by_cases h : MV.series us k = []
  · simp only [h, if_true, Option.isSome_none, Bool.false_eq_true, false_iff]
    have h' := this.mp h
    push Not; exact h'
  · simp only [h, if_false, Option.isSome_some, true_iff]
    by_contra hc; push Not at hc; exact h (this.mpr hc)

/-- `get()` lists exactly the tracked keys, in order of first appearance -/
theorem mv_get_keys (base : Tr K) (us : List (Dict K)) :
    (MV.run base us).get.keys = (MV.run base us).trackers.keys := MV.get_keys _

/-- the value of a tracked key is the base statistic of its series -/
theorem mv_per_key (base : Tr K) (us : List (Dict K)) (k : Nat) (hk : k ∈ (MV.run base us).trackers.keys) :
    (MV.run base us).getKey k = ((MV.series us k).foldl Tr.update base).get := by
  have hne : MV.series us k ≠ [] := by
    intro h
    have := (mv_tracked_iff base us k).mp hk
    obtain ⟨u, hu, hku⟩ := this
    exact (MV.series_eq_nil_iff us k).mp h u hu hku
  apply MV.getKey_of_find?
  rw [mv_tracker_of, if_neg hne]

/-- an untracked key reads 0 -/
theorem mv_untracked_zero (base : Tr K) (us : List (Dict K)) (k : Nat) (hk : k ∉ (MV.run base us).trackers.keys) :
    (MV.run base us).getKey k = 0 := by
  rw [MV.getKey_eq, (Dict.find?_eq_none_iff _ _).mpr hk]; rfl

/-- for the library's base trackers (which start at 0) the formula holds for every key -/
theorem mv_per_key_init (alpha : Option K) (us : List (Dict K)) (k : Nat) :
    (MV.run (Tr.init alpha) us).getKey k = ((MV.series us k).foldl Tr.update (Tr.init alpha)).get := by
  by_cases hk : k ∈ (MV.run (Tr.init alpha) us).trackers.keys
  · exact mv_per_key _ us k hk
  · rw [mv_untracked_zero _ us k hk]
    have : MV.series us k = [] := by
      rw [MV.series_eq_nil_iff]
      intro u hu hku
      exact hk ((mv_tracked_iff _ us k).mpr ⟨u, hu, hku⟩)
    simp [this]

/-- static mode (Welford base): the arithmetic mean of the series -/
theorem mv_per_key_static (us : List (Dict K)) (k : Nat) (hk : ∃ u ∈ us, k ∈ u.keys) :
    (MV.run (Tr.init none) us).getKey k = (MV.series us k).sum / ((MV.series us k).length : K) := by
  have hne : MV.series us k ≠ [] := by
    intro h; obtain ⟨u, hu, hku⟩ := hk; exact (MV.series_eq_nil_iff us k).mp h u hu hku
  rw [mv_per_key_init, Tr.foldl_init_none]
  exact C10.welford_mean _ hne

/-- dynamic mode (smoothing base): the exponentially weighted sum of the series, started at zero -/
theorem mv_per_key_dynamic (α : K) (us : List (Dict K)) (k : Nat) :
    (MV.run (Tr.init (some α)) us).getKey k =
      ∑ i ∈ Finset.range (MV.series us k).length,
        α * (1 - α) ^ ((MV.series us k).length - 1 - i) * (MV.series us k).getD i 0 := by
  rw [mv_per_key_init, Tr.foldl_init_some]
  exact C10.es_closed α _

/-- … the same as a recursion: newest value has weight α, older ones decay by (1-α) -/
theorem mv_per_key_dynamic_cf (α : K) (us : List (Dict K)) (k : Nat) :
    (MV.run (Tr.init (some α)) us).getKey k = ES.cf α (MV.series us k).reverse := by
  rw [mv_per_key_init, Tr.foldl_init_some]
  exact ES.run_cf α _

/-! ### keys and the update count -/

theorem mv_keys_nodup (base : Tr K) (us : List (Dict K)) (hus : ∀ u ∈ us, u.keys.Nodup) :
    (MV.run base us).trackers.keys.Nodup := MV.run_keys_nodup base us hus

/-- keys are never dropped (nor reordered): the key list of a prefix run is a prefix of the later key list -/
theorem mv_keys_monotone (base : Tr K) (us vs : List (Dict K)) :
    (MV.run base us).trackers.keys <+: (MV.run base (us ++ vs)).trackers.keys := by
  simp only [MV.run, List.foldl_append]; exact MV.foldl_keys_prefix vs _

theorem mv_keys_subset (base : Tr K) (us vs : List (Dict K)) :
    (MV.run base us).trackers.keys ⊆ (MV.run base (us ++ vs)).trackers.keys :=
  (mv_keys_monotone base us vs).subset

/-- the counter equals the number of update calls -/
theorem mv_N (base : Tr K) (us : List (Dict K)) : (MV.run base us).N = us.length := by
  simp [MV.run, MV.foldl_N, MV.init]

/-- every per-key tracker has been updated once per call since its key appeared -/
theorem mv_tracker_N (alpha : Option K) (us : List (Dict K)) (k : Nat) (t : Tr K)
    (h : (MV.run (Tr.init alpha) us).trackers.find? k = some t) : t.N = (MV.series us k).length := by
  rw [mv_tracker_of] at h
  by_cases hs : MV.series us k = []
  · simp [hs] at h
  · simp only [hs, if_false, Option.some.injEq] at h
    rw [← h, Tr.foldl_N]; simp

/-! ### the normalised view (any tracker state `m`) -/
section Normalized
variable [DecidableEq K]

/-- at most one key: the raw values -/
theorem mv_normalized_single (m : MV K) (h : m.get.length ≤ 1) : m.getNormalized = m.get := by
  simp [MV.getNormalized, h]

/-- more than one key and zero sum: same keys, every value 0 (not NaN) -/
theorem mv_normalized_zero_sum (m : MV K) (h : 1 < m.get.length) (h0 : (m.get.map Prod.snd).sum = 0) :
    m.getNormalized = m.get.map (fun kv => (kv.1, (0 : K))) ∧
    m.getNormalized.keys = m.get.keys ∧ ∀ k, m.getNormalized.getD k 0 = 0 := by
  have hn : m.getNormalized = m.get.map (fun kv => (kv.1, (0 : K))) := by
    simp [MV.getNormalized, Nat.not_le.mpr h, h0]
  refine ⟨hn, ?_, ?_⟩
  · rw [hn]; exact Dict.keys_mapVal m.get (fun _ _ => (0 : K))
  · intro k; rw [hn]
    exact Dict.getD_mapVal m.get (fun _ _ => (0 : K)) k 0 0 rfl

theorem mv_normalized_eq (m : MV K) (h : 1 < m.get.length) (h0 : (m.get.map Prod.snd).sum ≠ 0) :
    m.getNormalized = m.get.map (fun kv => (kv.1, kv.2 / (m.get.map Prod.snd).sum)) := by
  simp [MV.getNormalized, Nat.not_le.mpr h, h0]

/-- more than one key and non-zero sum: the normalised values add up to one -/
theorem mv_normalized_sum_one (m : MV K) (h : 1 < m.get.length) (h0 : (m.get.map Prod.snd).sum ≠ 0) :
    (m.getNormalized.map Prod.snd).sum = 1 := by
  rw [mv_normalized_eq m h h0, List.map_map]
  have : (Prod.snd ∘ fun kv : Nat × K => (kv.1, kv.2 / (m.get.map Prod.snd).sum)) =
      fun kv => kv.2 / (m.get.map Prod.snd).sum := rfl
  rw [this]
  have h2 : (m.get.map (fun kv : Nat × K => kv.2 / (m.get.map Prod.snd).sum)).sum =
      (m.get.map Prod.snd).sum / (m.get.map Prod.snd).sum := by
    simp only [div_eq_mul_inv]
    rw [List.sum_map_mul_right]
  rw [h2, div_self h0]

/-- … and ratios are preserved: same keys, and every normalised value times the total is the raw value -/
theorem mv_normalized_ratio (m : MV K) (h : 1 < m.get.length) (h0 : (m.get.map Prod.snd).sum ≠ 0) :
    m.getNormalized.keys = m.get.keys ∧
    ∀ k, m.getNormalized.getD k 0 * (m.get.map Prod.snd).sum = m.getKey k := by
  rw [mv_normalized_eq m h h0]
  refine ⟨Dict.keys_mapVal m.get (fun _ v => v / (m.get.map Prod.snd).sum), ?_⟩
  intro k
  rw [Dict.getD_mapVal m.get (fun _ v => v / (m.get.map Prod.snd).sum) k 0 0 (zero_div _), MV.getKey]
  exact div_mul_cancel₀ _ h0

/-- … so the ratio of two normalised values is the ratio of the raw values -/
theorem mv_normalized_cross (m : MV K) (h : 1 < m.get.length) (h0 : (m.get.map Prod.snd).sum ≠ 0) (k l : Nat) :
    m.getNormalized.getD k 0 * m.getKey l = m.getNormalized.getD l 0 * m.getKey k := by
  obtain ⟨_, hr⟩ := mv_normalized_ratio m h h0
  rw [← hr k, ← hr l]; ring

end Normalized

/-! ### non-vacuity: concrete update streams at `K := ℚ` (the `RealOps ℚ` instance is the one of `Props/C10.lean`) -/
section Examples

/-- three calls; key 1 is omitted in the 2nd, key 2 first appears in the 3rd, key 0 is omitted in the 3rd -/
def exUs : List (Dict ℚ) := [[(0, 1), (1, 2)], [(0, 3)], [(1, 4), (2, 6)]]

example : MV.series exUs 0 = [1, 3, 0] ∧ MV.series exUs 1 = [2, 0, 4] ∧ MV.series exUs 2 = [6] ∧
    MV.series exUs 7 = [] := by decide
example : ∀ u ∈ exUs, u.keys.Nodup := by decide
example : (MV.run (Tr.init none) exUs).get = [(0, 4/3), (1, 2), (2, 6)] := by decide +kernel
example : (MV.run (Tr.init none) exUs).N = 3 := by decide
example : (MV.run (Tr.init (some (1/2 : ℚ))) exUs).get = [(0, 7/8), (1, 9/4), (2, 3)] := by decide +kernel
example : (MV.run (Tr.init none) exUs).getKey 0 = 4/3 := by
  rw [mv_per_key_static exUs 0 ⟨_, List.mem_cons_self, by decide⟩]
  have : MV.series exUs 0 = [1, 3, 0] := by decide
  rw [this]; norm_num
example : (MV.run (Tr.init (some (1/2 : ℚ))) exUs).getKey 1 = 9/4 := by
  rw [mv_per_key_dynamic_cf]
  have : MV.series exUs 1 = [2, 0, 4] := by decide
  rw [this]; norm_num [ES.cf]
/-- > 1 key, non-zero sum -/
example : (MV.run (Tr.init none) exUs).getNormalized = [(0, 1/7), (1, 3/14), (2, 9/14)] := by decide +kernel
example : 1 < (MV.run (Tr.init none) exUs).get.length ∧
    ((MV.run (Tr.init none) exUs).get.map Prod.snd).sum ≠ 0 := by decide +kernel
/-- > 1 key, zero sum -/
example : (MV.run (Tr.init none) [[(0, 1), (1, -1)]] : MV ℚ).getNormalized = [(0, 0), (1, 0)] ∧
    1 < (MV.run (Tr.init none) [[(0, 1), (1, -1)]] : MV ℚ).get.length ∧
    ((MV.run (Tr.init none) [[(0, 1), (1, -1)]] : MV ℚ).get.map Prod.snd).sum = 0 := by decide +kernel
/-- one key: the raw value (5, not 5/5) -/
example : (MV.run (Tr.init none) [[(0, 5)]] : MV ℚ).getNormalized = [(0, 5)] := by decide +kernel

end Examples

end Ixai.C12
