/-
  C01 — efficiency of incremental SAGE.
  "After every explain_one call, the incremental SAGE importance values sum to the explainer's own explained loss
  (marginal loss minus model loss) exactly when losses are exact numbers … whatever the model, loss, imputer, storage,
  number of features, number of inner samples and smoothing parameter, in both the static and the dynamic mode, and
  whichever feature orders and background samples the random generators produced."

  Setting. `sageStep` (Model/Explainer.lean) is the pure model of `IncrementalSage.explain_one`; a stream is a list of
  `SageObs` = (observation `x`,`y`; the feature order `perm` drawn for it; the imputer's behaviour `imp` during the call,
  a function from the feature subset to the list of predictions it returns — storage content, number of inner samples
  and the sampled background rows are absorbed in it). `runSage names model loss alpha steps` folds `sageStep` over the
  stream from `Est.init alpha`, with `first := true` exactly for the first call (which only seeds the storage).
  `alpha = none` is the static mode (Welford trackers), `alpha = some α` the dynamic mode, for ANY `α : K` (no range
  restriction is needed). `K` is an arbitrary field of characteristic 0: "losses are exact numbers".

  Hypotheses (all explicit):
  * `names.Nodup`, and every `perm` is a permutation of `names` (what `rng.permutation(feature_names)` returns);
  * `meanOutput (imp []) = model x`: the imputer is faithful on the empty subset (nothing imputed ⇒ the mean of the
    returned predictions is the model's prediction) — what C06 proves for the library imputers with a deterministic model;
  * `names ≠ []`: with no features there is nothing to distribute: all importances are 0 (there are none) while the
    explained loss is whatever the two loss trackers hold, so efficiency fails; see `no_features_counterexample`.
  "After every explain_one call": the statement is for every stream satisfying the hypotheses, and every prefix of
  such a stream is such a stream (`sage_efficiency_prefix`).
-/
import IxaiVerif.Proofs.Explainer
import IxaiVerif.Props.C10

set_option linter.unusedSectionVars false
namespace Ixai.C01
open Ixai Ixai.Gen

variable {K : Type} [Field K] [CharZero K] [RealOps K] [DecidableEq K] {V Y : Type}

/-- the reported explained loss is marginal-loss tracker minus model-loss tracker, for both values of
    `loss_bigger_is_better` (the offset by one cancels) -/
theorem explainedLoss_eq (e : Est K) (lbb : Bool) : e.explainedLoss lbb = e.margLoss.get - e.modelLoss.get := by
  cases lbb <;> simp [Est.explainedLoss, Est.marginalLoss, Est.modelLossV]

/-- efficiency, per feature name -/
theorem sage_efficiency (alpha : Option K) (names : List Nat) (model : Inst V → Dict K) (loss : Y → Dict K → K)
    (steps : List (SageObs K V Y)) (hne : names ≠ []) (hn : names.Nodup)
    (hsteps : ∀ s ∈ steps, s.perm.Perm names ∧ meanOutput (s.imp []) = model s.x) :
    (names.map (fun f => (runSage names model loss alpha steps).importance.getKey f)).sum =
      (runSage names model loss alpha steps).margLoss.get - (runSage names model loss alpha steps).modelLoss.get := by
  have h := SageInv.run names model loss alpha steps hne hn hsteps
  rw [← h.sum]
  congr 1
  apply List.map_congr_left
  intro f _
  exact MV.getKey_eq_virt _ f h.base0

/-- … hence the importance values sum to the explainer's own explained loss -/
theorem sage_efficiency_explained (alpha : Option K) (names : List Nat) (model : Inst V → Dict K)
    (loss : Y → Dict K → K) (steps : List (SageObs K V Y)) (hne : names ≠ []) (hn : names.Nodup)
    (hsteps : ∀ s ∈ steps, s.perm.Perm names ∧ meanOutput (s.imp []) = model s.x) (lbb : Bool) :
    (names.map (fun f => (runSage names model loss alpha steps).importance.getKey f)).sum =
      (runSage names model loss alpha steps).explainedLoss lbb := by
  rw [explainedLoss_eq]; exact sage_efficiency alpha names model loss steps hne hn hsteps

/-- after every call: every prefix of the stream -/
theorem sage_efficiency_prefix (alpha : Option K) (names : List Nat) (model : Inst V → Dict K)
    (loss : Y → Dict K → K) (steps : List (SageObs K V Y)) (hne : names ≠ []) (hn : names.Nodup)
    (hsteps : ∀ s ∈ steps, s.perm.Perm names ∧ meanOutput (s.imp []) = model s.x) (n : Nat) (lbb : Bool) :
    (names.map (fun f => (runSage names model loss alpha (steps.take n)).importance.getKey f)).sum =
      (runSage names model loss alpha (steps.take n)).explainedLoss lbb :=
  sage_efficiency_explained alpha names model loss (steps.take n) hne hn
    (fun s hs => hsteps s (List.mem_of_mem_take hs)) lbb

/-- the tracked keys are the feature names (none before the first explained observation) -/
theorem sage_importance_keys (alpha : Option K) (names : List Nat) (model : Inst V → Dict K)
    (loss : Y → Dict K → K) (steps : List (SageObs K V Y)) (hsteps : ∀ s ∈ steps, s.perm.Perm names) :
    (runSage names model loss alpha steps).importanceValues.keys = [] ∨
    (runSage names model loss alpha steps).importanceValues.keys.Perm names := by
  have := SageKeys.run names model loss alpha steps hsteps
  simpa [SageKeys, Est.importanceValues, MV.get_keys] using this

/-- the same for the reported dictionary `importance_values`: its values sum to the explained loss -/
theorem sage_efficiency_dict (alpha : Option K) (names : List Nat) (model : Inst V → Dict K)
    (loss : Y → Dict K → K) (steps : List (SageObs K V Y)) (hne : names ≠ []) (hn : names.Nodup)
    (hsteps : ∀ s ∈ steps, s.perm.Perm names ∧ meanOutput (s.imp []) = model s.x) (lbb : Bool) :
    ((runSage names model loss alpha steps).importanceValues.map Prod.snd).sum =
      (runSage names model loss alpha steps).explainedLoss lbb := by
  have heff := sage_efficiency_explained alpha names model loss steps hne hn hsteps lbb
  have hk := SageKeys.run names model loss alpha steps (fun s hs => (hsteps s hs).1)
  rw [← heff]
  simp only [Est.importanceValues]
  rcases hk with hk | hk
  · have h1 : (runSage names model loss alpha steps).importance.get = [] := by
      have := MV.get_keys (runSage names model loss alpha steps).importance
      rw [hk] at this
      simpa [Dict.keys] using this
    rw [h1]
    have h2 : ∀ f ∈ names, (runSage names model loss alpha steps).importance.getKey f = 0 := by
      intro f _; simp [MV.getKey, h1, Dict.getD]
    rw [List.map_congr_left h2]; simp
  · have hnd : (Dict.keys (runSage names model loss alpha steps).importance.get).Nodup := by
      rw [MV.get_keys]; exact hk.nodup_iff.mpr hn
    rw [← Dict.sum_getD_keys _ hnd, MV.get_keys]
    exact (hk.map _).sum_eq

/-! ### non-vacuity at `K := ℚ`: two features, a linear model with one output, squared-error loss, the library's
    DefaultImputer (2 inner samples), four calls with different feature orders -/
section Examples

def exModel : Inst ℚ → Dict ℚ := fun x => [(0, x 0 + 2 * x 1)]
def exLoss : ℚ → Dict ℚ → ℚ := fun y out => (out.getD 0 0 - y) * (out.getD 0 0 - y)
def exX (a b : ℚ) : Inst ℚ := fun i => if i = 0 then a else b
def exObs (a b y : ℚ) (perm : List Nat) : SageObs ℚ ℚ ℚ :=
  { x := exX a b, y := y, perm := perm, imp := fun S => imputeDefault exModel (fun _ => 1) S (exX a b) 2 }
def exSteps : List (SageObs ℚ ℚ ℚ) := [exObs 1 1 3 [0, 1], exObs 2 0 1 [1, 0], exObs 0 3 7 [0, 1], exObs 5 1 6 [1, 0]]

theorem exSteps_ok : ∀ s ∈ exSteps, s.perm.Perm [0, 1] ∧ meanOutput (s.imp []) = exModel s.x := by
  intro s hs
  simp only [exSteps, List.mem_cons, List.not_mem_nil, or_false] at hs
  rcases hs with rfl | rfl | rfl | rfl <;> exact ⟨by decide, by decide +kernel⟩

/-- static mode: the theorem applies … -/
example : ([0, 1].map (fun f => (runSage [0, 1] exModel exLoss none exSteps).importance.getKey f)).sum =
    (runSage [0, 1] exModel exLoss none exSteps).explainedLoss true :=
  sage_efficiency_explained none [0, 1] exModel exLoss exSteps (by simp) (by decide) exSteps_ok true
/-- … and the numbers are not trivial -/
example : (runSage [0, 1] exModel exLoss none exSteps).importanceValues.keys = [1, 0] ∧
    (runSage [0, 1] exModel exLoss none exSteps).explainedLoss true ≠ 0 := by decide +kernel
/-- dynamic mode with α = 1/3, evaluated directly -/
example : ((runSage [0, 1] exModel exLoss (some (1/3)) exSteps).importanceValues.map Prod.snd).sum =
    (runSage [0, 1] exModel exLoss (some (1/3)) exSteps).explainedLoss false ∧
    (runSage [0, 1] exModel exLoss (some (1/3)) exSteps).explainedLoss false ≠ 0 := by decide +kernel

/-- without features efficiency fails: no importances, but a non-zero explained loss -/
theorem no_features_counterexample :
    (([] : List Nat).map (fun f => (runSage [] exModel exLoss none
      [exObs 1 1 3 [], exObs 2 0 1 [], exObs 0 3 7 []]).importance.getKey f)).sum ≠
    (runSage [] exModel exLoss none [exObs 1 1 3 [], exObs 2 0 1 [], exObs 0 3 7 []]).explainedLoss false := by decide +kernel

end Examples

end Ixai.C01
