/-
  C02 — incremental PFI refines its specification.
  "After each observation, every feature's incremental PFI value equals the configured running statistic — the uniform
  mean over explained observations in static mode, exponential smoothing with the configured alpha started at zero in
  dynamic mode — of: the mean loss over the n inner predictions in which only that feature was replaced by the imputer,
  minus the loss of the unperturbed prediction; the first observation only seeds the storage. The reported variance is
  the same running statistic of the squared deviation of each new contribution from the updated estimate. A feature the
  model ignores therefore has importance zero."

  Setting. `pfiStep` (Model/Explainer.lean) is the pure model of `IncrementalPFI.explain_one`; a stream is a list of
  `PfiObs` = (`x`, `y`, the imputer's behaviour `imp` during the call: feature subset ↦ list of returned predictions).
  `runPFI names model loss alpha steps` folds `pfiStep` from `Est.init alpha`, `first := true` exactly for the first
  call. The explained observations are `steps.tail`. For a feature `f`,
    `pfiContrib model loss f s = meanK ((s.imp [f]).map (loss s.y)) - loss s.y (model s.x)`
  and `devSeries t cs` is the list of `sq (c_i - estimate_i)` with `estimate_i` the value of tracker `t` after it was
  updated with `c_0 … c_i` (`devSeries_getElem`). The running statistic is the fold of the *generated* tracker update
  (`Tr.update`) from `Tr.init alpha`; the closed forms come from C10. Every statement is for an arbitrary stream, hence
  holds after each observation. No hypothesis on `names` other than `f ∈ names` is needed.
-/
import IxaiVerif.Proofs.Explainer
import IxaiVerif.Props.C10

set_option linter.unusedSectionVars false
namespace Ixai.C02
open Ixai Ixai.Gen

variable {K : Type} [Field K] [CharZero K] [RealOps K] [DecidableEq K] {V Y : Type}

/-- the first observation only seeds the storage: the estimates are untouched -/
theorem pfi_first_only_seeds (names : List Nat) (model : Inst V → Dict K) (loss : Y → Dict K → K) (alpha : Option K)
    (s : PfiObs K V Y) : runPFI names model loss alpha [s] = Est.init alpha := by
  simp [runPFI_cons]

/-- the model's contribution dict holds `pfiContrib` for every feature name -/
theorem pfi_contribution (names : List Nat) (model : Inst V → Dict K) (loss : Y → Dict K → K) (s : PfiObs K V Y)
    (f : Nat) (hf : f ∈ names) :
    (pfiContribs names model loss s.x s.y s.imp).getD f 0 =
      meanK ((s.imp [f]).map (loss s.y)) - loss s.y (model s.x) :=
  pfiContribsObs_getD names model loss s f hf

/-- the i-th variance input: squared deviation of the i-th contribution from the estimate updated with it -/
theorem devSeries_getElem (t : Tr K) (cs : List K) (i : Nat) (hi : i < cs.length) :
    (devSeries t cs)[i]'(by rw [devSeries_length]; exact hi) =
      sq (cs[i] - ((cs.take (i + 1)).foldl Tr.update t).get) := by
  induction cs generalizing t i with
  | nil => simp at hi
  | cons c cs ih =>
    cases i with
    | zero => simp [devSeries]
    | succ i =>
      simp only [devSeries, List.getElem_cons_succ, List.take_succ_cons, List.foldl_cons]
      exact ih (t.update c) i (by simpa using hi)

theorem runPFI_eq (names : List Nat) (model : Inst V → Dict K) (loss : Y → Dict K → K) (alpha : Option K)
    (steps : List (PfiObs K V Y)) :
    runPFI names model loss alpha steps =
      (steps.tail.map (pfiContribsObs names model loss)).foldl (fun e c => commitImportance e names c)
        (Est.init alpha) := by
  cases steps with
  | nil => rfl
  | cons s rest => rw [runPFI_cons, pfi_foldl]; rfl

/-- core: the (virtual) per-feature trackers -/
theorem pfi_virt (names : List Nat) (model : Inst V → Dict K) (loss : Y → Dict K → K) (alpha : Option K)
    (steps : List (PfiObs K V Y)) (f : Nat) (hf : f ∈ names) :
    (runPFI names model loss alpha steps).importance.virt f =
      (steps.tail.map (pfiContrib model loss f)).foldl Tr.update (Tr.init alpha) ∧
    (runPFI names model loss alpha steps).variance.virt f =
      (devSeries (Tr.init alpha) (steps.tail.map (pfiContrib model loss f))).foldl Tr.update (Tr.init alpha) := by
  obtain ⟨h1, h2, -⟩ := commit_foldl names (steps.tail.map (pfiContribsObs names model loss)) (Est.init alpha)
  have hkeys : ∀ c ∈ steps.tail.map (pfiContribsObs names model loss), f ∈ Dict.keys c := by
    intro c hc
    obtain ⟨s, _, rfl⟩ := List.mem_map.mp hc
    rw [pfiContribsObs_keys]; exact hf
  have hvals : (steps.tail.map (pfiContribsObs names model loss)).map (fun c => Dict.getD c f 0) =
      steps.tail.map (pfiContrib model loss f) := by
    rw [List.map_map]
    apply List.map_congr_left
    intro s _
    exact pfiContribsObs_getD names model loss s f hf
  have hb : (Est.init alpha).importance.virt f = Tr.init alpha := rfl
  have hbv : (Est.init alpha).variance.virt f = Tr.init alpha := rfl
  rw [runPFI_eq]
  constructor
  · rw [h1, MV.foldl_virt _ _ f hkeys, hvals, hb]
  · rw [h2, MV.foldl_virt _ _ f (fun d hd => by rw [varDicts_keys names _ _ d hd]; exact hf),
      varDicts_getD names _ _ f hf (by simp [Est.init, MV.init]) hkeys, hvals, hb, hbv]

theorem pfi_tracked (names : List Nat) (model : Inst V → Dict K) (loss : Y → Dict K → K) (alpha : Option K)
    (steps : List (PfiObs K V Y)) (f : Nat) (hf : f ∈ names) (hne : steps.tail ≠ []) :
    f ∈ (runPFI names model loss alpha steps).importance.trackers.keys ∧
    f ∈ (runPFI names model loss alpha steps).variance.trackers.keys := by
  obtain ⟨h1, h2, -⟩ := commit_foldl names (steps.tail.map (pfiContribsObs names model loss)) (Est.init alpha)
  rw [runPFI_eq, h1, h2]
  constructor
  · apply MV.mem_keys_foldl _ _ _ (fun h => hne (List.map_eq_nil_iff.mp h))
    intro c hc
    obtain ⟨s, _, rfl⟩ := List.mem_map.mp hc
    rw [pfiContribsObs_keys]; exact hf
  · apply MV.mem_keys_foldl
    · intro h
      have := congrArg List.length h
      cases hs : steps.tail with
      | nil => exact hne hs
      | cons a l => rw [hs] at this; simp [varDicts] at this
    · intro d hd; rw [varDicts_keys names _ _ d hd]; exact hf

/-- after at least one explained observation, the importance tracker of `f` is the base tracker run over the
    contributions of `f`, and its variance tracker is the base tracker run over the squared deviations -/
theorem pfi_refines_spec (names : List Nat) (model : Inst V → Dict K) (loss : Y → Dict K → K) (alpha : Option K)
    (steps : List (PfiObs K V Y)) (f : Nat) (hf : f ∈ names) (hne : steps.tail ≠ []) :
    (runPFI names model loss alpha steps).importance.trackers.find? f =
      some ((steps.tail.map (pfiContrib model loss f)).foldl Tr.update (Tr.init alpha)) ∧
    (runPFI names model loss alpha steps).variance.trackers.find? f =
      some ((devSeries (Tr.init alpha) (steps.tail.map (pfiContrib model loss f))).foldl Tr.update (Tr.init alpha)) := by
  obtain ⟨k1, k2⟩ := pfi_tracked names model loss alpha steps f hf hne
  obtain ⟨v1, v2⟩ := pfi_virt names model loss alpha steps f hf
  exact ⟨by rw [MV.find?_eq_virt _ f k1, v1], by rw [MV.find?_eq_virt _ f k2, v2]⟩

/-- the reported values, after any number of observations (0 before anything was explained) -/
theorem pfi_values (names : List Nat) (model : Inst V → Dict K) (loss : Y → Dict K → K) (alpha : Option K)
    (steps : List (PfiObs K V Y)) (f : Nat) (hf : f ∈ names) :
    (runPFI names model loss alpha steps).importance.getKey f =
      ((steps.tail.map (pfiContrib model loss f)).foldl Tr.update (Tr.init alpha)).get ∧
    (runPFI names model loss alpha steps).variance.getKey f =
      ((devSeries (Tr.init alpha) (steps.tail.map (pfiContrib model loss f))).foldl Tr.update (Tr.init alpha)).get := by
  obtain ⟨v1, v2⟩ := pfi_virt names model loss alpha steps f hf
  have b1 : (runPFI names model loss alpha steps).importance.base.get = 0 := by
    obtain ⟨h1, -⟩ := commit_foldl names (steps.tail.map (pfiContribsObs names model loss)) (Est.init alpha)
    rw [runPFI_eq, h1, MV.foldl_base]; simp [Est.init, MV.init]
  have b2 : (runPFI names model loss alpha steps).variance.base.get = 0 := by
    obtain ⟨-, h2, -⟩ := commit_foldl names (steps.tail.map (pfiContribsObs names model loss)) (Est.init alpha)
    rw [runPFI_eq, h2, MV.foldl_base]; simp [Est.init, MV.init]
  exact ⟨by rw [MV.getKey_eq_virt _ f b1, v1], by rw [MV.getKey_eq_virt _ f b2, v2]⟩

/-- static mode: the uniform mean of the contributions over the explained observations -/
theorem pfi_static_mean (names : List Nat) (model : Inst V → Dict K) (loss : Y → Dict K → K)
    (steps : List (PfiObs K V Y)) (f : Nat) (hf : f ∈ names) (hne : steps.tail ≠ []) :
    (runPFI names model loss none steps).importance.getKey f =
      (steps.tail.map (pfiContrib model loss f)).sum / (steps.tail.length : K) := by
  rw [(pfi_values names model loss none steps f hf).1, Tr.foldl_init_none]
  have := C10.welford_mean (steps.tail.map (pfiContrib model loss f)) (fun h => hne (List.map_eq_nil_iff.mp h))
  simpa [WelfordTracker.mean, Tr.get] using this

/-- static mode: the variance is the uniform mean of the squared deviations -/
theorem pfi_static_variance (names : List Nat) (model : Inst V → Dict K) (loss : Y → Dict K → K)
    (steps : List (PfiObs K V Y)) (f : Nat) (hf : f ∈ names) (hne : steps.tail ≠ []) :
    (runPFI names model loss none steps).variance.getKey f =
      (devSeries (Tr.init none) (steps.tail.map (pfiContrib model loss f))).sum / (steps.tail.length : K) := by
  rw [(pfi_values names model loss none steps f hf).2, Tr.foldl_init_none]
  have hne' : devSeries (Tr.init none) (steps.tail.map (pfiContrib model loss f)) ≠ [] := by
    intro h
    have := congrArg List.length h
    rw [devSeries_length] at this
    exact hne (List.length_eq_zero_iff.mp (by simpa using this))
  have := C10.welford_mean _ hne'
  simpa [WelfordTracker.mean, Tr.get, devSeries_length] using this

/-- dynamic mode: exponential smoothing with the configured alpha, started at zero -/
theorem pfi_dynamic (names : List Nat) (model : Inst V → Dict K) (loss : Y → Dict K → K) (α : K)
    (steps : List (PfiObs K V Y)) (f : Nat) (hf : f ∈ names) :
    (runPFI names model loss (some α) steps).importance.getKey f =
      ∑ i ∈ Finset.range steps.tail.length,
        α * (1 - α) ^ (steps.tail.length - 1 - i) * (steps.tail.map (pfiContrib model loss f)).getD i 0 := by
  rw [(pfi_values names model loss (some α) steps f hf).1, Tr.foldl_init_some]
  have := C10.es_closed α (steps.tail.map (pfiContrib model loss f))
  simpa [Tr.get] using this

theorem pfi_dynamic_variance (names : List Nat) (model : Inst V → Dict K) (loss : Y → Dict K → K) (α : K)
    (steps : List (PfiObs K V Y)) (f : Nat) (hf : f ∈ names) :
    (runPFI names model loss (some α) steps).variance.getKey f =
      ∑ i ∈ Finset.range steps.tail.length,
        α * (1 - α) ^ (steps.tail.length - 1 - i) *
          (devSeries (Tr.init (some α)) (steps.tail.map (pfiContrib model loss f))).getD i 0 := by
  rw [(pfi_values names model loss (some α) steps f hf).2, Tr.foldl_init_some]
  have := C10.es_closed α (devSeries (Tr.init (some α)) (steps.tail.map (pfiContrib model loss f)))
  simpa [Tr.get, devSeries_length] using this

/-- mean of a non-empty list of equal numbers -/
theorem meanK_const (l : List K) (c : K) (hne : l ≠ []) (h : ∀ v ∈ l, v = c) : meanK l = c := by
  have hs : l.sum = (l.length : K) * c := by
    clear hne
    induction l with
    | nil => simp
    | cons a l ih =>
      rw [List.sum_cons, ih (fun v hv => h v (by simp [hv])), h a (by simp)]
      simp only [List.length_cons]; push_cast; ring
  have hl : (l.length : K) ≠ 0 := by
    have : l.length ≠ 0 := by simpa [List.length_eq_zero_iff] using hne
    exact_mod_cast this
  simp only [meanK, lsum_eq_sum, hs]
  field_simp

/-- a feature the model ignores (imputing it alone never changes the prediction) has importance zero, in both modes -/
theorem pfi_ignored_feature_zero (names : List Nat) (model : Inst V → Dict K) (loss : Y → Dict K → K)
    (alpha : Option K) (steps : List (PfiObs K V Y)) (f : Nat) (hf : f ∈ names)
    (hign : ∀ s ∈ steps.tail, s.imp [f] ≠ [] ∧ ∀ p ∈ s.imp [f], p = model s.x) :
    (runPFI names model loss alpha steps).importance.getKey f = 0 := by
  rw [(pfi_values names model loss alpha steps f hf).1]
  apply Tr.foldl_zero _ _ (Tr.init_get alpha)
  intro v hv
  obtain ⟨s, hs, rfl⟩ := List.mem_map.mp hv
  obtain ⟨h1, h2⟩ := hign s hs
  simp only [pfiContrib]
  rw [meanK_const _ (loss s.y (model s.x)) (by simpa using h1)]
  · ring
  · intro w hw
    obtain ⟨p, hp, rfl⟩ := List.mem_map.mp hw
    rw [h2 p hp]

/-- … and then its variance is zero as well -/
theorem pfi_ignored_feature_variance_zero (names : List Nat) (model : Inst V → Dict K) (loss : Y → Dict K → K)
    (alpha : Option K) (steps : List (PfiObs K V Y)) (f : Nat) (hf : f ∈ names)
    (hign : ∀ s ∈ steps.tail, s.imp [f] ≠ [] ∧ ∀ p ∈ s.imp [f], p = model s.x) :
    (runPFI names model loss alpha steps).variance.getKey f = 0 := by
  rw [(pfi_values names model loss alpha steps f hf).2]
  have hz : ∀ v ∈ steps.tail.map (pfiContrib model loss f), v = 0 := by
    intro v hv
    obtain ⟨s, hs, rfl⟩ := List.mem_map.mp hv
    obtain ⟨h1, h2⟩ := hign s hs
    simp only [pfiContrib]
    rw [meanK_const _ (loss s.y (model s.x)) (by simpa using h1)]
    · ring
    · intro w hw
      obtain ⟨p, hp, rfl⟩ := List.mem_map.mp hw
      rw [h2 p hp]
  apply Tr.foldl_zero _ _ (Tr.init_get alpha)
  have : ∀ (cs : List K) (t : Tr K), t.get = 0 → (∀ v ∈ cs, v = 0) → ∀ d ∈ devSeries t cs, d = 0 := by
    intro cs
    induction cs with
    | nil => intro t _ _ d hd; simp [devSeries] at hd
    | cons c cs ih =>
      intro t ht hcs d hd
      have hc : c = 0 := hcs c (by simp)
      have hu : (t.update c).get = 0 := by rw [Tr.get_update, ht, hc]; ring
      simp only [devSeries, List.mem_cons] at hd
      rcases hd with rfl | hd
      · rw [hu, hc]; simp [sq]
      · exact ih _ hu (fun v hv => hcs v (by simp [hv])) d hd
  exact this _ _ (Tr.init_get alpha) hz

/-! ### non-vacuity at `K := ℚ`: model `x ↦ x 0 + 2·x 1` (ignores feature 2), squared error, DefaultImputer with
    2 inner samples, three calls (two explained) -/
section Examples

def exModel : Inst ℚ → Dict ℚ := fun x => [(0, x 0 + 2 * x 1)]
def exLoss : ℚ → Dict ℚ → ℚ := fun y out => (out.getD 0 0 - y) * (out.getD 0 0 - y)
def exX (a b c : ℚ) : Inst ℚ := fun i => if i = 0 then a else if i = 1 then b else c
def exObs (a b c y : ℚ) : PfiObs ℚ ℚ ℚ :=
  { x := exX a b c, y := y, imp := fun S => imputeDefault exModel (fun _ => 1) S (exX a b c) 2 }
def exSteps : List (PfiObs ℚ ℚ ℚ) := [exObs 1 1 1 3, exObs 2 0 5 1, exObs 0 3 4 7]

example : exSteps.tail.map (pfiContrib exModel exLoss 0) = [-1, -1] ∧
    exSteps.tail.map (pfiContrib exModel exLoss 1) = [8, 24] ∧
    exSteps.tail.map (pfiContrib exModel exLoss 2) = [0, 0] := by decide +kernel
example : (runPFI [0, 1, 2] exModel exLoss none exSteps).importanceValues = [(0, -1), (1, 16), (2, 0)] := by
  decide +kernel
example : (runPFI [0, 1, 2] exModel exLoss none exSteps).importance.getKey 1 = 16 := by
  rw [pfi_static_mean [0, 1, 2] exModel exLoss exSteps 1 (by decide) (by decide)]
  have : exSteps.tail.map (pfiContrib exModel exLoss 1) = [8, 24] := by decide +kernel
  rw [this]; norm_num [exSteps]
/-- variance of feature 1, static: deviations (8-8)², (24-16)² → mean 32 -/
example : devSeries (Tr.init none) ([8, 24] : List ℚ) = [0, 64] ∧
    (runPFI [0, 1, 2] exModel exLoss none exSteps).variance.getKey 1 = 32 := by decide +kernel
example : (runPFI [0, 1, 2] exModel exLoss (some (1/2)) exSteps).importance.getKey 1 = 14 := by decide +kernel
/-- the ignored feature: hypothesis of `pfi_ignored_feature_zero` holds on the example stream -/
example : ∀ s ∈ exSteps.tail, s.imp [2] ≠ [] ∧ ∀ p ∈ s.imp [2], p = exModel s.x := by
  intro s hs
  simp only [exSteps, List.tail_cons, List.mem_cons, List.not_mem_nil, or_false] at hs
  rcases hs with rfl | rfl <;> decide +kernel

end Examples

end Ixai.C02
