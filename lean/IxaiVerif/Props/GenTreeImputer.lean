/-
  Bridge between the GENERATED `TreeImputer._sample_from_storages` (Gen/TreeImputerStorage.lean, translated statement by statement from
  ixai/imputer/tree_imputer.py by tools/py2lean_eff.py, over the tree oracle: routed leaf id, drawn index, the tree's own prediction as
  fall-back) and the hand-written `Tree.imputeValue` of Model/Tree.lean that the imputer theorems of C19 are stated about.
-/
import IxaiVerif.Gen.TreeImputerStorage
import IxaiVerif.Model.Tree

namespace Ixai.GenTreeImputer
open Ixai Ixai.Tree

variable {K : Type} [Add K] [Sub K] [Mul K] [Div K] [NatCast K] [OfNat K 0] [OfNat K 1] [LE K] [DecidableLE K]
variable {V : Type}

/-- what the generated function computes: the value the feature has in the drawn point of the routed leaf's reservoir, and the fall-back
    exactly when that leaf has no reservoir (or, totalised, the drawn index is out of range) -/
theorem sample_from_storages_generated (rs : Reservoirs K (Nat → V)) (f : Nat) (x : Nat → V) (leaf pick : Nat) (fallback : V) :
    Gen.TreeImputer._sample_from_storages rs f x leaf pick fallback =
      (match findR rs leaf with
       | none => fallback
       | some r => match r.storage_x[pick]? with
                   | some p => p f
                   | none => fallback) := by
  unfold Gen.TreeImputer._sample_from_storages
  cases h : findR rs leaf with
  | none => simp [Id.run, h, bind, Option.bind]; rfl
  | some r =>
    cases h2 : r.storage_x[pick]? with
    | none => simp [Id.run, h, h2, bind, Option.bind]; rfl
    | some p => simp [Id.run, h, h2, bind, Option.bind, pure]

/-- the generated function applied to the reservoirs of the feature IS the model's `imputeValue` -/
theorem sample_from_storages_generated_eq_model (s : State K (Nat → V)) (f : Nat) (x : Nat → V) (leaf pick : Nat) (fallback : V)
    (e : Nat × Reservoirs K (Nat → V)) (he : s.reservoirs.find? (fun e => e.1 == f) = some e) :
    Gen.TreeImputer._sample_from_storages e.2 f x leaf pick fallback = imputeValue s f leaf pick fallback := by
  rw [sample_from_storages_generated]
  unfold imputeValue
  rw [he]
  rfl

/-- C19's clause for the generated code: when the routed leaf has a reservoir and the drawn index is in range, the imputed value is the
    value that feature has in a point held in that reservoir -/
theorem generated_value_from_leaf_reservoir (rs : Reservoirs K (Nat → V)) (f : Nat) (x : Nat → V) (leaf pick : Nat) (fallback : V)
    (r : Gen.GeometricReservoirStorage K (Nat → V) Unit) (hr : findR rs leaf = some r) (hp : pick < r.storage_x.length) :
    ∃ p ∈ r.storage_x, Gen.TreeImputer._sample_from_storages rs f x leaf pick fallback = p f := by
  refine ⟨r.storage_x[pick], List.getElem_mem hp, ?_⟩
  rw [sample_from_storages_generated, hr]
  simp [List.getElem?_eq_getElem hp]

/-- … and the fall-back is used when the routed leaf has no reservoir yet -/
theorem generated_fallback (rs : Reservoirs K (Nat → V)) (f : Nat) (x : Nat → V) (leaf pick : Nat) (fallback : V)
    (hr : findR rs leaf = none) : Gen.TreeImputer._sample_from_storages rs f x leaf pick fallback = fallback := by
  rw [sample_from_storages_generated, hr]

end Ixai.GenTreeImputer
