/-
  C08 — UniformReservoirStorage keeps a uniformly random subset.
  "After n >= k observations a UniformReservoirStorage of size k holds a uniformly random k-subset of the stream:
  every subset of size k is equally likely, so each past observation is retained with probability k/n regardless of
  when it arrived."

  Layers (DESIGN.md section 6, C08):
   L0  what the GENERATED kernel does with its draws (`uniform_init_shape`, `uniform_update_shape`,
       `uniform_update_skip`): Algorithm L's order — on an acceptance the slot is drawn for range `size`, the weight is
       multiplied FIRST, and the next skip is drawn from the UPDATED weight. (On the pinned tree before the fix: commit
       adc78c5 this lemma was false: the skip was computed from the stale weight.)
   L2  the acceptance law of that algorithm, as a moment functional of the real-valued weight (`accept_history_law`):
       every accept/reject history has the probability of independent Bernoulli(k/t) acceptances of item t.
       Analytic inputs (trusted, see DESIGN section 8): E[(U^{1/k})^m] = k/(k+m); a skip floor(log U/log(1-W)) is a run of
       independent Bernoulli(W) rejections.
   L1  for the chain "accept item t with probability k/t, then overwrite a uniformly drawn slot": for every k ≥ 1, n ≥ k and
       every set A of arrivals, P(A ⊆ reservoir) = Π_{i<|A|} (k-i)/(n-i); hence k/n for a single arrival, 1/C(n,k) for every
       k-subset (`uniform_inclusion`, `uniform_single`, `uniform_every_subset_equally_likely`); one generated accepting
       step summed over its slot outcomes is that chain's step (`uniform_step_law`).
  C08 is therefore claimed as: proof of the law of the modelled algorithm + trusted analytic bridge (partial).
-/
import IxaiVerif.Proofs.Storage
import IxaiVerif.Proofs.Reservoir
import IxaiVerif.Proofs.AlgoL
import IxaiVerif.Proofs.AnalyticBridge
import Mathlib.Tactic.NormNum

set_option linter.unusedSectionVars false
namespace Ixai.C08
open Ixai Ixai.Gen

section Code
variable {K : Type} [Field K] [DecidableEq K] [RealOps K] {X Y : Type}

/-- constructor: W = exp(log u₀ / k), first accepted arrival = k + floor(log u₁ / log(1 - W)) + 1 -/
theorem uniform_init_shape (size : ℕ) (st : Bool) (rnd : Rnd K) :
    let s := (UniformReservoirStorage.init size st rnd : UniformReservoirStorage K X Y × Rnd K).1
    let u0 := rnd.reals rnd.rpos
    let u1 := rnd.reals (rnd.rpos + 1)
    s.algo_wt = RealOps.exp (RealOps.log u0 / (size : K)) ∧
    s.algo_l_counter = (size : K) + (RealOps.floor (RealOps.log u1 / RealOps.log (1 - s.algo_wt)) + 1) ∧
    s.stored_samples = 0 := by
  simp [UniformReservoirStorage.init, Rnd.nextReal]

/-- an accepting update of a full reservoir (Algorithm L): slot drawn for range `size`; the weight is multiplied by
    exp(log u₁ / k) and the next skip is drawn from the UPDATED weight -/
theorem uniform_update_shape (s : UniformReservoirStorage K X Y) (x : X) (y : Y) (rnd : Rnd K)
    (hfull : ¬ s.stored_samples + 1 ≤ s.size)
    (hacc : s.algo_l_counter = ((s.stored_samples + 1 : ℕ) : K)) :
    let s' := (s.update x y rnd).1
    let u1 := rnd.reals rnd.rpos
    let u2 := rnd.reals (rnd.rpos + 1)
    s'.storage_x = s.storage_x.set (rnd.idxs rnd.ipos s.size) x ∧
    s'.algo_wt = s.algo_wt * RealOps.exp (RealOps.log u1 / (s.size : K)) ∧
    s'.algo_l_counter = s.algo_l_counter + (RealOps.floor (RealOps.log u2 / RealOps.log (1 - s'.algo_wt)) + 1) := by
  have hacc' : s.algo_l_counter = ((s.stored_samples : K) + 1) := by rw [hacc]; push_cast; ring
  cases hst : s.store_targets <;>
    simp [UniformReservoirStorage.update, Rnd.nextReal, Rnd.nextIdx, hfull, hacc', hst]

/-- a skipped arrival changes nothing but the arrival counter, and consumes no draw -/
theorem uniform_update_skip (s : UniformReservoirStorage K X Y) (x : X) (y : Y) (rnd : Rnd K)
    (hfull : ¬ s.stored_samples + 1 ≤ s.size)
    (hskip : s.algo_l_counter ≠ ((s.stored_samples + 1 : ℕ) : K)) :
    (s.update x y rnd).1 = { s with stored_samples := s.stored_samples + 1 } ∧ (s.update x y rnd).2 = rnd := by
  have hskip' : ¬ s.algo_l_counter = ((s.stored_samples : K) + 1) := by
    intro h; apply hskip; rw [h]; push_cast; ring
  simp [UniformReservoirStorage.update, hfull, hskip']

end Code

section Law
variable {K : Type} [Field K] [DecidableEq K] [RealOps K] {Y : Type}
open Finset

/-- one accepting generated step on a reservoir of arrival tags, summed over its `size` equally likely slot outcomes
    (whatever concrete draws `rndA j` realise slot j), together with weight `1 - a` for "this arrival is skipped",
    is the step of the abstract chain -/
theorem uniform_step_law (s : UniformReservoirStorage K ℕ Y) (t : ℕ) (y : Y) (a : K) (f : List ℕ → K)
    (sSkip : UniformReservoirStorage K ℕ Y) (rnd : Rnd K) (rndA : ℕ → Rnd K)
    (hfull : ¬ s.stored_samples + 1 ≤ s.size)
    (hacc : s.algo_l_counter = ((s.stored_samples + 1 : ℕ) : K))
    (hskipState : sSkip.storage_x = s.storage_x ∧ sSkip.size = s.size ∧ sSkip.stored_samples = s.stored_samples ∧
      sSkip.algo_l_counter ≠ ((s.stored_samples + 1 : ℕ) : K))
    (hA : ∀ j, (rndA j).idxs (rndA j).ipos s.size = j) :
    (1 - a) * f (sSkip.update t y rnd).1.storage_x
        + a * ((1 : K) / s.size) * ∑ j ∈ range s.size, f (s.update t y (rndA j)).1.storage_x
      = Reservoir.stepE s.size a t s.storage_x f := by
  unfold Reservoir.stepE
  obtain ⟨hx, hsz, hss, hne⟩ := hskipState
  have hskip := (uniform_update_skip sSkip t y rnd (by rw [hss, hsz]; exact hfull) (by rw [hss]; exact hne)).1
  rw [hskip]
  simp only [hx]
  congr 2
  apply Finset.sum_congr rfl
  intro j _
  have := (uniform_update_shape s t y (rndA j) hfull hacc).1
  rw [this, hA j]

end Law

section AcceptanceLaw
open Ixai.AlgoL

/-- L2: with the moments of U^{1/k} as only input, every acceptance history of Algorithm L has the probability of
    independent Bernoulli(k/t) acceptances -/
theorem accept_history_law (k : ℕ) (hk : 0 < k) (h : List Bool) : phi k h 0 = histProb k h :=
  hist_prob k hk h

/-- the joint law with all moments of the current weight (Beta(k, n-k+1) moments) -/
theorem accept_history_moments (k : ℕ) (hk : 0 < k) (h : List Bool) (m : ℕ) :
    phi k h m = histProb k h * betaMom k (k + h.length) m :=
  phi_closed k hk h m

end AcceptanceLaw

section Chain
variable {K : Type} [Field K] [CharZero K]

/-- L1: P(A ⊆ reservoir after n arrivals) = Π_{i<|A|} (k-i)/(n-i), for every set A of arrivals -/
theorem uniform_inclusion (k n : ℕ) (hk : 1 ≤ k) (hn : k ≤ n) (A : Finset ℕ) (hA : ∀ x ∈ A, 1 ≤ x ∧ x ≤ n) :
    Reservoir.runE k (fun t => (k : K) / t) k (n - k) (List.range' 1 k) (Reservoir.ind A)
      = ∏ i ∈ Finset.range A.card, ((k : K) - i) / ((n : K) - i) :=
  Reservoir.uniform_inclusion k n hk hn A hA

/-- each past observation is retained with probability k/n regardless of when it arrived -/
theorem uniform_single (k n x : ℕ) (hk : 1 ≤ k) (hn : k ≤ n) (hx1 : 1 ≤ x) (hxn : x ≤ n) :
    Reservoir.runE k (fun t => (k : K) / t) k (n - k) (List.range' 1 k) (Reservoir.ind {x}) = (k : K) / n :=
  Reservoir.uniform_single k n x hk hn hx1 hxn

/-- every subset of size k is equally likely: the reservoir (as a set) equals A with probability 1 / C(n, k) -/
theorem uniform_every_subset_equally_likely (k n : ℕ) (hk : 1 ≤ k) (hn : k ≤ n) (A : Finset ℕ)
    (hA : ∀ x ∈ A, 1 ≤ x ∧ x ≤ n) (hcard : A.card = k) :
    Reservoir.runE k (fun t => (k : K) / t) k (n - k) (List.range' 1 k) (Reservoir.indEq A) = 1 / (n.choose k : K) :=
  Reservoir.uniform_exact_eq k n hk hn A hA hcard

end Chain

/-! non-vacuity -/
section Examples
example : Reservoir.runE 2 (fun t => ((2 : ℕ) : ℚ) / t) 2 (4 - 2) (List.range' 1 2) (Reservoir.indEq {2, 4}) = 1 / 6 := by
  rw [uniform_every_subset_equally_likely 2 4 (by norm_num) (by norm_num) {2, 4} (by decide) (by decide)]; norm_num [Nat.choose]
example : AlgoL.phi 1 [true, true] 0 = 1 / 6 := by
  rw [accept_history_law 1 (by norm_num)]; norm_num [AlgoL.histProb]
end Examples

end Ixai.C08

/-! ### the analytic bridge (Proofs/AnalyticBridge.lean): the two real-analysis inputs of layer L2 are theorems of Mathlib's
    measure theory, not assumptions -/
namespace Ixai.C08
open MeasureTheory Set

/-- the moments of V = U^(1/k), U uniform on (0,1), are the `momV` the acceptance-law recursion starts from -/
theorem moments_of_weight_factor (k m : ℕ) (hk : 1 ≤ k) :
    ∫ u in (0:ℝ)..1, (u ^ ((1:ℝ)/k)) ^ m = ((AlgoL.momV k m : ℚ) : ℝ) := by
  rw [AnalyticBridge.moment_rpow k m hk]
  simp [AlgoL.momV]

/-- the skip `floor(log U / log(1-w))` is geometric: it equals s with probability (1-w)^s · w … -/
theorem skip_is_geometric (w : ℝ) (hw0 : 0 < w) (hw1 : w < 1) (s : ℕ) :
    volume {u : ℝ | 0 < u ∧ u < 1 ∧ ⌊Real.log u / Real.log (1 - w)⌋ = (s : ℤ)} = ENNReal.ofReal ((1 - w) ^ s * w) :=
  AnalyticBridge.skip_measure w hw0 hw1 s

/-- … i.e. a run of s rejections (probability 1-w each) followed by an acceptance (probability w) -/
theorem skip_is_bernoulli_run (w : ℝ) (hw0 : 0 < w) (hw1 : w < 1) (s : ℕ) :
    volume {u : ℝ | 0 < u ∧ u < 1 ∧ ((s + 1 : ℕ) : ℤ) ≤ ⌊Real.log u / Real.log (1 - w)⌋} =
      ENNReal.ofReal (1 - w) * volume {u : ℝ | 0 < u ∧ u < 1 ∧ (s : ℤ) ≤ ⌊Real.log u / Real.log (1 - w)⌋} :=
  AnalyticBridge.skip_tail_succ w hw0 hw1 s

/-- P(U ≤ p) = p (used by the geometric reservoir, C09) -/
theorem uniform_cdf (p : ℝ) (hp0 : 0 ≤ p) (hp1 : p ≤ 1) : volume (Ioc (0:ℝ) p ∩ Ioo 0 1) = ENNReal.ofReal p :=
  AnalyticBridge.uniform_cdf p hp0 hp1

end Ixai.C08
