/-
  C16 (tie by translation): the per-feature expression of `get_confidence_bound`, regenerated from ixai/explainer/base.py on
  every run (`Gen.ConfBound.confBound`), IS the hand-written `Ixai.confBound` that the theorems of Props/C16.lean are about.
  A change of the formula in the source changes the generated text and breaks this theorem.
-/
import IxaiVerif.Gen.ConfBound
import IxaiVerif.Model.Explainer
import Mathlib.Algebra.Field.Basic
import Mathlib.Tactic.Ring
import Mathlib.Tactic.NormNum
import Mathlib.Tactic.Push

set_option linter.unusedSectionVars false
namespace Ixai.C16b
open Ixai

variable {K : Type} [Field K] [RealOps K] [DecidableEq K]

theorem conf_bound_generated_eq_model (alpha : K) (seen : ℕ) (variance delta : K) :
    Gen.ConfBound.confBound alpha seen variance delta = Ixai.confBound alpha seen variance delta := by
  simp only [Gen.ConfBound.confBound, Ixai.confBound]
  have h2 : (((2 : ℕ) : K)) = 1 + 1 := by norm_num
  rw [h2]

end Ixai.C16b
