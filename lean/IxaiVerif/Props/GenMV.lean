/-
  Bridge between the GENERATED `MultiValueTracker` (Gen/MultiValueTracker.lean: `update`, `__call__` / `get`, `get_normalized`
  translated statement by statement from ixai/utils/tracker/multi_value.py by tools/py2lean_eff.py, over the explicit state record
  `MVGen` of the class's four attributes) and the hand-written `MV` of Model/Tr.lean that the theorems of C12 — and through it those
  of C01–C03 — are stated about.

  `Rel g m`: the generated state `g` represents the model state `m` — same trackers in the same (insertion) order, `_tracked_keys`
  listing exactly their keys, same base tracker, same update count.  Python dicts have distinct keys.
-/
import IxaiVerif.Proofs.GenMV

namespace Ixai.GenMV
open Ixai

variable {K : Type} [Add K] [Sub K] [Mul K] [Div K] [NatCast K] [OfNat K 0] [OfNat K 1] [RealOps K] [DecidableEq K]

/-- the generated state represents the model state -/
def Rel (g : Gen.MVGen K) (m : MV K) : Prop :=
  g.tracked_value = m.trackers ∧ g.tracked_keys = m.trackers.keys ∧ g.base_tracker = m.base ∧ g.N = m.N

/-- a fresh tracker: `MultiValueTracker(base)` -/
theorem rel_init (base : Tr K) : Rel ⟨[], [], base, 0⟩ (MV.init base) := ⟨rfl, rfl, rfl, rfl⟩

/-- `update(values)`: the generated method and the model's `MV.update` take related states to related states -/
theorem update_generated_eq_model (g : Gen.MVGen K) (m : MV K) (hR : Rel g m) (hk : m.trackers.keys.Nodup)
    (values : Dict K) (hv : values.keys.Nodup) :
    Rel (Gen.MultiValueTracker.update g values) (m.update values) ∧ (m.update values).trackers.keys.Nodup := by
  obtain ⟨tv, ks, b, n⟩ := g
  obtain ⟨tr, n', b'⟩ := m
  obtain ⟨h1, h2, h3, h4⟩ := hR
  simp only at h1 h2 h3 h4 hk
  subst h1 h2 h3 h4
  have h := updSpec_eq tv b n hk values hv
  rw [update_spec, h.1]
  exact ⟨⟨rfl, rfl, rfl, rfl⟩, h.2⟩

/-- `get()` / `__call__` -/
theorem call_generated_eq_model (g : Gen.MVGen K) (m : MV K) (hR : Rel g m) (hk : m.trackers.keys.Nodup) :
    Gen.MultiValueTracker.__call__ g = m.get := by
  obtain ⟨tv, ks, b, n⟩ := g
  obtain ⟨tr, n', b'⟩ := m
  obtain ⟨h1, h2, h3, h4⟩ := hR
  simp only at h1 h2 h3 h4 hk
  subst h1 h2 h3 h4
  exact call_eq tv b n hk

/-- `get_normalized()` -/
theorem get_normalized_generated_eq_model (g : Gen.MVGen K) (m : MV K) (hR : Rel g m) (hk : m.trackers.keys.Nodup) :
    Gen.MultiValueTracker.get_normalized g = m.getNormalized := by
  obtain ⟨tv, ks, b, n⟩ := g
  obtain ⟨tr, n', b'⟩ := m
  obtain ⟨h1, h2, h3, h4⟩ := hR
  simp only at h1 h2 h3 h4 hk
  subst h1 h2 h3 h4
  exact get_normalized_eq tv b n hk

/-- every reachable state: after any sequence of updates (dicts with distinct keys) from a fresh tracker the generated state
    represents the model's, and both views agree -/
theorem run_generated_eq_model (base : Tr K) (updates : List (Dict K)) (hv : ∀ v ∈ updates, v.keys.Nodup) :
    Rel (updates.foldl Gen.MultiValueTracker.update ⟨[], [], base, 0⟩) (updates.foldl MV.update (MV.init base)) ∧
    Gen.MultiValueTracker.__call__ (updates.foldl Gen.MultiValueTracker.update ⟨[], [], base, 0⟩)
      = (updates.foldl MV.update (MV.init base)).get ∧
    Gen.MultiValueTracker.get_normalized (updates.foldl Gen.MultiValueTracker.update ⟨[], [], base, 0⟩)
      = (updates.foldl MV.update (MV.init base)).getNormalized := by
  have h := foldl_rel (fun (g : Gen.MVGen K) (m : MV K) => Rel g m ∧ m.trackers.keys.Nodup) (fun v : Dict K => v.keys.Nodup)
    Gen.MultiValueTracker.update MV.update
    (fun g m v hR hv => update_generated_eq_model g m hR.1 hR.2 v hv)
    updates ⟨[], [], base, 0⟩ (MV.init base) ⟨rel_init base, List.nodup_nil⟩ hv
  exact ⟨h.1, call_generated_eq_model _ _ h.1 h.2, get_normalized_generated_eq_model _ _ h.1 h.2⟩

end Ixai.GenMV
