/-
  C14 — model wrappers and `validate_model_function`.
  "Each model wrapper maps a feature dict to a dict of numeric outputs — {'output': value} for a single-valued
  prediction (scalar or any size-one array), {i: value_i} for a vector, a one-hot dict over the labels seen so far
  for a river string label — and maps a list of feature dicts to the list, in order, of the canonical dicts of the
  rows of the model's batch output (identical to one-at-a-time calls whenever the model itself computes rows
  independently). When feature names are supplied the result does not depend on the key order of the input dict
  and only those features reach the model, in that order. validate_model_function returns Wrapper instances
  unchanged and wraps bound methods of sklearn and river models and torch modules in the matching wrapper."

  The theorems are about the hand-written model `IxaiVerif/Model/Wrapper.lean` (arrays = shape + row-major data,
  the wrapped prediction function `predict : Arr V → Arr W` is an arbitrary parameter, `V W` arbitrary types).
  What NumPy / torch / sklearn do is outside the model (C14 is partial; covered by the correspondence run).

  Hypotheses that are really needed and are stated explicitly:
   * `input_order_irrelevant`: the keys of the input dict are distinct (a Python `dict` guarantees it); without it
     lookup returns the first match and does depend on the order — see `order_matters_with_duplicate_keys`.
   * `batch_equals_single`: the batch is non-empty (`xs ≠ []`). For the empty batch the model receives an array of
     shape `[0, 0]`, about which "computes rows of `d` features independently" says nothing unless `d = 0`
     — see `empty_batch_needs_hypothesis`. (`c ≥ 1` is *not* needed.)
   * `river_one_hot`, stream statements: none (`seen.Nodup` is only needed for the conclusion `seen'.Nodup`).
-/
import IxaiVerif.Proofs.Wrapper

set_option linter.unusedSectionVars false
namespace Ixai.C14
open Ixai Ixai.Wrapper

variable {V W : Type}

/-! ### the canonical output dict -/

/-- a single value ↦ `{'output': value}`, whatever the shape of the size-one array -/
theorem canon_size_one (y : Arr V) (v : V) (h : y.data = [v]) : outDict y = [(Label.output, v)] :=
  outDict_singleton y v h

theorem canon_size_one_any_shape (s : List ℕ) (v : V) : outDict ⟨s, [v]⟩ = [(Label.output, v)] := rfl
/-- scalar (0-d array) -/
theorem canon_scalar (v : V) : outDict ⟨[], [v]⟩ = [(Label.output, v)] := rfl
/-- shape `(1,)` -/
theorem canon_shape_1 (v : V) : outDict ⟨[1], [v]⟩ = [(Label.output, v)] := rfl
/-- shape `(1, 1)` -/
theorem canon_shape_1_1 (v : V) : outDict ⟨[1, 1], [v]⟩ = [(Label.output, v)] := rfl

/-- a vector ↦ `{i: value_i}`: keys `0, 1, …` in order, values the data in order (the empty array gives `{}`) -/
theorem canon_vector (y : Arr V) (h : y.data.length ≠ 1) :
    (outDict y).map Prod.fst = (List.range y.data.length).map Label.idx ∧
    (outDict y).map Prod.snd = y.data := by
  rw [outDict_of_ne_one y h]
  constructor
  · rw [List.map_map]
    have : (Prod.fst ∘ fun iv : ℕ × V => (Label.idx iv.1, iv.2)) = Label.idx ∘ Prod.fst := rfl
    rw [this, ← List.map_map, List.map_fst_zip (by simp)]
  · rw [List.map_map]
    have : (Prod.snd ∘ fun iv : ℕ × V => (Label.idx iv.1, iv.2)) = Prod.snd := rfl
    rw [this, List.map_snd_zip (by simp)]

/-- entry by entry -/
theorem canon_vector_getElem (y : Arr V) (h : y.data.length ≠ 1) (i : ℕ) (hi : i < y.data.length) :
    (outDict y)[i]? = some (Label.idx i, y.data[i]) := by
  rw [outDict_of_ne_one y h]
  simp [hi]

theorem canon_empty (s : List ℕ) : outDict (⟨s, []⟩ : Arr V) = [] := rfl

/-- the dict never depends on the shape -/
theorem canon_shape_irrelevant (s s' : List ℕ) (d : List V) : outDict ⟨s, d⟩ = outDict ⟨s', d⟩ := rfl

example : outDict (⟨[], [7]⟩ : Arr ℕ) = [(Label.output, 7)] ∧
    outDict (⟨[1], [7]⟩ : Arr ℕ) = [(Label.output, 7)] ∧
    outDict (⟨[1, 1], [7]⟩ : Arr ℕ) = [(Label.output, 7)] ∧
    outDict (⟨[3], [7, 8, 9]⟩ : Arr ℕ) = [(Label.idx 0, 7), (Label.idx 1, 8), (Label.idx 2, 9)] ∧
    outDict (⟨[1, 2], [7, 8]⟩ : Arr ℕ) = [(Label.idx 0, 7), (Label.idx 1, 8)] ∧
    outDict (⟨[0], []⟩ : Arr ℕ) = [] := by decide

/-! ### one dict -/

/-- the model sees the row as an array of shape `(1, d)`; its output is put into canonical form -/
theorem call_one_spec (names : Option (List ℕ)) (predict : Arr V → Arr W) (x : FDict V) :
    callOne names predict x = (rowOf names x).map (fun r => outDict (predict ⟨[1, r.length], r⟩)) := by
  unfold callOne convert1d
  cases rowOf names x <;> rfl

/-- without feature names the row is the dict's values in insertion order -/
theorem row_without_names (x : FDict V) : rowOf none x = some (x.map Prod.snd) := rfl

/-- with feature names, the key order of the input dict is irrelevant (keys distinct, as in any Python dict) -/
theorem input_order_irrelevant (ns : List ℕ) (x x' : FDict V) (hp : x.Perm x')
    (hnd : (x.map Prod.fst).Nodup) : rowOf (some ns) x' = rowOf (some ns) x := by
  rw [rowOf_some, rowOf_some]
  exact mapM_congr_mem _ _ ns (fun f _ => fget_perm hp hnd f)

theorem input_order_irrelevant_callOne (ns : List ℕ) (predict : Arr V → Arr W) (x x' : FDict V) (hp : x.Perm x')
    (hnd : (x.map Prod.fst).Nodup) : callOne (some ns) predict x' = callOne (some ns) predict x := by
  rw [call_one_spec, call_one_spec, input_order_irrelevant ns x x' hp hnd]

theorem input_order_irrelevant_callMany (ns : List ℕ) (predict : Arr V → Arr W) (xs xs' : List (FDict V))
    (h : List.Forall₂ (fun x x' => x.Perm x' ∧ (x.map Prod.fst).Nodup) xs xs') :
    callMany (some ns) predict xs' = callMany (some ns) predict xs := by
  have hm : xs'.mapM (rowOf (some ns)) = xs.mapM (rowOf (some ns)) := by
    induction h with
    | nil => rfl
    | cons hab _ ih => rw [mapM_cons_opt, mapM_cons_opt, ih, input_order_irrelevant ns _ _ hab.1 hab.2]
  unfold callMany convert2d
  rw [hm]

/-- only the named features reach the model, in the order of the names -/
theorem only_named_features_reach_model (ns : List ℕ) (x : FDict V) (r : List V)
    (h : rowOf (some ns) x = some r) :
    r.length = ns.length ∧ ∀ i (hi : i < ns.length) (hi' : i < r.length), fget x ns[i] = some r[i] :=
  mapM_some_spec _ ns r h

/-- extra keys never reach the model: two dicts that agree on the named features give the same row -/
theorem extra_keys_ignored (ns : List ℕ) (x x' : FDict V) (h : ∀ f ∈ ns, fget x' f = fget x f) :
    rowOf (some ns) x' = rowOf (some ns) x := by
  rw [rowOf_some, rowOf_some]
  exact mapM_congr_mem _ _ ns h

/-- a named feature missing from the dict is an error (Python: `KeyError`) -/
theorem missing_feature_is_error (ns : List ℕ) (x : FDict V) (f : ℕ) (hf : f ∈ ns) (hx : fget x f = none) :
    rowOf (some ns) x = none :=
  mapM_none_of_mem _ ns f hf hx

/-- the names [2, 0] pick features 2 and 0 in that order; feature 1 never reaches the model; insertion order of the
    dict is irrelevant; a missing feature is an error -/
example : rowOf (some [2, 0]) ([(0, 10), (1, 11), (2, 12)] : FDict ℕ) = some [12, 10] ∧
    rowOf (some [2, 0]) ([(2, 12), (0, 10), (1, 11)] : FDict ℕ) = some [12, 10] ∧
    rowOf (some [2, 0]) ([(2, 12), (0, 10)] : FDict ℕ) = some [12, 10] ∧
    rowOf (some [2, 3]) ([(0, 10), (1, 11), (2, 12)] : FDict ℕ) = none ∧
    rowOf none ([(2, 12), (0, 10), (1, 11)] : FDict ℕ) = some [12, 10, 11] := by decide

/-- the hypotheses of `input_order_irrelevant` are satisfiable -/
example : ([(0, 10), (1, 11), (2, 12)] : FDict ℕ).Perm [(2, 12), (0, 10), (1, 11)] ∧
    (([(0, 10), (1, 11), (2, 12)] : FDict ℕ).map Prod.fst).Nodup := by decide

/-- why distinct keys are a hypothesis: an association list with a repeated key is order-sensitive -/
theorem order_matters_with_duplicate_keys :
    ([(0, 1), (0, 2)] : FDict ℕ).Perm [(0, 2), (0, 1)] ∧
    rowOf (some [0]) ([(0, 1), (0, 2)] : FDict ℕ) ≠ rowOf (some [0]) ([(0, 2), (0, 1)] : FDict ℕ) := by decide

/-! ### a list of dicts -/

/-- the rows are stacked in order into an `(n, d)` array … -/
theorem batch_input_spec (names : Option (List ℕ)) (xs : List (FDict V)) :
    convert2d names xs = (xs.mapM (rowOf names)).map (fun rows =>
      ⟨[rows.length, (rows.headD []).length], rows.flatten⟩) := rfl

/-- … and the result is the list, in order, of the canonical dicts of the rows of the batch output -/
theorem batch_is_map_rows (names : Option (List ℕ)) (predict : Arr V → Arr W) (xs : List (FDict V)) :
    callMany names predict xs = (convert2d names xs).map (fun a =>
      let y := predict a
      (List.range (y.shape.headD 0)).map (fun i => outDict (rowAt y i))) := rfl

/-- for a batch output of shape `(n, c)`: the i-th result is the canonical dict of the i-th block of `c` values -/
theorem batch_blocks (names : Option (List ℕ)) (predict : Arr V → Arr W) (xs : List (FDict V)) (a : Arr V)
    (n c : ℕ) (ha : convert2d names xs = some a) (hs : (predict a).shape = [n, c])
    (hd : (predict a).data.length = n * c) :
    callMany names predict xs =
      some ((List.range n).map (fun i => outDict ⟨[c], ((predict a).data.drop (i * c)).take c⟩)) :=
  callMany_blocks names predict xs a n c ha hs hd

theorem batch_blocks_getElem (names : Option (List ℕ)) (predict : Arr V → Arr W) (xs : List (FDict V)) (a : Arr V)
    (n c : ℕ) (ha : convert2d names xs = some a) (hs : (predict a).shape = [n, c])
    (hd : (predict a).data.length = n * c) :
    ∃ res, callMany names predict xs = some res ∧ res.length = n ∧
      ∀ i (hi : i < res.length), res[i] = outDict ⟨[c], ((predict a).data.drop (i * c)).take c⟩ := by
  refine ⟨_, batch_blocks names predict xs a n c ha hs hd, by simp, ?_⟩
  intro i hi
  simp

/-- a batch of two dicts, a model returning shape `(2, 2)` resp. `(2, 1)` -/
example : callMany (some [1, 0]) (fun a => (⟨[2, 2], a.data.map (· + 1)⟩ : Arr ℕ))
      ([[(0, 10), (1, 11)], [(1, 21), (0, 20)]] : List (FDict ℕ)) =
    some [[(Label.idx 0, 12), (Label.idx 1, 11)], [(Label.idx 0, 22), (Label.idx 1, 21)]] ∧
    callMany (some [1, 0]) (fun a => (⟨[2, 1], a.data.take 2⟩ : Arr ℕ))
      ([[(0, 10), (1, 11)], [(1, 21), (0, 20)]] : List (FDict ℕ)) =
    some [[(Label.output, 11)], [(Label.output, 10)]] ∧
    callMany (some [1, 5]) (fun a => (⟨[2, 1], a.data.take 2⟩ : Arr ℕ))
      ([[(0, 10), (1, 11)], [(1, 21), (0, 20)]] : List (FDict ℕ)) = none := by decide

/-! ### batch = one at a time, for a model that computes rows independently -/

/-- batch call on a row-wise model: the canonical dicts of `g row`, in order -/
theorem batch_rowwise (names : Option (List ℕ)) (predict : Arr V → Arr W) (g : List V → List W) (d c : ℕ)
    (hrw : RowWise predict g d c) (xs : List (FDict V)) (rows : List (List V))
    (hrows : xs.mapM (rowOf names) = some rows) (hlen : ∀ r ∈ rows, r.length = d) (hne : xs ≠ []) :
    callMany names predict xs = some (rows.map (fun r => outDict ⟨[c], g r⟩)) := by
  apply callMany_rowWise names predict g d c hrw xs rows hrows hlen
  have hl := (mapM_some_spec _ xs rows hrows).1
  cases rows with
  | nil => exact absurd (List.length_eq_zero_iff.1 hl.symm) hne
  | cons r rows => exact hlen r (List.mem_cons_self ..)

/-- single call on a row-wise model (the model's output has shape `(1, c)`; the dict ignores the shape) -/
theorem single_rowwise (names : Option (List ℕ)) (predict : Arr V → Arr W) (g : List V → List W) (d c : ℕ)
    (hrw : RowWise predict g d c) (x : FDict V) (r : List V) (hr : rowOf names x = some r) (hl : r.length = d) :
    callOne names predict x = some (outDict ⟨[c], g r⟩) :=
  callOne_rowWise names predict g d c hrw x r hr hl

/-- calling the wrapper with the list = calling it with each dict in turn -/
theorem batch_equals_single (names : Option (List ℕ)) (predict : Arr V → Arr W) (g : List V → List W) (d c : ℕ)
    (hrw : RowWise predict g d c) (xs : List (FDict V)) (rows : List (List V))
    (hrows : xs.mapM (rowOf names) = some rows) (hlen : ∀ r ∈ rows, r.length = d) (hne : xs ≠ []) :
    callMany names predict xs = xs.mapM (callOne names predict) := by
  rw [batch_rowwise names predict g d c hrw xs rows hrows hlen hne]
  exact (mapM_some_of_forall (rowOf names) (callOne names predict) (fun r => outDict ⟨[c], g r⟩)
    (fun r => r.length = d) xs rows hrows hlen
    (fun x r hr hl => single_rowwise names predict g d c hrw x r hr hl)).symm

/-- the same for the empty batch when the model takes no features (`d = 0`) -/
theorem batch_equals_single_d0 (names : Option (List ℕ)) (predict : Arr V → Arr W) (g : List V → List W) (c : ℕ)
    (hrw : RowWise predict g 0 c) (xs : List (FDict V)) (rows : List (List V))
    (hrows : xs.mapM (rowOf names) = some rows) (hlen : ∀ r ∈ rows, r.length = 0) :
    callMany names predict xs = xs.mapM (callOne names predict) := by
  have hhd : (rows.headD []).length = 0 := by
    cases rows with
    | nil => rfl
    | cons r rows => exact hlen r (List.mem_cons_self ..)
  rw [callMany_rowWise names predict g 0 c hrw xs rows hrows hlen hhd]
  exact (mapM_some_of_forall (rowOf names) (callOne names predict) (fun r => outDict ⟨[c], g r⟩)
    (fun r => r.length = 0) xs rows hrows hlen
    (fun x r hr hl => single_rowwise names predict g 0 c hrw x r hr hl)).symm

/-- non-vacuity of `RowWise`: the model "add one to every entry" computes rows independently, for every width -/
def predInc (a : Arr ℕ) : Arr ℕ := ⟨a.shape, a.data.map (· + 1)⟩

theorem predInc_rowWise (d : ℕ) : RowWise predInc (fun r => r.map (· + 1)) d d := by
  refine ⟨fun r hr => by simpa using hr, fun rows _ => ?_⟩
  simp [predInc, List.map_flatten]

/-- the hypotheses of `batch_equals_single` at `d = c = 2` (vector outputs) and `d = c = 1` (`'output'`) -/
example : ([[(0, 10), (1, 11)], [(1, 21), (0, 20)]] : List (FDict ℕ)).mapM (rowOf (some [1, 0])) =
      some [[11, 10], [21, 20]] ∧ (∀ r ∈ [[11, 10], [21, 20]], r.length = 2) ∧
    ([[(0, 10), (1, 11)], [(1, 21), (0, 20)]] : List (FDict ℕ)) ≠ [] := by decide

example : callMany (some [1, 0]) predInc ([[(0, 10), (1, 11)], [(1, 21), (0, 20)]] : List (FDict ℕ)) =
      some [[(Label.idx 0, 12), (Label.idx 1, 11)], [(Label.idx 0, 22), (Label.idx 1, 21)]] ∧
    ([[(0, 10), (1, 11)], [(1, 21), (0, 20)]] : List (FDict ℕ)).mapM (callOne (some [1, 0]) predInc) =
      some [[(Label.idx 0, 12), (Label.idx 1, 11)], [(Label.idx 0, 22), (Label.idx 1, 21)]] ∧
    callMany (some [1]) predInc ([[(0, 10), (1, 11)], [(1, 21), (0, 20)]] : List (FDict ℕ)) =
      some [[(Label.output, 12)], [(Label.output, 22)]] ∧
    ([[(0, 10), (1, 11)], [(1, 21), (0, 20)]] : List (FDict ℕ)).mapM (callOne (some [1]) predInc) =
      some [[(Label.output, 12)], [(Label.output, 22)]] := by decide

/-- why `xs ≠ []` is a hypothesis: this model is row-wise on rows of one feature, yet on the empty batch (array of
    shape `[0, 0]`) it returns one row, so the batch call returns one dict and the one-at-a-time calls none -/
def predOdd (a : Arr ℕ) : Arr ℕ := if a.shape = [0, 0] then ⟨[1, 1], [7]⟩ else ⟨[a.shape.headD 0, 1], a.data⟩

theorem empty_batch_needs_hypothesis :
    RowWise predOdd (fun r => r) 1 1 ∧
    callMany none predOdd [] = some [[(Label.output, 7)]] ∧
    ([] : List (FDict ℕ)).mapM (callOne none predOdd) = some [] := by
  refine ⟨⟨fun r hr => hr, fun rows _ => ?_⟩, by decide, by decide⟩
  simp [predOdd]

/-! ### river -/
section River
variable {K : Type} [OfNat K 0] [OfNat K 1]

/-- `predict_proba_one` dicts are passed through, the seen-labels are untouched -/
theorem river_passthrough (seen : List ℕ) (d : List (ℕ × K)) :
    extendDict seen (.dict d) = (.inl d, seen) := rfl

/-- a numeric prediction ↦ `{'output': v}` -/
theorem river_numeric (seen : List ℕ) (v : K) :
    extendDict seen (.num v) = (.inr [(Label.output, v)], seen) := rfl

/-- a string label: it joins the seen-labels if new (old ones are never dropped and keep their order); the output
    is the one-hot dict whose keys are exactly the new seen-list, with 1 at the label and 0 elsewhere -/
theorem river_one_hot (seen : List ℕ) (s : ℕ) :
    ∃ d : List (ℕ × K),
      (extendDict (K := K) seen (.label s)).1 = .inl d ∧
      (extendDict (K := K) seen (.label s)).2 = (if s ∈ seen then seen else seen ++ [s]) ∧
      d.map Prod.fst = (if s ∈ seen then seen else seen ++ [s]) ∧
      fget d s = some (1 : K) ∧
      (∀ l ∈ (if s ∈ seen then seen else seen ++ [s]), l ≠ s → fget d l = some (0 : K)) ∧
      (∀ l ∉ (if s ∈ seen then seen else seen ++ [s]), fget d l = none) := by
  rw [extendDict_label]
  refine ⟨_, rfl, rfl, ?_, ?_, ?_, ?_⟩
  · rw [List.map_map]; exact List.map_id _
  · rw [fget_map_keys]
    by_cases h : s ∈ seen <;> simp [h]
  · intro l hl hne
    rw [fget_map_keys, if_pos hl, if_neg hne]
  · intro l hl
    rw [fget_map_keys, if_neg hl]

/-- the seen-list stays duplicate-free, contains the label, and extends the old one (nothing dropped, order kept) -/
theorem river_seen_update (seen : List ℕ) (s : ℕ) (hnd : seen.Nodup) :
    (extendDict (K := K) seen (.label s)).2.Nodup ∧
    s ∈ (extendDict (K := K) seen (.label s)).2 ∧
    seen <+: (extendDict (K := K) seen (.label s)).2 ∧
    (∀ l, l ∈ (extendDict (K := K) seen (.label s)).2 ↔ l ∈ seen ∨ l = s) := by
  rw [extendDict_label]
  by_cases h : s ∈ seen
  · simp only [if_pos h]
    exact ⟨hnd, h, List.prefix_refl _, fun l => ⟨Or.inl, fun o => o.elim id (fun e => e ▸ h)⟩⟩
  · simp only [if_neg h]
    refine ⟨?_, by simp, List.prefix_append _ _, fun l => by simp⟩
    rw [List.nodup_append]
    refine ⟨hnd, by simp, ?_⟩
    intro a ha b hb
    rw [List.mem_singleton] at hb; subst hb
    exact fun e => h (e ▸ ha)

/-- a stream of string labels through the wrapper (`riverRun` = left fold of `extendDict` from no label seen):
    after the stream the seen-labels are the distinct labels in first-seen order, and the t-th output is the
    one-hot dict over the distinct labels of the first `t + 1` predictions in first-seen order -/
theorem river_stream (ss : List ℕ) :
    (riverRun (K := K) (ss.map RiverOut.label)).2 = ss.eraseDups ∧
    (riverRun (K := K) (ss.map RiverOut.label)).1.length = ss.length ∧
    ∀ t (ht : t < ss.length), ∃ d : List (ℕ × K),
      (riverRun (K := K) (ss.map RiverOut.label)).1[t]? = some (.inl d) ∧
      d.map Prod.fst = (ss.take (t + 1)).eraseDups ∧
      fget d ss[t] = some (1 : K) ∧
      ∀ l ∈ (ss.take (t + 1)).eraseDups, l ≠ ss[t] → fget d l = some (0 : K) := by
  rw [riverRun_labels]
  refine ⟨rfl, by simp, ?_⟩
  intro t ht
  have htake : ss.take (t + 1) = ss.take t ++ [ss[t]] := by
    rw [List.take_succ_eq_append_getElem ht]
  refine ⟨oneHot (ss.take t) ss[t], by simp [ht], ?_, ?_, ?_⟩
  · rw [htake]; unfold oneHot; rw [List.map_map]; exact List.map_id _
  · unfold oneHot
    rw [fget_map_keys, if_pos (List.mem_eraseDups.2 (List.mem_append_right _ (List.mem_singleton_self _))),
      if_pos rfl]
  · intro l hl hne
    rw [htake] at hl
    unfold oneHot; rw [fget_map_keys, if_pos hl, if_neg hne]

/-- mixed streams: the seen-labels after any stream of predictions are the distinct string labels among them, in
    first-seen order (dict and numeric predictions do not touch them) -/
theorem river_stream_seen (ys : List (RiverOut K)) :
    (riverRun ys).2 = (ys.filterMap labelOf).eraseDups := by
  have h := riverFold_seen ys [] []
  simpa [riverRun] using h

/-- what "distinct labels in first-seen order" (`List.eraseDups`) means: no duplicates, the same members, one more
    label is appended at the end iff it is new, and earlier seen-lists are prefixes of later ones -/
theorem first_seen_order (L : List ℕ) (s : ℕ) :
    L.eraseDups.Nodup ∧ (∀ l, l ∈ L.eraseDups ↔ l ∈ L) ∧
    (L ++ [s]).eraseDups = (if s ∈ L then L.eraseDups else L.eraseDups ++ [s]) ∧
    ∀ t, (L.take t).eraseDups <+: L.eraseDups := by
  refine ⟨nodup_eraseDups L, fun l => List.mem_eraseDups, ?_, ?_⟩
  · rw [eraseDups_snoc]; simp only [List.mem_eraseDups]
  · intro t
    conv => rhs; rw [← List.take_append_drop t L, List.eraseDups_append]
    exact List.prefix_append _ _

/-- labels 5, 3, 5, 8 arrive: the dicts grow {5:1}, {5:0, 3:1}, {5:1, 3:0}, {5:0, 3:0, 8:1} -/
example : riverRun (K := ℕ) [.label 5, .label 3, .label 5, .label 8] =
    ([.inl [(5, 1)], .inl [(5, 0), (3, 1)], .inl [(5, 1), (3, 0)], .inl [(5, 0), (3, 0), (8, 1)]], [5, 3, 8]) := by
  decide

example : riverRun (K := ℕ) [.label 5, .num 4, .dict [(0, 1), (1, 0)], .label 3] =
    ([.inl [(5, 1)], .inr [(Label.output, 4)], .inl [(0, 1), (1, 0)], .inl [(5, 0), (3, 1)]], [5, 3]) := by
  decide

example : extendDict (K := ℕ) [5, 3] (.label 3) = (.inl [(5, 0), (3, 1)], [5, 3]) ∧
    extendDict (K := ℕ) [5, 3] (.label 8) = (.inl [(5, 0), (3, 0), (8, 1)], [5, 3, 8]) := by decide

end River

/-! ### validate_model_function -/

theorem validate_table :
    validate .wrapper = .unchanged ∧
    validate .boundSklearn = .sklearn ∧
    validate .boundRiver = .river ∧
    validate .torchModule = .torch ∧
    validate .boundOther = .unchanged ∧
    validate .plain = .unchanged :=
  ⟨rfl, rfl, rfl, rfl, rfl, rfl⟩

/-- everything that is not a bound sklearn/river method or a torch module is returned unchanged -/
theorem validate_otherwise (o : Owner) (h1 : o ≠ .boundSklearn) (h2 : o ≠ .boundRiver) (h3 : o ≠ .torchModule) :
    validate o = .unchanged := by
  cases o <;> first | rfl | contradiction

/-- and conversely a wrapper is produced only in those three cases -/
theorem validate_wraps_iff (o : Owner) :
    (validate o = .sklearn ↔ o = .boundSklearn) ∧ (validate o = .river ↔ o = .boundRiver) ∧
    (validate o = .torch ↔ o = .torchModule) := by
  cases o <;> simp [validate]

end Ixai.C14
