/-
  Bridge between the GENERATED reservoir bookkeeping of TreeStorage (Gen/TreeStorageBookkeeping.lean: `_update_data_reservoirs` and
  `_delete_outdated_reservoirs` translated statement by statement from ixai/storage/tree_storage.py by tools/py2lean_eff.py, over the
  tree oracle: routed leaf id and the ids of all current leaves) and the hand-written `Tree.updateFeature` of Model/Tree.lean that the
  theorems of C19 are stated about.  This is the function in which the genuine defect repaired by `fix:` a088161 lived (the clean-up of
  vanished leaves ran only when the routed leaf was new): the generated code now shows the clean-up on every update, and a regression
  would change the generated definition.
-/
import IxaiVerif.Proofs.GenTree

namespace Ixai.GenTree
open Ixai Ixai.Tree Ixai.Gen

variable {K : Type} [Add K] [Sub K] [Mul K] [Div K] [NatCast K] [OfNat K 0] [OfNat K 1] [LE K] [DecidableLE K]
variable {P : Type}

/-- the clean-up loop (`for label in list(keys): if label not in all_leafs: del d[label]`) keeps exactly the reservoirs of current leaves -/
theorem delete_outdated_generated_eq_filter (allLeaves : List Nat) (rs : Reservoirs K P) :
    Gen.TreeStorage._delete_outdated_reservoirs allLeaves rs = rs.filter (fun e => allLeaves.contains e.1) := by
  exact delete_outdated_eq_filter allLeaves rs

/-- the generated `_update_data_reservoirs` IS the model's `updateFeature` (same reservoirs, same state of the draw source) -/
theorem update_reservoirs_generated_eq_model (L : Nat) (rs : Reservoirs K P) (leaf : Nat) (allLeaves : List Nat) (x : P) (rnd : Rnd K) :
    Gen.TreeStorage._update_data_reservoirs L leaf allLeaves x rs rnd = updateFeature L rs leaf allLeaves x rnd := by
  exact update_reservoirs_eq_model L rs leaf allLeaves x rnd

/-- hence C19's clause for the generated code: after the generated update every reservoir key is a current leaf -/
theorem generated_keys_are_leaves (L : Nat) (rs : Reservoirs K P) (leaf : Nat) (allLeaves : List Nat) (x : P) (rnd : Rnd K) :
    ∀ k ∈ (Gen.TreeStorage._update_data_reservoirs L leaf allLeaves x rs rnd).1.map Prod.fst, k ∈ allLeaves := by
  rw [update_reservoirs_generated_eq_model]
  exact updateFeature_keys_leaves L rs leaf allLeaves x rnd

end Ixai.GenTree
