/-
  C07 — what the storages hold.
  "For every storage and every update sequence the stored observations are a sub-multiset of those observed
  (each arrival at most once), their number is min(observations seen, capacity), and when targets are stored
  the i-th stored target is the one that arrived with the i-th stored instance (no targets are kept otherwise).
  BatchStorage holds the entire stream in arrival order, IntervalStorage exactly the last `size` observations in
  arrival order, and SequenceStorage exactly the last one."

  The theorems are about `Ixai.Gen.{Batch,Interval,Sequence,GeometricReservoir,UniformReservoir}Storage`, i.e.
  about the Lean text regenerated from `ixai/storage/*.py` on every run. The stream is `obs : List (X × Y)` for
  arbitrary `X Y`; `*.run` is the left fold of the generated `update` over `obs` from the generated `init`
  (for the reservoirs the fold threads the explicit random source `Rnd K`; `UniformReservoirStorage.init`
  consumes draws itself). `st` is `store_targets`.

  Reservoirs: the statements hold for *every* value of *every* draw — every `rnd.reals`, every `rnd.idxs` —,
  every `constant_probability`, every capacity, and for an uninterpreted `K` with just the raw operation
  instances the generated code takes (in particular an arbitrary `RealOps K`: nothing depends on what
  `exp`/`log`/`floor` return). Neither the range hypothesis `∀ i n, 0 < n → rnd.idxs i n < n`
  (Python's `randrange`) nor `1 ≤ size` is needed for them: the generated code writes with `List.set`, which
  leaves the list unchanged for an out-of-range slot, so the invariant is insensitive to the drawn slot.
  (`reservoir_inrange_example` below shows the range hypothesis is satisfiable by the example source.)
  IntervalStorage does need `1 ≤ size`: with `size = 0` the generated code keeps the last observation
  (`[].tail ++ [x] = [x]`), so `storage_x.length = min n 0` is false there; see `interval_size_zero`.
-/
import IxaiVerif.Proofs.Storage

set_option linter.unusedSectionVars false
namespace Ixai.C07
open Ixai Ixai.Gen

variable {X Y : Type}

/-! ### BatchStorage: the entire stream, in arrival order -/

theorem batch_exact (st : Bool) (obs : List (X × Y)) :
    (Batch.run st obs).storage_x = obs.map Prod.fst ∧
    (Batch.run st obs).storage_y = if st then obs.map Prod.snd else [] :=
  Batch.run_exact st obs

theorem batch_len (st : Bool) (obs : List (X × Y)) :
    (Batch.run st obs).storage_x.length = obs.length ∧
    (Batch.run st obs).storage_y.length = if st then obs.length else 0 := by
  rw [(batch_exact st obs).1, (batch_exact st obs).2]; cases st <;> simp

/-- with targets stored, instances and targets pair up to exactly the stream -/
theorem batch_aligned (obs : List (X × Y)) :
    (Batch.run true obs).storage_x.zip (Batch.run true obs).storage_y = obs := by
  rw [(batch_exact true obs).1, (batch_exact true obs).2]; exact Storage.zip_fst_snd obs

example : (Batch.run true [(1, 10), (2, 20), (3, 30), (4, 40)] : BatchStorage ℕ ℕ).storage_x = [1, 2, 3, 4] ∧
    (Batch.run true [(1, 10), (2, 20), (3, 30), (4, 40)] : BatchStorage ℕ ℕ).storage_y = [10, 20, 30, 40] ∧
    (Batch.run false [(1, 10), (2, 20), (3, 30), (4, 40)] : BatchStorage ℕ ℕ).storage_y = [] := by decide

/-! ### IntervalStorage: exactly the last `size` observations, in arrival order -/

theorem interval_exact (size : ℕ) (hsize : 1 ≤ size) (st : Bool) (obs : List (X × Y)) :
    (Interval.run size st obs).storage_x = (obs.map Prod.fst).drop (obs.length - size) ∧
    (Interval.run size st obs).storage_y = if st then (obs.map Prod.snd).drop (obs.length - size) else [] :=
  Interval.run_exact size hsize st obs

theorem interval_len (size : ℕ) (hsize : 1 ≤ size) (st : Bool) (obs : List (X × Y)) :
    (Interval.run size st obs).storage_x.length = min obs.length size ∧
    (Interval.run size st obs).storage_y.length = if st then min obs.length size else 0 := by
  rw [(interval_exact size hsize st obs).1, (interval_exact size hsize st obs).2]
  cases st <;> simp <;> omega

/-- with targets stored, instances and targets pair up to exactly the last `size` observations -/
theorem interval_aligned (size : ℕ) (hsize : 1 ≤ size) (obs : List (X × Y)) :
    (Interval.run size true obs).storage_x.zip (Interval.run size true obs).storage_y =
      obs.drop (obs.length - size) := by
  rw [(interval_exact size hsize true obs).1, (interval_exact size hsize true obs).2]
  simp only [if_true, ← List.map_drop]
  exact Storage.zip_fst_snd _

/-- sub-multiset form -/
theorem interval_subperm (size : ℕ) (hsize : 1 ≤ size) (st : Bool) (obs : List (X × Y)) :
    (Interval.run size st obs).storage_x.Subperm (obs.map Prod.fst) ∧
    (st = true → ((Interval.run size st obs).storage_x.zip (Interval.run size st obs).storage_y).Subperm obs) := by
  refine ⟨?_, ?_⟩
  · rw [(interval_exact size hsize st obs).1]; exact (List.drop_sublist _ _).subperm
  · rintro rfl; rw [interval_aligned size hsize obs]; exact (List.drop_sublist _ _).subperm

example : (Interval.run 2 true [(1, 10), (2, 20), (3, 30), (4, 40)] : IntervalStorage ℕ ℕ).storage_x = [3, 4] ∧
    (Interval.run 2 true [(1, 10), (2, 20), (3, 30), (4, 40)] : IntervalStorage ℕ ℕ).storage_y = [30, 40] ∧
    (Interval.run 2 false [(1, 10), (2, 20), (3, 30), (4, 40)] : IntervalStorage ℕ ℕ).storage_y = [] ∧
    (Interval.run 5 true [(1, 10), (2, 20), (3, 30), (4, 40)] : IntervalStorage ℕ ℕ).storage_x = [1, 2, 3, 4] := by
  decide

/-- why `1 ≤ size` is a hypothesis: a window of capacity 0 still keeps one observation in the generated code -/
theorem interval_size_zero : (Interval.run 0 true [(1, 10), (2, 20)] : IntervalStorage ℕ ℕ).storage_x = [2] := by
  decide

/-! ### SequenceStorage: exactly the last observation -/

theorem sequence_exact (st : Bool) (obs : List (X × Y)) :
    (Sequence.run st obs).storage_x = obs.getLast?.toList.map Prod.fst ∧
    (Sequence.run st obs).storage_y = if st then obs.getLast?.toList.map Prod.snd else [] := by
  obtain ⟨hx, hy⟩ := Sequence.run_exact st obs
  rw [hx, hy, ← List.map_drop, ← List.map_drop, Storage.drop_length_sub_one]
  exact ⟨rfl, rfl⟩

/-- the same, spelled out: after at least one arrival the store is that last arrival -/
theorem sequence_exact_snoc (st : Bool) (obs : List (X × Y)) (x : X) (y : Y) :
    (Sequence.run st (obs ++ [(x, y)])).storage_x = [x] ∧
    (Sequence.run st (obs ++ [(x, y)])).storage_y = if st then [y] else [] := by
  obtain ⟨hx, hy⟩ := sequence_exact st (obs ++ [(x, y)])
  rw [hx, hy]; simp

theorem sequence_len (st : Bool) (obs : List (X × Y)) :
    (Sequence.run st obs).storage_x.length = min obs.length 1 ∧
    (Sequence.run st obs).storage_y.length = if st then min obs.length 1 else 0 := by
  obtain ⟨hx, hy⟩ := Sequence.run_exact st obs
  rw [hx, hy]
  cases st <;> simp <;> omega

example : (Sequence.run true [(1, 10), (2, 20), (3, 30), (4, 40)] : SequenceStorage ℕ ℕ).storage_x = [4] ∧
    (Sequence.run true [(1, 10), (2, 20), (3, 30), (4, 40)] : SequenceStorage ℕ ℕ).storage_y = [40] ∧
    (Sequence.run false [(1, 10), (2, 20), (3, 30), (4, 40)] : SequenceStorage ℕ ℕ).storage_y = [] ∧
    (Sequence.run true ([] : List (ℕ × ℕ))).storage_x = [] := by
  decide

/-! ### GeometricReservoirStorage -/
section Geometric
variable {K : Type} [Add K] [Sub K] [Mul K] [Div K] [NatCast K] [OfNat K 0] [OfNat K 1] [LE K] [DecidableLE K]

/-- There is a list `idx` of pairwise distinct arrival positions such that the stored instances are the
    instances that arrived at those positions, the stored targets are the targets that arrived at *the same*
    positions (none if targets are not stored), and the fill level is `min(seen, capacity)`. -/
theorem geometric_storage_inv (size : ℕ) (cp : Option K) (st : Bool) (rnd : Rnd K) (obs : List (X × Y)) :
    ∃ idx : List (Fin obs.length), idx.Nodup ∧
      (Geometric.run size cp st rnd obs).1.storage_x = idx.map (fun i => obs[i].1) ∧
      (Geometric.run size cp st rnd obs).1.storage_y = (if st then idx.map (fun i => obs[i].2) else []) ∧
      (Geometric.run size cp st rnd obs).1.storage_x.length = min obs.length size := by
  obtain ⟨⟨idx, ht⟩, hl⟩ := Geometric.run_inv size cp st rnd obs
  obtain ⟨idx', hn, hx, hy⟩ := ht.toFin
  exact ⟨idx', hn, hx, hy, hl⟩

/-- multiset form: every arrival is stored at most once, and (instance, target) pairs are arrivals -/
theorem geometric_subperm (size : ℕ) (cp : Option K) (st : Bool) (rnd : Rnd K) (obs : List (X × Y)) :
    (Geometric.run size cp st rnd obs).1.storage_x.Subperm (obs.map Prod.fst) ∧
    (st = true → ((Geometric.run size cp st rnd obs).1.storage_x.zip
        (Geometric.run size cp st rnd obs).1.storage_y).Subperm obs) := by
  obtain ⟨idx, hn, hx, hy, _⟩ := geometric_storage_inv size cp st rnd obs
  refine ⟨?_, ?_⟩
  · rw [hx]; exact Storage.fin_idx_subperm_fst obs idx hn
  · rintro rfl
    rw [hx, hy, if_pos rfl, Storage.fin_idx_zip]; exact Storage.fin_idx_subperm obs idx hn

end Geometric

/-! ### UniformReservoirStorage -/
section Uniform
variable {K : Type} [Add K] [Sub K] [Mul K] [Div K] [NatCast K] [OfNat K 0] [OfNat K 1] [DecidableEq K]
  [RealOps K]

/-- as `geometric_storage_inv`; `RealOps K` is arbitrary -/
theorem uniform_storage_inv (size : ℕ) (st : Bool) (rnd : Rnd K) (obs : List (X × Y)) :
    ∃ idx : List (Fin obs.length), idx.Nodup ∧
      (Uniform.run size st rnd obs).1.storage_x = idx.map (fun i => obs[i].1) ∧
      (Uniform.run size st rnd obs).1.storage_y = (if st then idx.map (fun i => obs[i].2) else []) ∧
      (Uniform.run size st rnd obs).1.storage_x.length = min obs.length size := by
  obtain ⟨⟨idx, ht⟩, hl⟩ := Uniform.run_inv size st rnd obs
  obtain ⟨idx', hn, hx, hy⟩ := ht.toFin
  exact ⟨idx', hn, hx, hy, hl⟩

theorem uniform_subperm (size : ℕ) (st : Bool) (rnd : Rnd K) (obs : List (X × Y)) :
    (Uniform.run size st rnd obs).1.storage_x.Subperm (obs.map Prod.fst) ∧
    (st = true → ((Uniform.run size st rnd obs).1.storage_x.zip
        (Uniform.run size st rnd obs).1.storage_y).Subperm obs) := by
  obtain ⟨idx, hn, hx, hy, _⟩ := uniform_storage_inv size st rnd obs
  refine ⟨?_, ?_⟩
  · rw [hx]; exact Storage.fin_idx_subperm_fst obs idx hn
  · rintro rfl
    rw [hx, hy, if_pos rfl, Storage.fin_idx_zip]; exact Storage.fin_idx_subperm obs idx hn

/-- the arrival counter counts arrivals -/
theorem uniform_stored_samples (size : ℕ) (st : Bool) (rnd : Rnd K) (obs : List (X × Y)) :
    (Uniform.run size st rnd obs).1.stored_samples = obs.length :=
  (Uniform.run_size_st size st rnd obs).2.2

end Uniform

/-! non-vacuity: concrete runs of the generated reservoirs at `K := ℕ`, capacity 2, four arrivals -/
section Examples

/-- an example random source: the reals are `5, 0, 0, …` resp. `0, 1, 0, 0, …`, slot draws are `(i+1) mod n` -/
def rndG : Rnd ℕ := { reals := fun i => if i = 0 then 5 else 0, idxs := fun i n => (i + 1) % n }
def rndU : Rnd ℕ := { reals := fun i => if i = 1 then 1 else 0, idxs := fun i n => (i + 1) % n }

/-- the range hypothesis of Python's `randrange` is satisfiable (and satisfied by the example sources) -/
theorem reservoir_inrange_example : (∀ i n, 0 < n → rndG.idxs i n < n) ∧ (∀ i n, 0 < n → rndU.idxs i n < n) :=
  ⟨fun _ _ h => Nat.mod_lt _ h, fun _ _ h => Nat.mod_lt _ h⟩

def obs4 : List (ℕ × ℕ) := [(1, 10), (2, 20), (3, 30), (4, 40)]

/-- `constant_probability = 1`: arrival 3 draws 5 > 1 and is skipped, arrival 4 draws 0 ≤ 1 and replaces slot 1 -/
example : (Geometric.run 2 (some 1) true rndG obs4).1.storage_x = [1, 4] ∧
    (Geometric.run 2 (some 1) true rndG obs4).1.storage_y = [10, 40] ∧
    (Geometric.run 2 (some 1) false rndG obs4).1.storage_y = [] := by decide

instance : RealOps ℕ := ⟨id, id, id, id⟩

/-- the skip counter is 4 after `init`: arrival 3 is skipped, arrival 4 replaces slot 1 -/
example : (Uniform.run 2 true rndU obs4).1.storage_x = [1, 4] ∧
    (Uniform.run 2 true rndU obs4).1.storage_y = [10, 40] ∧
    (Uniform.run 2 false rndU obs4).1.storage_y = [] := by decide

/-- the witness positions of `*_storage_inv` for these runs are `[0, 3]` -/
example : (Geometric.run 2 (some 1) true rndG obs4).1.storage_x = ([0, 3] : List (Fin 4)).map (fun i => obs4[i].1) ∧
    (Uniform.run 2 true rndU obs4).1.storage_y = ([0, 3] : List (Fin 4)).map (fun i => obs4[i].2) := by decide

end Examples

end Ixai.C07
