/-
  Bridge between the GENERATED `RiverMetricToLossFunction.__call__` (Gen/RiverLossAdapter.lean, translated statement by statement from
  ixai/utils/wrappers/river.py by tools/py2lean_eff.py, once per value of the configuration flag `dict_input_metric`) and the hand-written
  `Metric.lossCall` of Model/RiverLoss.lean that the theorems of C13 are stated about.  `self._sign` is `-1.` for a bigger-is-better metric
  and `1.` otherwise (set in `__init__`), so `loss_i * self._sign` is the model's `sign`.
-/
import IxaiVerif.Gen.RiverLossAdapter
import IxaiVerif.Props.C13

namespace Ixai.GenRiverLoss
open Ixai

variable {K : Type} [Field K] {σ Y : Type}

/-- the sign attribute the constructor sets -/
def signOf (m : Metric σ A K) : K := if m.biggerIsBetter then -1 else 1

/-- single-value metrics: the generated call IS the model's `lossCall` on `(y_true, y_prediction.get('output', 0))` -/
theorem call_single_generated_eq_model (m : Metric σ (Y × K) K) (st : σ) (y : Y) (pred : Dict K) :
    Gen.RiverMetricToLossFunction.call_single m (signOf m) st y pred = m.lossCall st (y, singleValueArg pred) := by
  unfold Gen.RiverMetricToLossFunction.call_single Metric.lossCall Metric.sign signOf
  cases m.biggerIsBetter <;> simp [Id.run, pure]

/-- dict-input metrics: the generated call IS the model's `lossCall` on `(y_true, y_prediction)` -/
theorem call_dict_generated_eq_model (m : Metric σ (Y × Dict K) K) (st : σ) (y : Y) (pred : Dict K) :
    Gen.RiverMetricToLossFunction.call_dict m (signOf m) st y pred = m.lossCall st (y, pred) := by
  unfold Gen.RiverMetricToLossFunction.call_dict Metric.lossCall Metric.sign signOf
  cases m.biggerIsBetter <;> simp [Id.run, pure]

/-- C13 for the generated code: for a metric whose `revert` undoes `update` from the fresh state, the generated call leaves the shared
    metric object fresh (so any number of calls, by any number of adapters, are independent of each other) -/
theorem generated_call_leaves_fresh (m : Metric σ (Y × K) K) (h : Metric.RevertUndoesUpdateFromFresh m) (y : Y) (pred : Dict K) :
    (Gen.RiverMetricToLossFunction.call_single m (signOf m) m.fresh y pred).2 = m.fresh := by
  rw [call_single_generated_eq_model]
  rw [C13.loss_call_fresh m h (y, singleValueArg pred)]

end Ixai.GenRiverLoss
