/-
  Property theorems restated for the GENERATED explainers (Gen/IncrementalPFI.lean, Gen/IncrementalSage.lean — `explain_one`
  translated statement by statement from the Python source on every run), obtained by rewriting with the bridge theorems of
  Props/GenBridge.lean: these are statements about what the code says now, not about the hand-written model.
-/
import IxaiVerif.Props.GenBridge
import IxaiVerif.Props.C17
import IxaiVerif.Props.E2E
import IxaiVerif.Props.E2Eb

namespace Ixai.GenCorollaries
open Ixai Ixai.GenBridge

variable {K : Type} [Field K] [CharZero K] [DecidableEq K] [RealOps K]
variable {V Y : Type}

/-- C17 for the generated PFI `explain_one`: a failing call leaves estimates and `seen` untouched -/
theorem generated_pfi_failure_atomic (O : Oracles K V Y) (names : List Nat) (hnd : names.Nodup) (nDefault : Nat)
    (imputeM : List Nat → Nat → M K (List (Dict K))) (himp : ∀ S n, Frame (imputeM S n)) (x : Inst V) (y : Y)
    (n? : Option Nat) (upd : Bool) (w : World K) (e : Err)
    (h : (Gen.IncrementalPFI.explain_one O names nDefault imputeM x y n? upd w).1 = .error e) :
    (Gen.IncrementalPFI.explain_one O names nDefault imputeM x y n? upd w).2.est = w.est ∧
    (Gen.IncrementalPFI.explain_one O names nDefault imputeM x y n? upd w).2.seen = w.seen := by
  rw [pfi_generated_eq_model O names hnd] at h ⊢
  exact C17.pfi_failure_atomic O names imputeM himp x y _ upd w e h

/-- C17 for the generated SAGE `explain_one` -/
theorem generated_sage_failure_atomic (O : Oracles K V Y) (names : List Nat) (hnd : names.Nodup) (nDefault : Nat)
    (permutation : Nat → List Nat) (hperm : (permChain names permutation).Nodup)
    (imputeM : List Nat → Nat → M K (List (Dict K))) (himp : ∀ S n, Frame (imputeM S n)) (x : Inst V) (y : Y)
    (n? : Option Nat) (upd : Bool) (w : World K) (e : Err)
    (h : (Gen.IncrementalSage.explain_one O names nDefault permutation imputeM x y n? upd w).1 = .error e) :
    (Gen.IncrementalSage.explain_one O names nDefault permutation imputeM x y n? upd w).2.est = w.est ∧
    (Gen.IncrementalSage.explain_one O names nDefault permutation imputeM x y n? upd w).2.seen = w.seen := by
  rw [sage_generated_eq_model O names hnd nDefault permutation hperm] at h ⊢
  exact C17.sage_failure_atomic O names imputeM himp x y _ _ upd w e h

/-- a stream of generated SAGE calls (each with its own imputer behaviour, observation, permutation draw and flag) -/
def genSageCalls (O : Oracles K V Y) (names : List Nat) (n : Nat)
    (obs : List ((List Nat → Nat → M K (List (Dict K))) × Inst V × Y × (Nat → List Nat) × Bool)) : List (M K (Dict K)) :=
  obs.map (fun o => Gen.IncrementalSage.explain_one O names n o.2.2.2.1 o.1 o.2.1 o.2.2.1 none o.2.2.2.2)

/-- the generated stream IS the model stream on the permutation chains -/
theorem genSageCalls_eq (O : Oracles K V Y) (names : List Nat) (hnd : names.Nodup) (n : Nat)
    (obs : List ((List Nat → Nat → M K (List (Dict K))) × Inst V × Y × (Nat → List Nat) × Bool))
    (hperm : ∀ o ∈ obs, (permChain names o.2.2.2.1).Nodup) :
    genSageCalls O names n obs =
      E2E.sageCalls O names n (obs.map (fun o => (o.1, o.2.1, o.2.2.1, permChain names o.2.2.2.1, o.2.2.2.2))) := by
  unfold genSageCalls E2E.sageCalls
  rw [List.map_map]
  apply List.map_congr_left
  intro o ho
  simp only [Function.comp]
  rw [sage_generated_eq_model O names hnd n o.2.2.2.1 (hperm o ho)]
  rfl

/-- C01 end to end for the GENERATED code: from the initial estimates, after any stream of generated `explain_one` calls with all
    failures caught, the importance values sum to the explained loss -/
theorem generated_sage_efficiency_with_failures (alpha : Option K) (names : List Nat) (hne : names ≠ []) (hn : names.Nodup)
    (model : Inst V → Dict K) (loss : Y → Dict K → K) (O : Oracles K V Y) (hO : E2E.OAnswers O model loss) (n : Nat)
    (obs : List ((List Nat → Nat → M K (List (Dict K))) × Inst V × Y × (Nat → List Nat) × Bool))
    (hobs : ∀ o ∈ obs, E2E.SageCallOk names model n (o.1, o.2.1, o.2.2.1, permChain names o.2.2.2.1, o.2.2.2.2))
    (hperm : ∀ o ∈ obs, (permChain names o.2.2.2.1).Nodup)
    (w0 : World K) (h0 : w0.est = Est.init alpha) (lbb : Bool) :
    (names.map (fun f => (C17.runCatching (genSageCalls O names n obs) w0).est.importance.getKey f)).sum =
      (C17.runCatching (genSageCalls O names n obs) w0).est.explainedLoss lbb := by
  rw [genSageCalls_eq O names hn n obs hperm]
  apply E2E.sage_efficiency_with_failures_explained alpha names hne hn model loss O hO n _ _ w0 h0 lbb
  intro o ho
  obtain ⟨o', ho', rfl⟩ := List.mem_map.mp ho
  exact hobs o' ho'

/-- a stream of generated PFI calls -/
def genPfiCalls (O : Oracles K V Y) (names : List Nat) (n : Nat) (obs : List (E2E.PfiCall K V Y)) : List (M K (Dict K)) :=
  obs.map (fun o => Gen.IncrementalPFI.explain_one O names n o.1 o.2.1 o.2.2.1 none o.2.2.2)

theorem genPfiCalls_eq (O : Oracles K V Y) (names : List Nat) (hnd : names.Nodup) (n : Nat) (obs : List (E2E.PfiCall K V Y)) :
    genPfiCalls O names n obs = E2E.pfiCalls O names n obs := by
  unfold genPfiCalls E2E.pfiCalls
  apply List.map_congr_left
  intro o _
  rw [pfi_generated_eq_model O names hnd]
  rfl

/-- C02 end to end for the GENERATED code: after any stream of generated PFI `explain_one` calls with caught failures the importance
    of every explained feature is the running statistic of (mean imputed loss − original loss) over the successful calls but the
    first, and the variance the running statistic of the squared deviations -/
theorem generated_pfi_spec_with_failures (alpha : Option K) (names : List Nat) (hn : names.Nodup)
    (model : Inst V → Dict K) (loss : Y → Dict K → K) (O : Oracles K V Y) (hO : E2E.OAnswers O model loss)
    (imp0 : List Nat → List (Dict K)) (n : Nat) (obs : List (E2E.PfiCall K V Y))
    (hobs : ∀ o ∈ obs, ∀ S n, Frame (o.1 S n))
    (w0 : World K) (h0 : w0.est = Est.init alpha) (hs0 : w0.seen = 0) :
    ∃ steps : List (PfiObs K V Y), E2Eb.PfiTrace O names n imp0 obs w0 steps ∧
      ∀ f ∈ names,
        (C17.runCatching (genPfiCalls O names n obs) w0).est.importance.getKey f =
          ((steps.tail.map (pfiContrib model loss f)).foldl Tr.update (Tr.init alpha)).get ∧
        (C17.runCatching (genPfiCalls O names n obs) w0).est.variance.getKey f =
          ((devSeries (Tr.init alpha) (steps.tail.map (pfiContrib model loss f))).foldl Tr.update (Tr.init alpha)).get := by
  rw [genPfiCalls_eq O names hn n obs]
  obtain ⟨steps, htr, h⟩ := E2Eb.pfi_spec_with_failures alpha names hn model loss O hO imp0 n obs hobs w0 h0 hs0
  exact ⟨steps, htr, fun f hf => ⟨(h f hf).1, (h f hf).2.1⟩⟩

end Ixai.GenCorollaries
