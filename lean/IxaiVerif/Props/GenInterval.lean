/-
  Bridge for the GENERATED `IntervalSage.explain_one` (Gen/IntervalSage.lean, translated statement by statement from
  ixai/explainer/sage/interval.py by tools/py2lean_eff.py; the explainer's own state is the record `IntervalState`, its storage the
  GENERATED IntervalStorage kernel, the recomputation the GENERATED `BatchSage.explain_many`) to the pure `intervalStep` of
  Model/Explainer.lean that the schedule theorems of C05 (`interval_schedule`, `interval_state`) are stated about.
-/
import IxaiVerif.Proofs.GenInterval

namespace Ixai.GenInterval
open Ixai Ixai.GenBatch

variable {K : Type} [Add K] [Sub K] [Mul K] [Div K] [NatCast K] [OfNat K 0] [OfNat K 1] [RealOps K] [DecidableEq K]
variable {V Y : Type}

/-- the state after the storage update and the call count, before any recomputation -/
def advance (st : IntervalState K V Y) (x : Inst V) (y : Y) (upd : Bool) : IntervalState K V Y :=
  { st with storage := (if upd then st.storage.update x y else st.storage), seen := st.seen + 1 }

/-- a call that is not due (not forced, ordinal not a multiple of `interval_length`) returns the previous values and touches nothing
    else: no callback is invoked — the world (invocation counter, event log, estimates) is exactly what it was -/
theorem not_due_generated (O : Oracles K V Y) (names : List Nat) (nDefault L : Nat) (permutation : Nat → Nat → List Nat)
    (imputeMx : Inst V → List Nat → Nat → M K (List (Dict K))) (st : IntervalState K V Y) (x : Inst V) (y : Y) (n? : Option Nat)
    (upd verbose : Bool) (hdue : (st.seen + 1) % L ≠ 0) (w : World K) :
    Gen.IntervalSage.explain_one O names nDefault L permutation imputeMx st x y n? upd false verbose w
      = (.ok (st.values, advance st x y upd), w) := by
  exact not_due_generated' O names nDefault L permutation imputeMx st x y n? upd verbose hdue w

/-- a call that is due (forced, or ordinal a multiple of `interval_length`) runs the generated `explain_many` on exactly what the
    storage holds after the update and installs its result -/
theorem due_generated (O : Oracles K V Y) (names : List Nat) (nDefault L : Nat) (permutation : Nat → Nat → List Nat)
    (imputeMx : Inst V → List Nat → Nat → M K (List (Dict K))) (st : IntervalState K V Y) (x : Inst V) (y : Y) (n? : Option Nat)
    (upd force verbose : Bool) (hdue : force = true ∨ (st.seen + 1) % L = 0) :
    Gen.IntervalSage.explain_one O names nDefault L permutation imputeMx st x y n? upd force verbose
      = M.bind (Gen.BatchSage.explain_many O names nDefault permutation imputeMx (advance st x y upd).storage.storage_x
                 (advance st x y upd).storage.storage_y n? verbose)
          (fun d => M.pure (d, { advance st x y upd with values := d })) := by
  exact due_generated' O names nDefault L permutation imputeMx st x y n? upd force verbose hdue

/-- with purely answering callbacks a successful generated call IS a step of the pure `intervalStep` (for the orders drawn and the
    imputer behaviours observed), and it returns the values of the new state -/
theorem generated_ok_pure (O : Oracles K V Y) (model : Inst V → Dict K) (loss : Y → Dict K → K) (hO : E2E.OAnswers O model loss)
    (names : List Nat) (hnd : names.Nodup) (nDefault L : Nat) (permutation : Nat → Nat → List Nat) (hperm : PermOk names permutation)
    (hfull : ∀ c, (permChainAt names permutation c).length = names.length)
    (imputeMx : Inst V → List Nat → Nat → M K (List (Dict K))) (himp : ∀ x S n, Frame (imputeMx x S n))
    (st : IntervalState K V Y) (x : Inst V) (y : Y) (n? : Option Nat) (upd force verbose : Bool)
    (hlen : (advance st x y upd).storage.storage_x.length = (advance st x y upd).storage.storage_y.length)
    (hne : (advance st x y upd).storage.storage_x ≠ [])
    (w : World K) (d : Dict K) (st' : IntervalState K V Y)
    (h : (Gen.IntervalSage.explain_one O names nDefault L permutation imputeMx st x y n? upd force verbose w).1 = .ok (d, st')) :
    ∃ (perms : List (List Nat)) (imps : List (List Nat → List (Dict K))),
      st' = (intervalStep names model loss L st x y upd force perms imps).1 ∧ d = st'.values ∧
      ((intervalStep names model loss L st x y upd force perms imps).2 = true ↔ (force = true ∨ (st.seen + 1) % L = 0)) := by
  exact generated_ok_pure' O model loss hO names hnd nDefault L permutation hperm hfull imputeMx himp st x y n? upd force verbose
    hlen hne w d st' h

end Ixai.GenInterval
