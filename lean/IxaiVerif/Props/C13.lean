/-
  C13 — "A river metric turned into a loss is a pure function of its arguments: any number of calls in any order,
  by any number of explainers sharing the metric object, returns for each (y_true, y_pred) the value a fresh metric
  reports after that single pair, negated when the metric is bigger-is-better so that smaller always means better,
  and leaves the metric's own reported value unchanged."
  The theorems are about `Ixai.Metric.lossCall/lossCalls/probe` (`Model/RiverLoss.lean`, the model of
  `RiverMetricToLossFunction.__call__` and of the validator's probe) for an abstract metric `m` with state `σ`.
  The only assumption on the metric is river's contract `RevertUndoesUpdateFromFresh m`; it is proved for the
  concrete running-mean metric `meanMetric`, so the theorems are not vacuous.
-/
import IxaiVerif.Proofs.RiverLoss
import Mathlib.Algebra.Order.Field.Basic
import Mathlib.Tactic.NormNum
import Mathlib.Data.Rat.Defs

set_option linter.unusedSectionVars false
namespace Ixai.C13
open Ixai Ixai.Metric

section Abstract
variable {σ A K : Type} [Neg K]

/-- one call on a fresh metric: the value a fresh metric reports after that single pair (sign-adjusted), and the
    metric is fresh again -/
theorem loss_call_fresh (m : Metric σ A K) (h : RevertUndoesUpdateFromFresh m) (a : A) :
    m.lossCall m.fresh a = (m.sign (m.get (m.update m.fresh a)), m.fresh) :=
  lossCall_at m m.fresh h a

/-- any number of calls, in any order, by any number of adapters sharing the metric object: each call returns what
    a fresh metric reports after that single pair, with the sign flipped iff bigger-is-better, and the shared
    metric is fresh again afterwards -/
theorem loss_pure (m : Metric σ A K) (h : RevertUndoesUpdateFromFresh m) (as : List A) :
    m.lossCalls m.fresh as = (as.map (fun a => m.sign (m.get (m.update m.fresh a))), m.fresh) :=
  lossCalls_at m m.fresh h as

/-- … in particular the value of a call does not depend on the calls made before it, nor on their order -/
theorem loss_independent_of_history (m : Metric σ A K) (h : RevertUndoesUpdateFromFresh m) (before : List A) (a : A) :
    m.lossCall (m.lossCalls m.fresh before).2 a = m.lossCall m.fresh a := by
  rw [loss_pure m h before]

/-- … and the metric's own reported value is unchanged -/
theorem loss_leaves_metric_value (m : Metric σ A K) (h : RevertUndoesUpdateFromFresh m) (as : List A) :
    m.get (m.lossCalls m.fresh as).2 = m.get m.fresh := by
  rw [loss_pure m h as]

/-- the same for a shared metric object that is not fresh but in a state `st` at which `revert` undoes `update`:
    the state (hence the reported value) is unchanged, each call returns what the metric reports after adding that
    single pair to `st` -/
theorem loss_pure_at (m : Metric σ A K) (st : σ) (h : RevertUndoesUpdateAt m st) (as : List A) :
    m.lossCalls st as = (as.map (fun a => m.sign (m.get (m.update st a))), st) :=
  lossCalls_at m st h as

/-- the validator's probe leaves a fresh metric fresh -/
theorem probe_leaves_fresh (m : Metric σ A K) (h : RevertUndoesUpdateFromFresh m) (p q : A) :
    m.probe m.fresh p q = m.fresh := by
  simp only [probe, h p, loss_call_fresh m h q]

end Abstract

section Ordered
variable {σ A K : Type} [Field K] [LinearOrder K] [IsStrictOrderedRing K]

/-- bigger-is-better metrics are negated, so that a smaller loss always means a better value … -/
theorem sign_smaller_is_better (m : Metric σ A K) (hb : m.biggerIsBetter = true) (s₁ s₂ : σ)
    (h : m.get s₂ ≤ m.get s₁) : m.sign (m.get s₁) ≤ m.sign (m.get s₂) := by
  simp only [Metric.sign, hb, if_true]; exact neg_le_neg h

/-- … and smaller-is-better metrics are passed through -/
theorem sign_of_smaller_is_better (m : Metric σ A K) (hb : m.biggerIsBetter = false) (v : K) :
    m.sign v = v := by
  simp [Metric.sign, hb]

theorem sign_of_bigger_is_better (m : Metric σ A K) (hb : m.biggerIsBetter = true) (v : K) :
    m.sign v = -v := by
  simp [Metric.sign, hb]

end Ordered

/-! ### the running-mean metric satisfies the contract -/
section MeanMetric
variable {A K : Type} [Field K]

/-- `revert` undoes `update` from the fresh state (any field) -/
theorem meanMetric_revert (g : A → K) (bib : Bool) : RevertUndoesUpdateFromFresh (meanMetric g bib) := by
  intro a
  rw [meanMetric_update_fresh]
  simp [meanMetric]

/-- … and, in characteristic 0, from every state that has seen at least one pair -/
theorem meanMetric_revert_at [CharZero K] (g : A → K) (bib : Bool) (n : Nat) (μ : K) (hn : 1 ≤ n) :
    RevertUndoesUpdateAt (meanMetric g bib) (n, μ) :=
  fun a => meanMetric_revert_update g bib n μ hn a

/-- so the adapter over a running mean of per-pair scores returns the per-pair score itself (negated iff
    bigger-is-better) -/
theorem meanMetric_loss (g : A → K) (bib : Bool) (as : List A) :
    (meanMetric g bib).lossCalls (meanMetric g bib).fresh as =
      (as.map (fun a => if bib then - g a else g a), (0, 0)) := by
  rw [loss_pure _ (meanMetric_revert g bib)]
  congr 1
  apply List.map_congr_left
  intro a _
  rw [meanMetric_update_fresh]; rfl

end MeanMetric

/-! ### non-vacuity: squared error at `K := ℚ` -/
section Examples
def sqErr (p : ℚ × ℚ) : ℚ := (p.1 - p.2) * (p.1 - p.2)

example : (meanMetric sqErr false).lossCalls (0, 0) [(1, 3), (2, 2), (0, 1), (1, 3)] = ([4, 0, 1, 4], (0, 0)) := by
  have := meanMetric_loss sqErr false [(1, 3), (2, 2), (0, 1), (1, 3)]
  norm_num [sqErr] at this
  exact this
example : (meanMetric sqErr true).lossCalls (0, 0) [(1, 3), (0, 1)] = ([-4, -1], (0, 0)) := by
  have := meanMetric_loss sqErr true [(1, 3), (0, 1)]
  norm_num [sqErr] at this
  exact this
/-- directly on the model, without the theorem -/
example : (meanMetric sqErr false).lossCalls (0, 0) [(1, 3), (0, 1)] = ([4, 1], (0, 0)) := by
  norm_num [Metric.lossCalls, Metric.lossCall, Metric.sign, meanMetric, sqErr]
/-- a metric with history (2 pairs seen, mean 5): the state is restored -/
example : ((meanMetric sqErr false).lossCalls (2, 5) [(1, 3), (0, 1)]).2 = (2, 5) := by
  rw [loss_pure_at _ _ (meanMetric_revert_at sqErr false 2 5 (by norm_num))]
example : (meanMetric sqErr false).probe (0, 0) (7, 7) (1, 3) = (0, 0) :=
  probe_leaves_fresh _ (meanMetric_revert sqErr false) _ _
end Examples

end Ixai.C13
