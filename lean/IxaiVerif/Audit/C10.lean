import IxaiVerif.Props.C10
open Ixai.C10
#print axioms welford_N
#print axioms es_N
#print axioms welford_mean
#print axioms welford_sum_squares
#print axioms welford_var
#print axioms welford_var_empty
#print axioms welford_std_def
#print axioms es_closed
#print axioms es_alpha_one
#print axioms welford_linear
#print axioms es_linear
#print axioms welford_between_min_max
#print axioms welford_var_nonneg
#print axioms welford_std
#print axioms es_in_hull_zero_inputs
