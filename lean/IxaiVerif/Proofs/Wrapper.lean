/-
  Helper lemmas for C14 (model wrappers): `Option`-`mapM` on lists, `fget` under permutation, the canonical output
  dict `outDict`, blocks of a flattened list of equal-length rows, and the river one-hot stream.
-/
import IxaiVerif.Model.Wrapper
import Mathlib.Data.List.Basic
import Mathlib.Data.List.Perm.Basic
import Mathlib.Data.List.Induction

namespace Ixai.Wrapper

variable {V W : Type}

/-! ### `List.mapM` in the `Option` monad -/
section MapM
variable {α β γ : Type}

theorem mapM_cons_opt (f : α → Option β) (a : α) (l : List α) :
    (a :: l).mapM f = (f a).bind (fun b => (l.mapM f).map (fun bs => b :: bs)) := by
  rw [List.mapM_cons]
  cases f a <;> cases l.mapM f <;> rfl

/-- the successful result has the input's length and its i-th entry is `f` of the i-th input -/
theorem mapM_some_spec (f : α → Option β) :
    ∀ (l : List α) (r : List β), l.mapM f = some r →
      r.length = l.length ∧ ∀ i (h : i < l.length) (h' : i < r.length), f l[i] = some r[i]
  | [], r, h => by
    simp at h; subst h; exact ⟨rfl, fun i h => absurd h (Nat.not_lt_zero i)⟩
  | a :: l, r, h => by
    rw [mapM_cons_opt] at h
    cases hfa : f a with
    | none => rw [hfa] at h; simp at h
    | some b =>
      cases hl : l.mapM f with
      | none => rw [hfa, hl] at h; simp at h
      | some bs =>
        rw [hfa, hl] at h; simp at h; subst h
        obtain ⟨h1, h2⟩ := mapM_some_spec f l bs hl
        refine ⟨by simp [h1], ?_⟩
        intro i hi hi'
        cases i with
        | zero => simpa using hfa
        | succ i => simpa using h2 i (by simpa using hi) (by simpa using hi')

theorem mapM_none_of_mem (f : α → Option β) :
    ∀ (l : List α) (a : α), a ∈ l → f a = none → l.mapM f = none
  | b :: l, a, hm, hn => by
    rw [mapM_cons_opt]
    rcases List.mem_cons.1 hm with rfl | hm
    · rw [hn]; rfl
    · rw [mapM_none_of_mem f l a hm hn]; cases f b <;> rfl

theorem mapM_congr_mem (f g : α → Option β) :
    ∀ (l : List α), (∀ a ∈ l, f a = g a) → l.mapM f = l.mapM g
  | [], _ => by simp
  | a :: l, h => by
    rw [mapM_cons_opt, mapM_cons_opt, h a (List.mem_cons_self ..),
      mapM_congr_mem f g l (fun b hb => h b (List.mem_cons_of_mem _ hb))]

/-- post-composition: if `h = (f ·).map k` on the entries then `mapM h` is `(mapM f).map (map k)` -/
theorem mapM_map_of_some (f : α → Option β) (h : α → Option γ) (k : β → γ) :
    ∀ (l : List α) (r : List β), l.mapM f = some r → (∀ a ∈ l, h a = (f a).map k) →
      l.mapM h = some (r.map k)
  | [], r, hr, _ => by simp at hr; subst hr; simp
  | a :: l, r, hr, hh => by
    rw [mapM_cons_opt] at hr
    rw [mapM_cons_opt, hh a (List.mem_cons_self ..)]
    cases hfa : f a with
    | none => rw [hfa] at hr; simp at hr
    | some b =>
      cases hl : l.mapM f with
      | none => rw [hfa, hl] at hr; simp at hr
      | some bs =>
        rw [hfa, hl] at hr; simp at hr; subst hr
        rw [mapM_map_of_some f h k l bs hl (fun b hb => hh b (List.mem_cons_of_mem _ hb))]
        rfl

/-- relaxed version of the above where the relation between `f` and `h` only has to hold entry by entry -/
theorem mapM_some_of_forall (f : α → Option β) (h : α → Option γ) (k : β → γ) (P : β → Prop) :
    ∀ (l : List α) (r : List β), l.mapM f = some r → (∀ b ∈ r, P b) →
      (∀ a b, f a = some b → P b → h a = some (k b)) → l.mapM h = some (r.map k)
  | [], r, hr, _, _ => by simp at hr; subst hr; simp
  | a :: l, r, hr, hP, hh => by
    rw [mapM_cons_opt] at hr
    rw [mapM_cons_opt]
    cases hfa : f a with
    | none => rw [hfa] at hr; simp at hr
    | some b =>
      cases hl : l.mapM f with
      | none => rw [hfa, hl] at hr; simp at hr
      | some bs =>
        rw [hfa, hl] at hr; simp at hr; subst hr
        rw [hh a b hfa (hP b (List.mem_cons_self ..)),
          mapM_some_of_forall f h k P l bs hl (fun b hb => hP b (List.mem_cons_of_mem _ hb)) hh]
        rfl

end MapM

/-! ### `fget` and `rowOf` -/

theorem fget_nil (f : Nat) : fget ([] : FDict V) f = none := rfl

theorem fget_cons (kv : Nat × V) (x : FDict V) (f : Nat) :
    fget (kv :: x) f = if kv.1 = f then some kv.2 else fget x f := by
  unfold fget
  by_cases h : kv.1 = f
  · simp [h]
  · have hb : (kv.1 == f) = false := by simpa using h
    simp [hb, h]

theorem fget_eq_none_of_not_mem (x : FDict V) (f : Nat) (h : f ∉ x.map Prod.fst) : fget x f = none := by
  induction x with
  | nil => rfl
  | cons kv x ih =>
    simp only [List.map_cons, List.mem_cons, not_or] at h
    rw [fget_cons, if_neg (fun e => h.1 e.symm), ih h.2]

/-- a Python dict has distinct keys; then lookup does not depend on the insertion order -/
theorem fget_perm {x x' : FDict V} (hp : x.Perm x') (hnd : (x.map Prod.fst).Nodup) (f : Nat) :
    fget x' f = fget x f := by
  induction hp with
  | nil => rfl
  | cons kv _ ih =>
    rw [fget_cons, fget_cons, ih (List.nodup_cons.1 hnd).2]
  | swap a b l =>
    rw [fget_cons, fget_cons, fget_cons, fget_cons]
    have hne : b.1 ≠ a.1 := by
      intro e
      have := (List.nodup_cons.1 hnd).1
      simp [e] at this
    by_cases ha : a.1 = f <;> by_cases hb : b.1 = f <;> simp [ha, hb]
    exact absurd (hb.trans ha.symm) hne
  | trans h1 _ ih1 ih2 =>
    rw [ih2 ((h1.map Prod.fst).nodup_iff.1 hnd), ih1 hnd]

theorem rowOf_some (ns : List Nat) (x : FDict V) : rowOf (some ns) x = ns.mapM (fun f => fget x f) := rfl
theorem rowOf_none (x : FDict V) : rowOf none x = some (x.map Prod.snd) := rfl

/-! ### `outDict` -/

/-- the canonical dict only looks at the data, never at the shape -/
theorem outDict_shape_irrel (s s' : List Nat) (d : List V) : outDict ⟨s, d⟩ = outDict ⟨s', d⟩ := rfl

theorem outDict_singleton (y : Arr V) (v : V) (h : y.data = [v]) : outDict y = [(Label.output, v)] := by
  unfold outDict; rw [h]

theorem outDict_of_ne_one (y : Arr V) (h : y.data.length ≠ 1) :
    outDict y = ((List.range y.data.length).zip y.data).map (fun iv => (Label.idx iv.1, iv.2)) := by
  unfold outDict
  split
  · next v hv => rw [hv] at h; simp at h
  · rfl

/-! ### blocks of a flattened list of equal-length rows -/

theorem flatten_length_of_const (c : Nat) :
    ∀ (L : List (List W)), (∀ l ∈ L, l.length = c) → L.flatten.length = L.length * c
  | [], _ => by simp
  | l :: L, h => by
    rw [List.flatten_cons, List.length_append, h l (List.mem_cons_self ..),
      flatten_length_of_const c L (fun l' hl' => h l' (List.mem_cons_of_mem _ hl')), List.length_cons,
      Nat.succ_mul, Nat.add_comm]

/-- the i-th block of `c` values of the flattening is the i-th row -/
theorem flatten_block (c : Nat) :
    ∀ (L : List (List W)), (∀ l ∈ L, l.length = c) → ∀ i (h : i < L.length),
      (L.flatten.drop (i * c)).take c = L[i]
  | [], _, i, h => absurd h (Nat.not_lt_zero i)
  | l :: L, hL, 0, _ => by
    have hl : l.length = c := hL l (List.mem_cons_self ..)
    subst hl
    simp
  | l :: L, hL, i + 1, h => by
    have hl : l.length = c := hL l (List.mem_cons_self ..)
    have e : (i + 1) * c = l.length + i * c := by rw [hl, Nat.succ_mul, Nat.add_comm]
    rw [List.flatten_cons, e, List.drop_append, List.drop_eq_nil_of_le (Nat.le_add_right ..), List.nil_append]
    simpa using flatten_block c L (fun l' hl' => hL l' (List.mem_cons_of_mem _ hl')) i (by simpa using h)

/-! ### `rowAt` / `callMany` on a well-shaped batch output -/

theorem rowAt_block (y : Arr W) (n c : Nat) (hs : y.shape = [n, c]) (hd : y.data.length = n * c) (i : Nat)
    (hi : i < n) : rowAt y i = ⟨[c], (y.data.drop (i * c)).take c⟩ := by
  have hn : n ≠ 0 := by omega
  unfold rowAt
  simp only [hs, List.headD_cons, List.tail_cons, if_neg hn, hd,
    Nat.mul_div_cancel_left c (Nat.pos_of_ne_zero hn)]

theorem callMany_blocks (names : Option (List Nat)) (predict : Arr V → Arr W) (xs : List (FDict V)) (a : Arr V)
    (n c : Nat) (ha : convert2d names xs = some a) (hs : (predict a).shape = [n, c])
    (hd : (predict a).data.length = n * c) :
    callMany names predict xs =
      some ((List.range n).map (fun i => outDict ⟨[c], ((predict a).data.drop (i * c)).take c⟩)) := by
  unfold callMany
  rw [ha]
  simp only [Option.map_some, hs, List.headD_cons]
  congr 1
  apply List.map_congr_left
  intro i hi
  rw [rowAt_block _ n c hs hd i (List.mem_range.1 hi)]

/-! ### river one-hot -/
section River
set_option linter.unusedSectionVars false
variable {K : Type} [OfNat K 0] [OfNat K 1]

/-- the new seen-list after a label -/
theorem extendDict_label (seen : List Nat) (s : Nat) :
    extendDict (K := K) seen (.label s) =
      (.inl ((if s ∈ seen then seen else seen ++ [s]).map (fun l => (l, if l = s then (1 : K) else (0 : K)))),
        if s ∈ seen then seen else seen ++ [s]) := by
  unfold extendDict
  simp only [List.contains_eq_mem, decide_eq_true_eq]

/-- lookup in a dict built by mapping over its key list -/
theorem fget_map_keys (L : List Nat) (h : Nat → K) (k : Nat) :
    fget (L.map (fun l => (l, h l))) k = if k ∈ L then some (h k) else none := by
  induction L with
  | nil => rfl
  | cons a L ih =>
    rw [List.map_cons, fget_cons, ih]
    by_cases e : a = k
    · subst e; simp
    · have e' : ¬ k = a := fun h => e h.symm
      simp [e, e']

theorem eraseDups_snoc (L : List Nat) (s : Nat) :
    (L ++ [s]).eraseDups = if s ∈ L.eraseDups then L.eraseDups else L.eraseDups ++ [s] := by
  rw [List.eraseDups_append, List.cons_removeAll]
  by_cases h : s ∈ L <;> simp [h, List.eraseDups_cons]

/-- one step of a river wrapper over a stream of predictions: outputs so far, labels seen so far -/
def riverStep (acc : List (List (Nat × K) ⊕ List (Label × K)) × List Nat) (y : RiverOut K) :
    List (List (Nat × K) ⊕ List (Label × K)) × List Nat :=
  (acc.1 ++ [(extendDict acc.2 y).1], (extendDict acc.2 y).2)

/-- the river wrapper called on a stream of predictions, starting with no label seen -/
def riverRun (ys : List (RiverOut K)) : List (List (Nat × K) ⊕ List (Label × K)) × List Nat :=
  ys.foldl riverStep ([], [])

/-- the one-hot dict over the distinct labels of `pre ++ [s]` in first-seen order -/
def oneHot (pre : List Nat) (s : Nat) : List (Nat × K) :=
  (pre ++ [s]).eraseDups.map (fun l => (l, if l = s then (1 : K) else (0 : K)))

theorem riverFold_labels (ss : List Nat) :
    ∀ (pre : List Nat) (outs : List (List (Nat × K) ⊕ List (Label × K))),
      (ss.map RiverOut.label).foldl (riverStep (K := K)) (outs, pre.eraseDups) =
        (outs ++ (List.range ss.length).map (fun t => .inl (oneHot (pre ++ ss.take t) (ss.getD t 0))),
          (pre ++ ss).eraseDups) := by
  induction ss with
  | nil => intro pre outs; simp
  | cons s ss ih =>
    intro pre outs
    rw [List.map_cons, List.foldl_cons]
    have hstep : riverStep (K := K) (outs, pre.eraseDups) (.label s) =
        (outs ++ [.inl (oneHot pre s)], (pre ++ [s]).eraseDups) := by
      unfold riverStep oneHot
      simp only [extendDict_label, eraseDups_snoc]
    rw [hstep, ih (pre ++ [s]) _]
    simp [List.range_succ_eq_map, List.append_assoc]

theorem riverRun_labels (ss : List Nat) :
    riverRun (K := K) (ss.map RiverOut.label) =
      ((List.range ss.length).map (fun t => .inl (oneHot (ss.take t) (ss.getD t 0))), ss.eraseDups) := by
  have h := riverFold_labels (K := K) ss [] []
  simpa [riverRun] using h

/-- the label carried by a river prediction, if it is a string label -/
def labelOf : RiverOut K → Option Nat
  | .label s => some s
  | _ => none

/-- mixed streams: dict and numeric predictions leave the seen-list alone -/
theorem riverFold_seen (ys : List (RiverOut K)) :
    ∀ (pre : List Nat) (outs : List (List (Nat × K) ⊕ List (Label × K))),
      (ys.foldl (riverStep (K := K)) (outs, pre.eraseDups)).2 = (pre ++ ys.filterMap labelOf).eraseDups := by
  induction ys with
  | nil => intro pre outs; simp
  | cons y ys ih =>
    intro pre outs
    rw [List.foldl_cons]
    cases y with
    | dict d =>
      have : riverStep (K := K) (outs, pre.eraseDups) (.dict d) = (outs ++ [.inl d], pre.eraseDups) := rfl
      rw [this, ih]; rfl
    | num v =>
      have : riverStep (K := K) (outs, pre.eraseDups) (.num v) =
          (outs ++ [.inr [(Label.output, v)]], pre.eraseDups) := rfl
      rw [this, ih]; rfl
    | label s =>
      have hstep : riverStep (K := K) (outs, pre.eraseDups) (.label s) =
          (outs ++ [.inl (oneHot pre s)], (pre ++ [s]).eraseDups) := by
        unfold riverStep oneHot
        simp only [extendDict_label, eraseDups_snoc]
      rw [hstep, ih]; simp [labelOf]

theorem nodup_eraseDups (L : List Nat) : L.eraseDups.Nodup := by
  induction L using List.reverseRecOn with
  | nil => simp
  | append_singleton L s ih =>
    rw [eraseDups_snoc]
    by_cases h : s ∈ L.eraseDups
    · rw [if_pos h]; exact ih
    · rw [if_neg h]
      rw [List.nodup_append]
      refine ⟨ih, by simp, ?_⟩
      intro a ha b hb
      rw [List.mem_singleton] at hb; subst hb
      exact fun e => h (e ▸ ha)

end River

/-! ### a model that computes rows independently -/

/-- `predict` maps every batch of `n` rows of `d` features to the `n` rows `g row` of `c` outputs each -/
def RowWise (predict : Arr V → Arr W) (g : List V → List W) (d c : Nat) : Prop :=
  (∀ r : List V, r.length = d → (g r).length = c) ∧
  ∀ rows : List (List V), (∀ r ∈ rows, r.length = d) →
    predict ⟨[rows.length, d], rows.flatten⟩ = ⟨[rows.length, c], (rows.map g).flatten⟩

theorem callMany_rowWise (names : Option (List Nat)) (predict : Arr V → Arr W) (g : List V → List W) (d c : Nat)
    (hrw : RowWise predict g d c) (xs : List (FDict V)) (rows : List (List V))
    (hrows : xs.mapM (rowOf names) = some rows) (hlen : ∀ r ∈ rows, r.length = d)
    (hhd : (rows.headD []).length = d) :
    callMany names predict xs = some (rows.map (fun r => outDict ⟨[c], g r⟩)) := by
  have hconv : convert2d names xs = some ⟨[rows.length, d], rows.flatten⟩ := by
    unfold convert2d; rw [hrows, Option.map_some, hhd]
  have hp := hrw.2 rows hlen
  have hgl : ∀ l ∈ rows.map g, l.length = c := by
    intro l hl
    obtain ⟨r, hr, rfl⟩ := List.mem_map.1 hl
    exact hrw.1 r (hlen r hr)
  rw [callMany_blocks names predict xs _ rows.length c hconv (by rw [hp]) (by
    rw [hp]; simpa using flatten_length_of_const c (rows.map g) hgl), hp]
  congr 1
  apply List.ext_getElem
  · simp
  · intro i h1 h2
    have hi : i < (rows.map g).length := by simpa using h2
    simp only [List.getElem_map, List.getElem_range]
    rw [flatten_block c (rows.map g) hgl i hi, List.getElem_map]

theorem callOne_rowWise (names : Option (List Nat)) (predict : Arr V → Arr W) (g : List V → List W) (d c : Nat)
    (hrw : RowWise predict g d c) (x : FDict V) (r : List V) (hr : rowOf names x = some r) (hl : r.length = d) :
    callOne names predict x = some (outDict ⟨[c], g r⟩) := by
  have hp := hrw.2 [r] (by intro r' h; rw [List.mem_singleton] at h; subst h; exact hl)
  simp only [List.length_singleton, List.flatten_cons, List.flatten_nil, List.append_nil, List.map_cons,
    List.map_nil] at hp
  unfold callOne convert1d
  rw [hr, Option.map_some, Option.map_some, hl, hp]
  rfl

end Ixai.Wrapper
