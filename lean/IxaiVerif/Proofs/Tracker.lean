/-
  Helper lemmas for the generated tracker kernels (C10, used by C01/C02/C03/C12/C16/C20).
  Everything is proved from one-step characterisations (`*_update_spec`) that are obtained by unfolding
  the *generated* definitions, so an algebraically neutral rewrite of the Python source only has to
  re-establish those.
-/
import IxaiVerif.Gen.WelfordTracker
import IxaiVerif.Gen.ExponentialSmoothingTracker
import Mathlib.Algebra.Field.Basic
import Mathlib.Algebra.Order.Field.Basic
import Mathlib.Algebra.BigOperators.Group.List.Basic
import Mathlib.Algebra.BigOperators.Group.Finset.Basic
import Mathlib.Algebra.BigOperators.Ring.Finset
import Mathlib.Algebra.BigOperators.Intervals
import Mathlib.Tactic.FieldSimp
import Mathlib.Tactic.Ring
import Mathlib.Tactic.LinearCombination
import Mathlib.Tactic.Positivity
import Mathlib.Tactic.Push
import Mathlib.Tactic.NormNum

set_option linter.unusedSectionVars false

namespace Ixai
open Ixai.Gen

section Npow
variable {K : Type} [Field K]
@[simp] theorem npow_eq_pow (a : K) (n : Nat) : npow a n = a ^ n := by
  induction n with
  | zero => simp [npow]
  | succ n ih => simp [npow, ih, pow_succ]
end Npow

section Lsum
variable {K : Type} [Field K]
theorem foldl_add_eq (l : List K) (a : K) : l.foldl (· + ·) a = a + l.sum := by
  induction l generalizing a with
  | nil => simp
  | cons x xs ih => simp [ih, add_assoc]
@[simp] theorem lsum_eq_sum (l : List K) : lsum l = l.sum := by
  simp [lsum, foldl_add_eq]
end Lsum

/-! ### Welford -/
namespace Welford
variable {K : Type} [Field K] [CharZero K] [RealOps K]

/-- running a tracker over a stream: left fold of the generated `update` from the generated `init` -/
def run (vs : List K) : WelfordTracker K := vs.foldl WelfordTracker.update WelfordTracker.init

theorem run_snoc (vs : List K) (v : K) : run (vs ++ [v]) = (run vs).update v := by
  simp [run, List.foldl_append]

@[simp] theorem init_N : (WelfordTracker.init : WelfordTracker K).N = 0 := rfl
@[simp] theorem init_tracked : (WelfordTracker.init : WelfordTracker K).tracked_value = 0 := rfl
@[simp] theorem init_ss : (WelfordTracker.init : WelfordTracker K).sum_squares = 0 := rfl

/-- one-step characterisation read off the generated code -/
theorem update_spec (s : WelfordTracker K) (v : K) :
    (s.update v).N = s.N + 1 ∧
    (s.update v).tracked_value = s.tracked_value + (v - s.tracked_value) / ((s.N : K) + 1) ∧
    (s.update v).sum_squares =
      s.sum_squares + (v - s.tracked_value) * (v - (s.tracked_value + (v - s.tracked_value) / ((s.N : K) + 1))) := by
  have h : ((s.N : K) + 1) ≠ 0 := Nat.cast_add_one_ne_zero _
  refine ⟨?_, ?_, ?_⟩
  · simp [WelfordTracker.update]
  · simp only [WelfordTracker.update]; push_cast; field_simp
  · simp only [WelfordTracker.update]; push_cast; field_simp

theorem run_N (vs : List K) : (run vs).N = vs.length := by
  induction vs using List.reverseRecOn with
  | nil => simp [run]
  | append_singleton vs v ih => rw [run_snoc, (update_spec _ v).1, ih]; simp

/-- division-free invariant -/
theorem run_inv (vs : List K) :
    ((vs.length : K) * (run vs).tracked_value = vs.sum) ∧
    ((run vs).sum_squares = (vs.map (fun v => v * v)).sum - (vs.length : K) * ((run vs).tracked_value * (run vs).tracked_value)) := by
  induction vs using List.reverseRecOn with
  | nil => simp [run]
  | append_singleton vs v ih =>
    obtain ⟨h1, h2⟩ := ih
    obtain ⟨_, ht, hs⟩ := update_spec (run vs) v
    have hN := run_N vs
    have h : ((vs.length : K) + 1) ≠ 0 := Nat.cast_add_one_ne_zero _
    rw [run_snoc]
    constructor
    · rw [ht, hN]; simp only [List.length_append, List.length_singleton, List.sum_append, List.sum_singleton]
      push_cast; field_simp; linear_combination h1
    · rw [hs, ht, hN, h2]
      simp only [List.length_append, List.length_singleton, List.map_append, List.sum_append, List.map_singleton,
        List.sum_singleton]
      push_cast; field_simp; ring

theorem sum_sq_dev (vs : List K) (m : K) :
    (vs.map (fun v => (v - m) * (v - m))).sum =
      (vs.map (fun v => v * v)).sum - 2 * m * vs.sum + (vs.length : K) * (m * m) := by
  induction vs with
  | nil => simp
  | cons v vs ih => simp only [List.map_cons, List.sum_cons, List.length_cons, ih]; push_cast; ring

end Welford

/-! ### Exponential smoothing -/
namespace ES
variable {K : Type} [Field K]

def run (α : K) (vs : List K) : ExponentialSmoothingTracker K :=
  vs.foldl ExponentialSmoothingTracker.update (ExponentialSmoothingTracker.init α)

theorem run_snoc (α : K) (vs : List K) (v : K) : run α (vs ++ [v]) = (run α vs).update v := by
  simp [run, List.foldl_append]

theorem update_spec (s : ExponentialSmoothingTracker K) (v : K) :
    (s.update v).N = s.N + 1 ∧ (s.update v).alpha = s.alpha ∧
    (s.update v).tracked_value = (1 - s.alpha) * s.tracked_value + s.alpha * v := by
  refine ⟨?_, ?_, ?_⟩ <;> simp [ExponentialSmoothingTracker.update]

@[simp] theorem init_spec (α : K) :
    (ExponentialSmoothingTracker.init α).N = 0 ∧ (ExponentialSmoothingTracker.init α).alpha = α ∧
    (ExponentialSmoothingTracker.init α).tracked_value = 0 := by
  refine ⟨?_, ?_, ?_⟩ <;> simp [ExponentialSmoothingTracker.init]

theorem run_alpha (α : K) (vs : List K) : (run α vs).alpha = α := by
  induction vs using List.reverseRecOn with
  | nil => simp [run]
  | append_singleton vs v ih => rw [run_snoc, (update_spec _ v).2.1, ih]

theorem run_N (α : K) (vs : List K) : (run α vs).N = vs.length := by
  induction vs using List.reverseRecOn with
  | nil => simp [run]
  | append_singleton vs v ih => rw [run_snoc, (update_spec _ v).1, ih]; simp

/-- closed form as a recursion on the reversed stream: newest value has weight α, older ones decay -/
def cf (α : K) : List K → K
  | [] => 0
  | v :: older => α * v + (1 - α) * cf α older

theorem run_cf (α : K) (vs : List K) : (run α vs).tracked_value = cf α vs.reverse := by
  induction vs using List.reverseRecOn with
  | nil => simp [run, cf]
  | append_singleton vs v ih =>
    rw [run_snoc, (update_spec _ v).2.2, run_alpha, ih]; simp [cf]; ring

end ES
end Ixai
