/-
  Algorithm L (UniformReservoirStorage): moment-functional semantics of the real-valued skip weight W.
  `phi k hist m` = E[ 1_{hist} · W^m ], where `hist` are the accept/reject flags for items k+1, k+2, … (head = latest)
  and W is the running product of independent U^{1/k} factors.  The only analytic inputs are the moments of
  V = U^{1/k}:  E[V^m] = k/(k+m)  (`momV`), and that a skip drawn as floor(log U / log(1-W)) is a run of independent
  Bernoulli(W) rejections followed by an acceptance; they are listed in the trusted base (DESIGN.md section 8).
  `hist_prob` shows every acceptance history has exactly the probability of independent Bernoulli(k/t) acceptances of
  item t — the acceptance law assumed by `Proofs/Reservoir.lean` (`uniform_inclusion`).
-/
import Mathlib.Algebra.Field.Basic
import Mathlib.Tactic.FieldSimp
import Mathlib.Tactic.Ring
import Mathlib.Tactic.LinearCombination
import Mathlib.Algebra.Order.Field.Basic
import Mathlib.Data.Rat.Defs
import Mathlib.Tactic.Positivity
import Mathlib.Tactic.Push

namespace Ixai.AlgoL

/-- E[V^m] for V = U^(1/k), U uniform(0,1) -/
def momV (k m : Nat) : ℚ := (k : ℚ) / (k + m)

def phi (k : Nat) : List Bool → Nat → ℚ
  | [], m => momV k m
  | (false :: h), m => phi k h m - phi k h (m+1)
  | (true :: h), m => phi k h (m+1) * momV k m

/-- Π_{i<m} (k+i)/(n+1+i) : moments of Beta(k, n-k+1) -/
def betaMom (k n : Nat) : Nat → ℚ
  | 0 => 1
  | m+1 => betaMom k n m * ((k + m : ℚ) / (n + 1 + m))

/-- probability of a history under independent Bernoulli(k/t) acceptance of item t -/
def histProb (k : Nat) : List Bool → ℚ
  | [] => 1
  | (false :: h) => histProb k h * (((h.length + 1 : Nat) : ℚ) / (k + h.length + 1))
  | (true :: h) => histProb k h * ((k : ℚ) / (k + h.length + 1))


theorem betaMom_shift (k n m : Nat) :
    betaMom k (n+1) m = betaMom k n m * ((n + 1 : ℚ) / (n + 1 + m)) := by
  induction m with
  | zero =>
    have h0 : (n + 1 : ℚ) ≠ 0 := by positivity
    simp [betaMom, h0]
  | succ m ih =>
    rw [betaMom, ih, betaMom]
    have h1 : (n + 1 + m : ℚ) ≠ 0 := by positivity
    have h2 : ((n + 1 : ℕ) + 1 + m : ℚ) ≠ 0 := by positivity
    have h3 : (n + 1 + (m + 1 : ℕ) : ℚ) ≠ 0 := by positivity
    push_cast at *
    field_simp
    ring

theorem betaMom_init (k m : Nat) (hk : 0 < k) : momV k m = betaMom k k m := by
  induction m with
  | zero =>
    have : (k : ℚ) ≠ 0 := by exact_mod_cast hk.ne'
    simp [betaMom, momV, this]
  | succ m ih =>
    rw [betaMom, ← ih]
    unfold momV
    have h1 : (k + m : ℚ) ≠ 0 := by positivity
    have h2 : (k + 1 + m : ℚ) ≠ 0 := by positivity
    have h3 : (k + (m + 1 : ℕ) : ℚ) ≠ 0 := by positivity
    push_cast at *
    field_simp
    ring

theorem phi_closed (k : Nat) (hk : 0 < k) (h : List Bool) (m : Nat) :
    phi k h m = histProb k h * betaMom k (k + h.length) m := by
  induction h generalizing m with
  | nil => simp [phi, histProb, betaMom_init k m hk]
  | cons b h ih =>
    have hkq : (k : ℚ) ≠ 0 := by exact_mod_cast hk.ne'
    have e : k + (b :: h).length = (k + h.length) + 1 := by simp [Nat.add_assoc]
    rw [e, betaMom_shift]
    have h1 : ((k + h.length : ℕ) + 1 + m : ℚ) ≠ 0 := by positivity
    have h2 : ((k + h.length : ℕ) + 1 : ℚ) ≠ 0 := by positivity
    have h3 : (k + m : ℚ) ≠ 0 := by positivity
    cases b with
    | false =>
      simp only [phi, histProb, ih, betaMom]
      push_cast at *
      field_simp
      ring
    | true =>
      simp only [phi, histProb, ih, betaMom, momV]
      push_cast at *
      field_simp

/-- the probability of every acceptance history factorises: items are accepted independently, item t w.p. k/t -/
theorem hist_prob (k : Nat) (hk : 0 < k) (h : List Bool) : phi k h 0 = histProb k h := by
  simp [phi_closed k hk h 0, betaMom]

end Ixai.AlgoL
