/-
  Lemma library for the effectful layer (`Model/Effect.lean`).

  Predicates on computations `m : M K α`, each closed under `M.pure`, `M.bind`, `if`, `M.mapM'` (and, further down,
  the chain recursion `sageChainM`):

    `Frame m`        running `m` leaves `est` and `seen` unchanged, whatever it returns
    `Total m`        `m` never returns an error
    `ErrIn E m`      every error `m` returns satisfies `E`
    `Tracked O m`    the log only grows by appending, the invocation counter advances by the number of appended events,
                     if `m` fails then the LAST appended event is the failing invocation: the oracle of that kind
                     returned exactly this error at exactly that counter value (fail-stop), and every invocation
                     before it — in a successful run every invocation — returned `.ok`
    `Emit m E P`     `m` succeeds, appends exactly the events `E` to the log, and its result satisfies `P`
    `Returns m a`    `m` succeeds with result `a`

  and the "shape" of both `explain_one`s: read the world, compute (framed), update the storage (framed), commit.
-/
import IxaiVerif.Model.Effect

set_option linter.unusedSectionVars false
set_option linter.unusedVariables false

namespace Ixai

variable {K : Type} {α β γ : Type}

/-! ### running `bind` -/
namespace M

theorem bind_get (f : World K → M K β) (w : World K) : M.bind M.get f w = f w w := rfl

theorem bind_of_ok {m : M K α} {f : α → M K β} {w w' : World K} {a : α} (h : m w = (.ok a, w')) :
    M.bind m f w = f a w' := by
  unfold M.bind; rw [h]

theorem bind_of_err {m : M K α} {f : α → M K β} {w w' : World K} {e : Err} (h : m w = (.error e, w')) :
    M.bind m f w = (.error e, w') := by
  unfold M.bind; rw [h]

theorem run_cases (m : M K α) (w : World K) :
    (∃ a w', m w = (.ok a, w')) ∨ (∃ e w', m w = (.error e, w')) := by
  rcases h : m w with ⟨r, w'⟩
  cases r with
  | ok a => exact .inl ⟨a, w', rfl⟩
  | error e => exact .inr ⟨e, w', rfl⟩

end M

/-! ### `Frame` -/

/-- running `m` leaves `est` and `seen` unchanged, whatever it returns -/
def Frame (m : M K α) : Prop := ∀ w, (m w).2.est = w.est ∧ (m w).2.seen = w.seen

theorem Frame.pure (a : α) : Frame (M.pure a : M K α) := fun _ => ⟨rfl, rfl⟩
theorem Frame.get : Frame (M.get : M K (World K)) := fun _ => ⟨rfl, rfl⟩
theorem Frame.call (ev : Ev) (oracle : Nat → Except Err α) : Frame (M.call ev oracle : M K α) :=
  fun _ => ⟨rfl, rfl⟩

theorem Frame.bind {m : M K α} {f : α → M K β} (hm : Frame m) (hf : ∀ a, Frame (f a)) : Frame (M.bind m f) := by
  intro w
  have h1 := hm w
  rcases M.run_cases m w with ⟨a, w', h⟩ | ⟨e, w', h⟩
  · rw [M.bind_of_ok h]; rw [h] at h1
    have h2 := hf a w'
    exact ⟨h2.1.trans h1.1, h2.2.trans h1.2⟩
  · rw [M.bind_of_err h]; rw [h] at h1; exact h1

theorem Frame.ite {c : Prop} [Decidable c] {m1 m2 : M K α} (h1 : Frame m1) (h2 : Frame m2) :
    Frame (if c then m1 else m2) := by
  split <;> assumption

theorem Frame.mapM' {f : α → M K β} (hf : ∀ a, Frame (f a)) : ∀ l, Frame (M.mapM' f l)
  | [] => Frame.pure _
  | a :: as => Frame.bind (hf a) (fun _ => Frame.bind (Frame.mapM' hf as) (fun _ => Frame.pure _))

/-! ### `Total` -/

/-- `m` never returns an error -/
def Total (m : M K α) : Prop := ∀ w, ∃ a, (m w).1 = .ok a

theorem Total.pure (a : α) : Total (M.pure a : M K α) := fun _ => ⟨a, rfl⟩
theorem Total.get : Total (M.get : M K (World K)) := fun w => ⟨w, rfl⟩
theorem Total.modify (f : World K → World K) : Total (M.modify f) := fun _ => ⟨(), rfl⟩
theorem Total.call (ev : Ev) {oracle : Nat → Except Err α} (h : ∀ c, ∃ a, oracle c = .ok a) :
    Total (M.call ev oracle : M K α) := fun w => h w.calls

theorem Total.bind {m : M K α} {f : α → M K β} (hm : Total m) (hf : ∀ a, Total (f a)) : Total (M.bind m f) := by
  intro w
  obtain ⟨a, ha⟩ := hm w
  rcases M.run_cases m w with ⟨a', w', h⟩ | ⟨e, w', h⟩
  · rw [M.bind_of_ok h]; exact hf a' w'
  · rw [h] at ha; cases ha

theorem Total.ite {c : Prop} [Decidable c] {m1 m2 : M K α} (h1 : Total m1) (h2 : Total m2) :
    Total (if c then m1 else m2) := by
  split <;> assumption

theorem Total.mapM' {f : α → M K β} (hf : ∀ a, Total (f a)) : ∀ l, Total (M.mapM' f l)
  | [] => Total.pure _
  | a :: as => Total.bind (hf a) (fun _ => Total.bind (Total.mapM' hf as) (fun _ => Total.pure _))

/-! ### `ErrIn` -/

/-- every error `m` returns satisfies `E` -/
def ErrIn (E : Err → Prop) (m : M K α) : Prop := ∀ w e, (m w).1 = .error e → E e

theorem ErrIn.pure (E : Err → Prop) (a : α) : ErrIn E (M.pure a : M K α) := fun _ _ h => by cases h
theorem ErrIn.get (E : Err → Prop) : ErrIn E (M.get : M K (World K)) := fun _ _ h => by cases h
theorem ErrIn.call {E : Err → Prop} (ev : Ev) {oracle : Nat → Except Err α} (h : ∀ c e, oracle c = .error e → E e) :
    ErrIn E (M.call ev oracle : M K α) := fun w e he => h w.calls e he
theorem ErrIn.of_total {E : Err → Prop} {m : M K α} (h : Total m) : ErrIn E m := by
  intro w e he; obtain ⟨a, ha⟩ := h w; rw [ha] at he; cases he
theorem ErrIn.mono {E E' : Err → Prop} {m : M K α} (h : ErrIn E m) (hE : ∀ e, E e → E' e) : ErrIn E' m :=
  fun w e he => hE e (h w e he)

theorem ErrIn.bind {E : Err → Prop} {m : M K α} {f : α → M K β} (hm : ErrIn E m) (hf : ∀ a, ErrIn E (f a)) :
    ErrIn E (M.bind m f) := by
  intro w e he
  rcases M.run_cases m w with ⟨a', w', h⟩ | ⟨e', w', h⟩
  · rw [M.bind_of_ok h] at he; exact hf a' w' e he
  · rw [M.bind_of_err h] at he; cases he; exact hm w e (by rw [h])

theorem ErrIn.ite {E : Err → Prop} {c : Prop} [Decidable c] {m1 m2 : M K α} (h1 : ErrIn E m1) (h2 : ErrIn E m2) :
    ErrIn E (if c then m1 else m2) := by
  split <;> assumption

theorem ErrIn.mapM' {E : Err → Prop} {f : α → M K β} (hf : ∀ a, ErrIn E (f a)) : ∀ l, ErrIn E (M.mapM' f l)
  | [] => ErrIn.pure _ _
  | a :: as => ErrIn.bind (hf a) (fun _ => ErrIn.bind (ErrIn.mapM' hf as) (fun _ => ErrIn.pure _ _))

/-! ### `Returns` -/

/-- `m` succeeds with result `a` (in every world) -/
def Returns (m : M K α) (a : α) : Prop := ∀ w, (m w).1 = .ok a

theorem Returns.pure (a : α) : Returns (M.pure a : M K α) a := fun _ => rfl
theorem Returns.call (ev : Ev) {oracle : Nat → Except Err α} {a : α} (h : ∀ c, oracle c = .ok a) :
    Returns (M.call ev oracle : M K α) a := fun w => h w.calls

theorem Returns.bind {m : M K α} {f : α → M K β} {a : α} {b : β} (hm : Returns m a) (hf : Returns (f a) b) :
    Returns (M.bind m f) b := by
  intro w
  have ha := hm w
  rcases M.run_cases m w with ⟨a', w', h⟩ | ⟨e, w', h⟩
  · rw [M.bind_of_ok h]; rw [h] at ha; cases ha; exact hf w'
  · rw [h] at ha; cases ha

theorem Returns.mapM' {f : α → M K β} {g : α → β} (hf : ∀ a, Returns (f a) (g a)) :
    ∀ l, Returns (M.mapM' f l) (l.map g)
  | [] => Returns.pure _
  | a :: as => Returns.bind (hf a) (Returns.bind (Returns.mapM' hf as) (Returns.pure _))

theorem Returns.total {m : M K α} {a : α} (h : Returns m a) : Total m := fun w => ⟨a, h w⟩

/-! ### `Emit` -/

/-- `m` succeeds, appends exactly the events `E` to the log, and its result satisfies `P` -/
def Emit (m : M K α) (E : List Ev) (P : α → Prop) : Prop :=
  ∀ w, ∃ a, (m w).1 = .ok a ∧ (m w).2.log = w.log ++ E ∧ P a

theorem Emit.pure (a : α) : Emit (M.pure a : M K α) [] (fun b => b = a) :=
  fun w => ⟨a, rfl, (List.append_nil _).symm, rfl⟩

theorem Emit.call (ev : Ev) {oracle : Nat → Except Err α} (h : ∀ c, ∃ a, oracle c = .ok a) :
    Emit (M.call ev oracle : M K α) [ev] (fun _ => True) := by
  intro w; obtain ⟨a, ha⟩ := h w.calls; exact ⟨a, ha, rfl, trivial⟩

theorem Emit.bind {m : M K α} {f : α → M K β} {E1 E2 : List Ev} {P : α → Prop} {Q : β → Prop}
    (hm : Emit m E1 P) (hf : ∀ a, P a → Emit (f a) E2 Q) : Emit (M.bind m f) (E1 ++ E2) Q := by
  intro w
  obtain ⟨a, ha, hl, hp⟩ := hm w
  rcases M.run_cases m w with ⟨a', w', h⟩ | ⟨e, w', h⟩
  · rw [M.bind_of_ok h]; rw [h] at ha hl; cases ha
    obtain ⟨b, hb, hl2, hq⟩ := hf _ hp w'
    refine ⟨b, hb, ?_, hq⟩
    rw [hl2]; simp only at hl; rw [hl, List.append_assoc]
  · rw [h] at ha; cases ha

theorem Emit.weaken {m : M K α} {E E' : List Ev} {P P' : α → Prop} (h : Emit m E P) (hE : E = E')
    (hP : ∀ a, P a → P' a) : Emit m E' P' := by
  subst hE; intro w; obtain ⟨a, h1, h2, h3⟩ := h w; exact ⟨a, h1, h2, hP a h3⟩

theorem Emit.total {m : M K α} {E : List Ev} {P : α → Prop} (h : Emit m E P) : Total m :=
  fun w => let ⟨a, ha, _⟩ := h w; ⟨a, ha⟩

/-- `l.length` repetitions of the per-element events; the result has the length of the input -/
theorem Emit.mapM' {f : α → M K β} {E : List Ev} {P : β → Prop} (hf : ∀ a, Emit (f a) E P) :
    ∀ l : List α, Emit (M.mapM' f l) (List.replicate l.length E).flatten (fun bs => bs.length = l.length)
  | [] => (Emit.pure _).weaken rfl (fun _ h => by simp [h])
  | a :: as => by
    have ih := Emit.mapM' hf as
    refine (Emit.bind (Q := fun r => r.length = (a :: as).length) (hf a) (fun b _ => Emit.bind ih (fun bs hbs =>
      (Emit.pure (b :: bs)).weaken rfl (fun r hr => by simp [hr, hbs])))).weaken ?_ (fun _ h => h)
    simp [List.replicate_succ]

/-! ### `Tracked` -/

section Tracked
variable {V Y : Type}

/-- "the oracle behind event `ev` returned the error `e` at counter value `c`" -/
def OracleErr (O : Oracles K V Y) (ev : Ev) (c : Nat) (e : Err) : Prop :=
  match ev with
  | .model => ∃ x, O.model c x = .error e
  | .loss => ∃ y p, O.loss c y p = .error e
  | .storage => O.storage c = .error e
  | .impute S n => O.impute c S n = .error e

/-- "the oracle behind event `ev` returned `.ok` at counter value `c`" (for the arguments it was given; the log does
    not record arguments, hence the existentials. For a callback whose failing depends on the position only —
    "the k-th invocation fails" — this is exactly "invocation `c` did not fail") -/
def OracleOk (O : Oracles K V Y) (ev : Ev) (c : Nat) : Prop :=
  match ev with
  | .model => ∃ x p, O.model c x = .ok p
  | .loss => ∃ y p l, O.loss c y p = .ok l
  | .storage => ∃ u, O.storage c = .ok u
  | .impute S n => ∃ ps, O.impute c S n = .ok ps

/-- the invocations `evs`, numbered from `c`, all returned `.ok` -/
def AllOk (O : Oracles K V Y) : Nat → List Ev → Prop
  | _, [] => True
  | c, ev :: evs => OracleOk O ev c ∧ AllOk O (c + 1) evs

theorem AllOk.append {O : Oracles K V Y} : ∀ {c : Nat} {e1 e2 : List Ev},
    AllOk O c e1 → AllOk O (c + e1.length) e2 → AllOk O c (e1 ++ e2)
  | _, [], _, _, h2 => by simpa using h2
  | c, ev :: e1, e2, h1, h2 => by
    refine ⟨h1.1, AllOk.append h1.2 ?_⟩
    have : c + 1 + e1.length = c + (ev :: e1).length := by simp only [List.length_cons]; omega
    rw [this]; exact h2

theorem AllOk.getElem {O : Oracles K V Y} : ∀ {c : Nat} {evs : List Ev}, AllOk O c evs →
    ∀ (i : Nat) (h : i < evs.length), OracleOk O evs[i] (c + i)
  | _, [], _, _, h => by cases h
  | _, _ :: _, h, 0, _ => h.1
  | c, _ :: evs, h, i + 1, hi => by
    have := AllOk.getElem h.2 i (by simpa using hi)
    have e : c + 1 + i = c + (i + 1) := by omega
    rw [e] at this; simpa using this

/-- log and counter move in lockstep by appending; a failure is the failure of the LAST invocation made, all
    invocations before it returned `.ok`; in a successful run all invocations returned `.ok` -/
def Tracked (O : Oracles K V Y) (m : M K α) : Prop :=
  ∀ w, ∃ evs, (m w).2.log = w.log ++ evs ∧ (m w).2.calls = w.calls + evs.length ∧
    (∀ e, (m w).1 = .error e →
      ∃ pre ev, evs = pre ++ [ev] ∧ AllOk O w.calls pre ∧ OracleErr O ev (w.calls + pre.length) e) ∧
    (∀ a, (m w).1 = .ok a → AllOk O w.calls evs)

theorem Tracked.pure (O : Oracles K V Y) (a : α) : Tracked O (M.pure a : M K α) :=
  fun w => ⟨[], (List.append_nil _).symm, rfl, fun _ h => (by cases h), fun _ _ => trivial⟩

theorem Tracked.get (O : Oracles K V Y) : Tracked O (M.get : M K (World K)) :=
  fun w => ⟨[], (List.append_nil _).symm, rfl, fun _ h => (by cases h), fun _ _ => trivial⟩

theorem Tracked.call {O : Oracles K V Y} (ev : Ev) {oracle : Nat → Except Err α}
    (h : ∀ c e, oracle c = .error e → OracleErr O ev c e) (h' : ∀ c a, oracle c = .ok a → OracleOk O ev c) :
    Tracked O (M.call ev oracle : M K α) :=
  fun w => ⟨[ev], rfl, rfl, fun e he => ⟨[], ev, rfl, trivial, h w.calls e he⟩,
    fun a ha => ⟨h' w.calls a ha, trivial⟩⟩

theorem Tracked.bind {O : Oracles K V Y} {m : M K α} {f : α → M K β} (hm : Tracked O m)
    (hf : ∀ a, Tracked O (f a)) : Tracked O (M.bind m f) := by
  intro w
  obtain ⟨evs1, hl1, hc1, he1, ho1⟩ := hm w
  rcases M.run_cases m w with ⟨a', w', h⟩ | ⟨e', w', h⟩
  · rw [M.bind_of_ok h]; rw [h] at hl1 hc1
    simp only at hl1 hc1
    have hok1 : AllOk O w.calls evs1 := ho1 a' (by rw [h])
    obtain ⟨evs2, hl2, hc2, he2, ho2⟩ := hf a' w'
    refine ⟨evs1 ++ evs2, ?_, ?_, ?_, ?_⟩
    · rw [hl2, hl1, List.append_assoc]
    · rw [hc2, hc1, List.length_append, Nat.add_assoc]
    · intro e he
      obtain ⟨pre, ev, hpre, hpok, hor⟩ := he2 e he
      refine ⟨evs1 ++ pre, ev, ?_, ?_, ?_⟩
      · rw [hpre, List.append_assoc]
      · exact hok1.append (hc1 ▸ hpok)
      · rw [List.length_append, ← Nat.add_assoc, ← hc1]; exact hor
    · intro b hb
      exact hok1.append (hc1 ▸ ho2 b hb)
  · rw [M.bind_of_err h]
    refine ⟨evs1, ?_, ?_, ?_, ?_⟩
    · rw [h] at hl1; exact hl1
    · rw [h] at hc1; exact hc1
    · intro e he; cases he; exact he1 e' (by rw [h])
    · intro b hb; cases hb

theorem AllOk.of_append_right {O : Oracles K V Y} : ∀ {c : Nat} {e1 e2 : List Ev},
    AllOk O c (e1 ++ e2) → AllOk O (c + e1.length) e2
  | _, [], _, h => by simpa using h
  | c, ev :: e1, e2, h => by
    have := AllOk.of_append_right (e1 := e1) (e2 := e2) h.2
    have e : c + 1 + e1.length = c + (ev :: e1).length := by simp only [List.length_cons]; omega
    rw [e] at this; exact this

/-- failing depends on the position only: at a given counter value a callback either fails whatever its arguments
    or succeeds whatever its arguments ("the k-th invocation fails") -/
def PositionFailing (O : Oracles K V Y) : Prop := ∀ ev c e, OracleErr O ev c e → ¬ OracleOk O ev c

/-- for position-failing callbacks: a tracked run is an error IFF some invocation made during the run failed -/
theorem Tracked.error_iff {O : Oracles K V Y} {m : M K α} (hT : Tracked O m) (hP : PositionFailing O)
    (w : World K) :
    ∃ evs, (m w).2.log = w.log ++ evs ∧ (m w).2.calls = w.calls + evs.length ∧
      ((∃ e, (m w).1 = .error e) ↔ ¬ AllOk O w.calls evs) := by
  obtain ⟨evs, hl, hc, he, ho⟩ := hT w
  refine ⟨evs, hl, hc, ?_, ?_⟩
  · rintro ⟨e, h⟩ hall
    obtain ⟨pre, ev, rfl, -, hor⟩ := he e h
    exact hP ev _ e hor (hall.of_append_right).1
  · intro hn
    rcases hr : (m w).1 with e | a
    · exact ⟨e, rfl⟩
    · exact absurd (ho a hr) hn

theorem Tracked.ite {O : Oracles K V Y} {c : Prop} [Decidable c] {m1 m2 : M K α} (h1 : Tracked O m1)
    (h2 : Tracked O m2) : Tracked O (if c then m1 else m2) := by
  split <;> assumption

theorem Tracked.mapM' {O : Oracles K V Y} {f : α → M K β} (hf : ∀ a, Tracked O (f a)) :
    ∀ l, Tracked O (M.mapM' f l)
  | [] => Tracked.pure _ _
  | a :: as => Tracked.bind (hf a) (fun _ => Tracked.bind (Tracked.mapM' hf as) (fun _ => Tracked.pure _ _))

/-- `LogMono`: the log only grows by appending -/
def LogMono (m : M K α) : Prop := ∀ w, ∃ evs, (m w).2.log = w.log ++ evs

theorem Tracked.logMono {O : Oracles K V Y} {m : M K α} (h : Tracked O m) : LogMono m :=
  fun w => let ⟨evs, hl, _⟩ := h w; ⟨evs, hl⟩

end Tracked

/-! ### the shape of `explain_one`: read the world, compute, update the storage, commit, return -/

section Shape

/-- `get; c ← A w0; B; modify (commit c, seen += 1); return importance_values` -/
def explainShape (A : World K → M K γ) (B : M K Unit) (g : γ → Est K → Est K) : M K (Dict K) :=
  M.bind M.get (fun w0 => M.bind (A w0) (fun c => M.bind B (fun _ =>
  M.bind (M.modify (fun w => { w with est := g c w.est, seen := w.seen + 1 })) (fun _ =>
  M.bind M.get (fun w => M.pure w.est.importanceValues)))))

variable {A : World K → M K γ} {B : M K Unit} {g : γ → Est K → Est K} {w w1 w2 : World K}

theorem explainShape_errA {e : Err} (hA : A w w = (.error e, w1)) : explainShape A B g w = (.error e, w1) := by
  unfold explainShape; rw [M.bind_get, M.bind_of_err hA]

theorem explainShape_errB {c : γ} {e : Err} (hA : A w w = (.ok c, w1)) (hB : B w1 = (.error e, w2)) :
    explainShape A B g w = (.error e, w2) := by
  unfold explainShape; rw [M.bind_get, M.bind_of_ok hA, M.bind_of_err hB]

theorem explainShape_ok {c : γ} {u : Unit} (hA : A w w = (.ok c, w1)) (hB : B w1 = (.ok u, w2)) :
    explainShape A B g w =
      (.ok (g c w2.est).importanceValues, { w2 with est := g c w2.est, seen := w2.seen + 1 }) := by
  unfold explainShape; rw [M.bind_get, M.bind_of_ok hA, M.bind_of_ok hB]; rfl

/-- all outcomes of a shaped run -/
theorem explainShape_cases (A : World K → M K γ) (B : M K Unit) (g : γ → Est K → Est K) (w : World K) :
    (∃ e w1, A w w = (.error e, w1) ∧ explainShape A B g w = (.error e, w1)) ∨
    (∃ c w1 e w2, A w w = (.ok c, w1) ∧ B w1 = (.error e, w2) ∧ explainShape A B g w = (.error e, w2)) ∨
    (∃ c w1 u w2, A w w = (.ok c, w1) ∧ B w1 = (.ok u, w2) ∧ explainShape A B g w =
      (.ok (g c w2.est).importanceValues, { w2 with est := g c w2.est, seen := w2.seen + 1 })) := by
  rcases M.run_cases (A w) w with ⟨c, w1, hA⟩ | ⟨e, w1, hA⟩
  · rcases M.run_cases B w1 with ⟨u, w2, hB⟩ | ⟨e, w2, hB⟩
    · exact .inr (.inr ⟨c, w1, u, w2, hA, hB, explainShape_ok hA hB⟩)
    · exact .inr (.inl ⟨c, w1, e, w2, hA, hB, explainShape_errB hA hB⟩)
  · exact .inl ⟨e, w1, hA, explainShape_errA hA⟩

/-- failure atomicity of the shape: framed computation and framed storage update, commit last -/
theorem explainShape_atomic (hA : ∀ w0, Frame (A w0)) (hB : Frame B) (w : World K) (e : Err)
    (h : (explainShape A B g w).1 = .error e) :
    (explainShape A B g w).2.est = w.est ∧ (explainShape A B g w).2.seen = w.seen := by
  rcases explainShape_cases A B g w with ⟨e', w1, hA', hr⟩ | ⟨c, w1, e', w2, hA', hB', hr⟩ |
      ⟨c, w1, u, w2, hA', hB', hr⟩
  · rw [hr]; have := hA w w; rw [hA'] at this; exact this
  · rw [hr]; have h1 := hA w w; rw [hA'] at h1; have h2 := hB w1; rw [hB'] at h2
    exact ⟨h2.1.trans h1.1, h2.2.trans h1.2⟩
  · rw [hr] at h; cases h

theorem explainShape_total (hA : ∀ w0, Total (A w0)) (hB : Total B) : Total (explainShape A B g) := by
  intro w
  rcases explainShape_cases A B g w with ⟨e', w1, hA', hr⟩ | ⟨c, w1, e', w2, hA', hB', hr⟩ |
      ⟨c, w1, u, w2, hA', hB', hr⟩
  · obtain ⟨a, ha⟩ := hA w w; rw [hA'] at ha; cases ha
  · obtain ⟨a, ha⟩ := hB w1; rw [hB'] at ha; cases ha
  · rw [hr]; exact ⟨_, rfl⟩

theorem explainShape_errIn {E : Err → Prop} (hA : ∀ w0, ErrIn E (A w0)) (hB : ErrIn E B) :
    ErrIn E (explainShape A B g) := by
  intro w e h
  rcases explainShape_cases A B g w with ⟨e', w1, hA', hr⟩ | ⟨c, w1, e', w2, hA', hB', hr⟩ |
      ⟨c, w1, u, w2, hA', hB', hr⟩
  · rw [hr] at h; cases h; exact hA w w e (by rw [hA'])
  · rw [hr] at h; cases h; exact hB w1 e (by rw [hB'])
  · rw [hr] at h; cases h

/-- a successful shaped run returns the `importance_values` of the world it leaves behind -/
theorem explainShape_returns (w : World K) (d : Dict K) (h : (explainShape A B g w).1 = .ok d) :
    d = (explainShape A B g w).2.est.importanceValues := by
  rcases explainShape_cases A B g w with ⟨e', w1, hA', hr⟩ | ⟨c, w1, e', w2, hA', hB', hr⟩ |
      ⟨c, w1, u, w2, hA', hB', hr⟩
  · rw [hr] at h; cases h
  · rw [hr] at h; cases h
  · rw [hr] at h ⊢; cases h; rfl

end Shape

/-! ### the two explainers as instances of the shape -/

section Explain
variable [Add K] [Sub K] [Mul K] [Div K] [NatCast K] [OfNat K 0] [OfNat K 1] [RealOps K] [DecidableEq K]
variable {V Y : Type} (O : Oracles K V Y)

/-- the computation phase of `pfiExplainM` -/
def pfiComputeM (names : List Nat) (imputeM : List Nat → Nat → M K (List (Dict K))) (x : Inst V) (y : Y) (n : Nat)
    (w0 : World K) : M K (Option (Dict K)) :=
  if w0.seen ≥ 1 then
    M.bind (callModel O x) (fun orig =>
    M.bind (callLoss O y orig) (fun origLoss =>
    M.bind (M.mapM' (fun f =>
        M.bind (imputeM [f] n) (fun preds =>
        M.bind (M.mapM' (callLoss O y) preds) (fun losses =>
        M.pure (f, meanK losses - origLoss)))) names) (fun cs =>
    M.pure (some cs))))
  else M.pure none

def pfiCommit (names : List Nat) (c : Option (Dict K)) (e : Est K) : Est K :=
  match c with
  | some cs => commitImportance e names cs
  | none => e

/-- the optional storage update -/
def storageM (updateStorage : Bool) : M K Unit := if updateStorage then callStorage O else M.pure ()

theorem pfiExplainM_eq (names : List Nat) (imputeM : List Nat → Nat → M K (List (Dict K))) (x : Inst V) (y : Y)
    (n : Nat) (upd : Bool) :
    pfiExplainM O names imputeM x y n upd =
      explainShape (pfiComputeM O names imputeM x y n) (storageM O upd) (pfiCommit names) := rfl

/-- the computation phase of `sageExplainM` -/
def sageComputeM (names : List Nat) (imputeM : List Nat → Nat → M K (List (Dict K))) (x : Inst V) (y : Y) (n : Nat)
    (perm : List Nat) (w0 : World K) : M K (Option (K × MV K × Dict K × K × Dict K)) :=
  if w0.seen ≥ 1 then
    M.bind (callModel O x) (fun pred =>
    M.bind (callLoss O y pred) (fun ml =>
    M.bind (callLoss O y (w0.est.margPred.update pred).getNormalized) (fun margL =>
    M.bind (sageChainM O imputeM y n perm names margL) (fun contribs =>
    M.pure (some (ml, w0.est.margPred.update pred, (w0.est.margPred.update pred).getNormalized, margL, contribs))))))
  else M.pure none

def sageCommit (names : List Nat) (c : Option (K × MV K × Dict K × K × Dict K)) (e : Est K) : Est K :=
  match c with
  | some (ml, mp', mpn, margL, contribs) =>
    commitImportance { e with modelLoss := e.modelLoss.update ml, margPred := mp', margPredCur := mpn,
                              margLoss := e.margLoss.update margL } names contribs
  | none => e

theorem sageExplainM_eq (names : List Nat) (imputeM : List Nat → Nat → M K (List (Dict K))) (x : Inst V) (y : Y)
    (n : Nat) (perm : List Nat) (upd : Bool) :
    sageExplainM O names imputeM x y n perm upd =
      explainShape (sageComputeM O names imputeM x y n perm) (storageM O upd) (sageCommit names) := rfl

variable {O}
variable {names : List Nat} {imputeM : List Nat → Nat → M K (List (Dict K))} {x : Inst V} {y : Y} {n : Nat}

/-! #### `Frame` -/

theorem Frame.callModel (x : Inst V) : Frame (callModel O x) := Frame.call _ _
theorem Frame.callLoss (y : Y) (p : Dict K) : Frame (callLoss O y p) := Frame.call _ _
theorem Frame.callStorage : Frame (callStorage O) := Frame.call _ _
theorem Frame.callImputeUser (S : List Nat) (n : Nat) : Frame (callImputeUser O S n) := Frame.call _ _

theorem Frame.imputeMarginalJoint (rows : Nat → Inst V) (rowOf : Nat → Nat → Nat) (x : Inst V) (S : List Nat)
    (n : Nat) : Frame (imputeMarginalJoint O rows rowOf x S n) :=
  Frame.bind Frame.get (fun _ => Frame.mapM' (fun _ => Frame.callModel _) _)

theorem Frame.storageM (upd : Bool) : Frame (storageM O upd) := Frame.ite Frame.callStorage (Frame.pure _)

theorem Frame.sageChainM (himp : ∀ S n, Frame (imputeM S n)) :
    ∀ (perm notInS : List Nat) (prev : K), Frame (sageChainM O imputeM y n perm notInS prev)
  | [], _, _ => Frame.pure _
  | f :: rest, notInS, prev =>
    Frame.bind (himp _ _) (fun _ => Frame.bind (Frame.callLoss _ _) (fun fl =>
      Frame.bind (Frame.sageChainM himp rest (notInS.erase f) fl) (fun _ => Frame.pure _)))

theorem Frame.pfiComputeM (himp : ∀ S n, Frame (imputeM S n)) (w0 : World K) :
    Frame (pfiComputeM O names imputeM x y n w0) :=
  Frame.ite
    (Frame.bind (Frame.callModel _) (fun _ => Frame.bind (Frame.callLoss _ _) (fun _ =>
      Frame.bind (Frame.mapM' (fun _ => Frame.bind (himp _ _) (fun _ =>
        Frame.bind (Frame.mapM' (fun _ => Frame.callLoss _ _) _) (fun _ => Frame.pure _))) _)
      (fun _ => Frame.pure _))))
    (Frame.pure _)

theorem Frame.sageComputeM (himp : ∀ S n, Frame (imputeM S n)) (perm : List Nat) (w0 : World K) :
    Frame (sageComputeM O names imputeM x y n perm w0) :=
  Frame.ite
    (Frame.bind (Frame.callModel _) (fun _ => Frame.bind (Frame.callLoss _ _) (fun _ =>
      Frame.bind (Frame.callLoss _ _) (fun _ => Frame.bind (Frame.sageChainM himp _ _ _) (fun _ => Frame.pure _)))))
    (Frame.pure _)

/-! #### `Total` -/

/-- model, loss and storage callbacks never fail -/
structure OTotal (O : Oracles K V Y) : Prop where
  model : ∀ c x, ∃ p, O.model c x = .ok p
  loss : ∀ c y p, ∃ l, O.loss c y p = .ok l
  storage : ∀ c, ∃ u, O.storage c = .ok u

theorem Total.callModel (hO : OTotal O) (x : Inst V) : Total (callModel O x) := Total.call _ (fun c => hO.model c x)
theorem Total.callLoss (hO : OTotal O) (y : Y) (p : Dict K) : Total (callLoss O y p) :=
  Total.call _ (fun c => hO.loss c y p)
theorem Total.callStorage (hO : OTotal O) : Total (callStorage O) := Total.call _ hO.storage
theorem Total.callImputeUser (h : ∀ c S n, ∃ ps, O.impute c S n = .ok ps) (S : List Nat) (n : Nat) :
    Total (callImputeUser O S n) := Total.call _ (fun c => h c S n)

theorem Total.imputeMarginalJoint (hO : OTotal O) (rows : Nat → Inst V) (rowOf : Nat → Nat → Nat) (x : Inst V)
    (S : List Nat) (n : Nat) : Total (imputeMarginalJoint O rows rowOf x S n) :=
  Total.bind Total.get (fun _ => Total.mapM' (fun _ => Total.callModel hO _) _)

theorem Total.storageM (hO : OTotal O) (upd : Bool) : Total (storageM O upd) :=
  Total.ite (Total.callStorage hO) (Total.pure _)

theorem Total.sageChainM (hO : OTotal O) (himp : ∀ S n, Total (imputeM S n)) :
    ∀ (perm notInS : List Nat) (prev : K), Total (sageChainM O imputeM y n perm notInS prev)
  | [], _, _ => Total.pure _
  | f :: rest, notInS, prev =>
    Total.bind (himp _ _) (fun _ => Total.bind (Total.callLoss hO _ _) (fun fl =>
      Total.bind (Total.sageChainM hO himp rest (notInS.erase f) fl) (fun _ => Total.pure _)))

theorem Total.pfiComputeM (hO : OTotal O) (himp : ∀ S n, Total (imputeM S n)) (w0 : World K) :
    Total (pfiComputeM O names imputeM x y n w0) :=
  Total.ite
    (Total.bind (Total.callModel hO _) (fun _ => Total.bind (Total.callLoss hO _ _) (fun _ =>
      Total.bind (Total.mapM' (fun _ => Total.bind (himp _ _) (fun _ =>
        Total.bind (Total.mapM' (fun _ => Total.callLoss hO _ _) _) (fun _ => Total.pure _))) _)
      (fun _ => Total.pure _))))
    (Total.pure _)

theorem Total.sageComputeM (hO : OTotal O) (himp : ∀ S n, Total (imputeM S n)) (perm : List Nat) (w0 : World K) :
    Total (sageComputeM O names imputeM x y n perm w0) :=
  Total.ite
    (Total.bind (Total.callModel hO _) (fun _ => Total.bind (Total.callLoss hO _ _) (fun _ =>
      Total.bind (Total.callLoss hO _ _) (fun _ => Total.bind (Total.sageChainM hO himp _ _ _)
        (fun _ => Total.pure _)))))
    (Total.pure _)

/-! #### `ErrIn`: an error of the run is an error some callback returned -/

/-- `e` was returned by the model, the loss or the storage callback (for some counter value and arguments), or is an
    error of the imputer (`I`) -/
def OracleErrs (O : Oracles K V Y) (I : Err → Prop) (e : Err) : Prop :=
  (∃ c x, O.model c x = .error e) ∨ (∃ c y p, O.loss c y p = .error e) ∨ (∃ c, O.storage c = .error e) ∨ I e

variable {I : Err → Prop}

theorem ErrIn.callModel (x : Inst V) : ErrIn (OracleErrs O I) (callModel O x) :=
  ErrIn.call _ (fun c _ h => .inl ⟨c, x, h⟩)
theorem ErrIn.callLoss (y : Y) (p : Dict K) : ErrIn (OracleErrs O I) (callLoss O y p) :=
  ErrIn.call _ (fun c _ h => .inr (.inl ⟨c, y, p, h⟩))
theorem ErrIn.callStorage : ErrIn (OracleErrs O I) (callStorage O) :=
  ErrIn.call _ (fun c _ h => .inr (.inr (.inl ⟨c, h⟩)))
theorem ErrIn.callImputeUser (S : List Nat) (n : Nat) :
    ErrIn (fun e => ∃ c S n, O.impute c S n = .error e) (callImputeUser O S n) :=
  ErrIn.call _ (fun c _ h => ⟨c, S, n, h⟩)

/-- the library imputer fails only with an error of the model -/
theorem ErrIn.imputeMarginalJoint (rows : Nat → Inst V) (rowOf : Nat → Nat → Nat) (x : Inst V) (S : List Nat)
    (n : Nat) : ErrIn (fun e => ∃ c x, O.model c x = .error e) (imputeMarginalJoint O rows rowOf x S n) :=
  ErrIn.bind (ErrIn.get _) (fun _ => ErrIn.mapM' (fun _ => ErrIn.call _ (fun c _ h => ⟨c, _, h⟩)) _)

theorem ErrIn.storageM (upd : Bool) : ErrIn (OracleErrs O I) (storageM O upd) :=
  ErrIn.ite ErrIn.callStorage (ErrIn.pure _ _)

theorem ErrIn.sageChainM (himp : ∀ S n, ErrIn (OracleErrs O I) (imputeM S n)) :
    ∀ (perm notInS : List Nat) (prev : K), ErrIn (OracleErrs O I) (sageChainM O imputeM y n perm notInS prev)
  | [], _, _ => ErrIn.pure _ _
  | f :: rest, notInS, prev =>
    ErrIn.bind (himp _ _) (fun _ => ErrIn.bind (ErrIn.callLoss _ _) (fun fl =>
      ErrIn.bind (ErrIn.sageChainM himp rest (notInS.erase f) fl) (fun _ => ErrIn.pure _ _)))

theorem ErrIn.pfiComputeM (himp : ∀ S n, ErrIn (OracleErrs O I) (imputeM S n)) (w0 : World K) :
    ErrIn (OracleErrs O I) (pfiComputeM O names imputeM x y n w0) :=
  ErrIn.ite
    (ErrIn.bind (ErrIn.callModel _) (fun _ => ErrIn.bind (ErrIn.callLoss _ _) (fun _ =>
      ErrIn.bind (ErrIn.mapM' (fun _ => ErrIn.bind (himp _ _) (fun _ =>
        ErrIn.bind (ErrIn.mapM' (fun _ => ErrIn.callLoss _ _) _) (fun _ => ErrIn.pure _ _))) _)
      (fun _ => ErrIn.pure _ _))))
    (ErrIn.pure _ _)

theorem ErrIn.sageComputeM (himp : ∀ S n, ErrIn (OracleErrs O I) (imputeM S n)) (perm : List Nat) (w0 : World K) :
    ErrIn (OracleErrs O I) (sageComputeM O names imputeM x y n perm w0) :=
  ErrIn.ite
    (ErrIn.bind (ErrIn.callModel _) (fun _ => ErrIn.bind (ErrIn.callLoss _ _) (fun _ =>
      ErrIn.bind (ErrIn.callLoss _ _) (fun _ => ErrIn.bind (ErrIn.sageChainM himp _ _ _)
        (fun _ => ErrIn.pure _ _)))))
    (ErrIn.pure _ _)

/-! #### `Tracked`: fail-stop, the failing invocation is the last one logged -/

theorem Tracked.callModel (x : Inst V) : Tracked O (callModel O x) :=
  Tracked.call _ (fun _ _ h => ⟨x, h⟩) (fun _ a h => ⟨x, a, h⟩)
theorem Tracked.callLoss (y : Y) (p : Dict K) : Tracked O (callLoss O y p) :=
  Tracked.call _ (fun _ _ h => ⟨y, p, h⟩) (fun _ a h => ⟨y, p, a, h⟩)
theorem Tracked.callStorage : Tracked O (callStorage O) := Tracked.call _ (fun _ _ h => h) (fun _ a h => ⟨a, h⟩)
theorem Tracked.callImputeUser (S : List Nat) (n : Nat) : Tracked O (callImputeUser O S n) :=
  Tracked.call _ (fun _ _ h => h) (fun _ a h => ⟨a, h⟩)

theorem Tracked.imputeMarginalJoint (rows : Nat → Inst V) (rowOf : Nat → Nat → Nat) (x : Inst V) (S : List Nat)
    (n : Nat) : Tracked O (imputeMarginalJoint O rows rowOf x S n) :=
  Tracked.bind (Tracked.get _) (fun _ => Tracked.mapM' (fun _ => Tracked.callModel _) _)

theorem Tracked.storageM (upd : Bool) : Tracked O (storageM O upd) :=
  Tracked.ite Tracked.callStorage (Tracked.pure _ _)

theorem Tracked.sageChainM (himp : ∀ S n, Tracked O (imputeM S n)) :
    ∀ (perm notInS : List Nat) (prev : K), Tracked O (sageChainM O imputeM y n perm notInS prev)
  | [], _, _ => Tracked.pure _ _
  | f :: rest, notInS, prev =>
    Tracked.bind (himp _ _) (fun _ => Tracked.bind (Tracked.callLoss _ _) (fun fl =>
      Tracked.bind (Tracked.sageChainM himp rest (notInS.erase f) fl) (fun _ => Tracked.pure _ _)))

theorem Tracked.pfiComputeM (himp : ∀ S n, Tracked O (imputeM S n)) (w0 : World K) :
    Tracked O (pfiComputeM O names imputeM x y n w0) :=
  Tracked.ite
    (Tracked.bind (Tracked.callModel _) (fun _ => Tracked.bind (Tracked.callLoss _ _) (fun _ =>
      Tracked.bind (Tracked.mapM' (fun _ => Tracked.bind (himp _ _) (fun _ =>
        Tracked.bind (Tracked.mapM' (fun _ => Tracked.callLoss _ _) _) (fun _ => Tracked.pure _ _))) _)
      (fun _ => Tracked.pure _ _))))
    (Tracked.pure _ _)

theorem Tracked.sageComputeM (himp : ∀ S n, Tracked O (imputeM S n)) (perm : List Nat) (w0 : World K) :
    Tracked O (sageComputeM O names imputeM x y n perm w0) :=
  Tracked.ite
    (Tracked.bind (Tracked.callModel _) (fun _ => Tracked.bind (Tracked.callLoss _ _) (fun _ =>
      Tracked.bind (Tracked.callLoss _ _) (fun _ => Tracked.bind (Tracked.sageChainM himp _ _ _)
        (fun _ => Tracked.pure _ _)))))
    (Tracked.pure _ _)

/-- `Tracked` for the shape (the commit changes neither log nor counter) -/
theorem explainShape_tracked {A : World K → M K γ} {B : M K Unit} {g : γ → Est K → Est K}
    (hA : ∀ w0, Tracked O (A w0)) (hB : Tracked O B) : Tracked O (explainShape A B g) := by
  intro w
  have hT : Tracked O (M.bind (A w) (fun _ => B)) := Tracked.bind (hA w) (fun _ => hB)
  obtain ⟨evs, hl, hc, he, ho⟩ := hT w
  have key : (explainShape A B g w).2.log = (M.bind (A w) (fun _ => B) w).2.log ∧
      (explainShape A B g w).2.calls = (M.bind (A w) (fun _ => B) w).2.calls ∧
      (∀ e, (explainShape A B g w).1 = .error e → (M.bind (A w) (fun _ => B) w).1 = .error e) ∧
      (∀ d, (explainShape A B g w).1 = .ok d → ∃ u, (M.bind (A w) (fun _ => B) w).1 = .ok u) := by
    rcases explainShape_cases A B g w with ⟨e', w1, hA', hr⟩ | ⟨c, w1, e', w2, hA', hB', hr⟩ |
        ⟨c, w1, u, w2, hA', hB', hr⟩
    · rw [hr, M.bind_of_err hA']; exact ⟨rfl, rfl, fun _ h => (by cases h; rfl), fun _ h => (by cases h)⟩
    · rw [hr, M.bind_of_ok hA', hB']; exact ⟨rfl, rfl, fun _ h => (by cases h; rfl), fun _ h => (by cases h)⟩
    · rw [hr, M.bind_of_ok hA', hB']; exact ⟨rfl, rfl, fun _ h => (by cases h), fun _ _ => ⟨u, rfl⟩⟩
  refine ⟨evs, key.1.trans hl, key.2.1.trans hc, fun e h => he e (key.2.2.1 e h), fun d h => ?_⟩
  obtain ⟨u, hu⟩ := key.2.2.2 d h
  exact ho u hu

/-! #### `Emit`: the exact events of a run whose callbacks do not fail -/

/-- events of the computation phase of PFI on `d` features with `n` inner samples (library imputer) -/
def pfiEvents (d n : Nat) : List Ev :=
  [.model, .loss] ++ (List.replicate d (List.replicate n Ev.model ++ List.replicate n Ev.loss)).flatten

/-- events of the computation phase of SAGE for a permutation of length `d` (library imputer) -/
def sageEvents (d n : Nat) : List Ev :=
  [.model, .loss, .loss] ++ (List.replicate d (List.replicate n Ev.model ++ [Ev.loss])).flatten

/-- the events of the optional storage update -/
def storageEvents (updateStorage : Bool) : List Ev := if updateStorage then [.storage] else []

theorem storageEvents_count_model (u : Bool) : (storageEvents u).count .model = 0 := by cases u <;> rfl

theorem count_flatten_replicate (ev : Ev) (E : List Ev) (d : Nat) :
    (List.replicate d E).flatten.count ev = d * E.count ev := by
  induction d with
  | zero => simp
  | succ d ih => rw [List.replicate_succ, List.flatten_cons, List.count_append, ih, Nat.succ_mul, Nat.add_comm]

theorem pfiEvents_count_model (d n : Nat) : (pfiEvents d n).count .model = 1 + d * n := by
  unfold pfiEvents
  rw [List.count_append, count_flatten_replicate, List.count_append, List.count_replicate, List.count_replicate]
  simp
theorem pfiEvents_count_storage (d n : Nat) : (pfiEvents d n).count .storage = 0 := by
  unfold pfiEvents
  rw [List.count_append, count_flatten_replicate, List.count_append, List.count_replicate, List.count_replicate]
  simp
theorem sageEvents_count_model (d n : Nat) : (sageEvents d n).count .model = 1 + d * n := by
  unfold sageEvents
  rw [List.count_append, count_flatten_replicate, List.count_append, List.count_replicate]
  simp
theorem sageEvents_count_storage (d n : Nat) : (sageEvents d n).count .storage = 0 := by
  unfold sageEvents
  rw [List.count_append, count_flatten_replicate, List.count_append, List.count_replicate]
  simp

theorem Emit.callModel (hO : OTotal O) (x : Inst V) : Emit (callModel O x) [.model] (fun _ => True) :=
  Emit.call _ (fun c => hO.model c x)
theorem Emit.callLoss (hO : OTotal O) (y : Y) (p : Dict K) : Emit (callLoss O y p) [.loss] (fun _ => True) :=
  Emit.call _ (fun c => hO.loss c y p)
theorem Emit.callStorage (hO : OTotal O) : Emit (callStorage O) [.storage] (fun _ => True) :=
  Emit.call _ hO.storage

/-- the library imputer: exactly `n` model evaluations, `n` predictions -/
theorem Emit.imputeMarginalJoint (hO : OTotal O) (rows : Nat → Inst V) (rowOf : Nat → Nat → Nat) (x : Inst V)
    (S : List Nat) (n : Nat) :
    Emit (imputeMarginalJoint O rows rowOf x S n) (List.replicate n .model) (fun ps => ps.length = n) := by
  intro w
  have h := Emit.mapM' (fun j => Emit.callModel hO (overlay x S (rows (rowOf w.calls j)))) (List.range n) w
  have e : Ixai.imputeMarginalJoint O rows rowOf x S n w =
      M.mapM' (fun j => Ixai.callModel O (overlay x S (rows (rowOf w.calls j)))) (List.range n) w := rfl
  rw [e]
  simpa [List.length_range, List.flatten_replicate_singleton] using h

theorem Emit.storageM (hO : OTotal O) (upd : Bool) :
    Emit (storageM O upd) (if upd then [.storage] else []) (fun _ => True) := by
  cases upd
  · exact (Emit.pure ()).weaken rfl (fun _ _ => trivial)
  · exact Emit.callStorage hO

theorem Emit.lossesM (hO : OTotal O) (y : Y) (preds : List (Dict K)) :
    Emit (M.mapM' (Ixai.callLoss O y) preds) (List.replicate preds.length .loss) (fun _ => True) :=
  (Emit.mapM' (fun p => Emit.callLoss hO y p) preds).weaken List.flatten_replicate_singleton (fun _ _ => trivial)

theorem Emit.sageChainM (hO : OTotal O)
    (himp : ∀ S, Emit (imputeM S n) (List.replicate n .model) (fun ps => ps.length = n)) :
    ∀ (perm notInS : List Nat) (prev : K), Emit (sageChainM O imputeM y n perm notInS prev)
      (List.replicate perm.length (List.replicate n Ev.model ++ [Ev.loss])).flatten (fun _ => True)
  | [], _, _ => (Emit.pure _).weaken rfl (fun _ _ => trivial)
  | f :: rest, notInS, prev => by
    refine (Emit.bind (himp _) (fun _ _ => Emit.bind (Emit.callLoss hO _ _) (fun fl _ =>
      Emit.bind (Emit.sageChainM hO himp rest (notInS.erase f) fl) (fun tl _ =>
        (Emit.pure ((f, prev - fl) :: tl)).weaken rfl (fun _ _ => trivial))))).weaken ?_ (fun _ h => h)
    simp [List.replicate_succ]

theorem pfiComputeM_pos {w0 : World K} (h : 1 ≤ w0.seen) :
    pfiComputeM O names imputeM x y n w0 =
      M.bind (callModel O x) (fun orig =>
      M.bind (callLoss O y orig) (fun origLoss =>
      M.bind (M.mapM' (fun f =>
          M.bind (imputeM [f] n) (fun preds =>
          M.bind (M.mapM' (callLoss O y) preds) (fun losses =>
          M.pure (f, meanK losses - origLoss)))) names) (fun cs =>
      M.pure (some cs)))) := if_pos h

theorem pfiComputeM_zero {w0 : World K} (h : w0.seen = 0) :
    pfiComputeM O names imputeM x y n w0 = M.pure none := if_neg (by omega)

theorem sageComputeM_pos {perm : List Nat} {w0 : World K} (h : 1 ≤ w0.seen) :
    sageComputeM O names imputeM x y n perm w0 =
      M.bind (callModel O x) (fun pred =>
      M.bind (callLoss O y pred) (fun ml =>
      M.bind (callLoss O y (w0.est.margPred.update pred).getNormalized) (fun margL =>
      M.bind (sageChainM O imputeM y n perm names margL) (fun contribs =>
      M.pure (some (ml, w0.est.margPred.update pred, (w0.est.margPred.update pred).getNormalized, margL,
        contribs)))))) := if_pos h

theorem sageComputeM_zero {perm : List Nat} {w0 : World K} (h : w0.seen = 0) :
    sageComputeM O names imputeM x y n perm w0 = M.pure none := if_neg (by omega)

theorem Emit.pfiComputeM (hO : OTotal O)
    (himp : ∀ S, Emit (imputeM S n) (List.replicate n .model) (fun ps => ps.length = n))
    {w0 : World K} (h : 1 ≤ w0.seen) :
    Emit (pfiComputeM O names imputeM x y n w0) (pfiEvents names.length n) (fun _ => True) := by
  rw [pfiComputeM_pos h]
  refine (Emit.bind (Emit.callModel hO _) (fun orig _ => Emit.bind (Emit.callLoss hO _ _) (fun origLoss _ =>
    Emit.bind (Emit.mapM' (E := List.replicate n Ev.model ++ (List.replicate n Ev.loss ++ [])) (P := fun _ => True)
      (fun f => Emit.bind (himp [f]) (fun preds hp => Emit.bind
        ((Emit.lossesM hO y preds).weaken (by rw [hp]) (fun _ h => h))
        (fun losses _ => (Emit.pure (f, meanK losses - origLoss)).weaken rfl (fun _ _ => trivial))))
      names)
    (fun cs _ => (Emit.pure (some cs)).weaken rfl (fun _ _ => trivial))))).weaken ?_ (fun _ h => h)
  simp [pfiEvents]

theorem Emit.sageComputeM (hO : OTotal O)
    (himp : ∀ S, Emit (imputeM S n) (List.replicate n .model) (fun ps => ps.length = n))
    {perm : List Nat} {w0 : World K} (h : 1 ≤ w0.seen) :
    Emit (sageComputeM O names imputeM x y n perm w0) (sageEvents perm.length n) (fun _ => True) := by
  rw [sageComputeM_pos h]
  refine (Emit.bind (Emit.callModel hO _) (fun pred _ => Emit.bind (Emit.callLoss hO _ _) (fun ml _ =>
    Emit.bind (Emit.callLoss hO _ _) (fun margL _ => Emit.bind (Emit.sageChainM hO himp perm names margL)
      (fun cs _ => (Emit.pure _).weaken rfl (fun _ _ => trivial)))))).weaken ?_ (fun _ h => h)
  simp [sageEvents]

/-- a shaped run whose phases do not fail: result, estimates, `seen`, and the log as that of `A; B` -/
theorem explainShape_ok_run {A : World K → M K γ} {B : M K Unit} {g : γ → Est K → Est K} {w : World K} {c : γ}
    (hAF : Frame (A w)) (hBF : Frame B) (hA : (A w w).1 = .ok c) (hB : Total B) :
    (explainShape A B g w).1 = .ok (g c w.est).importanceValues ∧
    (explainShape A B g w).2.est = g c w.est ∧ (explainShape A B g w).2.seen = w.seen + 1 ∧
    (explainShape A B g w).2.log = (M.bind (A w) (fun _ => B) w).2.log := by
  rcases explainShape_cases A B g w with ⟨e', w1, hA', hr⟩ | ⟨c', w1, e', w2, hA', hB', hr⟩ |
      ⟨c', w1, u, w2, hA', hB', hr⟩
  · rw [hA'] at hA; cases hA
  · obtain ⟨u, hu⟩ := hB w1; rw [hB'] at hu; cases hu
  · have h1 := hAF w; rw [hA'] at h1 hA; cases hA
    have h2 := hBF w1; rw [hB'] at h2
    have he : w2.est = w.est := h2.1.trans h1.1
    have hs : w2.seen = w.seen := h2.2.trans h1.2
    rw [hr, M.bind_of_ok hA', hB']
    simp only [he, hs, and_self]

/-- a shaped run whose phases emit `EA` and `EB` -/
theorem explainShape_emit {A : World K → M K γ} {B : M K Unit} {g : γ → Est K → Est K} {w : World K}
    {EA EB : List Ev} {P : γ → Prop} {Q : Unit → Prop}
    (hAF : Frame (A w)) (hBF : Frame B) (hA : Emit (A w) EA P) (hB : Emit B EB Q) :
    (∃ d, (explainShape A B g w).1 = .ok d) ∧ (explainShape A B g w).2.seen = w.seen + 1 ∧
    (explainShape A B g w).2.log = w.log ++ (EA ++ EB) := by
  obtain ⟨c, hc, -, -⟩ := hA w
  obtain ⟨h1, -, h3, h4⟩ := explainShape_ok_run (g := g) hAF hBF hc hB.total
  obtain ⟨b, -, hl, -⟩ := (Emit.bind hA (fun _ _ => hB)) w
  exact ⟨⟨_, h1⟩, h3, h4.trans hl⟩

/-! #### `Returns`: deterministic callbacks, agreement with the pure layer -/

/-- deterministic callbacks that never fail -/
structure ODet (O : Oracles K V Y) (model : Inst V → Dict K) (loss : Y → Dict K → K) : Prop where
  model : ∀ c x, O.model c x = .ok (model x)
  loss : ∀ c y p, O.loss c y p = .ok (loss y p)
  storage : ∀ c, O.storage c = .ok ()

theorem ODet.total {model : Inst V → Dict K} {loss : Y → Dict K → K} (h : ODet O model loss) : OTotal O :=
  ⟨fun c x => ⟨_, h.model c x⟩, fun c y p => ⟨_, h.loss c y p⟩, fun c => ⟨_, h.storage c⟩⟩

variable {model : Inst V → Dict K} {loss : Y → Dict K → K} {imp : List Nat → List (Dict K)}

theorem Returns.callModel (hO : ODet O model loss) (x : Inst V) : Returns (callModel O x) (model x) :=
  Returns.call _ (fun c => hO.model c x)
theorem Returns.callLoss (hO : ODet O model loss) (y : Y) (p : Dict K) : Returns (callLoss O y p) (loss y p) :=
  Returns.call _ (fun c => hO.loss c y p)

theorem Returns.callImputeUser {S : List Nat} {n : Nat} {ps : List (Dict K)} (h : ∀ c, O.impute c S n = .ok ps) :
    Returns (callImputeUser O S n) ps := Returns.call _ h

/-- the library imputer with a deterministic model and row choices that do not depend on the invocation counter is
    `imputeJoint` of `Model/Imputer.lean` -/
theorem Returns.imputeMarginalJoint (hO : ODet O model loss) (rows : Nat → Inst V) (r : Nat → Nat) (x : Inst V)
    (S : List Nat) (n : Nat) :
    Returns (imputeMarginalJoint O rows (fun _ j => r j) x S n) (imputeJoint model rows S x n r) := by
  intro w
  have h := Returns.mapM' (g := fun j => model (overlay x S (rows (r j))))
    (fun j => Returns.callModel hO (overlay x S (rows (r j)))) (List.range n) w
  have e : Ixai.imputeMarginalJoint O rows (fun _ j => r j) x S n w =
      M.mapM' (fun j => Ixai.callModel O (overlay x S (rows (r j)))) (List.range n) w := rfl
  rw [e, h]; simp [imputeJoint, jointInputs, List.map_map, Function.comp_def]

theorem Returns.sageChainM (hO : ODet O model loss) (himp : ∀ S, Returns (imputeM S n) (imp S)) :
    ∀ (perm notInS : List Nat) (prev : K),
      Returns (sageChainM O imputeM y n perm notInS prev) (sageChain loss y imp perm notInS prev)
  | [], _, _ => Returns.pure _
  | f :: rest, notInS, prev =>
    Returns.bind (himp _) (Returns.bind (Returns.callLoss hO _ _)
      (Returns.bind (Returns.sageChainM hO himp rest (notInS.erase f) _) (Returns.pure _)))

theorem Returns.pfiComputeM (hO : ODet O model loss) (himp : ∀ S, Returns (imputeM S n) (imp S))
    {w0 : World K} (h : 1 ≤ w0.seen) :
    Returns (pfiComputeM O names imputeM x y n w0) (some (pfiContribs names model loss x y imp)) := by
  rw [pfiComputeM_pos h]
  refine Returns.bind (Returns.callModel hO _) (Returns.bind (Returns.callLoss hO _ _)
    (Returns.bind (Returns.mapM' (g := fun f => (f, meanK ((imp [f]).map (loss y)) - loss y (model x)))
      (fun f => ?_) names) (Returns.pure _)))
  refine Returns.bind (himp _) ?_
  refine Returns.bind (Returns.mapM' (fun p => Returns.callLoss hO y p) _) ?_
  exact Returns.pure _

theorem Returns.sageComputeM (hO : ODet O model loss) (himp : ∀ S, Returns (imputeM S n) (imp S))
    {perm : List Nat} {w0 : World K} (h : 1 ≤ w0.seen) :
    Returns (sageComputeM O names imputeM x y n perm w0)
      (some (loss y (model x), w0.est.margPred.update (model x), (w0.est.margPred.update (model x)).getNormalized,
        loss y (w0.est.margPred.update (model x)).getNormalized,
        sageChain loss y imp perm names (loss y (w0.est.margPred.update (model x)).getNormalized))) := by
  rw [sageComputeM_pos h]
  exact Returns.bind (Returns.callModel hO _) (Returns.bind (Returns.callLoss hO _ _)
    (Returns.bind (Returns.callLoss hO _ _) (Returns.bind (Returns.sageChainM hO himp _ _ _) (Returns.pure _))))

end Explain

end Ixai
