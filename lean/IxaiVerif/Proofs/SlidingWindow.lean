/-
  Helper lemmas for the sliding-window tracker model (`Model/SlidingWindow.lean`), used by C11.
  `SW.run k vs` is the left fold of `SW.update` from `SW.init k`.  The invariant `SW.Inv` describes the ring
  buffer explicitly as a function of the stream: before the buffer is full it is the stream followed by `none`s,
  afterwards it is a rotation `A ++ B` of the last `k` values `B ++ A`, the write position being `|A|`.
-/
import IxaiVerif.Model.SlidingWindow
import IxaiVerif.Proofs.Tracker
import Mathlib.Data.List.Perm.Basic
import Mathlib.Algebra.BigOperators.Group.List.Basic

set_option linter.unusedSectionVars false

namespace Ixai
namespace SW
variable {K : Type}

/-- running the tracker over a stream -/
def run (k : Nat) (vs : List K) : SW K := vs.foldl SW.update (SW.init k)

/-- the last `min vs.length k` values of the stream -/
def lastK (k : Nat) (vs : List K) : List K := vs.drop (vs.length - k)

theorem run_snoc (k : Nat) (vs : List K) (v : K) : run k (vs ++ [v]) = (run k vs).update v := by
  simp [run, List.foldl_append]

theorem lastK_length (k : Nat) (vs : List K) : (lastK k vs).length = min vs.length k := by
  simp only [lastK, List.length_drop]; omega

theorem lastK_of_le (k : Nat) (vs : List K) (h : vs.length ≤ k) : lastK k vs = vs := by
  simp [lastK, Nat.sub_eq_zero_of_le h]

theorem lastK_snoc_of_lt (k : Nat) (vs : List K) (v : K) (h : vs.length < k) :
    lastK k (vs ++ [v]) = vs ++ [v] := by
  apply lastK_of_le; simp; omega

/-- once `k` values have been seen, a new value pushes the oldest of the last `k` out -/
theorem lastK_snoc_of_ge (k : Nat) (vs : List K) (v : K) (h : k ≤ vs.length) (hk : 1 ≤ k) :
    lastK k (vs ++ [v]) = (lastK k vs).tail ++ [v] := by
  simp only [lastK, List.length_append, List.length_singleton, List.tail_drop]
  have e : vs.length + 1 - k = vs.length - k + 1 := by omega
  rw [e, List.drop_append_of_le_length (by omega)]

theorem filterMap_id_map_some (l : List K) : (l.map some).filterMap id = l := by
  simp

theorem filterMap_id_replicate_none (n : Nat) : (List.replicate n (none : Option K)).filterMap id = [] := by
  simp

/-- explicit description of the state after the stream `vs` -/
def Inv (k : Nat) (vs : List K) (s : SW K) : Prop :=
  s.k = k ∧
  ((vs.length < k ∧ s.window = vs.map some ++ List.replicate (k - vs.length) none ∧ s.pos = vs.length) ∨
   (k ≤ vs.length ∧ ∃ A B : List K, B ++ A = lastK k vs ∧ s.window = (A ++ B).map some ∧ s.pos = A.length))

theorem set_append_cons {α : Type} (l : List α) (b x : α) (r : List α) (n : Nat) (h : n = l.length) :
    (l ++ b :: r).set n x = l ++ x :: r := by
  subst h
  induction l with
  | nil => rfl
  | cons a l ih => simp [ih]

theorem update_of_lt (s : SW K) (v : K) (h : ¬ s.pos ≥ s.k) :
    s.update v = { s with window := s.window.set s.pos (some v), pos := s.pos + 1 } := by
  simp only [SW.update, if_neg h]

theorem update_of_ge (s : SW K) (v : K) (h : s.pos ≥ s.k) :
    s.update v = { s with window := s.window.set 0 (some v), pos := 1 } := by
  simp only [SW.update, if_pos h]

theorem inv_init (k : Nat) (hk : 1 ≤ k) : Inv k ([] : List K) (SW.init k) := by
  refine ⟨rfl, Or.inl ⟨by simpa using Nat.lt_of_lt_of_le Nat.zero_lt_one hk, by simp [SW.init], rfl⟩⟩

theorem inv_update (k : Nat) (hk : 1 ≤ k) (vs : List K) (s : SW K) (v : K) (h : Inv k vs s) :
    Inv k (vs ++ [v]) (s.update v) := by
  obtain ⟨hsk, h⟩ := h
  refine ⟨by simp only [SW.update, hsk], ?_⟩
  rcases h with ⟨hlt, hw, hp⟩ | ⟨hge, A, B, hBA, hw, hp⟩
  · -- the buffer is not yet full
    have hpk : ¬ s.pos ≥ s.k := by rw [hp, hsk]; omega
    obtain ⟨j, hj⟩ : ∃ j, k - vs.length = j + 1 := ⟨k - vs.length - 1, by omega⟩
    have hwin : (s.update v).window = (vs ++ [v]).map some ++ List.replicate j none := by
      rw [update_of_lt s v hpk]
      simp only [hw, hj, List.replicate_succ]
      rw [set_append_cons _ _ _ _ _ (by simp [hp])]
      simp
    have hpos : (s.update v).pos = (vs ++ [v]).length := by
      rw [update_of_lt s v hpk]; simp [hp]
    by_cases hfull : vs.length + 1 < k
    · left
      refine ⟨by simpa using hfull, ?_, hpos⟩
      rw [hwin]; congr 2; simp; omega
    · right
      have hj0 : j = 0 := by omega
      refine ⟨by simp; omega, vs ++ [v], [], ?_, ?_, hpos⟩
      · rw [lastK_snoc_of_lt k vs v hlt]; simp
      · rw [hwin, hj0]; simp
  · -- the buffer is full: `B ++ A` are the last `k` values, the window is `A ++ B`
    have hlen : B.length + A.length = k := by
      have := congrArg List.length hBA
      rw [lastK_length, List.length_append] at this; omega
    right
    refine ⟨by simp; omega, ?_⟩
    rw [lastK_snoc_of_ge k vs v hge hk, ← hBA]
    by_cases hwrap : s.pos ≥ s.k
    · -- wrap: `B = []`, the oldest value `a` at slot 0 is overwritten
      have hB : B = [] := by
        apply List.eq_nil_of_length_eq_zero; rw [hp, hsk] at hwrap; omega
      subst hB
      rcases A with _ | ⟨a, A⟩
      · simp at hlen; omega
      · rw [update_of_ge s v hwrap]
        refine ⟨[v], A, by simp, ?_, by simp⟩
        simp [hw]
    · -- no wrap: the oldest value is the head of `B`
      rcases B with _ | ⟨b, B⟩
      · exfalso; apply hwrap; rw [hp, hsk]; simp at hlen; omega
      · rw [update_of_lt s v hwrap]
        refine ⟨A ++ [v], B, by simp, ?_, by simp [hp]⟩
        simp only [hw, List.map_append, List.map_cons]
        rw [set_append_cons _ _ _ _ _ (by simp [hp])]
        simp

theorem run_inv (k : Nat) (hk : 1 ≤ k) (vs : List K) : Inv k vs (run k vs) := by
  induction vs using List.reverseRecOn with
  | nil => exact inv_init k hk
  | append_singleton vs v ih => rw [run_snoc]; exact inv_update k hk vs _ v ih

/-- the present entries are, up to order, the last `min n k` values of the stream -/
theorem present_perm (k : Nat) (hk : 1 ≤ k) (vs : List K) : (run k vs).present.Perm (lastK k vs) := by
  obtain ⟨_, h⟩ := run_inv k hk vs
  rcases h with ⟨hlt, hw, _⟩ | ⟨_, A, B, hBA, hw, _⟩
  · rw [lastK_of_le k vs (Nat.le_of_lt hlt)]
    simp only [SW.present, hw, List.filterMap_append, filterMap_id_map_some, filterMap_id_replicate_none,
      List.append_nil]
    exact List.Perm.refl _
  · rw [← hBA]
    simp only [SW.present, hw, filterMap_id_map_some]
    exact List.perm_append_comm

theorem run_k (k : Nat) (hk : 1 ≤ k) (vs : List K) : (run k vs).k = k := (run_inv k hk vs).1

theorem run_window_length (k : Nat) (hk : 1 ≤ k) (vs : List K) : (run k vs).window.length = k := by
  obtain ⟨_, h⟩ := run_inv k hk vs
  rcases h with ⟨hlt, hw, _⟩ | ⟨_, A, B, hBA, hw, _⟩
  · rw [hw]; simp; omega
  · have := congrArg List.length hBA
    rw [lastK_length, List.length_append] at this
    rw [hw]; simp; omega

theorem run_pos_le (k : Nat) (hk : 1 ≤ k) (vs : List K) : (run k vs).pos ≤ k := by
  obtain ⟨_, h⟩ := run_inv k hk vs
  rcases h with ⟨hlt, _, hp⟩ | ⟨_, A, B, hBA, _, hp⟩
  · omega
  · have := congrArg List.length hBA
    rw [lastK_length, List.length_append] at this
    omega

end SW
end Ixai
