/-
  Helper lemmas for the pure explainer model (`Model/Explainer.lean`): streams of `explain_one` calls, the SAGE
  permutation chain, what `commitImportance` does per feature. Used by C01, C02, C03, C16a.
-/
import IxaiVerif.Model.Explainer
import IxaiVerif.Proofs.MultiValue
import Mathlib.Data.List.Perm.Basic
import Mathlib.Data.List.Nodup
import Mathlib.Data.List.Lattice
import Mathlib.Algebra.BigOperators.Group.List.Basic

set_option linter.unusedSectionVars false

namespace Ixai
open Ixai.Gen

/-! ### streams -/

/-- one `explain_one` call of IncrementalSage: the observation, the feature order drawn for it and the behaviour of
    the imputer during the call (storage content and random draws absorbed) -/
structure SageObs (K V Y : Type) where
  x : Inst V
  y : Y
  perm : List Nat
  imp : List Nat → List (Dict K)

/-- one `explain_one` call of IncrementalPFI -/
structure PfiObs (K V Y : Type) where
  x : Inst V
  y : Y
  imp : List Nat → List (Dict K)

section Defs
variable {K : Type} [Field K] [CharZero K] [RealOps K] [DecidableEq K] {V Y : Type}

def sageStepObs (names : List Nat) (model : Inst V → Dict K) (loss : Y → Dict K → K) (first : Bool)
    (e : Est K) (s : SageObs K V Y) : Est K :=
  sageStep names model loss e first s.x s.y s.perm s.imp

/-- the estimates after a stream of `explain_one` calls: `first := true` exactly for the first call -/
def runSage (names : List Nat) (model : Inst V → Dict K) (loss : Y → Dict K → K) (alpha : Option K) :
    List (SageObs K V Y) → Est K
  | [] => Est.init alpha
  | s :: rest => rest.foldl (sageStepObs names model loss false) (sageStepObs names model loss true (Est.init alpha) s)

def pfiStepObs (names : List Nat) (model : Inst V → Dict K) (loss : Y → Dict K → K) (first : Bool)
    (e : Est K) (s : PfiObs K V Y) : Est K :=
  pfiStep names model loss e first s.x s.y s.imp

def runPFI (names : List Nat) (model : Inst V → Dict K) (loss : Y → Dict K → K) (alpha : Option K) :
    List (PfiObs K V Y) → Est K
  | [] => Est.init alpha
  | s :: rest => rest.foldl (pfiStepObs names model loss false) (pfiStepObs names model loss true (Est.init alpha) s)

/-- the squared deviations fed to a variance tracker: each contribution against the estimate *after* it was updated
    with that contribution -/
def devSeries (t : Tr K) : List K → List K
  | [] => []
  | c :: cs => sq (c - (t.update c).get) :: devSeries (t.update c) cs

/-- the dicts the variance trackers are updated with, along a stream of contribution dicts -/
def varDicts (names : List Nat) (imp : MV K) : List (Dict K) → List (Dict K)
  | [] => []
  | c :: cs => (names.map (fun f => (f, sq (c.getD f 0 - (imp.update c).getKey f)))) :: varDicts names (imp.update c) cs

theorem runSage_cons (names : List Nat) (model : Inst V → Dict K) (loss : Y → Dict K → K) (alpha : Option K)
    (s : SageObs K V Y) (rest : List (SageObs K V Y)) :
    runSage names model loss alpha (s :: rest) = rest.foldl (sageStepObs names model loss false) (Est.init alpha) := by
  simp [runSage, sageStepObs, sageStep]

theorem runPFI_cons (names : List Nat) (model : Inst V → Dict K) (loss : Y → Dict K → K) (alpha : Option K)
    (s : PfiObs K V Y) (rest : List (PfiObs K V Y)) :
    runPFI names model loss alpha (s :: rest) = rest.foldl (pfiStepObs names model loss false) (Est.init alpha) := by
  simp [runPFI, pfiStepObs, pfiStep]

end Defs

/-! ### `commitImportance` -/
section Commit
variable {K : Type} [Field K] [CharZero K] [RealOps K] [DecidableEq K]

@[simp] theorem commit_importance (e : Est K) (names : List Nat) (c : Dict K) :
    (commitImportance e names c).importance = e.importance.update c := rfl
@[simp] theorem commit_variance (e : Est K) (names : List Nat) (c : Dict K) :
    (commitImportance e names c).variance =
      e.variance.update (names.map (fun f => (f, sq (c.getD f 0 - (e.importance.update c).getKey f)))) := rfl
@[simp] theorem commit_margLoss (e : Est K) (names : List Nat) (c : Dict K) :
    (commitImportance e names c).margLoss = e.margLoss := rfl
@[simp] theorem commit_modelLoss (e : Est K) (names : List Nat) (c : Dict K) :
    (commitImportance e names c).modelLoss = e.modelLoss := rfl
@[simp] theorem commit_margPred (e : Est K) (names : List Nat) (c : Dict K) :
    (commitImportance e names c).margPred = e.margPred := rfl
@[simp] theorem commit_margPredCur (e : Est K) (names : List Nat) (c : Dict K) :
    (commitImportance e names c).margPredCur = e.margPredCur := rfl

/-- per-key view of a stream of updates in which every update contains the key -/
theorem MV.foldl_virt (cs : List (Dict K)) (m : MV K) (f : Nat) (hf : ∀ c ∈ cs, f ∈ c.keys) :
    (cs.foldl MV.update m).virt f = (cs.map (fun c => c.getD f 0)).foldl Tr.update (m.virt f) := by
  induction cs generalizing m with
  | nil => rfl
  | cons c cs ih =>
    rw [List.foldl_cons, ih _ (fun c' hc' => hf c' (by simp [hc'])), MV.virt_update m c f (Or.inl (hf c (by simp)))]
    rfl

theorem varDicts_keys (names : List Nat) (imp : MV K) (cs : List (Dict K)) :
    ∀ d ∈ varDicts names imp cs, Dict.keys d = names := by
  induction cs generalizing imp with
  | nil => simp [varDicts]
  | cons c cs ih =>
    intro d hd
    simp only [varDicts, List.mem_cons] at hd
    rcases hd with rfl | hd
    · exact Dict.keys_tabulate names _
    · exact ih _ d hd

/-- per key, the variance updates are the squared deviations from the freshly updated estimate -/
theorem varDicts_getD (names : List Nat) (imp : MV K) (cs : List (Dict K)) (f : Nat) (hfn : f ∈ names)
    (h0 : imp.base.get = 0) (hf : ∀ c ∈ cs, f ∈ c.keys) :
    (varDicts names imp cs).map (fun d => d.getD f 0) = devSeries (imp.virt f) (cs.map (fun c => c.getD f 0)) := by
  induction cs generalizing imp with
  | nil => rfl
  | cons c cs ih =>
    have hfc : f ∈ c.keys := hf c (by simp)
    simp only [varDicts, List.map_cons, devSeries]
    rw [ih (imp.update c) (by simpa using h0) (fun c' hc' => hf c' (by simp [hc'])),
      Dict.getD_tabulate_multivalue names _ f 0 hfn, MV.getKey_eq_virt _ f (by simpa using h0),
      MV.virt_update imp c f (Or.inl hfc)]

theorem devSeries_length (t : Tr K) (cs : List K) : (devSeries t cs).length = cs.length := by
  induction cs generalizing t with
  | nil => rfl
  | cons c cs ih => simp [devSeries, ih]

theorem devSeries_append (t : Tr K) (cs ds : List K) :
    devSeries t (cs ++ ds) = devSeries t cs ++ devSeries (cs.foldl Tr.update t) ds := by
  induction cs generalizing t with
  | nil => rfl
  | cons c cs ih => simp [devSeries, ih]

end Commit

/-! ### the SAGE permutation chain -/
section Chain
variable {K : Type} [Field K] [CharZero K] [RealOps K] [DecidableEq K] {Y : Type}

theorem sageChain_keys_explainer (loss : Y → Dict K → K) (y : Y) (imp : List Nat → List (Dict K))
    (perm notInS : List Nat) (prev : K) : Dict.keys (sageChain loss y imp perm notInS prev) = perm := by
  induction perm generalizing notInS prev with
  | nil => rfl
  | cons f rest ih => simp [sageChain, ih]

/-- telescoping: the contributions along a (non-empty) order add up to the starting loss minus the loss of the last
    coalition, whose imputed features are `notInS` minus everything in the order -/
theorem sageChain_sum_explainer (loss : Y → Dict K → K) (y : Y) (imp : List Nat → List (Dict K))
    (perm notInS : List Nat) (prev : K) (hne : perm ≠ []) :
    ((sageChain loss y imp perm notInS prev).map Prod.snd).sum =
      prev - loss y (meanOutput (imp (notInS.diff perm))) := by
  induction perm generalizing notInS prev with
  | nil => exact absurd rfl hne
  | cons f rest ih =>
    by_cases hr : rest = []
    · subst hr; simp [sageChain]
    · simp only [sageChain, List.map_cons, List.sum_cons, ih _ _ hr, List.diff_cons]; ring

theorem diff_perm_eq_nil (names perm : List Nat) (hp : perm.Perm names) (hn : names.Nodup) : names.diff perm = [] := by
  rw [List.Perm.diff_left names hp, hn.sdiff_eq_filter]
  simp

/-- … so for a permutation of the feature names the last coalition is the full one (nothing imputed) -/
theorem sageChain_sum_perm (loss : Y → Dict K → K) (y : Y) (imp : List Nat → List (Dict K))
    (names perm : List Nat) (prev : K) (hne : names ≠ []) (hp : perm.Perm names) (hn : names.Nodup) :
    (names.map (fun f => Dict.getD (sageChain loss y imp perm names prev) f 0)).sum =
      prev - loss y (meanOutput (imp [])) := by
  have hpne : perm ≠ [] := by
    intro h; subst h; exact hne hp.symm.eq_nil
  have hk := sageChain_keys_explainer loss y imp perm names prev
  have hnd : (Dict.keys (sageChain loss y imp perm names prev)).Nodup := by
    rw [hk]; exact hp.nodup_iff.mpr hn
  have h1 : (names.map (fun f => Dict.getD (sageChain loss y imp perm names prev) f 0)).sum =
      (perm.map (fun f => Dict.getD (sageChain loss y imp perm names prev) f 0)).sum :=
    ((hp.map _).sum_eq).symm
  rw [h1]
  have h2 := Dict.sum_getD_keys (sageChain loss y imp perm names prev) hnd
  rw [hk] at h2
  rw [h2, sageChain_sum_explainer loss y imp perm names prev hpne, diff_perm_eq_nil names perm hp hn]

end Chain

/-! ### efficiency invariant of IncrementalSage -/
section Efficiency
variable {K : Type} [Field K] [CharZero K] [RealOps K] [DecidableEq K] {V Y : Type}

/-- invariant behind C01: all importance trackers of the features, the marginal-loss tracker and the model-loss
    tracker are of the same kind with the same count/alpha, and the efficiency identity holds -/
structure SageInv (names : List Nat) (e : Est K) : Prop where
  base0 : e.importance.base.get = 0
  ml : Tr.Same e.modelLoss e.margLoss
  same : ∀ f ∈ names, Tr.Same (e.importance.virt f) e.margLoss
  sum : (names.map (fun f => (e.importance.virt f).get)).sum = e.margLoss.get - e.modelLoss.get

theorem SageInv.init (names : List Nat) (alpha : Option K) : SageInv names (Est.init alpha) := by
  refine ⟨?_, ?_, ?_, ?_⟩
  · simp [Est.init, MV.init]
  · exact Tr.Same.refl _
  · intro f _; simp only [Est.init, MV.init, MV.virt, Dict.find?_nil, Option.getD_none]; exact Tr.Same.refl _
  · simp [Est.init, MV.init, MV.virt]

theorem SageInv.step (names : List Nat) (model : Inst V → Dict K) (loss : Y → Dict K → K) (e : Est K)
    (s : SageObs K V Y) (hne : names ≠ []) (hn : names.Nodup) (hp : s.perm.Perm names)
    (himp : meanOutput (s.imp []) = model s.x) (h : SageInv names e) :
    SageInv names (sageStepObs names model loss false e s) := by
  have hkeys : ∀ f ∈ names, f ∈ Dict.keys (sageChain loss s.y s.imp s.perm names
      (loss s.y (e.margPred.update (model s.x)).getNormalized)) := by
    intro f hf; rw [sageChain_keys_explainer]; exact hp.mem_iff.mpr hf
  have hv : ∀ f ∈ names, (sageStepObs names model loss false e s).importance.virt f =
      (e.importance.virt f).update (Dict.getD (sageChain loss s.y s.imp s.perm names
        (loss s.y (e.margPred.update (model s.x)).getNormalized)) f 0) := by
    intro f hf
    simp only [sageStepObs, sageStep, Bool.false_eq_true, if_false, commit_importance]
    exact MV.virt_update _ _ f (Or.inl (hkeys f hf))
  refine ⟨?_, ?_, ?_, ?_⟩
  · simpa [sageStepObs, sageStep] using h.base0
  · simp only [sageStepObs, sageStep, Bool.false_eq_true, if_false, commit_modelLoss, commit_margLoss]
    exact h.ml.update _ _
  · intro f hf
    rw [hv f hf]
    simp only [sageStepObs, sageStep, Bool.false_eq_true, if_false, commit_margLoss]
    exact (h.same f hf).update _ _
  · have hc := sageChain_sum_perm loss s.y s.imp names s.perm
      (loss s.y (e.margPred.update (model s.x)).getNormalized) hne hp hn
    rw [himp] at hc
    have key := Tr.sum_update_linear names (fun f => e.importance.virt f)
      (fun f => Dict.getD (sageChain loss s.y s.imp s.perm names
        (loss s.y (e.margPred.update (model s.x)).getNormalized)) f 0)
      e.margLoss e.modelLoss _ _ h.ml h.same h.sum hc
    rw [List.map_congr_left (fun f hf => by rw [hv f hf])]
    simpa [sageStepObs, sageStep] using key

theorem SageInv.run (names : List Nat) (model : Inst V → Dict K) (loss : Y → Dict K → K) (alpha : Option K)
    (steps : List (SageObs K V Y)) (hne : names ≠ []) (hn : names.Nodup)
    (hsteps : ∀ s ∈ steps, s.perm.Perm names ∧ meanOutput (s.imp []) = model s.x) :
    SageInv names (runSage names model loss alpha steps) := by
  cases steps with
  | nil => exact SageInv.init names alpha
  | cons s0 rest =>
    rw [runSage_cons]
    have hrest : ∀ s ∈ rest, s.perm.Perm names ∧ meanOutput (s.imp []) = model s.x :=
      fun s hs => hsteps s (by simp [hs])
    clear hsteps
    have : ∀ e, SageInv names e → SageInv names (rest.foldl (sageStepObs names model loss false) e) := by
      induction rest with
      | nil => intro e he; exact he
      | cons s rest ih =>
        intro e he
        rw [List.foldl_cons]
        exact ih (fun s' hs' => hrest s' (by simp [hs'])) _
          (SageInv.step names model loss e s hne hn (hrest s (by simp)).1 (hrest s (by simp)).2 he)
    exact this _ (SageInv.init names alpha)

/-- the tracked importance keys: none before the first explained observation, afterwards the feature names (in the
    order drawn for the first explained observation) -/
def SageKeys (names : List Nat) (e : Est K) : Prop :=
  e.importance.trackers.keys = [] ∨ e.importance.trackers.keys.Perm names

theorem SageKeys.step (names : List Nat) (model : Inst V → Dict K) (loss : Y → Dict K → K) (e : Est K)
    (s : SageObs K V Y) (hp : s.perm.Perm names) (h : SageKeys names e) :
    (sageStepObs names model loss false e s).importance.trackers.keys.Perm names := by
  simp only [sageStepObs, sageStep, Bool.false_eq_true, if_false, commit_importance, MV.keys_update, sageChain_keys_explainer]
  rcases h with h | h
  · have : s.perm.filter (fun k => !(e.importance.trackers.has k)) = s.perm := by
      apply List.filter_eq_self.mpr
      intro k _
      have : e.importance.trackers.has k = false := by
        rw [Bool.eq_false_iff]; intro hh
        have := (Dict.has_iff _ k).mp hh
        rw [h] at this; simp at this
      simp [this]
    rw [h, this]; exact hp
  · have : s.perm.filter (fun k => !(e.importance.trackers.has k)) = [] := by
      apply List.filter_eq_nil_iff.mpr
      intro k hk
      have : e.importance.trackers.has k = true :=
        (Dict.has_iff _ k).mpr (h.mem_iff.mpr (hp.mem_iff.mp hk))
      simp [this]
    rw [this, List.append_nil]; exact h

theorem SageKeys.run (names : List Nat) (model : Inst V → Dict K) (loss : Y → Dict K → K) (alpha : Option K)
    (steps : List (SageObs K V Y)) (hsteps : ∀ s ∈ steps, s.perm.Perm names) :
    SageKeys names (runSage names model loss alpha steps) := by
  cases steps with
  | nil => left; rfl
  | cons s0 rest =>
    rw [runSage_cons]
    have hrest : ∀ s ∈ rest, s.perm.Perm names := fun s hs => hsteps s (by simp [hs])
    clear hsteps
    have : ∀ e, SageKeys names e → SageKeys names (rest.foldl (sageStepObs names model loss false) e) := by
      induction rest with
      | nil => intro e he; exact he
      | cons s rest ih =>
        intro e he
        rw [List.foldl_cons]
        exact ih (fun s' hs' => hrest s' (by simp [hs'])) _
          (Or.inr (SageKeys.step names model loss e s (hrest s (by simp)) he))
    exact this _ (Or.inl rfl)

end Efficiency

/-! ### more on `MV` -/
section MVMore
variable {K : Type} [Field K] [CharZero K] [RealOps K]

theorem MV.mem_keys_update (m : MV K) (u : Dict K) (k : Nat) (hk : k ∈ u.keys) : k ∈ (m.update u).trackers.keys := by
  rw [MV.keys_update, List.mem_append]
  by_cases h : m.trackers.has k = true
  · exact Or.inl ((Dict.has_iff _ k).mp h)
  · right; rw [List.mem_filter]; exact ⟨hk, by simpa using h⟩

theorem MV.mem_keys_foldl (cs : List (Dict K)) (m : MV K) (k : Nat) (hne : cs ≠ []) (hk : ∀ c ∈ cs, k ∈ c.keys) :
    k ∈ (cs.foldl MV.update m).trackers.keys := by
  cases cs with
  | nil => exact absurd rfl hne
  | cons c cs =>
    rw [List.foldl_cons]
    exact (MV.foldl_keys_prefix cs (m.update c)).subset (MV.mem_keys_update m c k (hk c (by simp)))

theorem MV.find?_eq_virt (m : MV K) (k : Nat) (hk : k ∈ m.trackers.keys) : m.trackers.find? k = some (m.virt k) := by
  have := (Dict.find?_isSome_iff m.trackers k).mpr hk
  cases h : m.trackers.find? k with
  | none => simp [h] at this
  | some t => simp [MV.virt, h]

theorem Tr.foldl_zero (vs : List K) (t : Tr K) (ht : t.get = 0) (hvs : ∀ v ∈ vs, v = 0) :
    (vs.foldl Tr.update t).get = 0 := by
  induction vs generalizing t with
  | nil => exact ht
  | cons v vs ih =>
    rw [List.foldl_cons]
    apply ih _ _ (fun w hw => hvs w (by simp [hw]))
    rw [Tr.get_update, ht, hvs v (by simp)]; ring

theorem Dict.getD_of_mem {V : Type} (d : Dict V) (k : Nat) (v dflt : V) (hd : d.keys.Nodup) (h : (k, v) ∈ d) :
    d.getD k dflt = v := by
  induction d with
  | nil => simp at h
  | cons kv d ih =>
    obtain ⟨k', v'⟩ := kv
    simp only [Dict.keys_cons_multivalue, List.nodup_cons] at hd
    rcases List.mem_cons.mp h with h | h
    · cases h; simp [Dict.getD, Dict.find?_cons]
    · have hk : k ∈ Dict.keys d := List.mem_map.mpr ⟨(k, v), h, rfl⟩
      have : k' ≠ k := fun e => hd.1 (e ▸ hk)
      have := ih hd.2 h
      simpa [Dict.getD, Dict.find?_cons, ‹k' ≠ k›] using this

end MVMore

/-! ### the estimates as folds over the stream -/
section Folds
variable {K : Type} [Field K] [CharZero K] [RealOps K] [DecidableEq K] {V Y : Type}

/-- importance and variance trackers along a stream of contribution dicts -/
theorem commit_foldl (names : List Nat) (cs : List (Dict K)) (e : Est K) :
    (cs.foldl (fun e c => commitImportance e names c) e).importance = cs.foldl MV.update e.importance ∧
    (cs.foldl (fun e c => commitImportance e names c) e).variance =
      (varDicts names e.importance cs).foldl MV.update e.variance ∧
    (cs.foldl (fun e c => commitImportance e names c) e).margLoss = e.margLoss ∧
    (cs.foldl (fun e c => commitImportance e names c) e).modelLoss = e.modelLoss ∧
    (cs.foldl (fun e c => commitImportance e names c) e).margPred = e.margPred := by
  induction cs generalizing e with
  | nil => simp [varDicts]
  | cons c cs ih =>
    obtain ⟨h1, h2, h3, h4, h5⟩ := ih (commitImportance e names c)
    simp only [List.foldl_cons, varDicts]
    exact ⟨h1, h2, h3, h4, h5⟩

/-- the contribution dict of one PFI call -/
def pfiContribsObs (names : List Nat) (model : Inst V → Dict K) (loss : Y → Dict K → K) (s : PfiObs K V Y) : Dict K :=
  pfiContribs names model loss s.x s.y s.imp

/-- the contribution of feature `f` in one PFI call: mean loss over the predictions with only `f` imputed, minus the
    loss of the unperturbed prediction -/
def pfiContrib (model : Inst V → Dict K) (loss : Y → Dict K → K) (f : Nat) (s : PfiObs K V Y) : K :=
  meanK ((s.imp [f]).map (loss s.y)) - loss s.y (model s.x)

theorem pfiContribsObs_keys (names : List Nat) (model : Inst V → Dict K) (loss : Y → Dict K → K) (s : PfiObs K V Y) :
    Dict.keys (pfiContribsObs names model loss s) = names :=
  Dict.keys_tabulate names _

theorem pfiContribsObs_getD (names : List Nat) (model : Inst V → Dict K) (loss : Y → Dict K → K) (s : PfiObs K V Y)
    (f : Nat) (hf : f ∈ names) : Dict.getD (pfiContribsObs names model loss s) f 0 = pfiContrib model loss f s :=
  Dict.getD_tabulate_multivalue names _ f 0 hf

theorem pfi_foldl (names : List Nat) (model : Inst V → Dict K) (loss : Y → Dict K → K) (rest : List (PfiObs K V Y))
    (e : Est K) :
    rest.foldl (pfiStepObs names model loss false) e =
      (rest.map (pfiContribsObs names model loss)).foldl (fun e c => commitImportance e names c) e := by
  rw [List.foldl_map]
  rfl

/-- marginal losses (starting losses of the chains) along a stream, threading the marginal-prediction tracker -/
def sageMargLosses (model : Inst V → Dict K) (loss : Y → Dict K → K) (mp : MV K) : List (SageObs K V Y) → List K
  | [] => []
  | s :: rest => loss s.y (mp.update (model s.x)).getNormalized ::
      sageMargLosses model loss (mp.update (model s.x)) rest

/-- contribution dicts along a stream, threading the marginal-prediction tracker -/
def sageContribsFrom (names : List Nat) (model : Inst V → Dict K) (loss : Y → Dict K → K) (mp : MV K) :
    List (SageObs K V Y) → List (Dict K)
  | [] => []
  | s :: rest => sageChain loss s.y s.imp s.perm names (loss s.y (mp.update (model s.x)).getNormalized) ::
      sageContribsFrom names model loss (mp.update (model s.x)) rest

theorem sage_foldl (names : List Nat) (model : Inst V → Dict K) (loss : Y → Dict K → K) (rest : List (SageObs K V Y))
    (e : Est K) :
    (rest.foldl (sageStepObs names model loss false) e).importance =
      (sageContribsFrom names model loss e.margPred rest).foldl MV.update e.importance ∧
    (rest.foldl (sageStepObs names model loss false) e).variance =
      (varDicts names e.importance (sageContribsFrom names model loss e.margPred rest)).foldl MV.update e.variance ∧
    (rest.foldl (sageStepObs names model loss false) e).margLoss =
      (sageMargLosses model loss e.margPred rest).foldl Tr.update e.margLoss ∧
    (rest.foldl (sageStepObs names model loss false) e).modelLoss =
      (rest.map (fun s => loss s.y (model s.x))).foldl Tr.update e.modelLoss ∧
    (rest.foldl (sageStepObs names model loss false) e).margPred =
      (rest.map (fun s => model s.x)).foldl MV.update e.margPred := by
  induction rest generalizing e with
  | nil => simp [sageContribsFrom, sageMargLosses, varDicts]
  | cons s rest ih =>
    obtain ⟨h1, h2, h3, h4, h5⟩ := ih (sageStepObs names model loss false e s)
    simp only [List.foldl_cons, sageContribsFrom, sageMargLosses, varDicts, List.map_cons]
    refine ⟨h1, h2, h3, h4, h5⟩

theorem sageContribsFrom_keys (names : List Nat) (model : Inst V → Dict K) (loss : Y → Dict K → K) (mp : MV K)
    (rest : List (SageObs K V Y)) (f : Nat) (hf : f ∈ names) (hp : ∀ s ∈ rest, s.perm.Perm names) :
    ∀ c ∈ sageContribsFrom names model loss mp rest, f ∈ Dict.keys c := by
  induction rest generalizing mp with
  | nil => simp [sageContribsFrom]
  | cons s rest ih =>
    intro c hc
    simp only [sageContribsFrom, List.mem_cons] at hc
    rcases hc with rfl | hc
    · rw [sageChain_keys_explainer]; exact (hp s (by simp)).mem_iff.mpr hf
    · exact ih _ (fun s' hs' => hp s' (by simp [hs'])) c hc

theorem sageContribsFrom_length (names : List Nat) (model : Inst V → Dict K) (loss : Y → Dict K → K) (mp : MV K)
    (rest : List (SageObs K V Y)) : (sageContribsFrom names model loss mp rest).length = rest.length := by
  induction rest generalizing mp with
  | nil => rfl
  | cons s rest ih => simp [sageContribsFrom, ih]

/-- loss after revealing the first `j` features of the order (`j = 0`: the starting loss) -/
def sageLossAt (loss : Y → Dict K → K) (y : Y) (imp : List Nat → List (Dict K)) (perm notInS : List Nat) (prev : K) :
    Nat → K
  | 0 => prev
  | j + 1 => loss y (meanOutput (imp (notInS.diff (perm.take (j + 1)))))

/-- the chain in closed form: entry `j` is (j-th feature of the order, loss before revealing it − loss after), and the
    imputer is called with the features not among the first `j+1` of the order -/
theorem sageChain_eq (loss : Y → Dict K → K) (y : Y) (imp : List Nat → List (Dict K))
    (perm notInS : List Nat) (prev : K) :
    sageChain loss y imp perm notInS prev =
      (List.range perm.length).map (fun j => (perm.getD j 0,
        sageLossAt loss y imp perm notInS prev j - sageLossAt loss y imp perm notInS prev (j + 1))) := by
  induction perm generalizing notInS prev with
  | nil => rfl
  | cons f rest ih =>
    have hshift : ∀ j, sageLossAt loss y imp (f :: rest) notInS prev (j + 1) =
        sageLossAt loss y imp rest (notInS.erase f) (loss y (meanOutput (imp (notInS.erase f)))) j := by
      intro j
      cases j with
      | zero => simp [sageLossAt]
      | succ j => simp [sageLossAt]
    simp only [sageChain, List.length_cons, List.range_succ_eq_map, List.map_cons, List.map_map, ih]
    congr 1
    · simp [sageLossAt]
    · apply List.map_congr_left
      intro j _
      simp only [Function.comp, Nat.succ_eq_add_one, List.getD_cons_succ, hshift]

end Folds

/-! ### non-negativity of the variance trackers (ordered fields) -/
section Nonneg
variable {K : Type} [Field K] [LinearOrder K] [IsStrictOrderedRing K] [RealOps K]

/-- a tracker whose smoothing parameter (if any) lies in [0, 1] -/
def Tr.Good : Tr K → Prop
  | .w _ => True
  | .e t => 0 ≤ t.alpha ∧ t.alpha ≤ 1

theorem Tr.Good.init (alpha : Option K) (h : ∀ a, alpha = some a → 0 ≤ a ∧ a ≤ 1) : (Tr.init alpha).Good := by
  cases alpha with
  | none => trivial
  | some a => simpa [Tr.init, Tr.Good, ExponentialSmoothingTracker.init] using h a rfl

theorem Tr.Good.update {t : Tr K} (h : t.Good) (v : K) : (t.update v).Good := by
  cases t with
  | w t => trivial
  | e t => simp only [Tr.Good, Tr.update, (ES.update_spec t v).2.1] at h ⊢; exact h

theorem Tr.update_nonneg {t : Tr K} (hg : t.Good) (h : 0 ≤ t.get) (v : K) (hv : 0 ≤ v) : 0 ≤ (t.update v).get := by
  cases t with
  | w t =>
    rw [Tr.get_update_w]
    have hN : (0 : K) < ((Tr.w t).N : K) + 1 := by positivity
    have : (Tr.w t).get + (v - (Tr.w t).get) / (((Tr.w t).N : K) + 1) =
        ((((Tr.w t).N : K)) * (Tr.w t).get + v) / (((Tr.w t).N : K) + 1) := by field_simp; ring
    rw [this]
    have hN' : (0 : K) ≤ ((Tr.w t).N : K) := Nat.cast_nonneg _
    exact div_nonneg (add_nonneg (mul_nonneg hN' h) hv) hN.le
  | e t =>
    rw [Tr.get_update_e]
    simp only [Tr.Good] at hg
    have : 0 ≤ 1 - t.alpha := sub_nonneg.mpr hg.2
    exact add_nonneg (mul_nonneg this h) (mul_nonneg hg.1 hv)

/-- all trackers (and the base they are copied from) are good and hold non-negative values -/
def MV.NonnegInv (m : MV K) : Prop :=
  m.base.Good ∧ 0 ≤ m.base.get ∧ ∀ k t, m.trackers.find? k = some t → t.Good ∧ 0 ≤ t.get

theorem MV.NonnegInv.init (alpha : Option K) (h : ∀ a, alpha = some a → 0 ≤ a ∧ a ≤ 1) :
    (MV.init (Tr.init alpha)).NonnegInv := by
  refine ⟨Tr.Good.init alpha h, by simp [MV.init], ?_⟩
  intro k t ht; simp [MV.init] at ht

theorem MV.NonnegInv.update {m : MV K} (h : m.NonnegInv) (u : Dict K) (hu : ∀ k, 0 ≤ u.getD k 0) :
    (m.update u).NonnegInv := by
  obtain ⟨hb, hb0, ht⟩ := h
  refine ⟨hb, hb0, ?_⟩
  intro k t hk
  rw [MV.find?_update] at hk
  cases h : m.trackers.find? k with
  | some t0 =>
    rw [h] at hk
    simp only [Option.some.injEq] at hk
    subst hk
    exact ⟨(ht k t0 h).1.update _, Tr.update_nonneg (ht k t0 h).1 (ht k t0 h).2 _ (hu k)⟩
  | none =>
    rw [h] at hk
    cases h' : u.find? k with
    | none => simp [h'] at hk
    | some v =>
      simp only [h', Option.map_some, Option.some.injEq] at hk
      subst hk
      have hv : 0 ≤ v := by simpa [Dict.getD, h'] using hu k
      exact ⟨hb.update _, Tr.update_nonneg hb hb0 _ hv⟩

theorem MV.NonnegInv.getKey_nonneg {m : MV K} (h : m.NonnegInv) (k : Nat) : 0 ≤ m.getKey k := by
  rw [MV.getKey_eq]
  cases h' : m.trackers.find? k with
  | none => simp
  | some t => simpa using (h.2.2 k t h').2

theorem sq_nonneg' (a : K) : 0 ≤ sq a := mul_self_nonneg a

theorem commit_nonneg (e : Est K) (names : List Nat) (c : Dict K) (h : e.variance.NonnegInv) :
    (commitImportance e names c).variance.NonnegInv := by
  rw [commit_variance]
  apply h.update
  intro k
  simp only [Dict.getD, Dict.find?_tabulate]
  by_cases hk : k ∈ names
  · simp only [hk, if_true, Option.getD_some]; exact sq_nonneg' _
  · simp [hk]

end Nonneg

end Ixai
