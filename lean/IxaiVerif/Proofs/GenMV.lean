/-
  Helper lemmas for Props/GenMV.lean: the GENERATED `MultiValueTracker` (Gen/MultiValueTracker.lean) equals the hand-written `MV`
  (Model/Tr.lean).

    * dictionaries: `find?_eq_none`, `has_eq`, `find?_of_mem`, `keys_map_getD`, `ofPairs_map_items`, `keys_append`,
      `keys_set_of_mem`, `set_set`, `getD_set_self`, `set_eq_map` (overwriting an existing key of a dict with distinct keys is a `map`)
    * `call_eq`, `get_normalized_eq`: the two read methods on a state `⟨tv, tv.keys, base, n⟩`
    * `forIn_id_foldl`: a `for` loop in `Id` whose body always continues is a fold; the body is a parameter described by an equation,
      which `update_spec` discharges by `unfold; split; simp` — no generated local name is mentioned
    * `step1`, `step2`, `updSpec`, `update_spec`: the generated `update` is two folds and the counter
    * `updL`, `set_map_updL`, `foldl_step1`, `foldl_step2`: what the two folds compute
    * `updSpec_eq`: together they are `MV.update`, and the keys stay distinct
    * `foldl_rel`: a relation preserved by every step is preserved by a run
-/
import IxaiVerif.Gen.MultiValueTracker
import IxaiVerif.Proofs.GenBridge
import IxaiVerif.Proofs.GenImputer
set_option linter.unusedSectionVars false
set_option linter.unusedVariables false
set_option linter.unusedSimpArgs false

namespace Ixai.GenMV
open Ixai

variable {V W : Type}

/-! ### dictionaries -/

theorem find?_eq_none {d : Dict V} {k : Nat} : d.find? k = none ↔ k ∉ d.keys := by
  induction d with
  | nil => simp [Dict.find?, Dict.keys]
  | cons kv rest ih =>
    rcases kv with ⟨k0, v0⟩
    by_cases h : k0 = k
    · simp [Dict.find?, Dict.keys, h]
    · simp only [Dict.find?, h, if_false, ih]
      simp [Dict.keys, Ne.symm h]

theorem has_eq (d : Dict V) (k : Nat) : d.has k = decide (k ∈ d.keys) := by
  unfold Dict.has
  cases h : d.find? k with
  | none => simp [find?_eq_none.1 h]
  | some t =>
    have : k ∈ d.keys := Decidable.byContradiction fun hc => by
      rw [find?_eq_none.2 hc] at h; cases h
    simp [this]

theorem find?_of_mem : ∀ (d : Dict V), d.keys.Nodup → ∀ kv ∈ d, d.find? kv.1 = some kv.2
  | [], _, kv, h => by cases h
  | (k0, v0) :: rest, hnd, kv, h => by
    simp only [Dict.keys, List.map_cons, List.nodup_cons] at hnd
    rcases List.mem_cons.1 h with h | h
    · subst h; simp [Dict.find?]
    · have : k0 ≠ kv.1 := fun e => hnd.1 (e ▸ List.mem_map_of_mem h)
      simp [Dict.find?, this, find?_of_mem rest hnd.2 kv h]

/-- reading every key of a dict with distinct keys back (`d.get(k, dflt)`) visits its items in order -/
theorem keys_map_getD (d : Dict V) (hnd : d.keys.Nodup) (dflt : V) (g : V → W) :
    d.keys.map (fun k => (k, g (d.getD k dflt))) = d.map (fun kt => (kt.1, g kt.2)) := by
  unfold Dict.keys
  rw [List.map_map]
  apply List.map_congr_left
  intro kv h
  simp [Dict.getD, find?_of_mem d hnd kv h]

/-- a dict comprehension over the items of a dict with distinct keys that keeps the keys is a `map` -/
theorem ofPairs_map_items (d : Dict V) (hk : d.keys.Nodup) (g : Nat × V → W) :
    Dict.ofPairs (d.map (fun kv => (kv.1, g kv))) = d.map (fun kv => (kv.1, g kv)) := by
  unfold Dict.ofPairs
  rw [Dict.foldl_set_of_nodup _ _ (by simpa [List.map_map, Function.comp_def, Dict.keys] using hk) (by intro k _ h; cases h)]
  simp

variable {K : Type} [Add K] [Sub K] [Mul K] [Div K] [NatCast K] [OfNat K 0] [OfNat K 1] [RealOps K] [DecidableEq K]

/-! ### `__call__` and `get_normalized` -/

theorem call_eq (tv : Dict (Tr K)) (base : Tr K) (n : Nat) (hnd : tv.keys.Nodup) :
    Gen.MultiValueTracker.__call__ ⟨tv, tv.keys, base, n⟩ = tv.map (fun kt => (kt.1, kt.2.get)) := by
  simp only [Gen.MultiValueTracker.__call__, Id.run, pure]
  rw [Dict.ofPairs_map_of_nodup _ (fun k => (tv.getD k base).get) hnd]
  exact keys_map_getD tv hnd base Tr.get

theorem get_normalized_eq (tv : Dict (Tr K)) (base : Tr K) (n : Nat) (hnd : tv.keys.Nodup) :
    Gen.MultiValueTracker.get_normalized ⟨tv, tv.keys, base, n⟩ = MV.getNormalized ⟨tv, n, base⟩ := by
  have hc := call_eq tv base n hnd
  have hkeys : Dict.keys (tv.map (fun kt => (kt.1, kt.2.get))) = tv.keys := by
    simp [Dict.keys, List.map_map, Function.comp_def]
  have hlen : tv.keys.length = (tv.map (fun kt => (kt.1, kt.2.get))).length := by simp [Dict.keys]
  have hk' : (Dict.keys (tv.map (fun kt => (kt.1, kt.2.get)))).Nodup := hkeys ▸ hnd
  unfold Gen.MultiValueTracker.get_normalized MV.getNormalized MV.get
  rw [hc]
  simp only [hlen]
  generalize tv.map (fun kt => (kt.1, kt.2.get)) = vals at hk'
  have h0 := Dict.ofPairs_map_of_nodup _ (fun _ => (0 : K)) hk'
  by_cases h1 : vals.length ≤ 1
  · simp [Id.run, pure, h1]
  · by_cases h2 : lsum (vals.map Prod.snd) = 0
    · simp [Id.run, pure, h1, h2, h0]
      simp [Dict.keys, List.map_map, Function.comp_def]
    · have h3 := ofPairs_map_items vals hk' (fun kv => kv.2 / lsum (vals.map Prod.snd))
      simp [Id.run, pure, h1, h2, h3]

/-! ### `update`: the two loops as folds -/

/-- a `for` loop in `Id` whose body always continues is a fold -/
theorem forIn_id_foldl {α β : Type} (f : β → α → β) (body : α → β → Id (ForInStep β))
    (hbody : ∀ a s, body a s = pure (ForInStep.yield (f s a))) :
    ∀ (l : List α) (s : β), forIn l s body = pure (l.foldl f s)
  | [], s => by simp
  | a :: rest, s => by
    rw [List.forIn_cons, hbody]
    simp only [pure_bind, List.foldl_cons]
    exact forIn_id_foldl f body hbody rest _

/-- `d[k] = v` twice -/
theorem set_set (d : Dict V) (k : Nat) (v v' : V) : (d.set k v).set k v' = d.set k v' := by
  induction d with
  | nil => simp [Dict.set]
  | cons kv rest ih =>
    rcases kv with ⟨k0, v0⟩
    by_cases h : k0 = k <;> simp [Dict.set, h, ih]

theorem getD_set_self (d : Dict V) (k : Nat) (v dflt : V) : (d.set k v).getD k dflt = v := by
  simp [Dict.getD, GenImputer.find?_set]

theorem keys_append (d₁ d₂ : Dict V) : Dict.keys (d₁ ++ d₂) = d₁.keys ++ d₂.keys := List.map_append

theorem _root_.Ixai.Dict.keys_singleton (k : Nat) (v : V) : Dict.keys [(k, v)] = [k] := rfl

theorem keys_set_of_mem {d : Dict V} {k : Nat} (h : k ∈ d.keys) (v : V) : (d.set k v).keys = d.keys := by
  induction d with
  | nil => simp [Dict.keys] at h
  | cons kv rest ih =>
    rcases kv with ⟨k0, v0⟩
    by_cases h0 : k0 = k
    · simp [Dict.set, Dict.keys, h0]
    · have : k ∈ Dict.keys rest := by
        simp only [Dict.keys, List.map_cons, List.mem_cons] at h
        rcases h with h | h
        · exact absurd h.symm h0
        · exact h
      have ih' := ih this
      simp only [Dict.keys] at ih'
      simp [Dict.set, Dict.keys, h0, ih']

/-- overwriting the value `t` of an existing key by `f t` in a dict with distinct keys, as a `map` -/
theorem set_eq_map (f : V → V) (k : Nat) (t : V) : ∀ (d : Dict V), d.keys.Nodup → d.find? k = some t →
    d.set k (f t) = d.map (fun kt => if kt.1 = k then (kt.1, f kt.2) else kt)
  | [], _, h => by simp [Dict.find?] at h
  | (k0, v0) :: rest, hnd, h => by
    simp only [Dict.keys, List.map_cons, List.nodup_cons] at hnd
    by_cases h0 : k0 = k
    · subst h0
      simp only [Dict.find?, if_true, Option.some.injEq] at h
      subst h
      have : rest.map (fun kt => if kt.1 = k0 then (kt.1, f kt.2) else kt) = rest := by
        conv => rhs; rw [← List.map_id rest]
        apply List.map_congr_left
        intro kt hkt
        have : kt.1 ≠ k0 := fun e => hnd.1 (e ▸ List.mem_map_of_mem hkt)
        simp [this]
      simp [Dict.set, this]
    · simp only [Dict.find?, h0, if_false] at h
      simp [Dict.set, h0, set_eq_map f k t rest hnd.2 h]

/-- first loop of `update`, one key of the update (`val key` is its value): an existing tracker is updated in place, a new key gets
    an updated copy of the base tracker and is recorded in `_tracked_keys` -/
def step1 (val : Nat → K) (s : Gen.MVGen K) (key : Nat) : Gen.MVGen K :=
  match s.tracked_value.find? key with
  | some t => { s with tracked_value := s.tracked_value.set key (t.update (val key)) }
  | none => { s with tracked_value := s.tracked_value.set key (s.base_tracker.update (val key)),
                     tracked_keys := if s.tracked_keys.contains key then s.tracked_keys else s.tracked_keys ++ [key] }

/-- second loop of `update`, one tracked key that is missing from the update -/
def step2 (s : Gen.MVGen K) (key : Nat) : Gen.MVGen K :=
  { s with tracked_value := s.tracked_value.set key ((s.tracked_value.getD key s.base_tracker).update 0) }

def updSpec (g : Gen.MVGen K) (values : Dict K) : Gen.MVGen K :=
  let s1 := values.keys.foldl (step1 (fun k => values.getD k 0)) g
  let s2 := (s1.tracked_keys.filter (fun k => !values.keys.contains k)).foldl step2 s1
  { s2 with N := s2.N + 1 }

theorem update_spec (g : Gen.MVGen K) (values : Dict K) : Gen.MultiValueTracker.update g values = updSpec g values := by
  unfold Gen.MultiValueTracker.update
  simp (disch := intro a s; unfold step1; split <;> simp [*, set_set, getD_set_self]) only
    [forIn_id_foldl (step1 (fun k => values.getD k 0))]
  simp (disch := intro a s; unfold step2; first | rfl | simp [set_set, getD_set_self]) only [forIn_id_foldl (step2 (K := K))]
  rfl


/-- the trackers whose key is in `l` receive the value `val key` -/
def updL (val : Nat → K) (l : List Nat) (kt : Nat × Tr K) : Nat × Tr K :=
  if kt.1 ∈ l then (kt.1, kt.2.update (val kt.1)) else kt

theorem updL_fst (val : Nat → K) (l : List Nat) (kt : Nat × Tr K) : (updL val l kt).1 = kt.1 := by
  unfold updL; split <;> rfl

theorem keys_map_updL (val : Nat → K) (l : List Nat) (d : Dict (Tr K)) : Dict.keys (d.map (updL val l)) = d.keys := by
  simp [Dict.keys, List.map_map, Function.comp_def, updL_fst]

theorem set_map_updL (val : Nat → K) (d : Dict (Tr K)) (hnd : d.keys.Nodup) (a : Nat) (t : Tr K) (h : d.find? a = some t)
    (rest : List Nat) (ha : a ∉ rest) :
    (d.set a (t.update (val a))).map (updL val rest) = d.map (updL val (a :: rest)) := by
  rw [set_eq_map (fun t => t.update (val a)) a t d hnd h, List.map_map]
  apply List.map_congr_left
  intro kt _
  by_cases h0 : kt.1 = a
  · simp [updL, h0, ha]
  · simp [updL, h0]

/-- the first loop: existing keys of `l` updated in place, the new keys of `l` appended in order -/
theorem foldl_step1 (val : Nat → K) : ∀ (l : List Nat) (tv : Dict (Tr K)) (base : Tr K) (n : Nat), l.Nodup → tv.keys.Nodup →
    l.foldl (step1 val) ⟨tv, tv.keys, base, n⟩
      = ⟨tv.map (updL val l) ++ (l.filter (fun k => !tv.has k)).map (fun k => (k, base.update (val k))),
         tv.keys ++ l.filter (fun k => !tv.has k), base, n⟩
  | [], tv, base, n, _, _ => by
    have : tv.map (updL val []) = tv := by
      conv => rhs; rw [← List.map_id tv]
      apply List.map_congr_left
      intro kt _; simp [updL]
    simp [this]
  | a :: rest, tv, base, n, hl, hnd => by
    rw [List.nodup_cons] at hl
    rw [List.foldl_cons]
    cases h : tv.find? a with
    | some t =>
      have ha : a ∈ tv.keys := Decidable.byContradiction fun hc => by
        rw [find?_eq_none.2 hc] at h; cases h
      have hs : step1 val ⟨tv, tv.keys, base, n⟩ a
          = ⟨tv.set a (t.update (val a)), (tv.set a (t.update (val a))).keys, base, n⟩ := by
        simp [step1, h, keys_set_of_mem ha]
      rw [hs, foldl_step1 val rest _ base n hl.2 (by rw [keys_set_of_mem ha]; exact hnd)]
      have hhas : ∀ k, (tv.set a (t.update (val a))).has k = tv.has k := by
        intro k; simp [has_eq, keys_set_of_mem ha]
      have hha : tv.has a = true := by simp [has_eq, ha]
      simp only [hhas, keys_set_of_mem ha, set_map_updL val tv hnd a t h rest hl.1]
      simp [List.filter_cons, hha]
    | none =>
      have ha : a ∉ tv.keys := find?_eq_none.1 h
      have hs : step1 val ⟨tv, tv.keys, base, n⟩ a
          = ⟨tv ++ [(a, base.update (val a))], (tv ++ [(a, base.update (val a))]).keys, base, n⟩ := by
        have hc : tv.keys.contains a = false := by simp [ha]
        simp [step1, h, Dict.set_of_not_mem tv a _ ha, ha, keys_append, Dict.keys_singleton]
      have hnd' : (tv ++ [(a, base.update (val a))]).keys.Nodup := by
        rw [keys_append, Dict.keys_singleton]
        rw [List.nodup_append]
        refine ⟨hnd, by simp, ?_⟩
        intro x hx y hy
        simp only [List.mem_singleton] at hy
        subst hy
        exact fun e => ha (e ▸ hx)
      rw [hs, foldl_step1 val rest _ base n hl.2 hnd']
      have hha : tv.has a = false := by simp [has_eq, ha]
      have hf : rest.filter (fun k => !(tv ++ [(a, base.update (val a))]).has k) = rest.filter (fun k => !tv.has k) := by
        apply List.filter_congr
        intro k hk
        have : k ≠ a := fun e => hl.1 (e ▸ hk)
        simp [has_eq, keys_append, Dict.keys_singleton, this]
      have hm : tv.map (updL val (a :: rest)) = tv.map (updL val rest) := by
        apply List.map_congr_left
        intro kt hkt
        have : kt.1 ≠ a := fun e => ha (e ▸ List.mem_map_of_mem hkt)
        simp [updL, this]
      have hu : updL val rest (a, base.update (val a)) = (a, base.update (val a)) := by simp [updL, hl.1]
      simp [hf, hm, hu, List.filter_cons, hha, keys_append, Dict.keys_singleton]

/-- the second loop: the listed (tracked, distinct) keys receive `0` in place -/
theorem foldl_step2 : ∀ (l : List Nat) (tv : Dict (Tr K)) (ks : List Nat) (base : Tr K) (n : Nat), l.Nodup → tv.keys.Nodup →
    (∀ k ∈ l, k ∈ tv.keys) →
    l.foldl step2 ⟨tv, ks, base, n⟩ = ⟨tv.map (updL (fun _ => 0) l), ks, base, n⟩
  | [], tv, ks, base, n, _, _, _ => by
    have : tv.map (updL (fun _ => (0 : K)) []) = tv := by
      conv => rhs; rw [← List.map_id tv]
      apply List.map_congr_left
      intro kt _; simp [updL]
    simp [this]
  | a :: rest, tv, ks, base, n, hl, hnd, hsub => by
    rw [List.nodup_cons] at hl
    have ha : a ∈ tv.keys := hsub a (by simp)
    cases h : tv.find? a with
    | none => exact absurd ha (find?_eq_none.1 h)
    | some t =>
      have hs : step2 ⟨tv, ks, base, n⟩ a = ⟨tv.set a (t.update 0), ks, base, n⟩ := by
        simp [step2, Dict.getD, h]
      rw [List.foldl_cons, hs, foldl_step2 rest _ ks base n hl.2 (by rw [keys_set_of_mem ha]; exact hnd)
        (by intro k hk; rw [keys_set_of_mem ha]; exact hsub k (List.mem_cons_of_mem _ hk))]
      have := set_map_updL (fun _ => (0 : K)) tv hnd a t h rest hl.1
      rw [this]

/-- both loops and the counter: `updSpec` on a state that represents `⟨tv, n, base⟩` gives the state that represents the model's
    `MV.update`, and the keys stay distinct -/
theorem updSpec_eq (tv : Dict (Tr K)) (base : Tr K) (n : Nat) (hnd : tv.keys.Nodup) (values : Dict K) (hv : values.keys.Nodup) :
    updSpec ⟨tv, tv.keys, base, n⟩ values
      = ⟨(MV.update ⟨tv, n, base⟩ values).trackers, (MV.update ⟨tv, n, base⟩ values).trackers.keys, base, n + 1⟩
    ∧ (MV.update ⟨tv, n, base⟩ values).trackers.keys.Nodup := by
  -- the keys that are new in this update, in order
  have hfr : values.keys.filter (fun k => !tv.has k) = (values.filter (fun kv => !tv.has kv.1)).map Prod.fst := by
    unfold Dict.keys; rw [List.filter_map]; rfl
  have hmem_fr : ∀ k, k ∈ values.keys.filter (fun k => !tv.has k) → k ∈ values.keys ∧ k ∉ tv.keys := by
    intro k hk
    rw [List.mem_filter] at hk
    refine ⟨hk.1, ?_⟩
    have := hk.2
    simpa [has_eq] using this
  have hnd1 : (tv.keys ++ values.keys.filter (fun k => !tv.has k)).Nodup := by
    rw [List.nodup_append]
    refine ⟨hnd, hv.sublist List.filter_sublist, ?_⟩
    intro x hx y hy e
    exact (hmem_fr y hy).2 (e ▸ hx)
  -- the model's result
  have hmk : (MV.update ⟨tv, n, base⟩ values).trackers.keys = tv.keys ++ values.keys.filter (fun k => !tv.has k) := by
    simp only [MV.update, keys_append, hfr]
    simp [Dict.keys, List.map_map, Function.comp_def]
  refine ⟨?_, hmk ▸ hnd1⟩
  -- first loop
  unfold updSpec
  simp only [foldl_step1 _ values.keys tv base n hv hnd]
  have hk1 : Dict.keys (tv.map (updL (fun k => values.getD k 0) values.keys) ++
      (values.keys.filter (fun k => !tv.has k)).map (fun k => (k, base.update (values.getD k 0))))
      = tv.keys ++ values.keys.filter (fun k => !tv.has k) := by
    rw [keys_append, keys_map_updL]
    simp [Dict.keys, List.map_map, Function.comp_def]
  -- second loop
  have hmem2 : ∀ k, k ∈ (tv.keys ++ values.keys.filter (fun k => !tv.has k)).filter (fun k => !values.keys.contains k)
      ↔ k ∈ tv.keys ∧ k ∉ values.keys := by
    intro k
    simp only [List.mem_filter, List.mem_append, Bool.not_eq_true', List.contains_eq_mem, decide_eq_false_iff_not]
    constructor
    · rintro ⟨h | h, h'⟩
      · exact ⟨h, h'⟩
      · exact absurd h.1 h'
    · rintro ⟨h, h'⟩
      exact ⟨.inl h, h'⟩
  rw [foldl_step2 _ _ _ base n (hnd1.sublist List.filter_sublist) (hk1 ▸ hnd1)
    (by intro k hk; rw [hk1]; exact (List.mem_filter.1 hk).1)]
  -- the two results agree
  have hT : (tv.map (updL (fun k => values.getD k 0) values.keys) ++
      (values.keys.filter (fun k => !tv.has k)).map (fun k => (k, base.update (values.getD k 0)))).map
        (updL (fun _ => 0)
          ((tv.keys ++ values.keys.filter (fun k => !tv.has k)).filter (fun k => !values.keys.contains k)))
      = (MV.update ⟨tv, n, base⟩ values).trackers := by
    generalize (tv.keys ++ values.keys.filter (fun k => !tv.has k)).filter (fun k => !values.keys.contains k) = l2 at hmem2
    simp only [MV.update, List.map_append, List.map_map]
    congr 1
    · apply List.map_congr_left
      intro kt hkt
      have hin : kt.1 ∈ tv.keys := List.mem_map_of_mem hkt
      by_cases hk : kt.1 ∈ values.keys
      · simp [updL, hk, hmem2]
      · have h0 : values.getD kt.1 0 = 0 := by simp [Dict.getD, find?_eq_none.2 hk]
        simp [updL, hk, hmem2, hin, h0]
    · rw [hfr, List.map_map]
      apply List.map_congr_left
      intro kv hkv
      have hkv' : kv ∈ values := (List.mem_filter.1 hkv).1
      have hin : kv.1 ∈ values.keys := List.mem_map_of_mem hkv'
      have hg : values.getD kv.1 0 = kv.2 := by simp [Dict.getD, find?_of_mem values hv kv hkv']
      simp [updL, hmem2, hin, hg]
  rw [hT, hmk]

/-- a relation preserved by every step is preserved by the two folds -/
theorem foldl_rel {G M U : Type} (R : G → M → Prop) (P : U → Prop) (fg : G → U → G) (fm : M → U → M)
    (hstep : ∀ g m u, R g m → P u → R (fg g u) (fm m u)) :
    ∀ (us : List U) (g : G) (m : M), R g m → (∀ u ∈ us, P u) → R (us.foldl fg g) (us.foldl fm m)
  | [], _, _, h, _ => h
  | u :: us, g, m, h, hp => by
    simp only [List.foldl_cons]
    exact foldl_rel R P fg fm hstep us _ _ (hstep g m u h (hp u (by simp)))
      (fun u' hu' => hp u' (List.mem_cons_of_mem _ hu'))

end Ixai.GenMV
