/-
  Helper lemmas for Props/GenBatch.lean: the GENERATED `BatchSage.explain_many` (Gen/BatchSage.lean) equals the hand-written
  effectful `batchSageM` (Model/Effect.lean), and a successful `batchSageM` is the pure `batchSage` (Model/Explainer.lean).

    * `tab names g` — the running sums always have the form `names.map (fun f => (f, g f))`; `Dict.set` / `addContribs` /
      the generated in-place accumulation `addSeq` on that form (`set_tab`, `addContribs_tab`, `addSeq_tab`,
      `addSeq_eq_addContribs`: in-place `sage_values[f] += c` along a chain that covers every name = `addContribs`)
    * the loops, with the loop body as a parameter with a defining equation (no generated local names):
      `forIn_batch_eq_full` (inner loop = `sageChainFull` + `addSeq`), `sageChainFull_bind_congr` (the keys of the
      chain's result are the chain), `forIn_batch_chain` (inner loop = chain + `addContribs` for a full chain),
      `forIn_zipIdx_addContribs` (outer loop over `zipIdx` = `M.foldlM'`, last index), `foldlM'_bind_congr_tab`
    * `batch_generated_eq_model'` — the bridge
    * inversion of successful runs over the raw operation classes: `sageChain_congr'`, `sageChainM_ok_inv'`,
      `mapM'_callModel_ok_inv`, `foldlM'_batchObsM_ok_inv`; `Frame.foldlM'`, `Frame.batchObsM`, `Frame.batchSageM`
    * `batchSageM_ok_pure'`
-/
import IxaiVerif.Gen.BatchSage
import IxaiVerif.Proofs.GenBridge
import IxaiVerif.Proofs.E2E
set_option linter.unusedSectionVars false
set_option linter.unusedVariables false
set_option linter.unusedSimpArgs false
set_option linter.unusedTactic false
set_option linter.unreachableTactic false

namespace Ixai.GenBatch
open Ixai

variable {K : Type} {α β γ : Type}

/-! ### dicts of the form `names.map (fun f => (f, g f))` -/
section Tab
variable {W : Type}

/-- the dict with keys `names` (in this order) and values `g` -/
def tab (names : List Nat) (g : Nat → W) : Dict W := names.map (fun f => (f, g f))

theorem tab_def (names : List Nat) (g : Nat → W) : names.map (fun f => (f, g f)) = tab names g := rfl

theorem getD_cons (k' : Nat) (v' : W) (d : Dict W) (k : Nat) (dflt : W) :
    Dict.getD ((k', v') :: d) k dflt = if k' = k then v' else Dict.getD d k dflt := by
  unfold Dict.getD
  rw [show Dict.find? ((k', v') :: d) k = if k' = k then some v' else Dict.find? d k from rfl]
  split <;> rfl

theorem getD_tab (names : List Nat) (g : Nat → W) {f : Nat} (hf : f ∈ names) (dflt : W) :
    Dict.getD (tab names g) f dflt = g f := by
  induction names with
  | nil => cases hf
  | cons a rest ih =>
    rw [show tab (a :: rest) g = (a, g a) :: tab rest g from rfl, getD_cons]
    by_cases h : a = f
    · subst h; simp
    · simp only [h, if_false]
      exact ih (by simpa [Ne.symm h] using hf)

theorem set_tab (names : List Nat) (g : Nat → W) (f : Nat) (v : W) (hnd : names.Nodup) (hf : f ∈ names) :
    Dict.set (tab names g) f v = tab names (fun k => if k = f then v else g k) := by
  induction names with
  | nil => cases hf
  | cons a rest ih =>
    rw [List.nodup_cons] at hnd
    rw [show tab (a :: rest) g = (a, g a) :: tab rest g from rfl,
      show Dict.set ((a, g a) :: tab rest g) f v
        = if a = f then (a, v) :: tab rest g else (a, g a) :: Dict.set (tab rest g) f v from rfl]
    by_cases h : a = f
    · subst h
      simp only [if_true, tab, List.map_cons]
      congr 1
      apply List.map_congr_left
      intro k hk
      have : k ≠ a := fun e => hnd.1 (e ▸ hk)
      simp [this]
    · have hf' : f ∈ rest := by simpa [Ne.symm h] using hf
      simp only [h, if_false, tab, List.map_cons]
      congr 1
      exact ih hnd.2 hf'

theorem map_tab {W' : Type} (names : List Nat) (g : Nat → W) (h : Nat → W → W') :
    (tab names g).map (fun kv => (kv.1, h kv.1 kv.2)) = tab names (fun k => h k (g k)) := by
  simp [tab, List.map_map, Function.comp_def]

theorem ofPairs_tab (names : List Nat) (g : Nat → W) (hnd : names.Nodup) : Dict.ofPairs (tab names g) = tab names g :=
  Dict.ofPairs_map_of_nodup names g hnd

end Tab

section Acc
variable [Add K] [OfNat K 0]

theorem addContribs_tab (names : List Nat) (g : Nat → K) (c : Dict K) :
    addContribs (tab names g) c = tab names (fun f => g f + c.getD f 0) := by
  simp [addContribs, tab, List.map_map, Function.comp_def]

/-- the in-place accumulation of the generated code: `for (f, c) in cs: acc[f] = acc.get(f, 0) + c` -/
def addSeq (acc cs : Dict K) : Dict K := cs.foldl (fun d kv => Dict.set d kv.1 (d.getD kv.1 0 + kv.2)) acc

theorem addSeq_tab (names : List Nat) (hnd : names.Nodup) :
    ∀ (cs : Dict K) (g : Nat → K), (Dict.keys cs).Nodup → (∀ k ∈ Dict.keys cs, k ∈ names) →
      addSeq (tab names g) cs = tab names (fun k => if k ∈ Dict.keys cs then g k + Dict.getD cs k 0 else g k)
  | [], g, _, _ => by simp [addSeq, Dict.keys]
  | (f, c) :: cs, g, hk, hsub => by
    have hk' : f ∉ Dict.keys cs ∧ (Dict.keys cs).Nodup := by simpa [Dict.keys] using hk
    have hf : f ∈ names := hsub f (by simp [Dict.keys])
    have hsub' : ∀ k ∈ Dict.keys cs, k ∈ names := fun k hk => hsub k (by
      simp only [Dict.keys, List.map_cons, List.mem_cons]; exact .inr hk)
    show addSeq (Dict.set (tab names g) f ((tab names g).getD f 0 + c)) cs = _
    rw [getD_tab names g hf, set_tab names g f _ hnd hf, addSeq_tab names hnd cs _ hk'.2 hsub']
    unfold tab
    apply List.map_congr_left
    intro k _
    have hk1 : f ∉ List.map Prod.fst cs := hk'.1
    by_cases hkf : k = f
    · subst hkf
      simp [hk1, Dict.keys, getD_cons]
    · have hkf' : f ≠ k := fun e => hkf e.symm
      have hmem : (k ∈ Dict.keys ((f, c) :: cs)) ↔ k ∈ Dict.keys cs := by simp [Dict.keys, hkf]
      simp only [hmem, hkf, hkf', getD_cons, if_false]

/-- along a duplicate-free chain that covers exactly the names, accumulating in place is `addContribs` -/
theorem addSeq_eq_addContribs (names : List Nat) (hnd : names.Nodup) (cs : Dict K) (g : Nat → K)
    (hk : cs.keys.Nodup) (hsub : ∀ k ∈ cs.keys, k ∈ names) (hcov : ∀ k ∈ names, k ∈ cs.keys) :
    addSeq (tab names g) cs = addContribs (tab names g) cs := by
  rw [addSeq_tab names hnd cs g hk hsub, addContribs_tab]
  unfold tab
  apply List.map_congr_left
  intro k hkn
  simp [hcov k hkn]

end Acc

/-- a duplicate-free chain of names that is as long as the (duplicate-free) list of names covers every name -/
theorem chain_covers {names chain : List Nat} (hc : chain.Nodup) (hsub : ∀ f ∈ chain, f ∈ names)
    (hlen : chain.length = names.length) : ∀ k ∈ names, k ∈ chain := by
  have hp : chain.Perm names := (List.subperm_of_subset hc hsub).perm_of_length_le (by omega)
  exact fun k hk => hp.mem_iff.mpr hk

/-! ### generic congruence under a computation whose result satisfies a postcondition -/

/-- `Post m P`: whenever `m` succeeds its result satisfies `P` -/
def Post (m : M K α) (P : α → Prop) : Prop := ∀ w a w', m w = (.ok a, w') → P a

theorem Post.bind_congr {m : M K α} {P : α → Prop} (hm : Post m P) {k k' : α → M K β}
    (h : ∀ a, P a → k a = k' a) : M.bind m k = M.bind m k' := by
  funext w
  unfold M.bind
  rcases hmw : m w with ⟨r, w'⟩
  cases r with
  | ok a => simp only; rw [h a (hm w a w' hmw)]
  | error e => rfl

theorem Post.pure (a : α) {P : α → Prop} (h : P a) : Post (M.pure a : M K α) P := by
  intro w b w' hb
  have hb' : ((Except.ok a : Except Err α), w) = (.ok b, w') := hb
  cases hb'; exact h

theorem Post.bind {m : M K α} {f : α → M K β} {Q : β → Prop} (hf : ∀ a, Post (f a) Q) : Post (M.bind m f) Q := by
  intro w b w' hb
  rcases M.run_cases m w with ⟨a, w1, hm⟩ | ⟨e, w1, hm⟩
  · rw [M.bind_of_ok hm] at hb; exact hf a w1 b w' hb
  · rw [M.bind_of_err hm] at hb; cases hb

variable [Add K] [Sub K] [Mul K] [Div K] [NatCast K] [OfNat K 0] [OfNat K 1] [RealOps K] [DecidableEq K]
variable {V Y : Type}

/-! ### the inner loop -/

/-- the contribution dict returned by the chain has the chain as its keys -/
theorem sageChainFull_keys (O : Oracles K V Y) (imputeM : List Nat → Nat → M K (List (Dict K))) (y : Y) (n : Nat) :
    ∀ (perm notInS : List Nat) (prev : K),
      Post (sageChainFull O imputeM y n perm notInS prev) (fun r => Dict.keys r.2.2 = perm)
  | [], _, _ => Post.pure _ rfl
  | f :: rest, notInS, prev => by
    unfold sageChainFull
    refine Post.bind (fun preds => Post.bind (fun fl => ?_))
    intro w b w' hb
    obtain ⟨r, w1, hr, hb⟩ := E2E.bind_ok_inv hb
    obtain ⟨rfl, -⟩ := E2E.pure_ok_inv hb
    have := sageChainFull_keys O imputeM y n rest (notInS.erase f) fl w r w1 hr
    simp only [Dict.keys, List.map_cons] at this ⊢
    rw [this]

theorem sageChainFull_bind_congr (O : Oracles K V Y) (imputeM : List Nat → Nat → M K (List (Dict K))) (y : Y) (n : Nat)
    (perm notInS : List Nat) (prev : K) {k k' : K × List Nat × Dict K → M K β}
    (h : ∀ r, Dict.keys r.2.2 = perm → k r = k' r) :
    M.bind (sageChainFull O imputeM y n perm notInS prev) k = M.bind (sageChainFull O imputeM y n perm notInS prev) k' :=
  (sageChainFull_keys O imputeM y n perm notInS prev).bind_congr h

/-- the three-variable inner loop `sage_values / loss_previous / features_not_in_s` is the chain, the contributions being
    accumulated in place -/
theorem forIn_batch_eq_full (O : Oracles K V Y) (imputeM : List Nat → Nat → M K (List (Dict K))) (y : Y) (n : Nat)
    (body : Nat → Dict K × K × List Nat → M K (ForInStep (Dict K × K × List Nat)))
    (hbody : ∀ a s, body a s = M.bind (imputeM (s.2.2.erase a) n) (fun preds =>
      M.bind (callLoss O y (meanOutput preds)) (fun fl =>
      M.pure (ForInStep.yield (Dict.set s.1 a (s.1.getD a 0 + (s.2.1 - fl)), fl, s.2.2.erase a))))) :
    ∀ (perm notInS : List Nat) (prev : K) (acc : Dict K),
      forIn perm (acc, prev, notInS) body
        = M.bind (sageChainFull O imputeM y n perm notInS prev) (fun r => M.pure (addSeq acc r.2.2, r.1, r.2.1))
  | [], notInS, prev, acc => by simp [sageChainFull, addSeq]
  | a :: rest, notInS, prev, acc => by
    rw [List.forIn_cons, hbody]
    simp only [M.bind_eq, M.bind_assoc', M.pure_bind', sageChainFull]
    congr 1; funext preds; congr 1; funext fl
    rw [forIn_batch_eq_full O imputeM y n body hbody rest]
    rfl

/-- … and, when the chain covers exactly the names and the running sums have the names as keys, this is `addContribs` -/
theorem forIn_batch_chain (O : Oracles K V Y) (imputeM : List Nat → Nat → M K (List (Dict K))) (y : Y) (n : Nat)
    (body : Nat → Dict K × K × List Nat → M K (ForInStep (Dict K × K × List Nat)))
    (hbody : ∀ a s, body a s = M.bind (imputeM (s.2.2.erase a) n) (fun preds =>
      M.bind (callLoss O y (meanOutput preds)) (fun fl =>
      M.pure (ForInStep.yield (Dict.set s.1 a (s.1.getD a 0 + (s.2.1 - fl)), fl, s.2.2.erase a)))))
    (names : List Nat) (hnd : names.Nodup) (chain : List Nat) (hc : chain.Nodup) (hsub : ∀ f ∈ chain, f ∈ names)
    (hlen : chain.length = names.length) (notInS : List Nat) (prev : K) (g : Nat → K) :
    forIn chain (tab names g, prev, notInS) body
      = M.bind (sageChainFull O imputeM y n chain notInS prev)
          (fun r => M.pure (addContribs (tab names g) r.2.2, r.1, r.2.1)) := by
  rw [forIn_batch_eq_full O imputeM y n body hbody]
  apply sageChainFull_bind_congr
  intro r hr
  rw [addSeq_eq_addContribs names hnd r.2.2 g (hr ▸ hc) (hr ▸ hsub) (hr ▸ chain_covers hc hsub hlen)]

/-! ### the outer loop -/

/-- a `for (a, i) in enumerate(l, start)` loop carrying the running sums and the last index is the effectful left fold of
    the per-element step; the loop body is only looked at on running sums whose keys are `names` -/
theorem forIn_zipIdx_addContribs (names : List Nat) (m : α → M K (Dict K)) (f : Dict K → α → M K (Dict K))
    (hf : ∀ acc a, f acc a = M.bind (m a) (fun c => M.pure (addContribs acc c)))
    (body : α × Nat → Dict K × Nat → M K (ForInStep (Dict K × Nat)))
    (hbody : ∀ x g nd, body x (tab names g, nd)
      = M.bind (m x.1) (fun c => M.pure (ForInStep.yield (addContribs (tab names g) c, x.2)))) :
    ∀ (l : List α) (i : Nat) (g : Nat → K) (nd : Nat),
      forIn (l.zipIdx i) (tab names g, nd) body
        = M.bind (M.foldlM' f (tab names g) l) (fun s => M.pure (s, if l.isEmpty then nd else i + l.length - 1))
  | [], i, g, nd => by simp [M.foldlM']
  | a :: rest, i, g, nd => by
    rw [List.zipIdx_cons, List.forIn_cons, hbody]
    simp only [M.bind_eq, M.bind_assoc', M.pure_bind', M.foldlM', hf]
    congr 1; funext c
    rw [addContribs_tab, forIn_zipIdx_addContribs names m f hf body hbody rest]
    congr 1; funext s
    congr 2
    cases rest with
    | nil => simp
    | cons b rest' => simp only [List.isEmpty_cons, List.length_cons]; simp; omega

/-- after the fold the running sums still have the names as keys -/
theorem foldlM'_post_tab (names : List Nat) (m : α → M K (Dict K)) (f : Dict K → α → M K (Dict K))
    (hf : ∀ acc a, f acc a = M.bind (m a) (fun c => M.pure (addContribs acc c))) :
    ∀ (l : List α) (g : Nat → K), Post (M.foldlM' f (tab names g) l) (fun s => ∃ g', s = tab names g')
  | [], g => Post.pure _ ⟨g, rfl⟩
  | a :: rest, g => by
    simp only [M.foldlM', hf, M.bind_assoc', M.pure_bind']
    refine Post.bind (fun c => ?_)
    rw [addContribs_tab]
    exact foldlM'_post_tab names m f hf rest _

theorem foldlM'_bind_congr_tab (names : List Nat) (m : α → M K (Dict K)) (f : Dict K → α → M K (Dict K))
    (hf : ∀ acc a, f acc a = M.bind (m a) (fun c => M.pure (addContribs acc c))) (l : List α) (g : Nat → K)
    {k k' : Dict K → M K β} (h : ∀ g', k (tab names g') = k' (tab names g')) :
    M.bind (M.foldlM' f (tab names g) l) k = M.bind (M.foldlM' f (tab names g) l) k' :=
  (foldlM'_post_tab names m f hf l g).bind_congr (fun s ⟨g', hs⟩ => hs ▸ h g')

/-! ### the bridge -/

/-- what `batchObsM` runs before adding the contributions -/
def obsChainM (O : Oracles K V Y) (names : List Nat) (permutation : Nat → Nat → List Nat)
    (imputeMx : Inst V → List Nat → Nat → M K (List (Dict K))) (n : Nat) (mp : Dict K) (xy : Inst V × Y) : M K (Dict K) :=
  M.bind M.get (fun w =>
  M.bind (callLoss O xy.2 mp) (fun l0 =>
  sageChainM O (imputeMx xy.1) xy.2 n (permChainAt names permutation w.calls) names l0))

theorem batchObsM_eq (O : Oracles K V Y) (names : List Nat) (permutation : Nat → Nat → List Nat)
    (imputeMx : Inst V → List Nat → Nat → M K (List (Dict K))) (n : Nat) (mp : Dict K) (acc : Dict K) (xy : Inst V × Y) :
    batchObsM O names permutation imputeMx n mp acc xy
      = M.bind (obsChainM O names permutation imputeMx n mp xy) (fun c => M.pure (addContribs acc c)) := by
  simp only [batchObsM, obsChainM, M.bind_assoc']

theorem batch_generated_eq_model' (O : Oracles K V Y) (names : List Nat) (hnd : names.Nodup) (nDefault : Nat)
    (permutation : Nat → Nat → List Nat)
    (hperm : ∀ c, (permChainAt names permutation c).Nodup ∧ ∀ f ∈ permChainAt names permutation c, f ∈ names)
    (hfull : ∀ c, (permChainAt names permutation c).length = names.length)
    (imputeMx : Inst V → List Nat → Nat → M K (List (Dict K))) (xs : List (Inst V)) (ys : List Y) (n? : Option Nat)
    (verbose : Bool) :
    Gen.BatchSage.explain_many O names nDefault permutation imputeMx xs ys n? verbose
      = batchSageM O names permutation imputeMx xs ys (n?.getD nDefault) := by
  unfold Gen.BatchSage.explain_many batchSageM
  cases n? <;> simp only [M.bind_eq, M.pure_eq, Option.getD_none, Option.getD_some]
  all_goals
    congr 1; funext preds
    rw [Dict.ofPairs_map_of_nodup names (fun _ => (0 : K)) hnd, tab_def]
    rw [forIn_zipIdx_addContribs names (obsChainM O names permutation imputeMx _ (meanOutput preds))
      (batchObsM O names permutation imputeMx _ (meanOutput preds)) (batchObsM_eq O names permutation imputeMx _ _) _ ?_]
    · simp only [M.bind_assoc', M.pure_bind']
      apply foldlM'_bind_congr_tab names _ _ (batchObsM_eq O names permutation imputeMx _ _)
      intro g'
      rw [map_tab names g' (fun _ v => v / _), map_tab names g' (fun _ v => v / _), ofPairs_tab _ _ hnd]
      simp
    · intro x g nd
      simp only [obsChainM, M.bind_assoc', M.pure_bind']
      congr 1; funext w; congr 1; funext l0
      have hp := hperm w.calls
      have hl := hfull w.calls
      unfold permChainAt at hp hl ⊢
      rw [forIn_batch_chain O (imputeMx x.1.1) x.1.2 _ _ ?_ names hnd _ hp.1 hp.2 hl, sageChainM_eq_full]
      · first | rfl | (simp only [M.bind_assoc', M.pure_bind']; rfl)
      · intro a s; first | rfl | simp only [M.bind_assoc', M.pure_bind', M.bind_pure'']

/-! ### a successful run is the pure `batchSage` -/

theorem sageChain_congr' (loss : Y → Dict K → K) (y : Y) (imp imp' : List Nat → List (Dict K)) :
    ∀ (perm notInS : List Nat) (prev : K), perm.Nodup → (∀ g ∈ perm, g ∈ notInS) →
      (∀ S : List Nat, S.length < notInS.length → imp S = imp' S) →
      sageChain loss y imp perm notInS prev = sageChain loss y imp' perm notInS prev
  | [], _, _, _, _, _ => rfl
  | f :: rest, notInS, prev, hnd, hsub, himp => by
    have hf : f ∈ notInS := hsub f (by simp)
    have hpos := List.length_pos_of_mem hf
    have hlen : (notInS.erase f).length < notInS.length := by
      rw [List.length_erase_of_mem hf]; omega
    have hnd' := List.nodup_cons.mp hnd
    simp only [sageChain]
    rw [himp _ hlen]
    congr 1
    exact sageChain_congr' loss y imp imp' rest (notInS.erase f) _ hnd'.2
      (fun g hg => (List.mem_erase_of_ne (by rintro rfl; exact hnd'.1 hg)).mpr (hsub g (by simp [hg])))
      (fun S hS => himp S (by omega))

variable {O : Oracles K V Y} {model : Inst V → Dict K} {loss : Y → Dict K → K}

theorem callModel_ok_inv' (hO : E2E.OAnswers O model loss) {x : Inst V} {w w' : World K} {p : Dict K}
    (h : callModel O x w = (.ok p, w')) : p = model x := hO.model _ _ _ (E2E.call_ok_inv h)

theorem callLoss_ok_inv' (hO : E2E.OAnswers O model loss) {y : Y} {p : Dict K} {w w' : World K} {l : K}
    (h : callLoss O y p w = (.ok l, w')) : l = loss y p := hO.loss _ _ _ _ (E2E.call_ok_inv h)

/-- a successful effectful chain is the pure chain for an imputer function made of the answers received during the run -/
theorem sageChainM_ok_inv' (hO : E2E.OAnswers O model loss) (imputeM : List Nat → Nat → M K (List (Dict K))) (y : Y)
    (n : Nat) :
    ∀ (perm notInS : List Nat) (prev : K) (w w' : World K) (cs : Dict K),
      perm.Nodup → (∀ g ∈ perm, g ∈ notInS) →
      sageChainM O imputeM y n perm notInS prev w = (.ok cs, w') →
      ∃ imp : List Nat → List (Dict K), cs = sageChain loss y imp perm notInS prev
  | [], notInS, prev, w, w', cs, _, _, h => by
    have h' : (M.pure [] : M K (Dict K)) w = (.ok cs, w') := h
    obtain ⟨rfl, -⟩ := E2E.pure_ok_inv h'
    exact ⟨fun _ => [], rfl⟩
  | f :: rest, notInS, prev, w, w', cs, hnd, hsub, h => by
    have hf : f ∈ notInS := hsub f (by simp)
    have hnd' := List.nodup_cons.mp hnd
    have hsub' : ∀ g ∈ rest, g ∈ notInS.erase f :=
      fun g hg => (List.mem_erase_of_ne (by rintro rfl; exact hnd'.1 hg)).mpr (hsub g (by simp [hg]))
    have h' : M.bind (imputeM (notInS.erase f) n) (fun preds =>
        M.bind (callLoss O y (meanOutput preds)) (fun fl =>
        M.bind (sageChainM O imputeM y n rest (notInS.erase f) fl) (fun tail =>
        M.pure ((f, prev - fl) :: tail)))) w = (.ok cs, w') := h
    obtain ⟨preds, w1, h1, h'⟩ := E2E.bind_ok_inv h'
    obtain ⟨fl, w2, h2, h'⟩ := E2E.bind_ok_inv h'
    obtain ⟨tl, w3, h3, h'⟩ := E2E.bind_ok_inv h'
    obtain ⟨rfl, -⟩ := E2E.pure_ok_inv h'
    have hfl : fl = loss y (meanOutput preds) := callLoss_ok_inv' hO h2
    obtain ⟨imp', rfl⟩ := sageChainM_ok_inv' hO imputeM y n rest (notInS.erase f) fl w2 w3 tl hnd'.2 hsub' h3
    refine ⟨fun S => if S = notInS.erase f then preds else imp' S, ?_⟩
    simp only [sageChain, if_true]
    rw [← hfl]
    congr 1
    apply sageChain_congr' loss y _ _ rest (notInS.erase f) fl hnd'.2 hsub'
    intro S hS
    have : S ≠ notInS.erase f := by rintro rfl; exact absurd hS (Nat.lt_irrefl _)
    simp only [this, if_false]

theorem mapM'_callModel_ok_inv (hO : E2E.OAnswers O model loss) :
    ∀ (xs : List (Inst V)) (w w' : World K) (preds : List (Dict K)),
      M.mapM' (callModel O) xs w = (.ok preds, w') → preds = xs.map model
  | [], w, w', preds, h => by
    have h' : (M.pure [] : M K (List (Dict K))) w = (.ok preds, w') := h
    obtain ⟨rfl, -⟩ := E2E.pure_ok_inv h'; rfl
  | x :: xs, w, w', preds, h => by
    have h' : M.bind (callModel O x) (fun b => M.bind (M.mapM' (callModel O) xs)
        (fun bs => M.pure (b :: bs))) w = (.ok preds, w') := h
    obtain ⟨b, w1, h1, h'⟩ := E2E.bind_ok_inv h'
    obtain ⟨bs, w2, h2, h'⟩ := E2E.bind_ok_inv h'
    obtain ⟨rfl, -⟩ := E2E.pure_ok_inv h'
    rw [callModel_ok_inv' hO h1, mapM'_callModel_ok_inv hO xs w1 w2 bs h2]; rfl

/-- the per-observation chains of `batchSage`, for a given baseline prediction -/
def chainsOf (names : List Nat) (loss : Y → Dict K → K) (mp : Dict K) (data : List (Inst V × Y))
    (perms : List (List Nat)) (imps : List (List Nat → List (Dict K))) : List (Dict K) :=
  (data.zip (perms.zip imps)).map (fun (d : (Inst V × Y) × (List Nat × (List Nat → List (Dict K)))) =>
    sageChain loss d.1.2 d.2.2 d.2.1 names (loss d.1.2 mp))

theorem foldlM'_batchObsM_ok_inv (hO : E2E.OAnswers O model loss) (names : List Nat)
    (permutation : Nat → Nat → List Nat)
    (hperm : ∀ c, (permChainAt names permutation c).Nodup ∧ ∀ f ∈ permChainAt names permutation c, f ∈ names)
    (imputeMx : Inst V → List Nat → Nat → M K (List (Dict K))) (n : Nat) (mp : Dict K) :
    ∀ (data : List (Inst V × Y)) (acc : Dict K) (w w' : World K) (sums : Dict K),
      M.foldlM' (batchObsM O names permutation imputeMx n mp) acc data w = (.ok sums, w') →
      ∃ (perms : List (List Nat)) (imps : List (List Nat → List (Dict K))),
        perms.length = data.length ∧ imps.length = data.length ∧
        (∀ p ∈ perms, p.Nodup ∧ ∀ f ∈ p, f ∈ names) ∧
        sums = (chainsOf names loss mp data perms imps).foldl addContribs acc
  | [], acc, w, w', sums, h => by
    have h' : (M.pure acc : M K (Dict K)) w = (.ok sums, w') := h
    obtain ⟨rfl, -⟩ := E2E.pure_ok_inv h'
    exact ⟨[], [], rfl, rfl, fun _ h => (by cases h), rfl⟩
  | xy :: data, acc, w, w', sums, h => by
    have h' : M.bind (batchObsM O names permutation imputeMx n mp acc xy)
        (fun b' => M.foldlM' (batchObsM O names permutation imputeMx n mp) b' data) w = (.ok sums, w') := h
    obtain ⟨acc1, w1, h1, h'⟩ := E2E.bind_ok_inv h'
    have h1' : M.bind (callLoss O xy.2 mp) (fun l0 =>
        M.bind (sageChainM O (imputeMx xy.1) xy.2 n (permChainAt names permutation w.calls) names l0) (fun contribs =>
        M.pure (addContribs acc contribs))) w = (.ok acc1, w1) := h1
    obtain ⟨l0, w2, h2, h1'⟩ := E2E.bind_ok_inv h1'
    obtain ⟨cs, w3, h3, h1'⟩ := E2E.bind_ok_inv h1'
    obtain ⟨rfl, -⟩ := E2E.pure_ok_inv h1'
    have hl0 : l0 = loss xy.2 mp := callLoss_ok_inv' hO h2
    obtain ⟨imp, rfl⟩ := sageChainM_ok_inv' hO (imputeMx xy.1) xy.2 n _ names l0 w2 w3 cs
      (hperm w.calls).1 (hperm w.calls).2 h3
    obtain ⟨perms, imps, hp, hi, hok, rfl⟩ :=
      foldlM'_batchObsM_ok_inv hO names permutation hperm imputeMx n mp data _ w1 w' sums h'
    refine ⟨permChainAt names permutation w.calls :: perms, imp :: imps, by simp [hp], by simp [hi], ?_, ?_⟩
    · intro p hp'
      rcases List.mem_cons.mp hp' with rfl | hp'
      · exact hperm w.calls
      · exact hok p hp'
    · simp only [chainsOf, List.zip_cons_cons, List.map_cons, List.foldl_cons, hl0]

theorem Frame.foldlM' {f : β → α → M K β} (hf : ∀ b a, Frame (f b a)) : ∀ (l : List α) (b : β), Frame (M.foldlM' f b l)
  | [], b => Frame.pure _
  | a :: as, b => Frame.bind (hf b a) (fun b' => Frame.foldlM' hf as b')

theorem Frame.batchObsM (O : Oracles K V Y) (names : List Nat) (permutation : Nat → Nat → List Nat)
    (imputeMx : Inst V → List Nat → Nat → M K (List (Dict K))) (himp : ∀ x S n, Frame (imputeMx x S n))
    (n : Nat) (mp : Dict K) (acc : Dict K) (xy : Inst V × Y) :
    Frame (batchObsM O names permutation imputeMx n mp acc xy) :=
  Frame.bind Frame.get (fun _ => Frame.bind (Frame.callLoss _ _) (fun _ =>
    Frame.bind (Frame.sageChainM (himp _) _ _ _) (fun _ => Frame.pure _)))

theorem Frame.batchSageM (O : Oracles K V Y) (names : List Nat) (permutation : Nat → Nat → List Nat)
    (imputeMx : Inst V → List Nat → Nat → M K (List (Dict K))) (himp : ∀ x S n, Frame (imputeMx x S n))
    (xs : List (Inst V)) (ys : List Y) (n : Nat) : Frame (batchSageM O names permutation imputeMx xs ys n) :=
  Frame.bind (Frame.mapM' (fun _ => Frame.callModel _) _) (fun _ =>
    Frame.bind (Frame.foldlM' (fun _ _ => Frame.batchObsM O names permutation imputeMx himp _ _ _ _) _ _)
      (fun _ => Frame.pure _))

theorem batchSageM_ok_pure' (hO : E2E.OAnswers O model loss)
    (names : List Nat) (permutation : Nat → Nat → List Nat)
    (hperm : ∀ c, (permChainAt names permutation c).Nodup ∧ ∀ f ∈ permChainAt names permutation c, f ∈ names)
    (imputeMx : Inst V → List Nat → Nat → M K (List (Dict K))) (himp : ∀ x S n, Frame (imputeMx x S n))
    (xs : List (Inst V)) (ys : List Y) (hlen : xs.length = ys.length) (hne : xs ≠ []) (n : Nat) (w : World K) (d : Dict K)
    (h : (batchSageM O names permutation imputeMx xs ys n w).1 = .ok d) :
    ∃ (perms : List (List Nat)) (imps : List (List Nat → List (Dict K))),
      perms.length = xs.length ∧ imps.length = xs.length ∧
      (∀ p ∈ perms, p.Nodup ∧ ∀ f ∈ p, f ∈ names) ∧
      d = batchSage names model loss (List.zip xs ys) perms imps ∧
      (batchSageM O names permutation imputeMx xs ys n w).2.est = w.est := by
  have hest := (Frame.batchSageM O names permutation imputeMx himp xs ys n w).1
  rcases hr : batchSageM O names permutation imputeMx xs ys n w with ⟨r, w'⟩
  rw [hr] at h hest; simp only at h hest; subst h
  have hr' : M.bind (M.mapM' (callModel O) xs) (fun preds =>
      M.bind (M.foldlM' (batchObsM O names permutation imputeMx n (meanOutput preds))
        (names.map (fun f => (f, (0 : K)))) (List.zip xs ys)) (fun sums =>
      M.pure (sums.map (fun kv => (kv.1,
        kv.2 / ((if (List.zip xs ys).isEmpty then xs.length else (List.zip xs ys).length : Nat) : K)))))) w
      = (.ok d, w') := hr
  obtain ⟨preds, w1, h1, hr'⟩ := E2E.bind_ok_inv hr'
  obtain ⟨sums, w2, h2, hr'⟩ := E2E.bind_ok_inv hr'
  obtain ⟨rfl, -⟩ := E2E.pure_ok_inv hr'
  have hpreds := mapM'_callModel_ok_inv hO xs w w1 preds h1
  subst hpreds
  obtain ⟨perms, imps, hp, hi, hok, rfl⟩ :=
    foldlM'_batchObsM_ok_inv hO names permutation hperm imputeMx n _ (List.zip xs ys) _ w1 w2 sums h2
  have hzl : (List.zip xs ys).length = xs.length := by simp [List.length_zip, hlen]
  have hemp : (List.zip xs ys).isEmpty = false := by
    cases xs with
    | nil => exact absurd rfl hne
    | cons x xs' =>
      cases ys with
      | nil => simp at hlen
      | cons y ys' => rfl
  have hmap : (List.zip xs ys).map (fun d => model d.1) = xs.map model := by
    have : (List.zip xs ys).map (fun d => model d.1) = ((List.zip xs ys).map Prod.fst).map model := by
      simp [List.map_map, Function.comp_def]
    rw [this, List.map_fst_zip (by omega)]
  refine ⟨perms, imps, hp.trans hzl, hi.trans hzl, hok, ?_, hest⟩
  simp only [batchSage, chainsOf, hemp, hmap, Bool.false_eq_true, if_false]

end Ixai.GenBatch
