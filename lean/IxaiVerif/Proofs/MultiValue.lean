/-
  Helper lemmas for `Tr` (the base tracker: sum of the two generated kernels) and `MV` (MultiValueTracker),
  used by C12 and by the explainer properties C01/C02/C03/C16a.
  One-step facts about `Tr` come from the `update_spec` lemmas of `Proofs/Tracker.lean`, i.e. from the generated code.
-/
import IxaiVerif.Model.Tr
import IxaiVerif.Proofs.Tracker
import Mathlib.Data.List.Nodup
import Mathlib.Data.List.Infix
import Mathlib.Data.List.Perm.Basic
import Mathlib.Algebra.BigOperators.Group.List.Lemmas
import Mathlib.Algebra.BigOperators.Ring.List

set_option linter.unusedSectionVars false

namespace Ixai
open Ixai.Gen

/-! ### association lists -/
namespace Dict
variable {V W : Type}

@[simp] theorem keys_nil : keys ([] : Dict V) = [] := rfl
@[simp] theorem keys_cons_multivalue (kv : Nat × V) (d : Dict V) : keys (kv :: d) = kv.1 :: keys d := rfl
@[simp] theorem keys_append (d1 d2 : Dict V) : keys (d1 ++ d2) = keys d1 ++ keys d2 := by simp [keys]
@[simp] theorem find?_nil (k : Nat) : find? ([] : Dict V) k = none := rfl
theorem find?_cons (k' : Nat) (v : V) (d : Dict V) (k : Nat) :
    find? ((k', v) :: d) k = if k' = k then some v else find? d k := rfl

theorem keys_mapVal (d : Dict V) (g : Nat → V → W) :
    keys (d.map (fun kv => (kv.1, g kv.1 kv.2))) = keys d := by
  simp [keys, List.map_map, Function.comp_def]

theorem find?_eq_none_iff (d : Dict V) (k : Nat) : d.find? k = none ↔ k ∉ d.keys := by
  induction d with
  | nil => simp
  | cons kv d ih =>
    obtain ⟨k', v⟩ := kv
    by_cases h : k' = k
    · simp [find?_cons, h]
    · simp [find?_cons, h, ih, Ne.symm h]

theorem find?_isSome_iff (d : Dict V) (k : Nat) : (d.find? k).isSome ↔ k ∈ d.keys := by
  rw [← not_iff_not, ← find?_eq_none_iff]; cases d.find? k <;> simp

theorem has_iff (d : Dict V) (k : Nat) : d.has k = true ↔ k ∈ d.keys := find?_isSome_iff d k

theorem find?_append (d1 d2 : Dict V) (k : Nat) :
    find? (d1 ++ d2) k = match d1.find? k with | some v => some v | none => d2.find? k := by
  induction d1 with
  | nil => simp
  | cons kv d ih =>
    obtain ⟨k', v⟩ := kv
    by_cases h : k' = k <;> simp [find?_cons, h, ih]

theorem find?_mapVal (d : Dict V) (g : Nat → V → W) (k : Nat) :
    find? (d.map (fun kv => (kv.1, g kv.1 kv.2))) k = (d.find? k).map (g k) := by
  induction d with
  | nil => simp
  | cons kv d ih =>
    obtain ⟨k', v⟩ := kv
    by_cases h : k' = k
    · subst h; simp [find?_cons]
    · simp [find?_cons, h, ih]

theorem find?_filterKey (d : Dict V) (p : Nat → Bool) (k : Nat) :
    find? (d.filter (fun kv => p kv.1)) k = if p k then d.find? k else none := by
  induction d with
  | nil => simp
  | cons kv d ih =>
    obtain ⟨k', v⟩ := kv
    by_cases h : k' = k
    · subst h
      by_cases hp : p k' = true
      · simp [hp, find?_cons]
      · simp [hp, ih]
    · by_cases hp : p k' = true
      · simp [hp, find?_cons, h, ih]
      · simp [hp, find?_cons, h, ih]

theorem getD_mapVal (d : Dict V) (g : Nat → V → W) (k : Nat) (dv : V) (dw : W) (h : g k dv = dw) :
    getD (d.map (fun kv => (kv.1, g kv.1 kv.2))) k dw = g k (d.getD k dv) := by
  simp only [getD, find?_mapVal]; cases d.find? k <;> simp [h]

/-- with distinct keys, reading every key in order gives back the values -/
theorem map_getD_keys (d : Dict V) (dflt : V) (hd : d.keys.Nodup) :
    d.keys.map (fun k => d.getD k dflt) = d.map Prod.snd := by
  induction d with
  | nil => simp
  | cons kv d ih =>
    obtain ⟨k', v⟩ := kv
    simp only [keys_cons_multivalue, List.nodup_cons] at hd
    simp only [keys_cons_multivalue, List.map_cons, getD, find?_cons, if_true, Option.getD_some, List.cons.injEq, true_and]
    rw [← ih hd.2]
    apply List.map_congr_left
    intro k hk
    have : k' ≠ k := fun e => hd.1 (e ▸ hk)
    simp [getD, this]

/-- a dict built by tabulating a function over distinct names -/
theorem find?_tabulate (names : List Nat) (g : Nat → V) (k : Nat) :
    find? (names.map (fun f => (f, g f))) k = if k ∈ names then some (g k) else none := by
  induction names with
  | nil => simp
  | cons f names ih =>
    by_cases h : f = k
    · subst h; simp [find?_cons]
    · simp [find?_cons, h, ih, Ne.symm h]

theorem keys_tabulate (names : List Nat) (g : Nat → V) : keys (names.map (fun f => (f, g f))) = names := by
  simp [keys, List.map_map, Function.comp_def]

theorem getD_tabulate_multivalue (names : List Nat) (g : Nat → V) (k : Nat) (dflt : V) (hk : k ∈ names) :
    getD (names.map (fun f => (f, g f))) k dflt = g k := by
  simp [getD, find?_tabulate, hk]

end Dict

/-! ### the base tracker `Tr` -/
namespace Tr
variable {K : Type} [Field K] [CharZero K] [RealOps K]

@[simp] theorem init_get (alpha : Option K) : (Tr.init alpha).get = 0 := by
  cases alpha <;> simp [Tr.init, Tr.get, WelfordTracker.init, ExponentialSmoothingTracker.init]

@[simp] theorem init_N (alpha : Option K) : (Tr.init alpha).N = 0 := by
  cases alpha <;> simp [Tr.init, Tr.N, WelfordTracker.init, ExponentialSmoothingTracker.init]

@[simp] theorem update_N (t : Tr K) (v : K) : (t.update v).N = t.N + 1 := by
  cases t with
  | w t => exact (Welford.update_spec t v).1
  | e t => exact (ES.update_spec t v).1

theorem foldl_w (vs : List K) (t : WelfordTracker K) :
    vs.foldl Tr.update (.w t) = .w (vs.foldl WelfordTracker.update t) := by
  induction vs generalizing t with
  | nil => rfl
  | cons v vs ih => simp only [List.foldl_cons, Tr.update, ih]

theorem foldl_e (vs : List K) (t : ExponentialSmoothingTracker K) :
    vs.foldl Tr.update (.e t) = .e (vs.foldl ExponentialSmoothingTracker.update t) := by
  induction vs generalizing t with
  | nil => rfl
  | cons v vs ih => simp only [List.foldl_cons, Tr.update, ih]

/-- static mode: the fold of `Tr.update` is the generated Welford kernel run on the same values -/
theorem foldl_init_none (vs : List K) : vs.foldl Tr.update (Tr.init none) = .w (Welford.run vs) := by
  simp only [Tr.init, foldl_w, Welford.run]

/-- dynamic mode: the fold of `Tr.update` is the generated smoothing kernel run on the same values -/
theorem foldl_init_some (α : K) (vs : List K) : vs.foldl Tr.update (Tr.init (some α)) = .e (ES.run α vs) := by
  simp only [Tr.init, foldl_e, ES.run]

theorem foldl_N (vs : List K) (t : Tr K) : (vs.foldl Tr.update t).N = t.N + vs.length := by
  induction vs generalizing t with
  | nil => simp
  | cons v vs ih => simp [ih]; omega

/-- "same kind of tracker, same number of updates, same smoothing parameter" -/
def Same : Tr K → Tr K → Prop
  | .w a, .w b => a.N = b.N
  | .e a, .e b => a.N = b.N ∧ a.alpha = b.alpha
  | _, _ => False

theorem Same.refl (a : Tr K) : Same a a := by cases a <;> simp [Same]

theorem Same.symm {a b : Tr K} (h : Same a b) : Same b a := by
  cases a <;> cases b <;> simp_all [Same]

theorem Same.trans {a b c : Tr K} (h : Same a b) (h' : Same b c) : Same a c := by
  cases a <;> cases b <;> cases c <;> simp_all [Same]

/-- simultaneous updates (with whatever values) keep trackers `Same` -/
theorem Same.update {a b : Tr K} (h : Same a b) (x y : K) : Same (a.update x) (b.update y) := by
  cases a with
  | w a =>
    cases b with
    | w b => simp only [Same, Tr.update] at h ⊢; rw [(Welford.update_spec a x).1, (Welford.update_spec b y).1, h]
    | e b => simp [Same] at h
  | e a =>
    cases b with
    | w b => simp [Same] at h
    | e b =>
      simp only [Same, Tr.update] at h ⊢
      rw [(ES.update_spec a x).1, (ES.update_spec b y).1, (ES.update_spec a x).2.1, (ES.update_spec b y).2.1]
      exact ⟨by rw [h.1], h.2⟩

/-- weight of the old value in one update -/
def cP : Tr K → K
  | .w t => 1 - 1 / ((t.N : K) + 1)
  | .e t => 1 - t.alpha

/-- weight of the new value in one update -/
def cQ : Tr K → K
  | .w t => 1 / ((t.N : K) + 1)
  | .e t => t.alpha

/-- one update is an affine combination of the old value and the new input, with weights that only depend on the
    kind, the count and alpha -/
theorem get_update (t : Tr K) (v : K) : (t.update v).get = cP t * t.get + cQ t * v := by
  cases t with
  | w t =>
    simp only [Tr.update, Tr.get, cP, cQ, (Welford.update_spec t v).2.1]
    have h : ((t.N : K) + 1) ≠ 0 := Nat.cast_add_one_ne_zero _
    field_simp; ring
  | e t => simp only [Tr.update, Tr.get, cP, cQ, (ES.update_spec t v).2.2]

theorem Same.cP_eq {a b : Tr K} (h : Same a b) : cP a = cP b := by
  cases a <;> cases b <;> simp_all [Same, cP]

theorem Same.cQ_eq {a b : Tr K} (h : Same a b) : cQ a = cQ b := by
  cases a <;> cases b <;> simp_all [Same, cQ]

/-- Welford one-step form -/
theorem get_update_w (t : WelfordTracker K) (v : K) :
    ((Tr.w t).update v).get = (Tr.w t).get + (v - (Tr.w t).get) / (((Tr.w t).N : K) + 1) :=
  (Welford.update_spec t v).2.1

/-- smoothing one-step form -/
theorem get_update_e (t : ExponentialSmoothingTracker K) (v : K) :
    ((Tr.e t).update v).get = (1 - t.alpha) * (Tr.e t).get + t.alpha * v :=
  (ES.update_spec t v).2.2

/-- joint linearity: trackers `tᵢ`, `a`, `b` pairwise `Same`; if `Σ tᵢ.get = a.get - b.get` and `Σ cᵢ = A - B` then the
    same relation holds after updating `tᵢ` with `cᵢ`, `a` with `A`, `b` with `B`. -/
theorem sum_update_linear {ι : Type} (l : List ι) (t : ι → Tr K) (c : ι → K) (a b : Tr K) (A B : K)
    (hab : Same b a) (ht : ∀ i ∈ l, Same (t i) a)
    (hsum : (l.map (fun i => (t i).get)).sum = a.get - b.get) (hc : (l.map c).sum = A - B) :
    (l.map (fun i => ((t i).update (c i)).get)).sum = (a.update A).get - (b.update B).get := by
  have h1 : l.map (fun i => ((t i).update (c i)).get) = l.map (fun i => cP a * (t i).get + cQ a * c i) := by
    apply List.map_congr_left
    intro i hi
    rw [get_update, (ht i hi).cP_eq, (ht i hi).cQ_eq]
  rw [h1, List.sum_map_add, List.sum_map_mul_left, List.sum_map_mul_left, hsum, hc, get_update, get_update,
    hab.cP_eq, hab.cQ_eq]
  ring

end Tr

/-! ### MultiValueTracker -/
namespace MV
variable {K : Type} [Field K] [CharZero K] [RealOps K]

/-- a tracker fed a stream of update dicts -/
def run (base : Tr K) (us : List (Dict K)) : MV K := us.foldl MV.update (MV.init base)

/-- the values key `k` is updated with: nothing before the first update that contains `k`; from then on its
    value, or 0 in updates that omit it -/
def series (us : List (Dict K)) (k : Nat) : List K :=
  (us.dropWhile (fun u => !(u.has k))).map (fun u => u.getD k 0)

/-- the tracker of key `k`, or the (untouched) base tracker if `k` has not appeared yet -/
def virt (m : MV K) (k : Nat) : Tr K := (m.trackers.find? k).getD m.base

theorem run_snoc (base : Tr K) (us : List (Dict K)) (u : Dict K) :
    run base (us ++ [u]) = (run base us).update u := by
  simp [run, List.foldl_append]

@[simp] theorem update_base (m : MV K) (u : Dict K) : (m.update u).base = m.base := rfl
@[simp] theorem update_N (m : MV K) (u : Dict K) : (m.update u).N = m.N + 1 := rfl

theorem foldl_base (us : List (Dict K)) (m : MV K) : (us.foldl MV.update m).base = m.base := by
  induction us generalizing m with
  | nil => rfl
  | cons u us ih => simp [ih]

theorem foldl_N (us : List (Dict K)) (m : MV K) : (us.foldl MV.update m).N = m.N + us.length := by
  induction us generalizing m with
  | nil => rfl
  | cons u us ih => simp [ih]; omega

/-- what one update does to the tracker of a key -/
theorem find?_update (m : MV K) (u : Dict K) (k : Nat) :
    (m.update u).trackers.find? k =
      match m.trackers.find? k with
      | some t => some (t.update (u.getD k 0))
      | none => (u.find? k).map (fun v => m.base.update v) := by
  have h1 := Dict.find?_mapVal m.trackers (fun k (t : Tr K) => t.update (u.getD k 0)) k
  have h2 := Dict.find?_mapVal (u.filter (fun kv => !(m.trackers.has kv.1))) (fun _ (v : K) => m.base.update v) k
  have h3 := Dict.find?_filterKey u (fun k => !(m.trackers.has k)) k
  simp only [MV.update, Dict.find?_append]
  rw [h1, h2, h3]
  cases h : m.trackers.find? k with
  | some t => simp
  | none => simp [Dict.has, h]

theorem keys_update (m : MV K) (u : Dict K) :
    (m.update u).trackers.keys =
      m.trackers.keys ++ (u.keys.filter (fun k => !(m.trackers.has k))) := by
  simp only [MV.update, Dict.keys_append]
  congr 1
  · exact Dict.keys_mapVal m.trackers (fun k (t : Tr K) => t.update (u.getD k 0))
  · simp only [Dict.keys, List.map_map, List.filter_map, Function.comp_def]

theorem keys_update_nodup (m : MV K) (u : Dict K) (hm : m.trackers.keys.Nodup) (hu : u.keys.Nodup) :
    (m.update u).trackers.keys.Nodup := by
  rw [keys_update, List.nodup_append]
  refine ⟨hm, hu.filter _, ?_⟩
  intro a ha b hb
  rw [List.mem_filter] at hb
  rintro rfl
  have := (Dict.has_iff m.trackers a).mpr ha
  simp [this] at hb

theorem get_keys (m : MV K) : m.get.keys = m.trackers.keys :=
  Dict.keys_mapVal m.trackers (fun _ (t : Tr K) => t.get)

theorem get_find? (m : MV K) (k : Nat) : m.get.find? k = (m.trackers.find? k).map Tr.get :=
  Dict.find?_mapVal m.trackers (fun _ (t : Tr K) => t.get) k

theorem getKey_eq (m : MV K) (k : Nat) : m.getKey k = ((m.trackers.find? k).map Tr.get).getD 0 := by
  simp [MV.getKey, Dict.getD, get_find?]

/-- the value of a key is the value of its (virtual) tracker, as soon as the base tracker starts at 0 -/
theorem getKey_eq_virt (m : MV K) (k : Nat) (h0 : m.base.get = 0) : m.getKey k = (m.virt k).get := by
  rw [getKey_eq, virt]; cases m.trackers.find? k <;> simp [h0]

theorem getKey_of_find? (m : MV K) (k : Nat) (t : Tr K) (h : m.trackers.find? k = some t) : m.getKey k = t.get := by
  rw [getKey_eq, h]; rfl

/-- a key contained in the update dict (or already tracked): its tracker is updated with the dict's value for it -/
theorem virt_update (m : MV K) (u : Dict K) (k : Nat) (hk : k ∈ u.keys ∨ k ∈ m.trackers.keys) :
    (m.update u).virt k = (m.virt k).update (u.getD k 0) := by
  simp only [virt, find?_update, update_base]
  cases h : m.trackers.find? k with
  | some t => simp
  | none =>
    have hk' : k ∈ u.keys := by
      rcases hk with hk | hk
      · exact hk
      · exact absurd hk ((Dict.find?_eq_none_iff _ _).mp h)
    have := (Dict.find?_isSome_iff u k).mpr hk'
    cases h' : u.find? k with
    | none => simp [h'] at this
    | some v => simp [Dict.getD, h']

/-- the tracker of a key after a stream of updates, from an arbitrary starting state -/
theorem foldl_find? (us : List (Dict K)) (m : MV K) (k : Nat) :
    (us.foldl MV.update m).trackers.find? k =
      match m.trackers.find? k with
      | some t => some ((us.map (fun u => u.getD k 0)).foldl Tr.update t)
      | none => if series us k = [] then none else some ((series us k).foldl Tr.update m.base) := by
  induction us generalizing m with
  | nil => cases h : m.trackers.find? k <;> simp [series, h]
  | cons u us ih =>
    rw [List.foldl_cons, ih (m.update u), find?_update, update_base]
    cases h : m.trackers.find? k with
    | some t => simp
    | none =>
      cases h' : u.find? k with
      | none =>
        have : u.has k = false := by simp [Dict.has, h']
        simp [series, this]
      | some v =>
        have : u.has k = true := by simp [Dict.has, h']
        simp [series, this, Dict.getD, h']

theorem series_eq_nil_iff (us : List (Dict K)) (k : Nat) : series us k = [] ↔ ∀ u ∈ us, k ∉ u.keys := by
  induction us with
  | nil => simp [series]
  | cons u us ih =>
    by_cases h : u.has k = true
    · have hk := (Dict.has_iff u k).mp h
      simp [series, h, hk]
    · have hk : k ∉ u.keys := fun hk => h ((Dict.has_iff u k).mpr hk)
      have h' : u.has k = false := by simpa using h
      have : series (u :: us) k = series us k := by simp [series, h']
      rw [this, ih]; simp [hk]

theorem run_find? (base : Tr K) (us : List (Dict K)) (k : Nat) :
    (run base us).trackers.find? k =
      if series us k = [] then none else some ((series us k).foldl Tr.update base) := by
  rw [run, foldl_find?]; rfl

theorem run_keys_nodup (base : Tr K) (us : List (Dict K)) (hus : ∀ u ∈ us, u.keys.Nodup) :
    (run base us).trackers.keys.Nodup := by
  induction us using List.reverseRecOn with
  | nil => simp [run, MV.init]
  | append_singleton us u ih =>
    rw [run_snoc]
    exact keys_update_nodup _ _ (ih (fun w hw => hus w (by simp [hw]))) (hus u (by simp))

theorem foldl_keys_prefix (us : List (Dict K)) (m : MV K) :
    m.trackers.keys <+: (us.foldl MV.update m).trackers.keys := by
  induction us generalizing m with
  | nil => exact List.prefix_refl _
  | cons u us ih =>
    rw [List.foldl_cons]
    refine List.IsPrefix.trans ?_ (ih (m.update u))
    rw [keys_update]; exact List.prefix_append _ _

end MV

/-! ### sums over dict values -/
section Sums
variable {K : Type} [Field K]

theorem Dict.sum_getD_keys (d : Dict K) (hd : d.keys.Nodup) :
    (d.keys.map (fun k => d.getD k 0)).sum = (d.map Prod.snd).sum := by
  rw [Dict.map_getD_keys d 0 hd]

end Sums

end Ixai
