/-
  Helper lemmas for Props/GenBridge.lean: the GENERATED `explain_one`s (Gen/IncrementalPFI.lean, Gen/IncrementalSage.lean)
  equal the hand-written effectful models (Model/Effect.lean).

    * monad laws for `M K` (`LawfulMonad` instance; `>>=`/`pure` are `M.bind`/`M.pure` by `rfl`)
    * `Dict.set` on a fresh key appends; `Dict.ofPairs` of a duplicate-free key list is the list itself
    * the `for`-loops: `forIn_set_eq_mapM'` (PFI), `forIn_sage_eq_full` + `sageChainM_eq_full` (SAGE); the loop body is
      a parameter with a defining equation, so the proofs do not mention the generated local names
    * `Frame.bind_congr`: after a framed computation the continuation may assume `est`/`seen` unchanged
    * the two bridge theorems `pfi_generated_eq_model'` / `sage_generated_eq_model'`
-/
import IxaiVerif.Gen.IncrementalPFI
import IxaiVerif.Gen.IncrementalSage
import IxaiVerif.Proofs.Effect
set_option linter.unusedSectionVars false
set_option linter.unusedVariables false
set_option linter.unusedSimpArgs false

namespace Ixai
variable {K : Type} {α β γ : Type}
namespace M
@[simp] theorem bind_eq (m : M K α) (f : α → M K β) : (m >>= f) = M.bind m f := rfl
@[simp] theorem pure_eq (a : α) : (Pure.pure a : M K α) = M.pure a := rfl
@[simp] theorem pure_bind' (a : α) (f : α → M K β) : M.bind (M.pure a) f = f a := rfl
@[simp] theorem bind_pure' (m : M K α) : M.bind m M.pure = m := by
  funext w; unfold M.bind M.pure; rcases m w with ⟨r, w'⟩; cases r <;> rfl
@[simp] theorem bind_pure'' (m : M K α) : M.bind m (fun a => M.pure a) = m := bind_pure' m
@[simp] theorem bind_assoc' (m : M K α) (f : α → M K β) (g : β → M K γ) :
    M.bind (M.bind m f) g = M.bind m (fun a => M.bind (f a) g) := by
  funext w; unfold M.bind; rcases m w with ⟨r, w'⟩; cases r <;> rfl
instance : LawfulMonad (M K) := LawfulMonad.mk' (M K)
  (id_map := fun x => bind_pure' x)
  (pure_bind := fun a f => rfl)
  (bind_assoc := fun m f g => bind_assoc' m f g)
end M

namespace Dict
variable {V : Type}
theorem set_of_not_mem : ∀ (d : Dict V) (k : Nat) (v : V), k ∉ d.keys → d.set k v = d ++ [(k, v)]
  | [], k, v, _ => rfl
  | (k', v') :: rest, k, v, h => by
    have hk : k' ≠ k := fun e => h (by simp [keys, e])
    have hr : k ∉ keys rest := fun e => h (by simp [keys] at e ⊢; exact .inr e)
    simp [set, hk, set_of_not_mem rest k v hr]

theorem foldl_set_of_nodup : ∀ (l : List (Nat × V)) (acc : Dict V), (l.map Prod.fst).Nodup →
    (∀ k ∈ l.map Prod.fst, k ∉ acc.keys) →
    l.foldl (fun d kv => d.set kv.1 kv.2) acc = acc ++ l
  | [], acc, _, _ => by simp
  | (k, v) :: rest, acc, hnd, hdis => by
    simp only [List.map_cons, List.nodup_cons] at hnd
    have hk : k ∉ acc.keys := hdis k (by simp)
    simp only [List.foldl_cons]
    rw [set_of_not_mem acc k v hk, foldl_set_of_nodup rest _ hnd.2]
    · simp
    · intro k' hk' hmem
      simp only [keys, List.map_append, List.map_cons, List.map_nil, List.mem_append, List.mem_singleton] at hmem
      rcases hmem with h | h
      · exact hdis k' (by simp only [List.map_cons, List.mem_cons]; exact .inr hk') h
      · subst h; exact hnd.1 hk'

theorem ofPairs_map_of_nodup (names : List Nat) (g : Nat → V) (hnd : names.Nodup) :
    Dict.ofPairs (names.map (fun f => (f, g f))) = names.map (fun f => (f, g f)) := by
  unfold Dict.ofPairs
  rw [foldl_set_of_nodup _ _ (by simpa [List.map_map, Function.comp_def] using hnd) (by intro k _ h; cases h)]
  simp
end Dict

/-- the `for feature in names: d[feature] = f(feature)` loop is the sequential map -/
theorem forIn_set_eq_mapM' (f : Nat → M K α) (body : Nat → Dict α → M K (ForInStep (Dict α)))
    (hbody : ∀ a s, body a s = M.bind (f a) (fun v => M.pure (ForInStep.yield (Dict.set s a v)))) :
    ∀ (l : List Nat) (acc : Dict α), l.Nodup → (∀ a ∈ l, a ∉ acc.keys) →
      forIn l acc body
        = M.bind (M.mapM' (fun a => M.bind (f a) (fun v => M.pure (a, v))) l) (fun cs => M.pure (acc ++ cs))
  | [], acc, _, _ => by simp [M.mapM']
  | a :: rest, acc, hnd, hdis => by
    rw [List.nodup_cons] at hnd
    have ha : a ∉ acc.keys := hdis a (by simp)
    rw [List.forIn_cons, hbody]
    simp only [M.bind_eq, M.bind_assoc', M.pure_bind', M.mapM']
    congr 1; funext v
    rw [Dict.set_of_not_mem acc a v ha, forIn_set_eq_mapM' f body hbody rest _ hnd.2]
    · simp
    · intro a' ha' hmem
      simp only [Dict.keys, List.map_append, List.map_cons, List.map_nil, List.mem_append, List.mem_singleton] at hmem
      rcases hmem with h | h
      · exact hdis a' (List.mem_cons_of_mem _ ha') h
      · subst h; exact hnd.1 ha'

theorem Frame.bind_congr {m : M K α} (hm : Frame m) {k k' : α → M K β} (w : World K)
    (h : ∀ a w', w'.est = w.est → w'.seen = w.seen → k a w' = k' a w') : M.bind m k w = M.bind m k' w := by
  unfold M.bind
  have hw := hm w
  rcases hmw : m w with ⟨r, w'⟩
  rw [hmw] at hw
  cases r with
  | ok a => exact h a w' hw.1 hw.2
  | error e => rfl

variable [Add K] [Sub K] [Mul K] [Div K] [NatCast K] [OfNat K 0] [OfNat K 1] [RealOps K] [DecidableEq K]
variable {V Y : Type}

/-- `sageChainM` returning also the final loop state (last loss, remaining features) -/
def sageChainFull (O : Oracles K V Y) (imputeM : List Nat → Nat → M K (List (Dict K))) (y : Y) (n : Nat) :
    (perm : List Nat) → (notInS : List Nat) → (prev : K) → M K (K × List Nat × Dict K)
  | [], notInS, prev => M.pure (prev, notInS, [])
  | f :: rest, notInS, prev =>
    M.bind (imputeM (notInS.erase f) n) (fun preds =>
    M.bind (callLoss O y (meanOutput preds)) (fun fl =>
    M.bind (sageChainFull O imputeM y n rest (notInS.erase f) fl) (fun r =>
    M.pure (r.1, r.2.1, (f, prev - fl) :: r.2.2))))

theorem sageChainM_eq_full (O : Oracles K V Y) (imputeM : List Nat → Nat → M K (List (Dict K))) (y : Y) (n : Nat) :
    ∀ (perm notInS : List Nat) (prev : K),
      sageChainM O imputeM y n perm notInS prev
        = M.bind (sageChainFull O imputeM y n perm notInS prev) (fun r => M.pure r.2.2)
  | [], _, _ => rfl
  | f :: rest, notInS, prev => by
    simp only [sageChainM, sageChainFull, M.bind_assoc', M.pure_bind']
    congr 1; funext preds; congr 1; funext fl
    rw [sageChainM_eq_full O imputeM y n rest]
    simp only [M.bind_assoc', M.pure_bind']

theorem forIn_sage_eq_full (O : Oracles K V Y) (imputeM : List Nat → Nat → M K (List (Dict K))) (y : Y) (n : Nat)
    (body : Nat → K × List Nat × Dict K → M K (ForInStep (K × List Nat × Dict K)))
    (hbody : ∀ a s, body a s = M.bind (imputeM (s.2.1.erase a) n) (fun preds =>
      M.bind (callLoss O y (meanOutput preds)) (fun fl =>
      M.pure (ForInStep.yield (fl, s.2.1.erase a, Dict.set s.2.2 a (s.1 - fl)))))) :
    ∀ (perm notInS : List Nat) (prev : K) (acc : Dict K), perm.Nodup → (∀ a ∈ perm, a ∉ acc.keys) →
      forIn perm (prev, notInS, acc) body
        = M.bind (sageChainFull O imputeM y n perm notInS prev) (fun r => M.pure (r.1, r.2.1, acc ++ r.2.2))
  | [], notInS, prev, acc, _, _ => by simp [sageChainFull]
  | a :: rest, notInS, prev, acc, hnd, hdis => by
    rw [List.nodup_cons] at hnd
    have ha : a ∉ acc.keys := hdis a (by simp)
    rw [List.forIn_cons, hbody]
    simp only [M.bind_eq, M.bind_assoc', M.pure_bind', sageChainFull]
    congr 1; funext preds; congr 1; funext fl
    rw [Dict.set_of_not_mem acc a _ ha, forIn_sage_eq_full O imputeM y n body hbody rest _ _ _ hnd.2]
    · simp
    · intro a' ha' hmem
      simp only [Dict.keys, List.map_append, List.map_cons, List.map_nil, List.mem_append, List.mem_singleton] at hmem
      rcases hmem with h | h
      · exact hdis a' (List.mem_cons_of_mem _ ha') h
      · subst h; exact hnd.1 ha'


/-! ### the bridge theorems -/

/-- the generated `IncrementalPFI.explain_one` is `pfiExplainM` -/
theorem pfi_generated_eq_model' (O : Oracles K V Y) (names : List Nat) (hnd : names.Nodup) (nDefault : Nat)
    (imputeM : List Nat → Nat → M K (List (Dict K))) (x : Inst V) (y : Y) (n? : Option Nat) (upd : Bool) :
    Gen.IncrementalPFI.explain_one O names nDefault imputeM x y n? upd
      = pfiExplainM O names imputeM x y (n?.getD nDefault) upd := by
  unfold Gen.IncrementalPFI.explain_one pfiExplainM
  funext w
  cases n? <;> simp only [M.bind_eq, M.pure_eq, Option.getD_none, Option.getD_some, M.bind_get]
  all_goals
    by_cases hseen : w.seen ≥ 1
    · simp only [hseen, decide_true, if_true, M.bind_assoc', M.pure_bind']
      congr 1; funext orig; congr 1; funext ol
      rw [forIn_set_eq_mapM' (fun a => M.bind (imputeM [a] _) (fun preds =>
            M.bind (M.mapM' (callLoss O y) preds) (fun losses => M.pure (meanK losses - ol)))) _
          ?_ names [] hnd (by intro a _ h; cases h)]
      · simp only [M.bind_assoc', M.pure_bind', List.nil_append]
        congr 1; funext cs
        cases upd <;> simp only [Bool.false_eq_true, if_true, if_false, M.pure_bind']
        · funext w
          simp [M.bind, M.modify, M.get, M.pure, commitImportance, MV.getKey, Est.importanceValues,
            Dict.ofPairs_map_of_nodup _ _ hnd]
        · congr 1; funext u; funext w
          simp [M.bind, M.modify, M.get, M.pure, commitImportance, MV.getKey, Est.importanceValues,
            Dict.ofPairs_map_of_nodup _ _ hnd]
      · intro a s; first | rfl | simp only [M.bind_assoc', M.pure_bind', M.bind_pure'']
    · simp only [hseen, decide_false, Bool.false_eq_true, if_false, M.pure_bind']
      cases upd <;> simp only [Bool.false_eq_true, if_true, if_false, M.pure_bind'] <;> rfl

/-- the generated `IncrementalSage.explain_one` is `sageExplainM` on the permutation chain -/
theorem sage_generated_eq_model' (O : Oracles K V Y) (names : List Nat) (hnd : names.Nodup) (nDefault : Nat)
    (permutation : Nat → List Nat) (hperm : ((permutation names.length).map (fun i => names.getD i 0)).Nodup)
    (imputeM : List Nat → Nat → M K (List (Dict K))) (x : Inst V) (y : Y) (n? : Option Nat) (upd : Bool) :
    Gen.IncrementalSage.explain_one O names nDefault permutation imputeM x y n? upd
      = sageExplainM O names imputeM x y (n?.getD nDefault)
          ((permutation names.length).map (fun i => names.getD i 0)) upd := by
  unfold Gen.IncrementalSage.explain_one sageExplainM
  funext w
  cases n? <;> simp only [M.bind_eq, M.pure_eq, Option.getD_none, Option.getD_some, M.bind_get]
  all_goals
    by_cases hseen : w.seen ≥ 1
    · simp only [hseen, decide_true, if_true, M.bind_assoc', M.pure_bind']
      -- the generated code reads the marginal-prediction tracker after the two calls, the model before them
      refine Frame.bind_congr (Frame.callModel x) w (fun pred w1 he1 _ => ?_)
      refine Frame.bind_congr (Frame.callLoss y pred) w1 (fun ml w2 he2 _ => ?_)
      simp only [M.bind_get, he2, he1]
      congr 1; funext margL
      rw [forIn_sage_eq_full O imputeM y _ _ ?_ _ _ _ _ hperm (by intro a _ h; cases h), sageChainM_eq_full]
      · simp only [M.bind_assoc', M.pure_bind', List.nil_append]
        congr 1; funext r
        cases upd <;> simp only [Bool.false_eq_true, if_true, if_false, M.pure_bind']
        · funext w
          simp [M.bind, M.modify, M.get, M.pure, commitImportance, MV.getKey, Est.importanceValues,
            Dict.ofPairs_map_of_nodup _ _ hnd]
        · congr 1; funext u; funext w
          simp [M.bind, M.modify, M.get, M.pure, commitImportance, MV.getKey, Est.importanceValues,
            Dict.ofPairs_map_of_nodup _ _ hnd]
      · intro a s; first | rfl | simp only [M.bind_assoc', M.pure_bind', M.bind_pure'']
    · simp only [hseen, decide_false, Bool.false_eq_true, if_false, M.pure_bind']
      cases upd <;> simp only [Bool.false_eq_true, if_true, if_false, M.pure_bind'] <;> rfl

end Ixai
