/-
  Helper lemmas for C20 (floating-point trackers stay close to the exact-arithmetic trackers).

  Rounding model: the standard model of floating-point arithmetic without overflow/underflow,
  `fl x = x (1 + δ)` with `|δ| ≤ u`, over an arbitrary linearly ordered field `K`.
  The kernels are the machine-generated `Ixai.Gen.Fl.*Tracker.update fl`, in which every arithmetic
  operation of the Python source is wrapped in `fl`, in the source's operation order.
  Everything is derived from one-step characterisations (`FlES.update_spec`, `FlWelford.update_spec`)
  obtained by unfolding the generated definitions.
-/
import IxaiVerif.Gen.FlWelfordTracker
import IxaiVerif.Gen.FlExponentialSmoothingTracker
import IxaiVerif.Proofs.Tracker
import Mathlib.Algebra.Order.Field.Basic
import Mathlib.Algebra.Order.Ring.Abs
import Mathlib.Algebra.Order.AbsoluteValue.Basic
import Mathlib.Tactic.Linarith
import Mathlib.Tactic.Positivity
import Mathlib.Tactic.Ring
import Mathlib.Tactic.FieldSimp
import Mathlib.Tactic.NormNum
import Mathlib.Tactic.GCongr

set_option linter.unusedSectionVars false

namespace Ixai
open Ixai.Gen

/-! ### The rounding model and accumulation of relative errors -/
section Model
variable {K : Type} [Field K] [LinearOrder K] [IsStrictOrderedRing K]

/-- standard model of floating-point arithmetic: every rounding commits a relative error of at most `u` -/
def StdModel (fl : K → K) (u : K) : Prop := ∀ x, ∃ δ, |δ| ≤ u ∧ fl x = x * (1 + δ)

/-- one more rounding on top of an accumulated relative error `g` -/
theorem abs_mul_one_add_sub_one_le {p δ g u : K} (hp : |p - 1| ≤ g) (hδ : |δ| ≤ u) :
    |p * (1 + δ) - 1| ≤ (1 + g) * (1 + u) - 1 := by
  have hu : 0 ≤ u := (abs_nonneg _).trans hδ
  have hg : 0 ≤ g := (abs_nonneg _).trans hp
  have h1 : |1 + δ| ≤ 1 + u := (abs_add_le _ _).trans (by simpa using hδ)
  have e : p * (1 + δ) - 1 = (p - 1) * (1 + δ) + δ := by ring
  rw [e]
  calc |(p - 1) * (1 + δ) + δ| ≤ |(p - 1) * (1 + δ)| + |δ| := abs_add_le _ _
    _ = |p - 1| * |1 + δ| + |δ| := by rw [abs_mul]
    _ ≤ g * (1 + u) + u := by gcongr
    _ = (1 + g) * (1 + u) - 1 := by ring

/-- two roundings: `γ₂ = (1+u)² - 1` -/
theorem abs_two_roundings {δ₁ δ₂ u : K} (h₁ : |δ₁| ≤ u) (h₂ : |δ₂| ≤ u) :
    |(1 + δ₁) * (1 + δ₂) - 1| ≤ (1 + u) ^ 2 - 1 := by
  have h : |(1 + δ₁) - 1| ≤ u := by simpa using h₁
  have := abs_mul_one_add_sub_one_le h h₂
  calc _ ≤ (1 + u) * (1 + u) - 1 := this
    _ = _ := by ring

/-- three roundings: `γ₃ = (1+u)³ - 1` -/
theorem abs_three_roundings {δ₁ δ₂ δ₃ u : K} (h₁ : |δ₁| ≤ u) (h₂ : |δ₂| ≤ u) (h₃ : |δ₃| ≤ u) :
    |(1 + δ₁) * (1 + δ₂) * (1 + δ₃) - 1| ≤ (1 + u) ^ 3 - 1 := by
  have := abs_mul_one_add_sub_one_le (abs_two_roundings h₁ h₂) h₃
  calc _ ≤ (1 + ((1 + u) ^ 2 - 1)) * (1 + u) - 1 := this
    _ = _ := by ring

/-- `γ₂ ≤ γ₃` -/
theorem gamma2_le_gamma3 {u : K} (hu : 0 ≤ u) : (1 + u) ^ 2 - 1 ≤ (1 + u) ^ 3 - 1 := by
  have : (1 + u) ^ 3 - 1 - ((1 + u) ^ 2 - 1) = u * (1 + u) ^ 2 := by ring
  have h2 : 0 ≤ u * (1 + u) ^ 2 := by positivity
  linarith

/-- `γ₃ ≤ 3.2 u` once `u ≤ 1/16` -/
theorem gamma3_le {u : K} (hu : 0 ≤ u) (hu16 : 16 * u ≤ 1) : (1 + u) ^ 3 - 1 ≤ 16 / 5 * u := by
  have e : (1 + u) ^ 3 - 1 = u * (3 + 3 * u + u * u) := by ring
  rw [e, mul_comm]
  have h1 : u * u ≤ 1 / 256 := by nlinarith
  gcongr
  linarith

end Model

/-! ### Exponential smoothing in floating point -/
namespace FlES
variable {K : Type} [Field K] [LinearOrder K] [IsStrictOrderedRing K]

/-- the floating-point tracker run over a stream -/
def run (fl : K → K) (α : K) (vs : List K) : Fl.ExponentialSmoothingTracker K :=
  vs.foldl (Fl.ExponentialSmoothingTracker.update fl) (Fl.ExponentialSmoothingTracker.init α)

theorem run_snoc (fl : K → K) (α : K) (vs : List K) (v : K) :
    run fl α (vs ++ [v]) = Fl.ExponentialSmoothingTracker.update fl (run fl α vs) v := by
  simp [run, List.foldl_append]

/-- one-step characterisation read off the generated code -/
theorem update_spec (fl : K → K) (s : Fl.ExponentialSmoothingTracker K) (v : K) :
    (Fl.ExponentialSmoothingTracker.update fl s v).N = s.N + 1 ∧
    (Fl.ExponentialSmoothingTracker.update fl s v).alpha = s.alpha ∧
    (Fl.ExponentialSmoothingTracker.update fl s v).tracked_value =
      fl (fl (fl (1 - s.alpha) * s.tracked_value) + fl (s.alpha * v)) := by
  refine ⟨?_, ?_, ?_⟩ <;> simp [Fl.ExponentialSmoothingTracker.update]

@[simp] theorem init_spec (α : K) :
    (Fl.ExponentialSmoothingTracker.init α).N = 0 ∧ (Fl.ExponentialSmoothingTracker.init α).alpha = α ∧
    (Fl.ExponentialSmoothingTracker.init α).tracked_value = 0 := by
  refine ⟨?_, ?_, ?_⟩ <;> simp [Fl.ExponentialSmoothingTracker.init]

theorem run_alpha (fl : K → K) (α : K) (vs : List K) : (run fl α vs).alpha = α := by
  induction vs using List.reverseRecOn with
  | nil => simp [run]
  | append_singleton vs v ih => rw [run_snoc, (update_spec fl _ v).2.1, ih]

theorem run_N (fl : K → K) (α : K) (vs : List K) : (run fl α vs).N = vs.length := by
  induction vs using List.reverseRecOn with
  | nil => simp [run]
  | append_singleton vs v ih => rw [run_snoc, (update_spec fl _ v).1, ih]; simp

/-- the floating-point step written with explicit relative errors:
    three roundings touch the old value, two the new one -/
theorem step_eq {fl : K → K} {u : K} (hfl : StdModel fl u) (α t v : K) :
    ∃ θ₃ θ₂ : K, |θ₃| ≤ (1 + u) ^ 3 - 1 ∧ |θ₂| ≤ (1 + u) ^ 2 - 1 ∧
      fl (fl (fl (1 - α) * t) + fl (α * v)) = (1 - α) * t * (1 + θ₃) + α * v * (1 + θ₂) := by
  obtain ⟨δ₁, h₁, e₁⟩ := hfl (1 - α)
  obtain ⟨δ₂, h₂, e₂⟩ := hfl (fl (1 - α) * t)
  obtain ⟨δ₃, h₃, e₃⟩ := hfl (α * v)
  obtain ⟨δ₄, h₄, e₄⟩ := hfl (fl (fl (1 - α) * t) + fl (α * v))
  refine ⟨(1 + δ₁) * (1 + δ₂) * (1 + δ₄) - 1, (1 + δ₃) * (1 + δ₄) - 1,
    abs_three_roundings h₁ h₂ h₄, abs_two_roundings h₃ h₄, ?_⟩
  rw [e₄, e₂, e₃, e₁]; ring

/-- one-step error recursion `|e'| ≤ (1-α)(1+g)|e| + g M`, `g = 3.2 u ≥ γ₃ ≥ γ₂` -/
theorem step_error {fl : K → K} {u : K} (hfl : StdModel fl u) {α t' t v M : K}
    (hα0 : 0 ≤ α) (hα1 : α ≤ 1) (hu : 0 ≤ u) (hu16 : 16 * u ≤ 1) (ht : |t| ≤ M) (hv : |v| ≤ M) :
    |fl (fl (fl (1 - α) * t') + fl (α * v)) - ((1 - α) * t + α * v)| ≤
      (1 - α) * (1 + 16 / 5 * u) * |t' - t| + 16 / 5 * u * M := by
  obtain ⟨θ₃, θ₂, h₃, h₂, e⟩ := step_eq hfl α t' v
  have g₃ : |θ₃| ≤ 16 / 5 * u := h₃.trans (gamma3_le hu hu16)
  have g₂ : |θ₂| ≤ 16 / 5 * u := (h₂.trans (gamma2_le_gamma3 hu)).trans (gamma3_le hu hu16)
  have hβ : 0 ≤ 1 - α := by linarith
  have hM : 0 ≤ M := (abs_nonneg _).trans ht
  have e' : (1 - α) * t' * (1 + θ₃) + α * v * (1 + θ₂) - ((1 - α) * t + α * v) =
      (1 - α) * (1 + θ₃) * (t' - t) + ((1 - α) * t * θ₃ + α * v * θ₂) := by ring
  rw [e, e']
  have a1 : |(1 - α) * (1 + θ₃) * (t' - t)| ≤ (1 - α) * (1 + 16 / 5 * u) * |t' - t| := by
    rw [abs_mul, abs_mul, abs_of_nonneg hβ]
    have : |1 + θ₃| ≤ 1 + 16 / 5 * u := (abs_add_le _ _).trans (by simpa using g₃)
    gcongr
  have a2 : |(1 - α) * t * θ₃| ≤ (1 - α) * M * (16 / 5 * u) := by
    rw [abs_mul, abs_mul, abs_of_nonneg hβ]; gcongr
  have a3 : |α * v * θ₂| ≤ α * M * (16 / 5 * u) := by
    rw [abs_mul, abs_mul, abs_of_nonneg hα0]; gcongr
  calc _ ≤ |(1 - α) * (1 + θ₃) * (t' - t)| + |(1 - α) * t * θ₃ + α * v * θ₂| := abs_add_le _ _
    _ ≤ |(1 - α) * (1 + θ₃) * (t' - t)| + (|(1 - α) * t * θ₃| + |α * v * θ₂|) := by
        gcongr; exact abs_add_le _ _
    _ ≤ (1 - α) * (1 + 16 / 5 * u) * |t' - t| + ((1 - α) * M * (16 / 5 * u) + α * M * (16 / 5 * u)) := by
        gcongr
    _ = _ := by ring

/-- arithmetic core of the induction: `E = 4uM/α` is preserved by
    `|e'| ≤ (1-α)(1+g)|e| + g M` with `g = 3.2 u`, `16 u ≤ α` -/
theorem step_arith {α u M E g e : K} (hα0 : 0 < α) (hα1 : α ≤ 1) (hu : 0 ≤ u) (h16 : 16 * u ≤ α)
    (hM : 0 ≤ M) (hE : E * α = 4 * u * M) (hg : g = 16 / 5 * u) (he : e ≤ E) :
    (1 - α) * (1 + g) * e + g * M ≤ E := by
  have hE0 : 0 ≤ E := by
    have : 0 ≤ E * α := by rw [hE]; positivity
    exact nonneg_of_mul_nonneg_left this hα0
  have hβ : 0 ≤ 1 - α := by linarith
  have hg0 : 0 ≤ g := by rw [hg]; positivity
  have h1 : (1 - α) * (1 + g) * e ≤ (1 - α) * (1 + g) * E := by gcongr
  have h2 : 16 * u * E ≤ α * E := mul_le_mul_of_nonneg_right h16 hE0
  have h3 : α * (u * E) = 4 * u * (u * M) := by
    calc α * (u * E) = u * (E * α) := by ring
      _ = _ := by rw [hE]; ring
  have h4 : 0 ≤ u * (u * M) := by positivity
  have h5 : (1 - α) * (1 + g) * E + g * M = E + 16 / 5 * (u * E) - E * α - 16 / 5 * (α * (u * E)) + 16 / 5 * (u * M) := by
    rw [hg]; ring
  rw [h3] at h5
  linarith

end FlES

/-! ### Welford mean in floating point -/
namespace FlWelford
variable {K : Type} [Field K] [LinearOrder K] [IsStrictOrderedRing K] [RealOps K]

/-- the floating-point tracker run over a stream -/
def run (fl : K → K) (vs : List K) : Fl.WelfordTracker K :=
  vs.foldl (Fl.WelfordTracker.update fl) Fl.WelfordTracker.init

theorem run_snoc (fl : K → K) (vs : List K) (v : K) :
    run fl (vs ++ [v]) = Fl.WelfordTracker.update fl (run fl vs) v := by
  simp [run, List.foldl_append]

@[simp] theorem init_N : (Fl.WelfordTracker.init : Fl.WelfordTracker K).N = 0 := rfl
@[simp] theorem init_tracked : (Fl.WelfordTracker.init : Fl.WelfordTracker K).tracked_value = 0 := rfl
@[simp] theorem init_ss : (Fl.WelfordTracker.init : Fl.WelfordTracker K).sum_squares = 0 := rfl

/-- one-step characterisation read off the generated code
    (`d = fl (v - m)`, `q = fl (d / N)`, `m' = fl (m + q)`; the cast of the counter is exact) -/
theorem update_spec (fl : K → K) (s : Fl.WelfordTracker K) (v : K) :
    (Fl.WelfordTracker.update fl s v).N = s.N + 1 ∧
    (Fl.WelfordTracker.update fl s v).tracked_value =
      fl (s.tracked_value + fl (fl (v - s.tracked_value) / ((s.N : K) + 1))) ∧
    (Fl.WelfordTracker.update fl s v).sum_squares =
      fl (s.sum_squares + fl (fl (v - s.tracked_value) *
        fl (v - fl (s.tracked_value + fl (fl (v - s.tracked_value) / ((s.N : K) + 1)))))) := by
  refine ⟨?_, ?_, ?_⟩ <;> simp [Fl.WelfordTracker.update]

theorem run_N (fl : K → K) (vs : List K) : (run fl vs).N = vs.length := by
  induction vs using List.reverseRecOn with
  | nil => simp [run]
  | append_singleton vs v ih => rw [run_snoc, (update_spec fl _ v).1, ih]; simp

/-- the floating-point mean update written with explicit relative errors -/
theorem step_eq {fl : K → K} {u : K} (hfl : StdModel fl u) (m v N : K) :
    ∃ θ₂ δ₃ : K, |θ₂| ≤ (1 + u) ^ 2 - 1 ∧ |δ₃| ≤ u ∧
      fl (m + fl (fl (v - m) / N)) = (m + (v - m) / N * (1 + θ₂)) * (1 + δ₃) := by
  obtain ⟨δ₁, h₁, e₁⟩ := hfl (v - m)
  obtain ⟨δ₂, h₂, e₂⟩ := hfl (fl (v - m) / N)
  obtain ⟨δ₃, h₃, e₃⟩ := hfl (m + fl (fl (v - m) / N))
  refine ⟨(1 + δ₁) * (1 + δ₂) - 1, δ₃, abs_two_roundings h₁ h₂, h₃, ?_⟩
  rw [e₃, e₂, e₁]; ring

/-- `γ₂ (1+u) ≤ 2.04 u` once `u ≤ 1/100` -/
theorem gamma2_mul_le {u : K} (hu : 0 ≤ u) (hu100 : 100 * u ≤ 1) :
    ((1 + u) ^ 2 - 1) * (1 + u) ≤ 51 / 25 * u := by
  have e : ((1 + u) ^ 2 - 1) * (1 + u) = u * (2 + 3 * u + u * u) := by ring
  rw [e, mul_comm]
  have h1 : u * u ≤ 1 / 10000 := by nlinarith
  gcongr
  linarith

/-- one-step error recursion for the mean: with `m̂` the floating-point and `m` the exact old mean
    (`n` values seen), `|m̂ - m| ≤ D ≤ 0.06 M`, the new error is at most
    `n/(n+1) D + (1.06 + 4.21/(n+1)) u M`. -/
theorem step_error {fl : K → K} {u : K} (hfl : StdModel fl u) {n m' m v M D : K}
    (hn : 0 ≤ n) (hu : 0 ≤ u) (hu100 : 100 * u ≤ 1) (hv : |v| ≤ M) (hm : |m| ≤ M)
    (hmn : |m + (v - m) / (n + 1)| ≤ M) (he : |m' - m| ≤ D) (hD : D ≤ 3 / 50 * M) :
    |fl (m' + fl (fl (v - m') / (n + 1))) - (m + (v - m) / (n + 1))| ≤
      n / (n + 1) * D + (53 / 50 + 421 / 100 / (n + 1)) * (u * M) := by
  obtain ⟨θ₂, δ₃, h₂, h₃, e⟩ := step_eq hfl m' v (n + 1)
  have hN : 0 < n + 1 := by linarith
  have hM : 0 ≤ M := (abs_nonneg _).trans hv
  have hD0 : 0 ≤ D := (abs_nonneg _).trans he
  have hr0 : 0 ≤ n / (n + 1) := by positivity
  have hr1 : n / (n + 1) ≤ 1 := by rw [div_le_one hN]; linarith
  have e' : (m' + (v - m') / (n + 1) * (1 + θ₂)) * (1 + δ₃) - (m + (v - m) / (n + 1)) =
      n / (n + 1) * (m' - m) + ((m + (v - m) / (n + 1)) + n / (n + 1) * (m' - m)) * δ₃ +
        (v - m') * (θ₂ * (1 + δ₃)) / (n + 1) := by
    field_simp; ring
  rw [e, e']
  have a1 : |n / (n + 1) * (m' - m)| ≤ n / (n + 1) * D := by
    rw [abs_mul, abs_of_nonneg hr0]; gcongr
  have a1' : |n / (n + 1) * (m' - m)| ≤ D := a1.trans (by nlinarith)
  have a2 : |((m + (v - m) / (n + 1)) + n / (n + 1) * (m' - m)) * δ₃| ≤ (M + D) * u := by
    rw [abs_mul]
    have : |(m + (v - m) / (n + 1)) + n / (n + 1) * (m' - m)| ≤ M + D :=
      (abs_add_le _ _).trans (add_le_add hmn a1')
    gcongr
  have a3 : |(v - m') * (θ₂ * (1 + δ₃)) / (n + 1)| ≤ (2 * M + D) * (51 / 25 * u) / (n + 1) := by
    rw [abs_div, abs_mul, abs_mul, abs_of_pos hN]
    have b1 : |v - m'| ≤ 2 * M + D := by
      have : v - m' = v - m - (m' - m) := by ring
      rw [this]
      have := abs_sub (v - m) (m' - m)
      have := abs_sub v m
      linarith
    have b2 : |1 + δ₃| ≤ 1 + u := (abs_add_le _ _).trans (by simpa using h₃)
    have b3 : |θ₂| * |1 + δ₃| ≤ 51 / 25 * u :=
      (mul_le_mul h₂ b2 (abs_nonneg _) (by nlinarith)).trans (gamma2_mul_le hu hu100)
    gcongr
  have c2 : (M + D) * u ≤ 53 / 50 * (u * M) := by
    have : (M + D) * u ≤ (M + 3 / 50 * M) * u := by gcongr
    linarith
  have c3 : (2 * M + D) * (51 / 25 * u) / (n + 1) ≤ 421 / 100 / (n + 1) * (u * M) := by
    have : (2 * M + D) * (51 / 25 * u) ≤ (2 * M + 3 / 50 * M) * (51 / 25 * u) := by gcongr
    have h4 : (2 * M + D) * (51 / 25 * u) ≤ 421 / 100 * (u * M) := by
      have : 0 ≤ u * M := by positivity
      linarith
    calc _ ≤ 421 / 100 * (u * M) / (n + 1) := by gcongr
      _ = _ := by ring
  calc _ ≤ |n / (n + 1) * (m' - m) + ((m + (v - m) / (n + 1)) + n / (n + 1) * (m' - m)) * δ₃| +
        |(v - m') * (θ₂ * (1 + δ₃)) / (n + 1)| := abs_add_le _ _
    _ ≤ |n / (n + 1) * (m' - m)| + |((m + (v - m) / (n + 1)) + n / (n + 1) * (m' - m)) * δ₃| +
        |(v - m') * (θ₂ * (1 + δ₃)) / (n + 1)| := by gcongr; exact abs_add_le _ _
    _ ≤ n / (n + 1) * D + 53 / 50 * (u * M) + 421 / 100 / (n + 1) * (u * M) := by
        gcongr
        · exact a2.trans c2
        · exact a3.trans c3
    _ = _ := by ring

/-- a rounded value is at most `(1+u)` times the bound on its argument -/
theorem abs_fl_le {fl : K → K} {u : K} (hfl : StdModel fl u) {x B : K} (hx : |x| ≤ B) :
    |fl x| ≤ B * (1 + u) := by
  obtain ⟨δ, hδ, e⟩ := hfl x
  have h1 : |1 + δ| ≤ 1 + u := (abs_add_le _ _).trans (by simpa using hδ)
  rw [e, abs_mul]
  exact mul_le_mul hx h1 (abs_nonneg _) ((abs_nonneg _).trans hx)

/-- one step of the floating-point `sum_squares` accumulator stays bounded: with both means within `1.06 M`,
    the rounded increment is at most `4.42 M²` -/
theorem ss_step {fl : K → K} {u : K} (hfl : StdModel fl u) {s a b v M S : K}
    (hu100 : 100 * u ≤ 1) (hv : |v| ≤ M) (ha : |a| ≤ 53 / 50 * M) (hb : |b| ≤ 53 / 50 * M)
    (hs : |s| ≤ S) :
    |fl (s + fl (fl (v - a) * fl (v - b)))| ≤ (S + 221 / 50 * M ^ 2) * (1 + u) := by
  have hM : 0 ≤ M := (abs_nonneg _).trans hv
  have d : ∀ c : K, |c| ≤ 53 / 50 * M → |fl (v - c)| ≤ 209 / 100 * M := by
    intro c hc
    have h1 : |v - c| ≤ 103 / 50 * M := by
      have := abs_sub v c; linarith
    have h2 := abs_fl_le hfl h1
    have h3 : 103 / 50 * M * (1 + u) ≤ 103 / 50 * M * (1 + 1 / 100) := by gcongr; linarith
    linarith
  have p : |fl (v - a) * fl (v - b)| ≤ 209 / 100 * M * (209 / 100 * M) := by
    rw [abs_mul]; exact mul_le_mul (d a ha) (d b hb) (abs_nonneg _) (by positivity)
  have q : |fl (fl (v - a) * fl (v - b))| ≤ 221 / 50 * M ^ 2 := by
    have h2 := abs_fl_le hfl p
    have h3 : 209 / 100 * M * (209 / 100 * M) * (1 + u) ≤ 209 / 100 * M * (209 / 100 * M) * (1 + 1 / 100) := by
      gcongr; linarith
    have h4 : 0 ≤ M ^ 2 := by positivity
    have h5 : 209 / 100 * M * (209 / 100 * M) * (1 + 1 / 100) = 4411781 / 1000000 * M ^ 2 := by ring
    linarith
  exact abs_fl_le hfl ((abs_add_le _ _).trans (add_le_add hs q))

/-- arithmetic core of the induction: `6 n u M` grows to at most `6 (n+1) u M` -/
theorem step_arith {n u M : K} (hn : 0 ≤ n) (hu : 0 ≤ u) (hM : 0 ≤ M) :
    n / (n + 1) * (6 * n * u * M) + (53 / 50 + 421 / 100 / (n + 1)) * (u * M) ≤ 6 * (n + 1) * u * M := by
  have hN : 0 < n + 1 := by linarith
  have key : n / (n + 1) * (6 * n) + (53 / 50 + 421 / 100 / (n + 1)) ≤ 6 * (n + 1) := by
    rw [← sub_nonneg]
    have : 6 * (n + 1) - (n / (n + 1) * (6 * n) + (53 / 50 + 421 / 100 / (n + 1))) =
        (547 / 50 * n + 73 / 100) / (n + 1) := by
      field_simp; ring
    rw [this]; positivity
  have huM : 0 ≤ u * M := by positivity
  calc _ = (n / (n + 1) * (6 * n) + (53 / 50 + 421 / 100 / (n + 1))) * (u * M) := by ring
    _ ≤ 6 * (n + 1) * (u * M) := by gcongr
    _ = _ := by ring

end FlWelford
end Ixai
