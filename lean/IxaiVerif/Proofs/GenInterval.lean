/-
  Helper lemmas for Props/GenInterval.lean: the GENERATED `IntervalSage.explain_one` (Gen/IntervalSage.lean) unfolded into its two
  branches (early return / recomputation by the generated `BatchSage.explain_many`), and the agreement of a successful run with the
  pure `intervalStep`.  The proofs only unfold the generated definition and normalise with `simp`, they do not mention the generated
  local names.
-/
import IxaiVerif.Gen.IntervalSage
import IxaiVerif.Props.GenBatch
set_option linter.unusedSectionVars false
set_option linter.unusedVariables false
set_option linter.unusedSimpArgs false

namespace Ixai.GenInterval
open Ixai Ixai.GenBatch

variable {K : Type} [Add K] [Sub K] [Mul K] [Div K] [NatCast K] [OfNat K 0] [OfNat K 1] [RealOps K] [DecidableEq K]
variable {V Y : Type}

/-- the state after the storage update and the call count (`advance` of Props/GenInterval.lean is this, by `rfl`) -/
def advance' (st : IntervalState K V Y) (x : Inst V) (y : Y) (upd : Bool) : IntervalState K V Y :=
  { st with storage := (if upd then st.storage.update x y else st.storage), seen := st.seen + 1 }

theorem not_due_generated' (O : Oracles K V Y) (names : List Nat) (nDefault L : Nat) (permutation : Nat → Nat → List Nat)
    (imputeMx : Inst V → List Nat → Nat → M K (List (Dict K))) (st : IntervalState K V Y) (x : Inst V) (y : Y) (n? : Option Nat)
    (upd verbose : Bool) (hdue : (st.seen + 1) % L ≠ 0) (w : World K) :
    Gen.IntervalSage.explain_one O names nDefault L permutation imputeMx st x y n? upd false verbose w
      = (.ok (st.values, advance' st x y upd), w) := by
  unfold Gen.IntervalSage.explain_one advance'
  cases upd <;> simp [hdue, M.pure]

theorem due_generated' (O : Oracles K V Y) (names : List Nat) (nDefault L : Nat) (permutation : Nat → Nat → List Nat)
    (imputeMx : Inst V → List Nat → Nat → M K (List (Dict K))) (st : IntervalState K V Y) (x : Inst V) (y : Y) (n? : Option Nat)
    (upd force verbose : Bool) (hdue : force = true ∨ (st.seen + 1) % L = 0) :
    Gen.IntervalSage.explain_one O names nDefault L permutation imputeMx st x y n? upd force verbose
      = M.bind (Gen.BatchSage.explain_many O names nDefault permutation imputeMx (advance' st x y upd).storage.storage_x
                 (advance' st x y upd).storage.storage_y n? verbose)
          (fun d => M.pure (d, { advance' st x y upd with values := d })) := by
  unfold Gen.IntervalSage.explain_one advance'
  rcases hdue with hf | hm
  · subst hf; cases upd <;> simp
  · cases upd <;> simp [hm]

/-- `intervalStep` when the call is not due -/
theorem intervalStep_not_due (names : List Nat) (model : Inst V → Dict K) (loss : Y → Dict K → K) (L : Nat)
    (st : IntervalState K V Y) (x : Inst V) (y : Y) (upd : Bool) (perms : List (List Nat)) (imps : List (List Nat → List (Dict K)))
    (hdue : (st.seen + 1) % L ≠ 0) :
    intervalStep names model loss L st x y upd false perms imps = (advance' st x y upd, false) := by
  unfold intervalStep advance'
  simp [hdue]

/-- `intervalStep` when the call is due -/
theorem intervalStep_due (names : List Nat) (model : Inst V → Dict K) (loss : Y → Dict K → K) (L : Nat)
    (st : IntervalState K V Y) (x : Inst V) (y : Y) (upd force : Bool) (perms : List (List Nat))
    (imps : List (List Nat → List (Dict K))) (hdue : force = true ∨ (st.seen + 1) % L = 0) :
    intervalStep names model loss L st x y upd force perms imps
      = ({ advance' st x y upd with
            values := batchSage names model loss
              ((advance' st x y upd).storage.storage_x.zip (advance' st x y upd).storage.storage_y) perms imps }, true) := by
  unfold intervalStep advance'
  rcases hdue with hf | hm
  · subst hf; simp
  · simp [hm]

theorem generated_ok_pure' (O : Oracles K V Y) (model : Inst V → Dict K) (loss : Y → Dict K → K) (hO : E2E.OAnswers O model loss)
    (names : List Nat) (hnd : names.Nodup) (nDefault L : Nat) (permutation : Nat → Nat → List Nat) (hperm : PermOk names permutation)
    (hfull : ∀ c, (permChainAt names permutation c).length = names.length)
    (imputeMx : Inst V → List Nat → Nat → M K (List (Dict K))) (himp : ∀ x S n, Frame (imputeMx x S n))
    (st : IntervalState K V Y) (x : Inst V) (y : Y) (n? : Option Nat) (upd force verbose : Bool)
    (hlen : (advance' st x y upd).storage.storage_x.length = (advance' st x y upd).storage.storage_y.length)
    (hne : (advance' st x y upd).storage.storage_x ≠ [])
    (w : World K) (d : Dict K) (st' : IntervalState K V Y)
    (h : (Gen.IntervalSage.explain_one O names nDefault L permutation imputeMx st x y n? upd force verbose w).1 = .ok (d, st')) :
    ∃ (perms : List (List Nat)) (imps : List (List Nat → List (Dict K))),
      st' = (intervalStep names model loss L st x y upd force perms imps).1 ∧ d = st'.values ∧
      ((intervalStep names model loss L st x y upd force perms imps).2 = true ↔ (force = true ∨ (st.seen + 1) % L = 0)) := by
  by_cases hdue : force = true ∨ (st.seen + 1) % L = 0
  · rw [due_generated' O names nDefault L permutation imputeMx st x y n? upd force verbose hdue] at h
    generalize hrun : Gen.BatchSage.explain_many O names nDefault permutation imputeMx (advance' st x y upd).storage.storage_x
      (advance' st x y upd).storage.storage_y n? verbose w = r at h
    rcases r with ⟨r, w1⟩
    cases r with
    | error e => simp [M.bind, hrun] at h
    | ok d0 =>
      simp only [M.bind, hrun, M.pure, Except.ok.injEq, Prod.mk.injEq] at h
      obtain ⟨hd, hst⟩ := h
      subst hd
      obtain ⟨perms, imps, _, _, _, hd, _⟩ := generated_batch_ok_pure O model loss hO names hnd nDefault permutation hperm hfull
        imputeMx himp _ _ hlen hne n? verbose w d0 (by rw [hrun])
      refine ⟨perms, imps, ?_, ?_, ?_⟩
      · rw [intervalStep_due names model loss L st x y upd force perms imps hdue, ← hst, hd]
      · rw [← hst]
      · rw [intervalStep_due names model loss L st x y upd force perms imps hdue]; simp [hdue]
  · have hf : force = false := by
      cases force
      · rfl
      · exact absurd (Or.inl rfl) hdue
    have hm : (st.seen + 1) % L ≠ 0 := fun e => hdue (Or.inr e)
    subst hf
    rw [not_due_generated' O names nDefault L permutation imputeMx st x y n? upd verbose hm w] at h
    simp only [Except.ok.injEq, Prod.mk.injEq] at h
    obtain ⟨hd, hst⟩ := h
    refine ⟨[], [], ?_, ?_, ?_⟩
    · rw [intervalStep_not_due names model loss L st x y upd [] [] hm, ← hst]
    · rw [← hst, ← hd]; rfl
    · rw [intervalStep_not_due names model loss L st x y upd [] [] hm]; simp [hm]

end Ixai.GenInterval
