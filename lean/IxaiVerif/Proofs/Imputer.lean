/-
  Helper lemmas for the imputer model (C06) and for `Dict` / `meanOutput` (used by C01, C05, C06).
  Nothing here mentions a concrete numeric type: `K` is any field of characteristic 0.
-/
import IxaiVerif.Model.Imputer
import IxaiVerif.Proofs.Tracker
import Mathlib.Data.List.Basic
import Mathlib.Data.List.Nodup
import Mathlib.Algebra.BigOperators.Group.List.Basic
import Mathlib.Algebra.CharZero.Defs
import Mathlib.Tactic.FieldSimp

set_option linter.unusedSectionVars false

namespace Ixai

/-! ### `overlay` -/
section Overlay
variable {V : Type}

theorem overlay_of_not_mem (x : Inst V) (S : List Nat) (src : Nat → V) {f : Nat} (hf : f ∉ S) :
    overlay x S src f = x f := by
  simp [overlay, hf]

theorem overlay_of_mem (x : Inst V) (S : List Nat) (src : Nat → V) {f : Nat} (hf : f ∈ S) :
    overlay x S src f = src f := by
  simp [overlay, hf]

theorem overlay_nil (x : Inst V) (src : Nat → V) : overlay x [] src = x := by
  funext f; simp [overlay]

end Overlay

/-! ### `Dict` -/
namespace Dict
variable {V : Type}

theorem getD_cons_self (k : Nat) (v : V) (d : Dict V) (dflt : V) :
    Dict.getD ((k, v) :: d) k dflt = v := by
  simp [Dict.getD, Dict.find?]

theorem getD_cons_ne {k k' : Nat} (h : k' ≠ k) (v : V) (d : Dict V) (dflt : V) :
    Dict.getD ((k', v) :: d) k dflt = Dict.getD d k dflt := by
  simp [Dict.getD, Dict.find?, h]

theorem keys_cons (k : Nat) (v : V) (d : Dict V) : Dict.keys ((k, v) :: d) = k :: Dict.keys d := rfl

/-- a dict with distinct keys is rebuilt by looking each key up -/
theorem map_keys_getD (d : Dict V) (hd : d.keys.Nodup) (dflt : V) :
    d.keys.map (fun l => (l, d.getD l dflt)) = d := by
  induction d with
  | nil => rfl
  | cons kv rest ih =>
    obtain ⟨k, v⟩ := kv
    rw [keys_cons, List.nodup_cons] at hd
    rw [keys_cons, List.map_cons, getD_cons_self]
    congr 1
    refine Eq.trans (List.map_congr_left ?_) (ih hd.2)
    intro l hl
    have hne : k ≠ l := fun h => hd.1 (h ▸ hl)
    rw [getD_cons_ne hne]

/-- … in particular the values, in order, are the looked-up values of the keys -/
theorem map_keys_getD_snd (d : Dict V) (hd : d.keys.Nodup) (dflt : V) :
    d.keys.map (fun l => d.getD l dflt) = d.map Prod.snd := by
  conv_rhs => rw [← map_keys_getD d hd dflt]
  simp [List.map_map, Function.comp_def]

/-- looking a listed key up in a dict built by tabulating a function -/
theorem getD_tabulate (names : List Nat) (g : Nat → V) {f : Nat} (hf : f ∈ names) (dflt : V) :
    Dict.getD (names.map (fun k => (k, g k))) f dflt = g f := by
  induction names with
  | nil => cases hf
  | cons a rest ih =>
    by_cases h : a = f
    · subst h; exact getD_cons_self _ _ _ _
    · rw [List.map_cons, getD_cons_ne h]
      exact ih (by simpa [Ne.symm h] using hf)

theorem keys_tabulate (names : List Nat) (g : Nat → V) :
    Dict.keys (names.map (fun k => (k, g k))) = names := by
  simp [Dict.keys, List.map_map, Function.comp_def]

end Dict

/-! ### `allLabels`, `meanOutput` -/
section Mean
variable {K : Type} [Field K] [CharZero K]

/-- the inner loop of `allLabels`: append the keys not seen yet -/
def addKeys (acc ks : List Nat) : List Nat :=
  ks.foldl (fun acc k => if acc.contains k then acc else acc ++ [k]) acc

theorem allLabels_eq_foldl (outs : List (Dict K)) :
    allLabels outs = outs.foldl (fun acc o => addKeys acc o.keys) [] := rfl

theorem addKeys_cons (acc : List Nat) (k : Nat) (rest : List Nat) :
    addKeys acc (k :: rest) = addKeys (if k ∈ acc then acc else acc ++ [k]) rest := by
  simp [addKeys]

theorem addKeys_of_subset (acc ks : List Nat) (h : ∀ k ∈ ks, k ∈ acc) : addKeys acc ks = acc := by
  induction ks generalizing acc with
  | nil => rfl
  | cons k rest ih =>
    have hk : k ∈ acc := h k (by simp)
    rw [addKeys_cons, if_pos hk]
    exact ih acc (fun k' hk' => h k' (by simp [hk']))

theorem addKeys_of_disjoint (acc ks : List Nat) (hn : ks.Nodup) (h : ∀ k ∈ ks, k ∉ acc) :
    addKeys acc ks = acc ++ ks := by
  induction ks generalizing acc with
  | nil => simp [addKeys]
  | cons k rest ih =>
    rw [List.nodup_cons] at hn
    have hk : k ∉ acc := h k (by simp)
    rw [addKeys_cons, if_neg hk, ih (acc ++ [k]) hn.2 (fun k' hk' => by
      have h1 : k' ∉ acc := h k' (by simp [hk'])
      have h2 : k' ≠ k := fun e => hn.1 (e ▸ hk')
      simp [h1, h2])]
    simp

theorem foldl_addKeys_replicate (ks : List Nat) (n : Nat) :
    (List.replicate n ks).foldl addKeys ks = ks := by
  induction n with
  | zero => rfl
  | succ n ih =>
    rw [List.replicate_succ, List.foldl_cons, addKeys_of_subset ks ks (fun _ h => h)]; exact ih

theorem allLabels_replicate (d : Dict K) (hd : d.keys.Nodup) (n : Nat) (hn : 1 ≤ n) :
    allLabels (List.replicate n d) = d.keys := by
  obtain ⟨m, rfl⟩ : ∃ m, n = m + 1 := ⟨n - 1, by omega⟩
  rw [allLabels_eq_foldl, List.replicate_succ, List.foldl_cons,
    addKeys_of_disjoint [] d.keys hd (fun _ _ => by simp), List.nil_append]
  have : ∀ (l : List (Dict K)) (acc : List Nat),
      l.foldl (fun acc o => addKeys acc o.keys) acc = (l.map Dict.keys).foldl addKeys acc := by
    intro l; induction l with
    | nil => intro _; rfl
    | cons a l ih => intro acc; simp [ih]
  rw [this, List.map_replicate]
  exact foldl_addKeys_replicate _ _

/-- the mean of `n ≥ 1` copies of an output (with distinct labels) is that output -/
theorem meanOutput_replicate (d : Dict K) (hd : d.keys.Nodup) (n : Nat) (hn : 1 ≤ n) :
    meanOutput (List.replicate n d) = d := by
  have hn0 : (n : K) ≠ 0 := by
    have : n ≠ 0 := by omega
    exact_mod_cast this
  unfold meanOutput
  rw [allLabels_replicate d hd n hn]
  conv_rhs => rw [← Dict.map_keys_getD d hd 0]
  apply List.map_congr_left
  intro l _
  rw [lsum_eq_sum, List.map_replicate, List.sum_replicate, List.length_replicate, nsmul_eq_mul]
  congr 1
  field_simp

end Mean

end Ixai
