/-
  Finite-probability lemmas for C04 (unbiasedness of the per-observation contributions).
  Probability is modelled by explicit finite averages over the outcomes of the draws, weights in `K`:
  `E g = (∑ ω, g ω) / card Ω` for a finite non-empty outcome type `Ω` (every outcome equally likely).
-/
import IxaiVerif.Proofs.Explainer
import Mathlib.Algebra.BigOperators.Group.Finset.Basic
import Mathlib.Algebra.BigOperators.Ring.Finset
import Mathlib.Algebra.BigOperators.Pi
import Mathlib.Algebra.BigOperators.Field
import Mathlib.Algebra.BigOperators.Fin
import Mathlib.Data.Fintype.BigOperators
import Mathlib.Data.Fintype.Pi
import Mathlib.Data.Fintype.Card
import Mathlib.Data.List.Permutation
import Mathlib.Data.List.Sublists
import Mathlib.Data.Finset.Prod
import Mathlib.Data.Finset.Card
import Mathlib.Logic.Equiv.Prod
import Mathlib.Tactic.FieldSimp
import Mathlib.Tactic.Ring

set_option linter.unusedSectionVars false

namespace Ixai.Unbiased
open Ixai

/-! ### uniform expectation over a finite outcome type -/
section Expect
variable {K : Type} [Field K] [CharZero K]

/-- expectation of `g` when every outcome `ω : Ω` is equally likely -/
def E {Ω : Type} [Fintype Ω] (g : Ω → K) : K := (∑ ω, g ω) / (Fintype.card Ω : K)

theorem card_ne_zero (Ω : Type) [Fintype Ω] [Nonempty Ω] : (Fintype.card Ω : K) ≠ 0 :=
  Nat.cast_ne_zero.mpr Fintype.card_ne_zero

theorem E_const {Ω : Type} [Fintype Ω] [Nonempty Ω] (c : K) : E (fun _ : Ω => c) = c := by
  have h := card_ne_zero (K := K) Ω
  simp only [E, Finset.sum_const, Finset.card_univ, nsmul_eq_mul]
  field_simp

theorem E_sub {Ω : Type} [Fintype Ω] (g h : Ω → K) : E (fun ω => g ω - h ω) = E g - E h := by
  simp only [E, Finset.sum_sub_distrib, sub_div]

theorem E_add {Ω : Type} [Fintype Ω] (g h : Ω → K) : E (fun ω => g ω + h ω) = E g + E h := by
  simp only [E, Finset.sum_add_distrib, add_div]

theorem E_div_const {Ω : Type} [Fintype Ω] (g : Ω → K) (c : K) : E (fun ω => g ω / c) = E g / c := by
  simp only [E, div_eq_mul_inv, ← Finset.sum_mul]; ring

theorem E_congr {Ω : Type} [Fintype Ω] {g h : Ω → K} (hgh : ∀ ω, g ω = h ω) : E g = E h := by
  simp only [E, hgh]

/-- sum form of the marginalisation lemma -/
theorem sum_coord {ι α : Type} [Fintype ι] [DecidableEq ι] [Fintype α] (i : ι) (g : α → K) :
    ∑ R : ι → α, g (R i) = (Fintype.card α : K) ^ (Fintype.card ι - 1) * ∑ a, g a := by
  rw [← (Equiv.funSplitAt i α).symm.sum_comp, Fintype.sum_prod_type]
  have : ∀ (a : α) (b : {j // j ≠ i} → α), ((Equiv.funSplitAt i α).symm (a, b)) i = a := by
    intro a b; simp [Equiv.funSplitAt, Equiv.piSplitAt]
  simp only [this, Finset.sum_const, Finset.card_univ, nsmul_eq_mul, Fintype.card_fun,
    Fintype.card_subtype_compl, Fintype.card_unique, Nat.cast_pow, ← Finset.mul_sum]

/-- **marginalisation**: averaging a function of one coordinate over a product of independent uniform coordinates
    gives the average over that coordinate -/
theorem E_coord {ι α : Type} [Fintype ι] [DecidableEq ι] [Fintype α] [Nonempty α] (i : ι) (g : α → K) :
    E (fun R : ι → α => g (R i)) = E g := by
  have h := card_ne_zero (K := K) α
  have hι : Fintype.card ι - 1 + 1 = Fintype.card ι :=
    Nat.sub_add_cancel (Fintype.card_pos_iff.mpr ⟨i⟩)
  simp only [E, sum_coord, Fintype.card_fun, Nat.cast_pow]
  rw [← hι, pow_succ, Nat.add_sub_cancel]
  field_simp

theorem E_sum {Ω ι : Type} [Fintype Ω] [Fintype ι] (g : ι → Ω → K) :
    E (fun ω => ∑ i, g i ω) = ∑ i, E (g i) := by
  simp only [E]
  rw [Finset.sum_comm, Finset.sum_div]

end Expect

/-! ### row draws of one imputer call -/
section Rows
variable {K : Type} [Field K] [CharZero K] {V : Type}

/-- the draws `r : Fin n → Fin m` of one joint-strategy imputer call (inner sample ↦ index of the stored row), as the
    `rowOf : Nat → Nat` argument of `imputeJoint` -/
def rowFn {n m : Nat} (r : Fin n → Fin m) : Nat → Nat := fun j => if h : j < n then (r ⟨j, h⟩).val else 0

theorem rowFn_fin {n m : Nat} (r : Fin n → Fin m) (j : Fin n) : rowFn r j.val = (r j).val := by
  simp [rowFn]

/-- with `m^n` equally likely outcomes -/
theorem E_draws_eq {n m : Nat} (g : (Fin n → Fin m) → K) : E g = (∑ r, g r) / (m : K) ^ n := by
  simp [E]

theorem E_fin_eq {m : Nat} (g : Fin m → K) : E g = (∑ i, g i) / (m : K) := by
  simp [E]

theorem sum_map_range (n : Nat) (F : Nat → K) : ((List.range n).map F).sum = ∑ j : Fin n, F j.val := by
  induction n with
  | zero => simp
  | succ n ih => simp [List.range_succ, Fin.sum_univ_castSucc, ih]

/-- `np.mean` of a per-sample quantity over the joint imputer's outputs -/
theorem meanK_imputeJoint {O : Type} (model : Inst V → O) (rows : Nat → Inst V) (S : List Nat) (x : Inst V)
    {n m : Nat} (r : Fin n → Fin m) (ℓ : O → K) :
    meanK ((imputeJoint model rows S x n (rowFn r)).map ℓ) =
      (∑ j : Fin n, ℓ (model (overlay x S (rows (r j).val)))) / (n : K) := by
  simp only [meanK, lsum_eq_sum, imputeJoint, jointInputs, List.map_map, List.length_map, List.length_range,
    sum_map_range, Function.comp, rowFn_fin]

/-- expected mean loss over the `n` inner samples = expected loss under one uniformly drawn row -/
theorem E_meanK_imputeJoint {O : Type} (model : Inst V → O) (rows : Nat → Inst V) (S : List Nat) (x : Inst V)
    (n m : Nat) (hn : 0 < n) (hm : 0 < m) (ℓ : O → K) :
    E (fun r : Fin n → Fin m => meanK ((imputeJoint model rows S x n (rowFn r)).map ℓ)) =
      E (fun i : Fin m => ℓ (model (overlay x S (rows i.val)))) := by
  have : Nonempty (Fin m) := ⟨⟨0, hm⟩⟩
  have hn' : (n : K) ≠ 0 := Nat.cast_ne_zero.mpr (by omega)
  simp only [meanK_imputeJoint]
  rw [E_div_const, E_sum]
  have hc : ∀ j : Fin n, E (fun r : Fin n → Fin m => ℓ (model (overlay x S (rows (r j).val)))) =
      E (fun i : Fin m => ℓ (model (overlay x S (rows i.val)))) :=
    fun j => E_coord j (fun i : Fin m => ℓ (model (overlay x S (rows i.val))))
  simp only [hc]
  simp only [Finset.sum_const, Finset.card_univ, Fintype.card_fin, nsmul_eq_mul]
  field_simp

end Rows

/-! ### SAGE: one explained observation -/
section Sage
variable {K : Type} [Field K] [CharZero K] [RealOps K] [DecidableEq K] {Y : Type}
variable {α : Type} [Fintype α] [Nonempty α]

/-- chain position at which a subset of the given length is requested: the chain over a permutation of `d` distinct
    names requests subsets of lengths `d-1, d-2, …, 0` at positions `0, 1, …, d-1` -/
def posOf (d : Nat) (hd : 0 < d) (T : List Nat) : Fin d := ⟨d - 1 - T.length, by omega⟩

/-- imputer behaviour for one outcome `R` of the draws: `I T a` is what the imputer returns for subset `T` when its
    own draws are `a : α`; position `p` of the chain uses the independent draws `R p` -/
def drawImp (d : Nat) (hd : 0 < d) (I : List Nat → α → List (Dict K)) (R : Fin d → α) :
    List Nat → List (Dict K) := fun T => I T (R (posOf d hd T))

/-- coalition value of the set `T` of *imputed* features: expected loss of the mean prediction under the imputer -/
def coalV (loss : Y → Dict K → K) (y : Y) (I : List Nat → α → List (Dict K)) (T : List Nat) : K :=
  E (fun a : α => loss y (meanOutput (I T a)))

/-- the game in terms of the *revealed* features `S`: the start loss for the empty coalition, otherwise the value
    of imputing the complement -/
def gameW (loss : Y → Dict K → K) (y : Y) (I : List Nat → α → List (Dict K)) (names : List Nat) (l0 : K)
    (S : List Nat) : K :=
  if S = [] then l0 else coalV loss y I (names.diff S)

theorem length_diff_take (names perm : List Nat) (hp : perm.Perm names) (k : Nat) (hk : k ≤ names.length) :
    (names.diff (perm.take k)).length = names.length - k := by
  have hsub : List.Subperm (perm.take k) names := (List.take_sublist k perm).subperm.trans hp.subperm
  have h := (List.subperm_append_diff_self_of_count_le (List.subperm_ext_iff.mp hsub)).length_eq
  rw [List.length_append, List.length_take, hp.length_eq] at h
  omega

/-- expectation of the loss after revealing `k+1` features: depends on the draws of position `k` only -/
theorem E_lossAt_succ (loss : Y → Dict K → K) (y : Y) (I : List Nat → α → List (Dict K))
    (names perm : List Nat) (hp : perm.Perm names) (l0 : K) (hd : 0 < names.length)
    (k : Nat) (hk : k < names.length) :
    E (fun R : Fin names.length → α =>
        sageLossAt loss y (drawImp names.length hd I R) perm names l0 (k + 1)) =
      gameW loss y I names l0 (perm.take (k + 1)) := by
  have hpos : posOf names.length hd (names.diff (perm.take (k + 1))) = ⟨k, hk⟩ := by
    apply Fin.ext
    show names.length - 1 - (names.diff (perm.take (k + 1))).length = k
    rw [length_diff_take names perm hp (k + 1) hk]
    omega
  have hne : perm.take (k + 1) ≠ [] := by
    intro h
    have := congrArg List.length h
    rw [List.length_take, hp.length_eq, List.length_nil] at this
    omega
  simp only [sageLossAt, drawImp, hpos, gameW, if_neg hne, coalV]
  exact E_coord (⟨k, hk⟩ : Fin names.length)
    (fun a : α => loss y (meanOutput (I (names.diff (perm.take (k + 1))) a)))

/-- expectation of the loss before revealing the `j`-th feature -/
theorem E_lossAt (loss : Y → Dict K → K) (y : Y) (I : List Nat → α → List (Dict K))
    (names perm : List Nat) (hp : perm.Perm names) (l0 : K) (hd : 0 < names.length)
    (j : Nat) (hj : j ≤ names.length) :
    E (fun R : Fin names.length → α =>
        sageLossAt loss y (drawImp names.length hd I R) perm names l0 j) =
      gameW loss y I names l0 (perm.take j) := by
  cases j with
  | zero => simp only [sageLossAt, E_const, List.take_zero, gameW, if_pos]
  | succ k => exact E_lossAt_succ loss y I names perm hp l0 hd k hj

/-- expected contribution of the feature at chain position `j`, for a fixed order -/
theorem E_contribution (loss : Y → Dict K → K) (y : Y) (I : List Nat → α → List (Dict K))
    (names perm : List Nat) (hn : names.Nodup) (hp : perm.Perm names) (l0 : K) (hd : 0 < names.length)
    (j : Nat) (hj : j < perm.length) :
    E (fun R : Fin names.length → α =>
        (sageChain loss y (drawImp names.length hd I R) perm names l0).getD perm[j] 0) =
      gameW loss y I names l0 (perm.take j) - gameW loss y I names l0 (perm.take (j + 1)) := by
  have hpn : perm.Nodup := hp.nodup_iff.mpr hn
  have hj' : j < names.length := hp.length_eq ▸ hj
  have hc : ∀ R : Fin names.length → α,
      (sageChain loss y (drawImp names.length hd I R) perm names l0).getD perm[j] 0 =
        sageLossAt loss y (drawImp names.length hd I R) perm names l0 j -
          sageLossAt loss y (drawImp names.length hd I R) perm names l0 (j + 1) := by
    intro R
    apply Dict.getD_of_mem
    · rw [sageChain_keys_explainer]; exact hpn
    · rw [sageChain_eq]
      refine List.mem_map.mpr ⟨j, List.mem_range.mpr hj, ?_⟩
      simp [List.getD_eq_getElem?_getD, hj]
  rw [E_congr hc, E_sub, E_lossAt loss y I names perm hp l0 hd j (le_of_lt hj'),
    E_lossAt_succ loss y I names perm hp l0 hd j hj']

end Sage

/-! ### SAGE: averaging over the feature orders -/
section Orders
variable {K : Type} [Field K] [CharZero K] [RealOps K] [DecidableEq K] {Y : Type}
variable {α : Type} [Fintype α] [Nonempty α]

/-- the features before `f` in the order `π` -/
def pre (π : List Nat) (f : Nat) : List Nat := π.take (π.idxOf f)

theorem take_idxOf_succ (π : List Nat) (f : Nat) (hf : f ∈ π) : π.take (π.idxOf f + 1) = pre π f ++ [f] := by
  rw [List.take_succ_eq_append_getElem (List.idxOf_lt_length_of_mem hf), List.getElem_idxOf]; rfl

/-- uniform average over the `d!` orders of `names` (`names.permutations` lists every permutation of a duplicate-free
    list exactly once: `orders_enumeration`) -/
def Eorders (names : List Nat) (g : List Nat → K) : K :=
  (names.permutations.map g).sum / ((names.length).factorial : K)

theorem orders_enumeration (names : List Nat) (hn : names.Nodup) :
    names.permutations.Nodup ∧ names.permutations.length = names.length.factorial ∧
      ∀ π, π ∈ names.permutations ↔ π.Perm names :=
  ⟨List.nodup_permutations names hn, List.length_permutations names, fun _ => List.mem_permutations⟩

theorem Eorders_congr (names : List Nat) {g h : List Nat → K} (hgh : ∀ π, π.Perm names → g π = h π) :
    Eorders names g = Eorders names h := by
  unfold Eorders
  rw [List.map_congr_left (fun π hπ => hgh π (List.mem_permutations.mp hπ))]

theorem Eorders_const (names : List Nat) (c : K) : Eorders names (fun _ => c) = c := by
  have h : ((names.length).factorial : K) ≠ 0 := Nat.cast_ne_zero.mpr (Nat.factorial_ne_zero _)
  simp only [Eorders, List.map_const', List.sum_replicate, List.length_permutations, nsmul_eq_mul]
  field_simp

/-- the two-stage average (order, then row draws) is the uniform average over all `d! · |α|^d` joint outcomes -/
theorem Eorders_E_eq (names : List Nat) (g : List Nat → (Fin names.length → α) → K) :
    Eorders names (fun π => E (g π)) =
      (names.permutations.map (fun π => ∑ R, g π R)).sum /
        (((names.length).factorial : K) * (Fintype.card α : K) ^ names.length) := by
  simp only [Eorders, E, Fintype.card_fun, Fintype.card_fin, Nat.cast_pow]
  have hsum : ∀ (l : List (List Nat)) (h : List Nat → K) (c : K),
      (l.map (fun π => h π / c)).sum = (l.map h).sum / c := by
    intro l h c
    induction l with
    | nil => simp
    | cons a l ih => simp [ih, add_div]
  rw [hsum, div_div, mul_comm]

/-- expected contribution of feature `f` over order and row draws: the permutation-average form of the Shapley
    value of the game `gameW` -/
theorem E_update (loss : Y → Dict K → K) (y : Y) (I : List Nat → α → List (Dict K))
    (names : List Nat) (hn : names.Nodup) (l0 : K) (hd : 0 < names.length) (f : Nat) (hf : f ∈ names) :
    Eorders names (fun π => E (fun R : Fin names.length → α =>
        (sageChain loss y (drawImp names.length hd I R) π names l0).getD f 0)) =
      Eorders names (fun π =>
        gameW loss y I names l0 (pre π f) - gameW loss y I names l0 (pre π f ++ [f])) := by
  apply Eorders_congr
  intro π hπ
  have hfπ : f ∈ π := hπ.mem_iff.mpr hf
  have hj : π.idxOf f < π.length := List.idxOf_lt_length_of_mem hfπ
  have h := E_contribution loss y I names π hn hπ l0 hd (π.idxOf f) hj
  rw [List.getElem_idxOf, take_idxOf_succ π f hfπ] at h
  exact h

end Orders

/-! ### strategies and BatchSage's original mode -/
section Strategies
variable {V O : Type}

/-- on a singleton subset the joint and the product strategy build the same inputs when the product's row for
    (sample `j`, feature `f`) is the joint's row for sample `j` -/
theorem productInputs_singleton (rows : Nat → Inst V) (f : Nat) (x : Inst V) (n : Nat) (rowOf : Nat → Nat)
    (rowOf₂ : Nat → Nat → Nat) (h : ∀ j, j < n → rowOf₂ j f = rowOf j) :
    productInputs rows [f] x n rowOf₂ = jointInputs rows [f] x n rowOf := by
  unfold productInputs jointInputs
  apply List.map_congr_left
  intro j hj
  funext g
  by_cases hg : g = f
  · subst hg; simp [overlay, h j (List.mem_range.mp hj)]
  · simp [overlay, hg]

/-- `{**row, **x_S}` (row from the data set, revealed features `S` from `x`) and `{**x, **row_T}` with `T` the
    complement of `S` in `names` agree on every feature of `names` -/
theorem overlay_swap (names : List Nat) (hn : names.Nodup) (row x : Inst V) (S : List Nat) {g : Nat}
    (hg : g ∈ names) : overlay row S x g = overlay x (names.diff S) row g := by
  by_cases h : g ∈ S <;> simp [overlay, hn.mem_sdiff_iff, hg, h]

/-- the same with the complement taken on the other side: revealed set `names ∖ T`, imputed set `T` -/
theorem overlay_swap' (names : List Nat) (hn : names.Nodup) (row x : Inst V) (T : List Nat) {g : Nat}
    (hg : g ∈ names) : overlay row (names.diff T) x g = overlay x T row g := by
  by_cases h : g ∈ T <;> simp [overlay, hn.mem_sdiff_iff, hg, h]

/-- inputs of BatchSage's original mode: a row of the data set overlaid with the revealed features of `x` -/
def origInputs (data : Nat → Inst V) (revealed : List Nat) (x : Inst V) (n : Nat) (rowOf : Nat → Nat) :
    List (Inst V) :=
  (List.range n).map (fun j => overlay (data (rowOf j)) revealed x)

/-- original mode as an imputer: the chain hands over the set `T` of features not yet revealed; the revealed ones
    are `names ∖ T` -/
def imputeOrig (model : Inst V → O) (data : Nat → Inst V) (names T : List Nat) (x : Inst V) (n : Nat)
    (rowOf : Nat → Nat) : List O :=
  (origInputs data (names.diff T) x n rowOf).map model

/-- for a model that reads only the features in `names`, original mode is the joint strategy with the data set as
    storage -/
theorem imputeOrig_eq_imputeJoint (model : Inst V → O) (data : Nat → Inst V) (names : List Nat) (hn : names.Nodup)
    (hmodel : ∀ a b : Inst V, (∀ g ∈ names, a g = b g) → model a = model b)
    (T : List Nat) (x : Inst V) (n : Nat) (rowOf : Nat → Nat) :
    imputeOrig model data names T x n rowOf = imputeJoint model data T x n rowOf := by
  simp only [imputeOrig, origInputs, imputeJoint, jointInputs, List.map_map]
  apply List.map_congr_left
  intro j _
  exact hmodel _ _ (fun g hg => overlay_swap' names hn (data (rowOf j)) x T hg)

end Strategies

/-! ### permutation average = subset-weight formula -/
section Subsets
variable {K : Type} [Field K] [CharZero K]

theorem append_diff_self (a b : List Nat) : (a ++ b).diff a = b := by
  induction a with
  | nil => simp
  | cons x a ih => simp [List.diff_cons, ih]

theorem filter_mem_of_sublist {S l : List Nat} (h : S.Sublist l) (hl : l.Nodup) :
    l.filter (fun g => decide (g ∈ S)) = S := by
  induction h with
  | slnil => rfl
  | @cons S l a h ih =>
    have hl' := List.nodup_cons.mp hl
    have : a ∉ S := fun ha => hl'.1 (h.subset ha)
    rw [List.filter_cons_of_neg (by simpa using this)]; exact ih hl'.2
  | @cons_cons S l a h ih =>
    have hl' := List.nodup_cons.mp hl
    rw [List.filter_cons_of_pos (by simp)]
    have : l.filter (fun g => decide (g ∈ a :: S)) = l.filter (fun g => decide (g ∈ S)) := by
      apply List.filter_congr
      intro x hx
      have : x ≠ a := fun e => hl'.1 (e ▸ hx)
      simp [this]
    rw [this, ih hl'.2]

/-- the features after `f` in the order `π` -/
def post (π : List Nat) (f : Nat) : List Nat := π.drop (π.idxOf f + 1)

theorem pre_post (π : List Nat) (f : Nat) (hf : f ∈ π) : pre π f ++ f :: post π f = π := by
  have h := List.take_append_drop (π.idxOf f + 1) π
  rw [take_idxOf_succ π f hf] at h
  simpa [post] using h

theorem pre_append (a b : List Nat) (f : Nat) (h : f ∉ a) : pre (a ++ f :: b) f = a := by
  simp [pre, List.idxOf_append_of_notMem h]

theorem post_append (a b : List Nat) (f : Nat) (h : f ∉ a) : post (a ++ f :: b) f = b := by
  simp [post, List.idxOf_append_of_notMem h]

theorem not_mem_pre (π : List Nat) (f : Nat) (hπ : π.Nodup) (hf : f ∈ π) : f ∉ pre π f := by
  have h := pre_post π f hf
  rw [← h] at hπ
  intro hm
  have := (List.nodup_append.mp hπ).2.2 f hm f (List.mem_cons_self)
  exact this rfl

theorem pre_post_perm (names π : List Nat) (f : Nat) (hf : f ∈ names) (hp : π.Perm names) :
    (pre π f ++ post π f).Perm (names.erase f) := by
  have hfπ : f ∈ π := hp.mem_iff.mpr hf
  have h1 : (f :: (pre π f ++ post π f)).Perm π := by
    have := (List.perm_middle (a := f) (l₁ := pre π f) (l₂ := post π f))
    rw [pre_post π f hfπ] at this
    exact this.symm
  exact (h1.trans (hp.trans (List.perm_cons_erase hf))).cons_inv

/-- the set (as the sublist of `names.erase f` with the same members) of the features before `f` -/
def preSet (names π : List Nat) (f : Nat) : List Nat := (names.erase f).filter (fun g => decide (g ∈ pre π f))

theorem pre_perm_preSet (names π : List Nat) (f : Nat) (hn : names.Nodup) (hf : f ∈ names) (hp : π.Perm names) :
    (pre π f).Perm (preSet names π f) := by
  have hπ : π.Nodup := hp.nodup_iff.mpr hn
  have hpre : (pre π f).Nodup := (List.take_sublist _ _).nodup hπ
  have hN : (names.erase f).Nodup := hn.erase f
  refine (List.perm_ext_iff_of_nodup hpre (hN.filter _)).mpr (fun g => ?_)
  simp only [List.mem_filter, decide_eq_true_eq]
  constructor
  · intro hg
    refine ⟨?_, hg⟩
    exact (pre_post_perm names π f hf hp).subset (List.mem_append_left _ hg)
  · exact fun h => h.2

theorem card_fiber (names : List Nat) (hn : names.Nodup) (f : Nat) (hf : f ∈ names) (S : List Nat)
    (hS : S.Sublist (names.erase f)) :
    (names.permutations.toFinset.filter (fun π => preSet names π f = S)).card =
      S.length.factorial * (names.length - 1 - S.length).factorial := by
  have hN : (names.erase f).Nodup := hn.erase f
  have hSn : S.Nodup := hS.nodup hN
  have hfN : f ∉ names.erase f := fun h => ((hn.mem_erase_iff).mp h).1 rfl
  have hsplit : (S ++ (names.erase f).diff S).Perm (names.erase f) :=
    List.subperm_append_diff_self_of_count_le (List.subperm_ext_iff.mp hS.subperm)
  have hlen : ((names.erase f).diff S).length = names.length - 1 - S.length := by
    have := hsplit.length_eq
    rw [List.length_append, List.length_erase_of_mem hf] at this
    omega
  have hcard : (S.permutations.toFinset ×ˢ ((names.erase f).diff S).permutations.toFinset).card =
      S.length.factorial * (names.length - 1 - S.length).factorial := by
    rw [Finset.card_product, List.toFinset_card_of_nodup (List.nodup_permutations _ hSn),
      List.toFinset_card_of_nodup (List.nodup_permutations _ (hN.diff)), List.length_permutations,
      List.length_permutations, hlen]
  rw [← hcard]
  refine Finset.card_bij (fun π _ => (pre π f, post π f)) ?_ ?_ ?_
  · intro π hπ
    simp only [Finset.mem_filter, List.mem_toFinset, List.mem_permutations] at hπ
    obtain ⟨hp, hkey⟩ := hπ
    have h1 : (pre π f).Perm S := hkey ▸ pre_perm_preSet names π f hn hf hp
    have h2 : (post π f).Perm ((names.erase f).diff S) := by
      have := (pre_post_perm names π f hf hp).diff h1
      rw [append_diff_self] at this
      exact this
    simp only [Finset.mem_product, List.mem_toFinset, List.mem_permutations]
    exact ⟨h1, h2⟩
  · intro π hπ σ hσ h
    simp only [Finset.mem_filter, List.mem_toFinset, List.mem_permutations] at hπ hσ
    have e1 := pre_post π f (hπ.1.mem_iff.mpr hf)
    have e2 := pre_post σ f (hσ.1.mem_iff.mpr hf)
    simp only [Prod.mk.injEq] at h
    rw [← e1, ← e2, h.1, h.2]
  · intro ⟨a, b⟩ hab
    simp only [Finset.mem_product, List.mem_toFinset, List.mem_permutations] at hab
    obtain ⟨ha, hb⟩ := hab
    have hfa : f ∉ a := fun h => hfN (hS.subset (ha.subset h))
    have hperm : (a ++ f :: b).Perm names := by
      refine (List.perm_middle).trans (((ha.append hb).trans hsplit).cons f |>.trans ?_)
      exact (List.perm_cons_erase hf).symm
    refine ⟨a ++ f :: b, ?_, by rw [pre_append a b f hfa, post_append a b f hfa]⟩
    simp only [Finset.mem_filter, List.mem_toFinset, List.mem_permutations]
    refine ⟨hperm, ?_⟩
    simp only [preSet, pre_append a b f hfa]
    refine Eq.trans (List.filter_congr ?_) (filter_mem_of_sublist hS hN)
    intro g _
    simp [ha.mem_iff]

/-- grouping the orders by the set of features before `f`: each set `S ⊆ names ∖ {f}` arises from
    `|S|! (d - 1 - |S|)!` orders -/
theorem perm_sum_eq_subset_sum (names : List Nat) (hn : names.Nodup) (f : Nat) (hf : f ∈ names)
    (G : List Nat → K) (hG : ∀ S S' : List Nat, S.Perm S' → G S = G S') :
    (names.permutations.map (fun π => G (pre π f))).sum =
      ((names.erase f).sublists.map (fun S =>
        ((S.length.factorial * (names.length - 1 - S.length).factorial : Nat) : K) * G S)).sum := by
  have hN : (names.erase f).Nodup := hn.erase f
  rw [← List.sum_toFinset _ (List.nodup_permutations names hn),
    ← List.sum_toFinset _ (List.nodup_sublists.mpr hN)]
  have hmaps : ∀ π ∈ names.permutations.toFinset, preSet names π f ∈ (names.erase f).sublists.toFinset := by
    intro π _
    simp only [List.mem_toFinset, List.mem_sublists, preSet]
    exact List.filter_sublist
  rw [← Finset.sum_fiberwise_of_maps_to hmaps]
  apply Finset.sum_congr rfl
  intro S hS
  simp only [List.mem_toFinset, List.mem_sublists] at hS
  have hconst : ∀ π ∈ names.permutations.toFinset.filter (fun π => preSet names π f = S), G (pre π f) = G S := by
    intro π hπ
    simp only [Finset.mem_filter, List.mem_toFinset, List.mem_permutations] at hπ
    exact hG _ _ (hπ.2 ▸ pre_perm_preSet names π f hn hf hπ.1)
  rw [Finset.sum_congr rfl hconst, Finset.sum_const, card_fiber names hn f hf S hS, nsmul_eq_mul]

/-- permutation-average form = subset-weight form, for a game `u` that depends on the coalition only as a set
    (`S ++ [f]` stands for `S ∪ {f}`) -/
theorem shapley_subset_form (names : List Nat) (hn : names.Nodup) (f : Nat) (hf : f ∈ names)
    (u : List Nat → K) (hu : ∀ S S' : List Nat, S.Perm S' → u S = u S') :
    Eorders names (fun π => u (pre π f) - u (pre π f ++ [f])) =
      ((names.erase f).sublists.map (fun S =>
        ((S.length.factorial : K) * ((names.length - 1 - S.length).factorial : K) / (names.length.factorial : K)) *
          (u S - u (S ++ [f])))).sum := by
  have hsum : ∀ (l : List (List Nat)) (h : List Nat → K) (c : K),
      (l.map (fun S => h S / c)).sum = (l.map h).sum / c := by
    intro l h c
    induction l with
    | nil => simp
    | cons a l ih => simp [ih, add_div]
  unfold Eorders
  rw [perm_sum_eq_subset_sum names hn f hf (fun S => u S - u (S ++ [f]))
    (fun S S' h => by rw [hu S S' h, hu _ _ (h.append_right [f])]), ← hsum]
  congr 1
  apply List.map_congr_left
  intro S _
  push_cast
  ring

end Subsets

end Ixai.Unbiased
