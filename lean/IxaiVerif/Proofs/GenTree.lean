/-
  Helper lemmas for the bridge between the GENERATED reservoir bookkeeping of TreeStorage (Gen/TreeStorageBookkeeping.lean) and the
  hand-written `Tree.updateFeature` (Model/Tree.lean).  No generated local name is mentioned: the loop body is a parameter of
  `forIn_id_foldl`, described by one equation that is discharged by `split <;> simp`.
   * `forIn_id_foldl`: a `for` loop in `Id` whose body always continues is a fold
   * `dropStep`, `foldl_dropStep`, `foldl_dropStep_keys`: what the clean-up fold computes
   * `delete_outdated_eq_filter`: the generated clean-up is a filter
   * `update_reservoirs_eq_model`: the generated update is `updateFeature`
-/
import IxaiVerif.Gen.TreeStorageBookkeeping
import IxaiVerif.Proofs.Tree
set_option linter.unusedSectionVars false
set_option linter.unusedVariables false
set_option linter.unusedSimpArgs false

namespace Ixai.GenTree
open Ixai Ixai.Tree Ixai.Gen

/-- a `for` loop in `Id` whose body always continues is a fold -/
theorem forIn_id_foldl {α β : Type} (f : β → α → β) (body : α → β → Id (ForInStep β))
    (hbody : ∀ a s, body a s = pure (ForInStep.yield (f s a))) :
    ∀ (l : List α) (s : β), forIn l s body = pure (l.foldl f s)
  | [], s => by simp
  | a :: rest, s => by
    rw [List.forIn_cons, hbody]
    simp only [pure_bind, List.foldl_cons]
    exact forIn_id_foldl f body hbody rest _

section
variable {α : Type}

/-- one step of the clean-up loop: `if label not in all_leafs: del d[label]` -/
def dropStep (allLeaves : List Nat) (acc : List (Nat × α)) (label : Nat) : List (Nat × α) :=
  if allLeaves.contains label then acc else acc.filter (fun e => !(e.1 == label))

/-- the clean-up fold over the labels `ls` keeps the entries that are current leaves or whose label is not visited -/
theorem foldl_dropStep (allLeaves : List Nat) (ls : List Nat) (acc : List (Nat × α)) :
    ls.foldl (dropStep allLeaves) acc = acc.filter (fun e => allLeaves.contains e.1 || !(ls.contains e.1)) := by
  induction ls generalizing acc with
  | nil => simp
  | cons a ls ih =>
    rw [List.foldl_cons, ih]
    unfold dropStep
    by_cases ha : allLeaves.contains a = true
    · rw [if_pos ha]
      apply List.filter_congr
      intro e _
      by_cases hea : e.1 = a
      · rw [hea, ha]; rfl
      · have : (a == e.1) = false := by simpa using fun h => hea h.symm
        simp [List.contains_cons, this, hea]
    · rw [if_neg ha, List.filter_filter]
      apply List.filter_congr
      intro e _
      by_cases hea : e.1 = a
      · have ha' : a ∉ allLeaves := by simpa using ha
        simp [hea, ha']
      · simp [List.contains_cons, hea]

/-- visiting every label present: exactly the current leaves survive -/
theorem foldl_dropStep_keys (allLeaves : List Nat) (rs : List (Nat × α)) :
    (rs.map Prod.fst).foldl (dropStep allLeaves) rs = rs.filter (fun e => allLeaves.contains e.1) := by
  rw [foldl_dropStep]
  apply List.filter_congr
  intro e he
  have : (rs.map Prod.fst).contains e.1 = true := by
    rw [List.contains_iff_mem]; exact List.mem_map_of_mem he
  rw [this]; simp

end

variable {K : Type} [Add K] [Sub K] [Mul K] [Div K] [NatCast K] [OfNat K 0] [OfNat K 1] [LE K] [DecidableLE K]
variable {P : Type}

/-- the generated clean-up loop is a filter -/
theorem delete_outdated_eq_filter (allLeaves : List Nat) (rs : Reservoirs K P) :
    Gen.TreeStorage._delete_outdated_reservoirs allLeaves rs = rs.filter (fun e => allLeaves.contains e.1) := by
  unfold Gen.TreeStorage._delete_outdated_reservoirs
  simp (disch := intro a s; unfold dropStep; split <;> simp_all) only [forIn_id_foldl (dropStep allLeaves)]
  simp only [foldl_dropStep_keys]
  rfl

/-- the generated update is the model's `updateFeature` -/
theorem update_reservoirs_eq_model (L : Nat) (rs : Reservoirs K P) (leaf : Nat) (allLeaves : List Nat) (x : P) (rnd : Rnd K) :
    Gen.TreeStorage._update_data_reservoirs L leaf allLeaves x rs rnd = updateFeature L rs leaf allLeaves x rnd := by
  unfold Gen.TreeStorage._update_data_reservoirs updateFeature
  simp only [delete_outdated_eq_filter]
  cases h : (findR rs leaf).isSome <;>
    simp only [Bool.not_true, Bool.not_false, Bool.false_eq_true, if_true, if_false, ite_true, ite_false, pure_bind, bind_pure_comp,
      reduceIte] <;>
    split <;> rename_i hq <;> rw [hq] <;> rfl

end Ixai.GenTree
