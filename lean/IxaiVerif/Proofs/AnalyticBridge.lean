/-
  Analytic bridge for `Proofs/AlgoL.lean` (Algorithm L, UniformReservoirStorage).

  `AlgoL.lean` is a purely algebraic development over ℚ.  It takes two analytic facts about a random variable U that is
  uniform on (0,1) as given (they were listed in the trusted base, DESIGN.md section 8).  This file proves both of them
  in Mathlib's measure theory, with U modelled as the identity on ℝ under Lebesgue measure restricted to (0,1):

  (A) Moments of V = U^(1/k):  E[V^m] = ∫_0^1 (u^(1/k))^m du = k/(k+m).
      This is the definition `Ixai.AlgoL.momV k m := k/(k+m)` used as the base case `phi k [] m` and as the factor of the
      accept step of the moment functional `phi`.  Theorems: `moment_rpow`, `moment_rpow_Ioo`.

  (B) The skip S = ⌊log U / log(1-w)⌋ is geometric with parameter w, for 0 < w < 1:
        P(S = s) = (1-w)^s · w           (`skip_set_eq`, `skip_measure`)
        P(S ≥ s) = (1-w)^s               (`skip_tail_set_eq`, `skip_tail`)
      i.e. S has the law of "s consecutive rejections, each of probability 1-w, then one acceptance of probability w":
      a run of independent Bernoulli(w) trials.  This is what lets `AlgoL.phi` treat each skipped item as a reject step
      (`phi (false::h) m = phi h m − phi h (m+1)`, i.e. multiplication by (1 − W) inside the expectation) and the item
      after the skip as an accept step.

  (C) P(U ≤ p) = p for 0 ≤ p ≤ 1  (`uniform_cdf`), used by the geometric reservoir; and P(0 < U < 1) = 1 (`uniform_total`).

  What REMAINS trusted (not proved here, and not provable inside Lean about the Python program):
    * independence of the successive draws of U (the product structure behind "E[1_hist · W^m]" and the factorisation
      of the accept step `phi (true::h) m = phi h (m+1) · momV k m`);
    * that Python's `random.random()` is uniform on (0,1);
    * float granularity: `random.random()` returns one of finitely many doubles in [0,1), `log`, `floor` and `**` are
      evaluated in floating point; the statements here are about exact real numbers.
-/
import Mathlib.Analysis.SpecialFunctions.Integrals.Basic
import Mathlib.Analysis.SpecialFunctions.Pow.Real
import Mathlib.Analysis.SpecialFunctions.Log.Basic
import Mathlib.MeasureTheory.Measure.Lebesgue.Basic
import Mathlib.MeasureTheory.Integral.IntervalIntegral.Basic

namespace Ixai.AnalyticBridge

open MeasureTheory Set

/-! ### (A) moments of U^(1/k) -/

/-- On u ≥ 0, `(u^(1/k))^m = u^(m/k)`. -/
theorem rpow_inv_pow (k m : ℕ) (u : ℝ) (hu : 0 ≤ u) :
    (u ^ ((1:ℝ)/k)) ^ m = u ^ ((m:ℝ)/k) := by
  rw [← Real.rpow_natCast, ← Real.rpow_mul hu]
  congr 1
  ring

/-- E[(U^(1/k))^m] = k/(k+m) for U uniform on (0,1): discharges `Ixai.AlgoL.momV`. -/
theorem moment_rpow (k m : ℕ) (hk : 1 ≤ k) :
    ∫ u in (0:ℝ)..1, (u ^ ((1:ℝ)/k)) ^ m = (k : ℝ) / (k + m) := by
  have hk0 : (0:ℝ) < k := by exact_mod_cast hk
  have hr : (0:ℝ) ≤ (m:ℝ)/k := by positivity
  have hcongr : ∫ u in (0:ℝ)..1, (u ^ ((1:ℝ)/k)) ^ m = ∫ u in (0:ℝ)..1, u ^ ((m:ℝ)/k) := by
    apply intervalIntegral.integral_congr
    intro u hu
    rw [uIcc_of_le (zero_le_one' ℝ)] at hu
    exact rpow_inv_pow k m u hu.1
  rw [hcongr, integral_rpow (Or.inl (by linarith))]
  have h1 : ((m:ℝ)/k + 1) ≠ 0 := by positivity
  rw [Real.one_rpow, Real.zero_rpow h1]
  field_simp
  ring

/-- The same moment as a Lebesgue integral over the open interval (0,1). -/
theorem moment_rpow_Ioo (k m : ℕ) (hk : 1 ≤ k) :
    ∫ u in Ioo (0:ℝ) 1, (u ^ ((1:ℝ)/k)) ^ m = (k : ℝ) / (k + m) := by
  rw [← moment_rpow k m hk, intervalIntegral.integral_of_le (zero_le_one' ℝ),
    integral_Ioc_eq_integral_Ioo]

/-! ### interval bookkeeping -/

/-- For 0 ≤ a and b ≤ 1 the part of (a,b] inside (0,1) has measure b - a. -/
theorem volume_Ioc_inter_unit (a b : ℝ) (ha : 0 ≤ a) (hb : b ≤ 1) :
    volume (Ioc a b ∩ Ioo 0 1) = ENNReal.ofReal (b - a) := by
  apply le_antisymm
  · calc volume (Ioc a b ∩ Ioo 0 1) ≤ volume (Ioc a b) := measure_mono inter_subset_left
      _ = ENNReal.ofReal (b - a) := Real.volume_Ioc
  · calc ENNReal.ofReal (b - a) = volume (Ioo a b) := Real.volume_Ioo.symm
      _ ≤ volume (Ioc a b ∩ Ioo 0 1) := by
        apply measure_mono
        intro u hu
        exact ⟨⟨hu.1, hu.2.le⟩, ⟨lt_of_le_of_lt ha hu.1, lt_of_lt_of_le hu.2 hb⟩⟩

/-! ### (B) the skip is geometric -/

/-- `log (1-w) < 0` for `0 < w < 1`. -/
theorem log_one_sub_neg (w : ℝ) (hw0 : 0 < w) (hw1 : w < 1) : Real.log (1 - w) < 0 :=
  Real.log_neg (by linarith) (by linarith)

/-- For u > 0: `n ≤ log u / log (1-w) ↔ u ≤ (1-w)^n`. -/
theorem le_logdiv_iff (w : ℝ) (hw0 : 0 < w) (hw1 : w < 1) (n : ℕ) (u : ℝ) (hu : 0 < u) :
    (n : ℝ) ≤ Real.log u / Real.log (1 - w) ↔ u ≤ (1 - w) ^ n := by
  have hq : 0 < 1 - w := by linarith
  rw [le_div_iff_of_neg (log_one_sub_neg w hw0 hw1), ← Real.log_pow,
    Real.log_le_log_iff hu (pow_pos hq n)]

/-- For u > 0: `log u / log (1-w) < n ↔ (1-w)^n < u`. -/
theorem logdiv_lt_iff (w : ℝ) (hw0 : 0 < w) (hw1 : w < 1) (n : ℕ) (u : ℝ) (hu : 0 < u) :
    Real.log u / Real.log (1 - w) < (n : ℝ) ↔ (1 - w) ^ n < u := by
  have hq : 0 < 1 - w := by linarith
  rw [div_lt_iff_of_neg (log_one_sub_neg w hw0 hw1), ← Real.log_pow,
    Real.log_lt_log_iff (pow_pos hq n) hu]

/-- The event {skip = s} is the interval ((1-w)^(s+1), (1-w)^s] (intersected with (0,1)). -/
theorem skip_set_eq (w : ℝ) (hw0 : 0 < w) (hw1 : w < 1) (s : ℕ) :
    {u : ℝ | 0 < u ∧ u < 1 ∧ ⌊Real.log u / Real.log (1 - w)⌋ = (s : ℤ)}
      = Ioc ((1 - w) ^ (s + 1)) ((1 - w) ^ s) ∩ Ioo 0 1 := by
  ext u
  simp only [mem_ofPred_eq, mem_inter_iff, mem_Ioc, mem_Ioo]
  constructor
  · rintro ⟨h0, h1, hfl⟩
    rw [Int.floor_eq_iff] at hfl
    obtain ⟨hlo, hhi⟩ := hfl
    have hlo' : ((s : ℕ) : ℝ) ≤ Real.log u / Real.log (1 - w) := by exact_mod_cast hlo
    have hhi' : Real.log u / Real.log (1 - w) < ((s + 1 : ℕ) : ℝ) := by exact_mod_cast hhi
    exact ⟨⟨(logdiv_lt_iff w hw0 hw1 (s + 1) u h0).1 hhi', (le_logdiv_iff w hw0 hw1 s u h0).1 hlo'⟩,
      h0, h1⟩
  · rintro ⟨⟨hlo, hhi⟩, h0, h1⟩
    refine ⟨h0, h1, ?_⟩
    rw [Int.floor_eq_iff]
    have hlo' := (le_logdiv_iff w hw0 hw1 s u h0).2 hhi
    have hhi' := (logdiv_lt_iff w hw0 hw1 (s + 1) u h0).2 hlo
    constructor
    · exact_mod_cast hlo'
    · exact_mod_cast hhi'

/-- P(skip = s) = (1-w)^s · w : the skip is geometric with parameter w. -/
theorem skip_measure (w : ℝ) (hw0 : 0 < w) (hw1 : w < 1) (s : ℕ) :
    volume {u : ℝ | 0 < u ∧ u < 1 ∧ ⌊Real.log u / Real.log (1 - w)⌋ = (s : ℤ)}
      = ENNReal.ofReal ((1 - w) ^ s * w) := by
  have hq : 0 ≤ 1 - w := by linarith
  have hq1 : 1 - w ≤ 1 := by linarith
  rw [skip_set_eq w hw0 hw1 s,
    volume_Ioc_inter_unit _ _ (pow_nonneg hq _) (pow_le_one₀ hq hq1)]
  congr 1
  ring

/-- The event {skip ≥ s} is the interval (0, (1-w)^s] (intersected with (0,1)). -/
theorem skip_tail_set_eq (w : ℝ) (hw0 : 0 < w) (hw1 : w < 1) (s : ℕ) :
    {u : ℝ | 0 < u ∧ u < 1 ∧ (s : ℤ) ≤ ⌊Real.log u / Real.log (1 - w)⌋}
      = Ioc 0 ((1 - w) ^ s) ∩ Ioo 0 1 := by
  ext u
  simp only [mem_ofPred_eq, mem_inter_iff, mem_Ioc, mem_Ioo]
  constructor
  · rintro ⟨h0, h1, hfl⟩
    rw [Int.le_floor] at hfl
    have hlo' : ((s : ℕ) : ℝ) ≤ Real.log u / Real.log (1 - w) := by exact_mod_cast hfl
    exact ⟨⟨h0, (le_logdiv_iff w hw0 hw1 s u h0).1 hlo'⟩, h0, h1⟩
  · rintro ⟨⟨_, hhi⟩, h0, h1⟩
    refine ⟨h0, h1, ?_⟩
    rw [Int.le_floor]
    exact_mod_cast (le_logdiv_iff w hw0 hw1 s u h0).2 hhi

/-- P(skip ≥ s) = (1-w)^s : s consecutive rejections, each with probability 1-w. -/
theorem skip_tail (w : ℝ) (hw0 : 0 < w) (hw1 : w < 1) (s : ℕ) :
    volume {u : ℝ | 0 < u ∧ u < 1 ∧ (s : ℤ) ≤ ⌊Real.log u / Real.log (1 - w)⌋}
      = ENNReal.ofReal ((1 - w) ^ s) := by
  have hq : 0 ≤ 1 - w := by linarith
  have hq1 : 1 - w ≤ 1 := by linarith
  rw [skip_tail_set_eq w hw0 hw1 s, volume_Ioc_inter_unit _ _ le_rfl (pow_le_one₀ hq hq1), sub_zero]

/-- Conditional form: P(skip ≥ s+1) = (1-w) · P(skip ≥ s), one more rejection costs a factor 1-w. -/
theorem skip_tail_succ (w : ℝ) (hw0 : 0 < w) (hw1 : w < 1) (s : ℕ) :
    volume {u : ℝ | 0 < u ∧ u < 1 ∧ ((s + 1 : ℕ) : ℤ) ≤ ⌊Real.log u / Real.log (1 - w)⌋}
      = ENNReal.ofReal (1 - w) *
        volume {u : ℝ | 0 < u ∧ u < 1 ∧ (s : ℤ) ≤ ⌊Real.log u / Real.log (1 - w)⌋} := by
  have hq : 0 ≤ 1 - w := by linarith
  rw [skip_tail w hw0 hw1 (s + 1), skip_tail w hw0 hw1 s, ← ENNReal.ofReal_mul hq]
  congr 1
  ring

/-- P(skip = s) = w · P(skip ≥ s): after s rejections the next trial accepts with probability w. -/
theorem skip_measure_eq_mul_tail (w : ℝ) (hw0 : 0 < w) (hw1 : w < 1) (s : ℕ) :
    volume {u : ℝ | 0 < u ∧ u < 1 ∧ ⌊Real.log u / Real.log (1 - w)⌋ = (s : ℤ)}
      = ENNReal.ofReal w *
        volume {u : ℝ | 0 < u ∧ u < 1 ∧ (s : ℤ) ≤ ⌊Real.log u / Real.log (1 - w)⌋} := by
  rw [skip_measure w hw0 hw1 s, skip_tail w hw0 hw1 s, ← ENNReal.ofReal_mul hw0.le]
  congr 1
  ring

/-! ### (C) the uniform CDF -/

/-- P(U ≤ p) = p for 0 ≤ p ≤ 1. -/
theorem uniform_cdf (p : ℝ) (_hp0 : 0 ≤ p) (hp1 : p ≤ 1) :
    volume (Ioc (0:ℝ) p ∩ Ioo 0 1) = ENNReal.ofReal p := by
  rw [volume_Ioc_inter_unit 0 p le_rfl hp1, sub_zero]

/-- (0,1) has total mass 1: Lebesgue measure restricted to (0,1) is a probability measure. -/
theorem uniform_total : volume (Ioo (0:ℝ) 1) = 1 := by
  rw [Real.volume_Ioo]; simp

end Ixai.AnalyticBridge

