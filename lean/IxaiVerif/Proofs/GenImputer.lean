/-
  Helper lemmas for Props/GenImputer.lean: the GENERATED imputers (Gen/MarginalImputer.lean, Gen/DefaultImputer.lean)
  equal the hand-written model (Model/Imputer.lean).

    * `Dict.find?` after `Dict.set` / `Dict.ofPairs`; `overlayD` of a comprehension dict is `overlay` (any subset list)
    * `StateM Nat`: `(m >>= f) p`, `(f <$> m) p`, `pure a p` computed (`stateM_bind_apply`, …)
    * the `for`-loops, with the loop body as a parameter described by a defining equation (so the proofs do not mention
      the generated local names): `forIn_append_draws` (outer loop: one prediction per inner sample, `step` draws each),
      `forIn_set_draws` (inner loop of the product strategy: one draw per feature)
    * `prodDict`: the dict built by the product strategy's inner loop, and `overlayD_prodDict`
    * the bridge theorems `marginal_joint_generated_eq_model'`, `marginal_product_generated_eq_model'`,
      `default_generated_eq_model'`
-/
import IxaiVerif.Gen.MarginalImputer
import IxaiVerif.Gen.DefaultImputer
set_option linter.unusedSectionVars false
set_option linter.unusedVariables false
set_option linter.unusedSimpArgs false

namespace Ixai.GenImputer
open Ixai

variable {V O α β : Type}

/-! ### dictionaries -/

theorem find?_set (d : Dict V) (k k' : Nat) (v : V) :
    (d.set k v).find? k' = if k = k' then some v else d.find? k' := by
  induction d with
  | nil => simp [Dict.set, Dict.find?]
  | cons kv rest ih =>
    rcases kv with ⟨k0, v0⟩
    by_cases h0 : k0 = k
    · subst h0
      by_cases h1 : k0 = k' <;> simp [Dict.set, Dict.find?, h1]
    · by_cases h1 : k0 = k'
      · subst h1
        simp [Dict.set, Dict.find?, h0, Ne.symm h0]
      · simp [Dict.set, Dict.find?, h0, h1, ih]

theorem find?_foldl_set (r : Nat → V) (f : Nat) : ∀ (S : List Nat) (acc : Dict V),
    ((S.map fun a => (a, r a)).foldl (fun d kv => d.set kv.1 kv.2) acc).find? f
      = if f ∈ S then some (r f) else acc.find? f
  | [], acc => by simp
  | a :: rest, acc => by
    simp only [List.map_cons, List.foldl_cons, find?_foldl_set r f rest, find?_set, List.mem_cons]
    by_cases h1 : f ∈ rest
    · simp [h1]
    · by_cases h2 : a = f
      · subst h2; simp
      · simp [h1, h2, Ne.symm h2]

theorem find?_ofPairs (r : Nat → V) (S : List Nat) (f : Nat) :
    (Dict.ofPairs (S.map fun a => (a, r a))).find? f = if f ∈ S then some (r f) else none := by
  unfold Dict.ofPairs
  rw [find?_foldl_set]
  rfl

/-- `{**x, **{f: r f for f in S}}` — for any list `S`, duplicates allowed -/
theorem overlayD_ofPairs (x : Inst V) (S : List Nat) (r : Nat → V) :
    overlayD x (Dict.ofPairs (S.map fun a => (a, r a))) = overlay x S r := by
  funext f
  unfold overlayD overlay
  rw [find?_ofPairs]
  by_cases h : f ∈ S <;> simp [h]

/-! ### `StateM Nat` computed -/

theorem stateM_bind_apply (m : StateM Nat α) (f : α → StateM Nat β) (p : Nat) :
    (m >>= f) p = f (m p).1 (m p).2 := rfl

theorem stateM_map_apply (m : StateM Nat α) (f : α → β) (p : Nat) :
    (f <$> m) p = (f (m p).1, (m p).2) := rfl

theorem stateM_pure_apply (a : α) (p : Nat) : (pure a : StateM Nat α) p = (a, p) := rfl

theorem drawIdx_apply (idxs : Nat → Nat → Nat) (n p : Nat) : drawIdx idxs n p = (idxs p n, p + 1) := rfl

/-! ### the loops -/

/-- a `for _ in l` loop whose body makes `step` draws and appends `g (position before the draws)` -/
theorem forIn_append_draws (g : Nat → O) (step : Nat) (body : Nat → List O → StateM Nat (ForInStep (List O)))
    (hbody : ∀ a acc p, body a acc p = (ForInStep.yield (acc ++ [g p]), p + step)) :
    ∀ (l : List Nat) (acc : List O) (p : Nat),
      forIn l acc body p = (acc ++ (List.range l.length).map (fun j => g (p + j * step)), p + l.length * step)
  | [], acc, p => by simp [stateM_pure_apply]
  | a :: rest, acc, p => by
    rw [List.forIn_cons, stateM_bind_apply, hbody]
    simp only [forIn_append_draws g step body hbody rest, List.length_cons, List.range_succ_eq_map, List.map_cons,
      List.map_map, List.append_assoc, List.singleton_append, Nat.zero_mul, Nat.add_zero]
    refine Prod.ext ?_ ?_
    · simp only [Function.comp_def, Nat.succ_mul, Nat.add_assoc, Nat.add_comm (_ * step) step]
    · simp only [Nat.succ_mul, Nat.add_assoc, Nat.add_comm (_ * step) step]

/-- the dict built by `for a in l: d[a] = rows[next draw][a]` from `acc`, first draw at position `p` -/
def prodDict (idxs : Nat → Nat → Nat) (rows : Nat → Inst V) (m : Nat) : List Nat → Dict V → Nat → Dict V
  | [], acc, _ => acc
  | a :: rest, acc, p => prodDict idxs rows m rest (acc.set a (rows (idxs p m) a)) (p + 1)

theorem forIn_set_draws (idxs : Nat → Nat → Nat) (rows : Nat → Inst V) (m : Nat)
    (body : Nat → Dict V → StateM Nat (ForInStep (Dict V)))
    (hbody : ∀ a d p, body a d p = (ForInStep.yield (d.set a (rows (idxs p m) a)), p + 1)) :
    ∀ (l : List Nat) (acc : Dict V) (p : Nat),
      forIn l acc body p = (prodDict idxs rows m l acc p, p + l.length)
  | [], acc, p => by simp [stateM_pure_apply, prodDict]
  | a :: rest, acc, p => by
    rw [List.forIn_cons, stateM_bind_apply, hbody]
    simp only [forIn_set_draws idxs rows m body hbody rest, prodDict, List.length_cons]
    refine Prod.ext rfl ?_
    simp only [Nat.add_assoc, Nat.add_comm 1]

theorem find?_prodDict (idxs : Nat → Nat → Nat) (rows : Nat → Inst V) (m : Nat) (f : Nat) :
    ∀ (l : List Nat) (acc : Dict V) (p : Nat), l.Nodup →
      (prodDict idxs rows m l acc p).find? f
        = if f ∈ l then some (rows (idxs (p + l.idxOf f) m) f) else acc.find? f
  | [], acc, p, _ => by simp [prodDict]
  | a :: rest, acc, p, hnd => by
    rw [List.nodup_cons] at hnd
    simp only [prodDict, find?_prodDict idxs rows m f rest _ _ hnd.2, find?_set, List.mem_cons]
    by_cases h1 : f ∈ rest
    · have h2 : a ≠ f := fun e => hnd.1 (e ▸ h1)
      have h3 : (a == f) = false := by simpa using h2
      simp [h1, List.idxOf_cons, h2, h3, Nat.add_assoc, Nat.add_comm 1]
    · by_cases h2 : a = f
      · subst h2; simp [h1]
      · simp [h1, h2, Ne.symm h2]

theorem overlayD_prodDict (idxs : Nat → Nat → Nat) (rows : Nat → Inst V) (m : Nat) (x : Inst V) (S : List Nat)
    (hS : S.Nodup) (p : Nat) :
    overlayD x (prodDict idxs rows m S [] p) = overlay x S (fun f => rows (idxs (p + S.idxOf f) m) f) := by
  funext f
  unfold overlayD overlay
  rw [find?_prodDict idxs rows m f S [] p hS]
  by_cases h : f ∈ S <;> simp [h, Dict.find?]

/-! ### the bridge theorems -/

theorem marginal_joint_generated_eq_model' (idxs : Nat → Nat → Nat) (model : Inst V → O) (rows : Nat → Inst V) (m : Nat)
    (S : List Nat) (x : Inst V) (n p : Nat) :
    Gen.MarginalImputer.impute idxs model true rows m S x n p
      = (imputeJoint model rows S x n (fun j => idxs (p + j) m), p + n) := by
  unfold Gen.MarginalImputer.impute
  rw [stateM_bind_apply,
    forIn_append_draws (fun q => model (overlay x S (rows (idxs q m)))) 1 _ ?_]
  · simp [stateM_pure_apply, imputeJoint, jointInputs, Function.comp_def]
  · intro a acc q
    simp [Gen.MarginalImputer._sample, Gen.MarginalImputer._sample_marginals, stateM_bind_apply, stateM_map_apply,
      stateM_pure_apply, drawIdx_apply, overlayD_ofPairs]

theorem marginal_product_generated_eq_model' (idxs : Nat → Nat → Nat) (model : Inst V → O) (rows : Nat → Inst V) (m : Nat)
    (S : List Nat) (hS : S.Nodup) (x : Inst V) (n p : Nat) :
    Gen.MarginalImputer.impute idxs model false rows m S x n p
      = (imputeProduct model rows S x n (fun j f => idxs (p + j * S.length + S.idxOf f) m), p + n * S.length) := by
  unfold Gen.MarginalImputer.impute
  rw [stateM_bind_apply,
    forIn_append_draws (fun q => model (overlay x S (fun f => rows (idxs (q + S.idxOf f) m) f))) S.length _ ?_]
  · simp [stateM_pure_apply, imputeProduct, productInputs, Function.comp_def]
  · intro a acc q
    have hinner : Gen.MarginalImputer._sample_product_marginals idxs rows m S q
        = (prodDict idxs rows m S [] q, q + S.length) := by
      unfold Gen.MarginalImputer._sample_product_marginals
      rw [stateM_bind_apply, forIn_set_draws idxs rows m _ ?_]
      · rfl
      · intro a d p'
        simp [stateM_bind_apply, stateM_map_apply, stateM_pure_apply, drawIdx_apply]
    simp [Gen.MarginalImputer._sample, stateM_bind_apply, stateM_map_apply, stateM_pure_apply, hinner,
      overlayD_prodDict idxs rows m x S hS]

theorem default_generated_eq_model' (model : Inst V → O) (values : Inst V) (S : List Nat) (x : Inst V) (n : Nat) :
    Gen.DefaultImputer.impute model values S x n = imputeDefault model values S x n := by
  unfold Gen.DefaultImputer.impute imputeDefault defaultInput
  simp only [overlayD_ofPairs, List.map_const', List.length_range]
  rfl

end Ixai.GenImputer
