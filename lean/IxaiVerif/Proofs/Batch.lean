/-
  Helper lemmas for BatchSage / IntervalSage (C05): telescoping of the permutation chain, the closed form of the
  accumulation loop of `batchSage`, and the one-step / run characterisations of `intervalStep`.
-/
import IxaiVerif.Model.Explainer
import IxaiVerif.Proofs.Imputer
import IxaiVerif.Proofs.Storage
import Mathlib.Data.List.Perm.Basic
import Mathlib.Algebra.BigOperators.Group.List.Lemmas
import Mathlib.Algebra.BigOperators.Ring.List
import Mathlib.Tactic.Ring

set_option linter.unusedSectionVars false

namespace Ixai
open Ixai.Gen

/-! ### list facts -/
section Lists

theorem diff_self_nat (l : List Nat) : l.diff l = [] := by
  induction l with
  | nil => rfl
  | cons a l ih => rw [List.diff_cons, List.erase_cons_head]; exact ih

theorem diff_of_perm {perm names : List Nat} (h : perm.Perm names) : names.diff perm = [] := by
  rw [List.Perm.diff_left names h]; exact diff_self_nat names

variable {K : Type} [Field K]

theorem batch_sum_map_div (l : List Nat) (g : Nat → K) (c : K) :
    (l.map (fun a => g a / c)).sum = (l.map g).sum / c := by
  induction l with
  | nil => simp
  | cons a l ih => simp [ih, add_div]

theorem sum_sum_comm {C : Type} (names : List Nat) (per : List C) (h : C → Nat → K) :
    (names.map (fun f => (per.map (fun c => h c f)).sum)).sum =
      (per.map (fun c => (names.map (h c)).sum)).sum := by
  induction per with
  | nil => simp
  | cons c per ih => simp [List.sum_map_add, ih]

/-- summing the looked-up values over any enumeration of the (distinct) keys is summing the values -/
theorem Dict.sum_getD_of_perm (d : Dict K) (names : List Nat) (hd : d.keys.Nodup) (hp : d.keys.Perm names) :
    (names.map (fun f => d.getD f 0)).sum = (d.map Prod.snd).sum := by
  rw [← Dict.map_keys_getD_snd d hd 0]
  exact ((hp.map _).sum_eq).symm

end Lists

/-! ### the permutation chain -/
section Chain
variable {K : Type} [Field K] {Y : Type}

/-- the loss the chain ends with: the start value for an empty chain, otherwise the loss of the last imputation -/
def chainEnd (loss : Y → Dict K → K) (y : Y) (imp : List Nat → List (Dict K)) :
    List Nat → List Nat → K → K
  | [], _, prev => prev
  | f :: rest, notInS, _ =>
    chainEnd loss y imp rest (notInS.erase f) (loss y (meanOutput (imp (notInS.erase f))))

theorem sageChain_keys (loss : Y → Dict K → K) (y : Y) (imp : List Nat → List (Dict K))
    (perm notInS : List Nat) (prev : K) :
    (sageChain loss y imp perm notInS prev).keys = perm := by
  induction perm generalizing notInS prev with
  | nil => rfl
  | cons f rest ih => simp only [sageChain, Dict.keys_cons]; rw [ih]

/-- telescoping: the contributions sum to (start loss − end loss) -/
theorem sageChain_sum (loss : Y → Dict K → K) (y : Y) (imp : List Nat → List (Dict K))
    (perm notInS : List Nat) (prev : K) :
    ((sageChain loss y imp perm notInS prev).map Prod.snd).sum = prev - chainEnd loss y imp perm notInS prev := by
  induction perm generalizing notInS prev with
  | nil => simp [sageChain, chainEnd]
  | cons f rest ih =>
    simp only [sageChain, chainEnd, List.map_cons, List.sum_cons]; rw [ih]; ring

theorem chainEnd_cons (loss : Y → Dict K → K) (y : Y) (imp : List Nat → List (Dict K))
    (f : Nat) (rest notInS : List Nat) (prev : K) :
    chainEnd loss y imp (f :: rest) notInS prev = loss y (meanOutput (imp (notInS.diff (f :: rest)))) := by
  induction rest generalizing f notInS prev with
  | nil => simp [chainEnd]
  | cons g rest ih =>
    rw [chainEnd, ih, List.diff_cons notInS (g :: rest) f]

/-- along a permutation of the (distinct, non-empty) feature names, starting from all names not yet revealed:
    the looked-up contributions sum to start loss − loss of the prediction for the empty remaining subset -/
theorem sageChain_total (loss : Y → Dict K → K) (y : Y) (imp : List Nat → List (Dict K))
    (names perm : List Nat) (hn : names.Nodup) (hne : names ≠ []) (hp : perm.Perm names) (prev : K) :
    (names.map (fun f => (sageChain loss y imp perm names prev).getD f 0)).sum =
      prev - loss y (meanOutput (imp [])) := by
  have hk := sageChain_keys loss y imp perm names prev
  rw [Dict.sum_getD_of_perm _ names (by rw [hk]; exact hp.nodup_iff.mpr hn) (by rw [hk]; exact hp),
    sageChain_sum]
  obtain ⟨f, rest, rfl⟩ : ∃ f rest, perm = f :: rest := by
    cases perm with
    | nil => exact absurd hp.symm.eq_nil hne
    | cons f rest => exact ⟨f, rest, rfl⟩
  rw [chainEnd_cons, diff_of_perm hp]

end Chain

/-! ### `batchSage` -/
section Batch
variable {K : Type} [Field K] {V Y : Type}

theorem addContribs_tabulate (names : List Nat) (g : Nat → K) (c : Dict K) :
    addContribs (names.map (fun f => (f, g f))) c = names.map (fun f => (f, g f + c.getD f 0)) := by
  simp [addContribs, List.map_map, Function.comp_def]

theorem foldl_addContribs (names : List Nat) (g : Nat → K) (per : List (Dict K)) :
    per.foldl addContribs (names.map (fun f => (f, g f))) =
      names.map (fun f => (f, g f + (per.map (fun c => c.getD f 0)).sum)) := by
  induction per generalizing g with
  | nil => simp
  | cons c per ih =>
    rw [List.foldl_cons, addContribs_tabulate, ih]
    simp [add_assoc]

/-- the per-observation contribution dicts of one `explain_many` -/
def batchChains (names : List Nat) (model : Inst V → Dict K) (loss : Y → Dict K → K)
    (data : List (Inst V × Y)) (perms : List (List Nat)) (imps : List (List Nat → List (Dict K))) :
    List (Dict K) :=
  (data.zip (perms.zip imps)).map (fun d =>
    sageChain loss d.1.2 d.2.2 d.2.1 names (loss d.1.2 (meanOutput (data.map (fun d => model d.1)))))

/-- closed form of the accumulation loop -/
theorem batchSage_eq (names : List Nat) (model : Inst V → Dict K) (loss : Y → Dict K → K)
    (data : List (Inst V × Y)) (perms : List (List Nat)) (imps : List (List Nat → List (Dict K))) :
    batchSage names model loss data perms imps =
      names.map (fun f => (f, ((batchChains names model loss data perms imps).map
        (fun c => c.getD f 0)).sum / (data.length : K))) := by
  unfold batchSage
  simp only []
  rw [foldl_addContribs]
  simp [batchChains, List.map_map, Function.comp_def]

end Batch

/-! ### `intervalStep` -/
section Interval
variable {K : Type} [Field K] {V Y : Type}

/-- one call of `IntervalSage.explain_one` with everything it consumes -/
structure IntervalCall (K V Y : Type) where
  x : Inst V
  y : Y
  updateStorage : Bool
  force : Bool
  perms : List (List Nat)
  imps : List (List Nat → List (Dict K))

/-- one call on a state -/
def intervalCallStep (names : List Nat) (model : Inst V → Dict K) (loss : Y → Dict K → K) (intervalLength : Nat)
    (s : IntervalState K V Y) (c : IntervalCall K V Y) : IntervalState K V Y × Bool :=
  intervalStep names model loss intervalLength s c.x c.y c.updateStorage c.force c.perms c.imps

/-- a sequence of calls from the freshly constructed explainer -/
def intervalRun (names : List Nat) (model : Inst V → Dict K) (loss : Y → Dict K → K)
    (intervalLength storageLength : Nat) (calls : List (IntervalCall K V Y)) : IntervalState K V Y :=
  calls.foldl (fun s c => (intervalCallStep names model loss intervalLength s c).1)
    (IntervalState.init names storageLength)

/-- the observations that were offered to the storage, in call order -/
def storedStream (calls : List (IntervalCall K V Y)) : List (Inst V × Y) :=
  (calls.filter (fun c => c.updateStorage)).map (fun c => (c.x, c.y))

variable (names : List Nat) (model : Inst V → Dict K) (loss : Y → Dict K → K) (L : Nat)

theorem intervalRun_snoc (size : Nat) (calls : List (IntervalCall K V Y)) (c : IntervalCall K V Y) :
    intervalRun names model loss L size (calls ++ [c]) =
      (intervalCallStep names model loss L (intervalRun names model loss L size calls) c).1 := by
  simp [intervalRun, List.foldl_append]

/-- one-step characterisation read off `intervalStep` -/
theorem intervalStep_spec (s : IntervalState K V Y) (x : Inst V) (y : Y) (upd force : Bool)
    (perms : List (List Nat)) (imps : List (List Nat → List (Dict K))) :
    let r := intervalStep names model loss L s x y upd force perms imps
    r.1.seen = s.seen + 1 ∧
    r.1.storage = (if upd then s.storage.update x y else s.storage) ∧
    (r.2 = true ↔ (force = true ∨ (s.seen + 1) % L = 0)) ∧
    (r.2 = false → r.1.values = s.values) ∧
    (r.2 = true → r.1.values =
      batchSage names model loss (r.1.storage.storage_x.zip r.1.storage.storage_y) perms imps) := by
  simp only [intervalStep]
  by_cases h : (!force && (s.seen + 1) % L != 0) = true
  · rw [if_pos h]
    simp only [Bool.and_eq_true, Bool.not_eq_true', bne_iff_ne, ne_eq] at h
    simp [h.1, h.2]
  · rw [if_neg h]
    simp only [Bool.and_eq_true, Bool.not_eq_true', bne_iff_ne, ne_eq, not_and, not_not] at h
    refine ⟨rfl, rfl, ?_, by simp, fun _ => rfl⟩
    simp only [true_iff]
    cases force
    · exact Or.inr (h rfl)
    · exact Or.inl rfl

theorem intervalRun_seen (size : Nat) (calls : List (IntervalCall K V Y)) :
    (intervalRun names model loss L size calls).seen = calls.length := by
  induction calls using List.reverseRecOn with
  | nil => rfl
  | append_singleton calls c ih =>
    rw [intervalRun_snoc, intervalCallStep, (intervalStep_spec names model loss L _ _ _ _ _ _ _).1, ih]
    simp

theorem intervalRun_storage (size : Nat) (calls : List (IntervalCall K V Y)) :
    (intervalRun names model loss L size calls).storage = Interval.run size true (storedStream calls) := by
  induction calls using List.reverseRecOn with
  | nil => rfl
  | append_singleton calls c ih =>
    rw [intervalRun_snoc, intervalCallStep, (intervalStep_spec names model loss L _ _ _ _ _ _ _).2.1, ih]
    cases hc : c.updateStorage
    · simp [storedStream, List.filter_append, hc]
    · simp [storedStream, List.filter_append, hc, Interval.run_snoc]

end Interval

end Ixai
