/-
  Helper lemmas for `maxL`, `minL`, `normalize` and `confBound` (`Model/Explainer.lean`), used by C16.
  `K` is a linearly ordered field; `DecidableEq K` / `DecidableLE K` of the model are those of the linear order.
  The square root is the uninterpreted `RealOps.sqrt`; `GenuineSqrt K` says it is a square root on non-negatives.
-/
import IxaiVerif.Model.Explainer
import IxaiVerif.Proofs.Tracker
import Mathlib.Algebra.Order.Field.Basic
import Mathlib.Algebra.Order.Ring.Abs
import Mathlib.Algebra.BigOperators.Group.List.Basic
import Mathlib.Tactic.Linarith
import Mathlib.Tactic.Positivity
import Mathlib.Tactic.FieldSimp
import Mathlib.Tactic.Ring

set_option linter.unusedSectionVars false

namespace Ixai

section MaxMin
variable {K : Type} [Field K] [LinearOrder K] [IsStrictOrderedRing K]

theorem foldl_max_spec (l : List K) (a : K) :
    (l.foldl max a = a ∨ l.foldl max a ∈ l) ∧ a ≤ l.foldl max a ∧ ∀ x ∈ l, x ≤ l.foldl max a := by
  induction l generalizing a with
  | nil => simp
  | cons b l ih =>
    obtain ⟨h1, h2, h3⟩ := ih (max a b)
    simp only [List.foldl_cons, List.mem_cons]
    refine ⟨?_, le_trans (le_max_left a b) h2, ?_⟩
    · rcases h1 with h1 | h1
      · rcases max_choice a b with hc | hc
        · left; rw [h1, hc]
        · right; left; rw [h1, hc]
      · right; right; exact h1
    · intro x hx
      rcases hx with rfl | hx
      · exact le_trans (le_max_right a x) h2
      · exact h3 x hx

theorem foldl_min_spec (l : List K) (a : K) :
    (l.foldl min a = a ∨ l.foldl min a ∈ l) ∧ l.foldl min a ≤ a ∧ ∀ x ∈ l, l.foldl min a ≤ x := by
  induction l generalizing a with
  | nil => simp
  | cons b l ih =>
    obtain ⟨h1, h2, h3⟩ := ih (min a b)
    simp only [List.foldl_cons, List.mem_cons]
    refine ⟨?_, le_trans h2 (min_le_left a b), ?_⟩
    · rcases h1 with h1 | h1
      · rcases min_choice a b with hc | hc
        · left; rw [h1, hc]
        · right; left; rw [h1, hc]
      · right; right; exact h1
    · intro x hx
      rcases hx with rfl | hx
      · exact le_trans h2 (min_le_right a x)
      · exact h3 x hx

theorem maxL_cons (a : K) (l : List K) : maxL (a :: l) = l.foldl max a := by
  have : (fun m v : K => if m ≤ v then v else m) = max := by
    funext m v; rw [max_def]
  simp only [maxL, this]

theorem minL_cons (a : K) (l : List K) : minL (a :: l) = l.foldl min a := by
  have : (fun m v : K => if v ≤ m then v else m) = min := by
    funext m v; rw [min_comm, min_def]
  simp only [minL, this]

@[simp] theorem maxL_nil : maxL ([] : List K) = 0 := rfl
@[simp] theorem minL_nil : minL ([] : List K) = 0 := rfl

/-- `maxL` is the largest element of a non-empty list -/
theorem maxL_spec (l : List K) (hne : l ≠ []) : maxL l ∈ l ∧ ∀ x ∈ l, x ≤ maxL l := by
  rcases l with _ | ⟨a, l⟩
  · exact absurd rfl hne
  · rw [maxL_cons]
    obtain ⟨h1, h2, h3⟩ := foldl_max_spec l a
    refine ⟨?_, ?_⟩
    · rcases h1 with h1 | h1
      · rw [h1]; exact List.mem_cons_self
      · exact List.mem_cons_of_mem _ h1
    · intro x hx
      rcases List.mem_cons.mp hx with rfl | hx
      · exact h2
      · exact h3 x hx

/-- `minL` is the smallest element of a non-empty list -/
theorem minL_spec (l : List K) (hne : l ≠ []) : minL l ∈ l ∧ ∀ x ∈ l, minL l ≤ x := by
  rcases l with _ | ⟨a, l⟩
  · exact absurd rfl hne
  · rw [minL_cons]
    obtain ⟨h1, h2, h3⟩ := foldl_min_spec l a
    refine ⟨?_, ?_⟩
    · rcases h1 with h1 | h1
      · rw [h1]; exact List.mem_cons_self
      · exact List.mem_cons_of_mem _ h1
    · intro x hx
      rcases List.mem_cons.mp hx with rfl | hx
      · exact h2
      · exact h3 x hx

theorem maxL_eq_of (l : List K) (y : K) (hy : y ∈ l) (h : ∀ x ∈ l, x ≤ y) : maxL l = y := by
  have hne : l ≠ [] := List.ne_nil_of_mem hy
  obtain ⟨h1, h2⟩ := maxL_spec l hne
  exact le_antisymm (h _ h1) (h2 _ hy)

theorem minL_eq_of (l : List K) (y : K) (hy : y ∈ l) (h : ∀ x ∈ l, y ≤ x) : minL l = y := by
  have hne : l ≠ [] := List.ne_nil_of_mem hy
  obtain ⟨h1, h2⟩ := minL_spec l hne
  exact le_antisymm (h2 _ hy) (h _ h1)

theorem minL_le_maxL (l : List K) : minL l ≤ maxL l := by
  rcases l with _ | ⟨a, l⟩
  · simp
  · have hne : (a :: l) ≠ [] := by simp
    exact (minL_spec _ hne).2 _ (maxL_spec _ hne).1

theorem maxL_sub_minL_nonneg (l : List K) : 0 ≤ maxL l - minL l := sub_nonneg.mpr (minL_le_maxL l)

/-- dividing by a positive number commutes with taking the maximum -/
theorem maxL_map_div (l : List K) (c : K) (hc : 0 < c) : maxL (l.map (fun x => x / c)) = maxL l / c := by
  rcases l with _ | ⟨a, l⟩
  · simp
  · have hne : (a :: l) ≠ [] := by simp
    obtain ⟨h1, h2⟩ := maxL_spec _ hne
    apply maxL_eq_of
    · exact List.mem_map.mpr ⟨_, h1, rfl⟩
    · intro x hx
      obtain ⟨x', hx', rfl⟩ := List.mem_map.mp hx
      exact div_le_div_of_nonneg_right (h2 _ hx') (le_of_lt hc)

theorem minL_map_div (l : List K) (c : K) (hc : 0 < c) : minL (l.map (fun x => x / c)) = minL l / c := by
  rcases l with _ | ⟨a, l⟩
  · simp
  · have hne : (a :: l) ≠ [] := by simp
    obtain ⟨h1, h2⟩ := minL_spec _ hne
    apply minL_eq_of
    · exact List.mem_map.mpr ⟨_, h1, rfl⟩
    · intro x hx
      obtain ⟨x', hx', rfl⟩ := List.mem_map.mp hx
      exact div_le_div_of_nonneg_right (h2 _ hx') (le_of_lt hc)

theorem sum_map_div (l : List K) (c : K) : (l.map (fun x => x / c)).sum = l.sum / c := by
  induction l with
  | nil => simp
  | cons a l ih => simp only [List.map_cons, List.sum_cons, ih, add_div]

end MaxMin

section Normalize
variable {K : Type} [Field K] [LinearOrder K] [IsStrictOrderedRing K] [RealOps K]

/-- the raw values of a dict, in order -/
def rawVals (vals : Dict K) : List K := vals.map Prod.snd

/-- the normaliser: the sum of the values in mode 'sum', their range in mode 'delta' -/
def normFactor (vals : Dict K) (delta : Bool) : K :=
  if delta then maxL (rawVals vals) - minL (rawVals vals) else lsum (rawVals vals)

theorem normalize_eq (vals : Dict K) (delta : Bool) :
    normalize vals delta =
      if normFactor vals delta = 0 then vals.map (fun kv => (kv.1, (0 : K)))
      else vals.map (fun kv => (kv.1, kv.2 / normFactor vals delta)) := rfl

theorem normalize_of_ne (vals : Dict K) (delta : Bool) (h : normFactor vals delta ≠ 0) :
    normalize vals delta = vals.map (fun kv => (kv.1, kv.2 / normFactor vals delta)) := by
  rw [normalize_eq, if_neg h]

theorem normalize_of_eq (vals : Dict K) (delta : Bool) (h : normFactor vals delta = 0) :
    normalize vals delta = vals.map (fun kv => (kv.1, (0 : K))) := by
  rw [normalize_eq, if_pos h]

theorem rawVals_normalize_of_ne (vals : Dict K) (delta : Bool) (h : normFactor vals delta ≠ 0) :
    rawVals (normalize vals delta) = (rawVals vals).map (fun x => x / normFactor vals delta) := by
  rw [normalize_of_ne vals delta h]; simp [rawVals, Function.comp_def]

theorem getD_map_snd (vals : Dict K) (g : K → K) (hg : g 0 = 0) (f : Nat) :
    Dict.getD (vals.map (fun kv => (kv.1, g kv.2))) f 0 = g (Dict.getD vals f 0) := by
  induction vals with
  | nil => simp [Dict.getD, Dict.find?, hg]
  | cons kv vals ih =>
    obtain ⟨k', v⟩ := kv
    simp only [Dict.getD, Dict.find?, List.map_cons] at ih ⊢
    by_cases hk : k' = f
    · simp [hk]
    · simp only [if_neg hk]; exact ih

end Normalize

/-! ### square roots -/
section Sqrt
variable {K : Type} [Field K] [LinearOrder K] [IsStrictOrderedRing K] [RealOps K]

/-- `RealOps.sqrt` is a genuine square root on the non-negative numbers (as in `Ixai.C10.welford_std`) -/
def GenuineSqrt (K : Type) [Field K] [LinearOrder K] [IsStrictOrderedRing K] [RealOps K] : Prop :=
  ∀ x : K, 0 ≤ x → RealOps.sqrt x * RealOps.sqrt x = x ∧ 0 ≤ RealOps.sqrt x

namespace GenuineSqrt
variable (hs : GenuineSqrt K)
include hs

theorem nonneg (x : K) (hx : 0 ≤ x) : 0 ≤ RealOps.sqrt x := (hs x hx).2
theorem mul_self (x : K) (hx : 0 ≤ x) : RealOps.sqrt x * RealOps.sqrt x = x := (hs x hx).1

/-- non-negative roots are unique -/
theorem eq_of_mul_self (x y : K) (hy : 0 ≤ y) (h : y * y = x) : RealOps.sqrt x = y := by
  have hx : 0 ≤ x := by rw [← h]; exact mul_self_nonneg y
  have h1 := hs.mul_self x hx
  have h2 := hs.nonneg x hx
  exact (mul_self_inj h2 hy).mp (by rw [h1, h])

theorem sqrt_mul (x y : K) (hx : 0 ≤ x) (hy : 0 ≤ y) :
    RealOps.sqrt (x * y) = RealOps.sqrt x * RealOps.sqrt y := by
  apply hs.eq_of_mul_self _ _ (mul_nonneg (hs.nonneg x hx) (hs.nonneg y hy))
  have h1 := hs.mul_self x hx
  have h2 := hs.mul_self y hy
  calc RealOps.sqrt x * RealOps.sqrt y * (RealOps.sqrt x * RealOps.sqrt y)
      = (RealOps.sqrt x * RealOps.sqrt x) * (RealOps.sqrt y * RealOps.sqrt y) := by ring
    _ = x * y := by rw [h1, h2]

theorem sqrt_pos (x : K) (hx : 0 < x) : 0 < RealOps.sqrt x := by
  have h1 := hs.mul_self x (le_of_lt hx)
  have h2 := hs.nonneg x (le_of_lt hx)
  rcases lt_or_eq_of_le h2 with h | h
  · exact h
  · rw [← h] at h1; simp at h1; exact absurd h1.symm (ne_of_gt hx)

theorem sqrt_one_div (x : K) (hx : 0 < x) : RealOps.sqrt (1 / x) = 1 / RealOps.sqrt x := by
  have hp := hs.sqrt_pos x hx
  apply hs.eq_of_mul_self _ _ (le_of_lt (one_div_pos.mpr hp))
  have h1 := hs.mul_self x (le_of_lt hx)
  rw [div_mul_div_comm, h1, mul_one]

theorem sqrt_le_sqrt (x y : K) (hx : 0 ≤ x) (hxy : x ≤ y) : RealOps.sqrt x ≤ RealOps.sqrt y := by
  have hy : 0 ≤ y := le_trans hx hxy
  have h1 := hs.mul_self x hx
  have h2 := hs.mul_self y hy
  apply (mul_self_le_mul_self_iff (hs.nonneg x hx) (hs.nonneg y hy)).mpr
  rw [h1, h2]; exact hxy

end GenuineSqrt
end Sqrt

end Ixai
