/-
  Helper lemmas for the generated storage classes (C07).
  Two layers, so that a regeneration of `Gen/*Storage.lean` only has to re-establish the first one:
  (1) `*.update_spec`: one `update` step, read off the *generated* definition by unfolding it;
  (2) everything else (`run_*`, the `Tracks` invariant, `Step`) is proved from the spec lemmas only.
-/
import IxaiVerif.Gen.BatchStorage
import IxaiVerif.Gen.IntervalStorage
import IxaiVerif.Gen.SequenceStorage
import IxaiVerif.Gen.GeometricReservoirStorage
import IxaiVerif.Gen.UniformReservoirStorage
import Mathlib.Data.List.Basic
import Mathlib.Data.List.Induction
import Mathlib.Data.List.Nodup
import Mathlib.Data.List.Perm.Subperm
import Mathlib.Data.List.FinRange

set_option linter.unusedSectionVars false
set_option linter.unusedSimpArgs false

namespace Ixai
open Ixai.Gen

/-! ### Generic list facts -/
namespace Storage
variable {X Y : Type}

/-- `Tracks obs st idx sx sy`: `idx` lists pairwise distinct arrival positions of the stream `obs`,
    `sx` holds the instances that arrived at those positions, in that order, and `sy` the targets that arrived
    at the very same positions when targets are stored (`st`), nothing otherwise.
    (Internal ℕ-indexed form; `Tracks.toFin` converts it to the `Fin obs.length`-indexed form used in `Props/C07`.) -/
def Tracks (obs : List (X × Y)) (st : Bool) (idx : List ℕ) (sx : List X) (sy : List Y) : Prop :=
  idx.Nodup ∧ (∀ i ∈ idx, i < obs.length) ∧
    sx.map some = idx.map (fun i => obs[i]?.map Prod.fst) ∧
    (if st then sy.map some = idx.map (fun i => obs[i]?.map Prod.snd) else sy = [])

theorem Tracks.nil (st : Bool) : Tracks ([] : List (X × Y)) st [] [] [] := by
  refine ⟨List.nodup_nil, by simp, by simp, ?_⟩
  cases st <;> simp

private theorem map_getElem?_snoc {Z : Type} (obs : List (X × Y)) (p : X × Y) (f : X × Y → Z)
    (idx : List ℕ) (hb : ∀ i ∈ idx, i < obs.length) :
    idx.map (fun i => (obs ++ [p])[i]?.map f) = idx.map (fun i => obs[i]?.map f) := by
  apply List.map_congr_left
  intro i hi
  rw [List.getElem?_append_left (hb i hi)]

/-- an arrival that is not stored leaves the invariant intact -/
theorem Tracks.skip {obs : List (X × Y)} {st idx sx sy} (h : Tracks obs st idx sx sy) (p : X × Y) :
    Tracks (obs ++ [p]) st idx sx sy := by
  obtain ⟨hn, hb, hx, hy⟩ := h
  refine ⟨hn, fun i hi => by have := hb i hi; simp; omega, ?_, ?_⟩
  · rw [map_getElem?_snoc obs p _ idx hb]; exact hx
  · cases st
    · simpa using hy
    · simp only [if_true] at hy ⊢
      rw [map_getElem?_snoc obs p _ idx hb]; exact hy

/-- an arrival that is appended to the store -/
theorem Tracks.push {obs : List (X × Y)} {st idx sx sy} (h : Tracks obs st idx sx sy) (x : X) (y : Y) :
    Tracks (obs ++ [(x, y)]) st (idx ++ [obs.length]) (sx ++ [x]) (if st then sy ++ [y] else sy) := by
  obtain ⟨hn, hb, hx, hy⟩ := h
  refine ⟨?_, ?_, ?_, ?_⟩
  · rw [List.nodup_append]
    refine ⟨hn, List.nodup_singleton _, ?_⟩
    intro a ha b hb' hab
    simp only [List.mem_singleton] at hb'
    have := hb a ha
    omega
  · intro i hi
    simp only [List.mem_append, List.mem_singleton] at hi
    rcases hi with hi | hi
    · have := hb i hi; simp; omega
    · simp [hi]
  · rw [List.map_append, List.map_append, map_getElem?_snoc obs _ _ idx hb, hx]
    simp
  · cases st
    · simpa using hy
    · simp only [if_true] at hy ⊢
      rw [List.map_append, List.map_append, map_getElem?_snoc obs _ _ idx hb, hy]
      simp

/-- an arrival that overwrites slot `j` of the store (no effect when `j` is out of range, as `List.set`) -/
theorem Tracks.replace {obs : List (X × Y)} {st idx sx sy} (h : Tracks obs st idx sx sy) (x : X) (y : Y)
    (j : ℕ) :
    Tracks (obs ++ [(x, y)]) st (idx.set j obs.length) (sx.set j x) (if st then sy.set j y else sy) := by
  obtain ⟨hn, hb, hx, hy⟩ := h
  have hb' : ∀ i ∈ idx.set j obs.length, i < (obs ++ [(x, y)]).length := by
    intro i hi
    rcases List.mem_or_eq_of_mem_set hi with hi | hi
    · have := hb i hi; simp; omega
    · simp [hi]
  have key : ∀ {Z : Type} (f : X × Y → Z),
      (idx.set j obs.length).map (fun i => (obs ++ [(x, y)])[i]?.map f) =
        (idx.map (fun i => obs[i]?.map f)).set j (some (f (x, y))) := by
    intro Z f
    rw [List.map_set, map_getElem?_snoc obs _ _ idx hb]
    simp
  refine ⟨?_, hb', ?_, ?_⟩
  · apply hn.set
    intro hmem
    exact Nat.lt_irrefl _ (hb _ hmem)
  · rw [key, ← hx, List.map_set]
  · cases st
    · simpa using hy
    · simp only [if_true] at hy ⊢
      rw [key, ← hy, List.map_set]

theorem Tracks.length_eq {obs : List (X × Y)} {st idx sx sy} (h : Tracks obs st idx sx sy) :
    idx.length = sx.length := by
  have := congrArg List.length h.2.2.1
  simpa using this.symm

/-- conversion to positions of type `Fin obs.length` (no partial indexing left) -/
theorem Tracks.toFin {obs : List (X × Y)} {st idx sx sy} (h : Tracks obs st idx sx sy) :
    ∃ idx' : List (Fin obs.length), idx'.Nodup ∧ sx = idx'.map (fun i => obs[i].1) ∧
      sy = if st then idx'.map (fun i => obs[i].2) else [] := by
  obtain ⟨hn, hb, hx, hy⟩ := h
  have key : ∀ {Z : Type} (f : X × Y → Z) (s : List Z),
      s.map some = idx.map (fun i => obs[i]?.map f) →
        s = (idx.pmap Fin.mk hb).map (fun i => f obs[i]) := by
    intro Z f s hs
    apply List.map_injective_iff.mpr (Option.some_injective Z)
    rw [hs, List.map_pmap, List.map_pmap, List.pmap_eq_map_attach]
    conv_lhs => rw [← List.attach_map_subtype_val idx, List.map_map]
    apply List.map_congr_left
    intro ⟨i, hi⟩ _
    simp [List.getElem?_eq_getElem (hb i hi)]
  refine ⟨idx.pmap Fin.mk hb, ?_, key Prod.fst sx hx, ?_⟩
  · apply hn.pmap
    intro a _ b _ hab
    exact Fin.mk.inj_iff.mp hab
  · cases st
    · simpa using hy
    · simp only [if_true] at hy ⊢
      exact key Prod.snd sy hy

/-- One reservoir step on the stored lists, abstracting from *which* arrivals are kept or evicted:
    while there is room the arrival is appended; once full it either overwrites some slot `j`
    (instance and, if stored, target in the same slot) or is dropped. -/
def Step (size : ℕ) (st : Bool) (x : X) (y : Y) (sx : List X) (sy : List Y) (sx' : List X) (sy' : List Y) :
    Prop :=
  (sx.length < size ∧ sx' = sx ++ [x] ∧ sy' = if st then sy ++ [y] else sy) ∨
  (¬ sx.length < size ∧ ∃ j : ℕ, sx' = sx.set j x ∧ sy' = if st then sy.set j y else sy) ∨
  (¬ sx.length < size ∧ sx' = sx ∧ sy' = sy)

/-- a reservoir step preserves "tracks distinct arrivals, targets aligned" and "holds min(seen, capacity)" -/
theorem Step.preserves {size : ℕ} {st : Bool} {x : X} {y : Y} {sx sx' : List X} {sy sy' : List Y}
    (hs : Step size st x y sx sy sx' sy') {obs : List (X × Y)} {idx : List ℕ}
    (ht : Tracks obs st idx sx sy) (hl : sx.length = min obs.length size) :
    (∃ idx', Tracks (obs ++ [(x, y)]) st idx' sx' sy') ∧ sx'.length = min (obs ++ [(x, y)]).length size := by
  rcases hs with ⟨hlt, rfl, rfl⟩ | ⟨hge, j, rfl, rfl⟩ | ⟨hge, rfl, rfl⟩
  · exact ⟨⟨_, ht.push x y⟩, by simp; omega⟩
  · exact ⟨⟨_, ht.replace x y j⟩, by simp; omega⟩
  · exact ⟨⟨_, ht.skip (x, y)⟩, by simp; omega⟩

end Storage

/-! ### BatchStorage -/
namespace Batch
variable {X Y : Type}

/-- running a storage over a stream: left fold of the generated `update` from the generated `init` -/
def run (st : Bool) (obs : List (X × Y)) : BatchStorage X Y :=
  obs.foldl (fun s p => s.update p.1 p.2) (BatchStorage.init st)

theorem run_nil (st : Bool) : run st ([] : List (X × Y)) = BatchStorage.init st := rfl
theorem run_snoc (st : Bool) (obs : List (X × Y)) (p : X × Y) :
    run st (obs ++ [p]) = (run st obs).update p.1 p.2 := by
  simp [run, List.foldl_append]

/-- one-step characterisation read off the generated code -/
theorem update_spec (s : BatchStorage X Y) (x : X) (y : Y) :
    (s.update x y).storage_x = s.storage_x ++ [x] ∧
    (s.update x y).storage_y = (if s.store_targets then s.storage_y ++ [y] else s.storage_y) ∧
    (s.update x y).store_targets = s.store_targets := by
  simp only [BatchStorage.update]
  cases h : s.store_targets <;> simp

theorem init_spec (st : Bool) :
    (BatchStorage.init st : BatchStorage X Y).storage_x = [] ∧
    (BatchStorage.init st : BatchStorage X Y).storage_y = [] ∧
    (BatchStorage.init st : BatchStorage X Y).store_targets = st := ⟨rfl, rfl, rfl⟩

theorem run_store_targets (st : Bool) (obs : List (X × Y)) : (run st obs).store_targets = st := by
  induction obs using List.reverseRecOn with
  | nil => exact (init_spec st).2.2
  | append_singleton obs p ih => rw [run_snoc, (update_spec _ _ _).2.2, ih]

theorem run_exact (st : Bool) (obs : List (X × Y)) :
    (run st obs).storage_x = obs.map Prod.fst ∧
    (run st obs).storage_y = if st then obs.map Prod.snd else [] := by
  induction obs using List.reverseRecOn with
  | nil => rw [run_nil, (init_spec st).1, (init_spec st).2.1]; simp
  | append_singleton obs p ih =>
    obtain ⟨hx, hy, _⟩ := update_spec (run st obs) p.1 p.2
    rw [run_snoc, hx, hy, ih.1, ih.2, run_store_targets]
    cases st <;> simp

end Batch

/-! ### IntervalStorage -/
namespace Interval
variable {X Y : Type}

def run (size : ℕ) (st : Bool) (obs : List (X × Y)) : IntervalStorage X Y :=
  obs.foldl (fun s p => s.update p.1 p.2) (IntervalStorage.init size st)

theorem run_nil (size : ℕ) (st : Bool) : run size st ([] : List (X × Y)) = IntervalStorage.init size st := rfl
theorem run_snoc (size : ℕ) (st : Bool) (obs : List (X × Y)) (p : X × Y) :
    run size st (obs ++ [p]) = (run size st obs).update p.1 p.2 := by
  simp [run, List.foldl_append]

/-- one-step characterisation read off the generated code -/
theorem update_spec (s : IntervalStorage X Y) (x : X) (y : Y) :
    (s.update x y).storage_x =
      (if s.storage_x.length < s.size then s.storage_x ++ [x] else s.storage_x.tail ++ [x]) ∧
    (s.update x y).storage_y =
      (if s.store_targets then
        (if s.storage_x.length < s.size then s.storage_y ++ [y] else s.storage_y.tail ++ [y])
       else s.storage_y) ∧
    (s.update x y).size = s.size ∧ (s.update x y).store_targets = s.store_targets := by
  by_cases hlt : s.storage_x.length < s.size <;> cases h : s.store_targets <;>
    simp [IntervalStorage.update, hlt, h]

theorem init_spec (size : ℕ) (st : Bool) :
    (IntervalStorage.init size st : IntervalStorage X Y).storage_x = [] ∧
    (IntervalStorage.init size st : IntervalStorage X Y).storage_y = [] ∧
    (IntervalStorage.init size st : IntervalStorage X Y).size = size ∧
    (IntervalStorage.init size st : IntervalStorage X Y).store_targets = st := ⟨rfl, rfl, rfl, rfl⟩

end Interval

/-- the sliding-window step on a list: what `IntervalStorage.update`/`SequenceStorage.update` do to each
    stored list, and its closed form on "the last `size` elements of the stream" -/
theorem Storage.window_step {Z : Type} (l : List Z) (z : Z) (size : ℕ) (h : 1 ≤ size) :
    (if (l.drop (l.length - size)).length < size then l.drop (l.length - size) ++ [z]
      else (l.drop (l.length - size)).tail ++ [z]) = (l ++ [z]).drop ((l ++ [z]).length - size) := by
  simp only [List.length_drop, List.length_append, List.length_singleton, List.tail_drop]
  by_cases hlt : l.length < size
  · have e1 : l.length - size = 0 := by omega
    have e2 : l.length + 1 - size = 0 := by omega
    simp [e1, e2, hlt]
  · have e2 : l.length + 1 - size = l.length - size + 1 := by omega
    have e3 : ¬ (l.length - (l.length - size) < size) := by omega
    rw [if_neg e3, e2, List.drop_append_of_le_length (by omega)]

namespace Interval
variable {X Y : Type}

theorem run_size_st (size : ℕ) (st : Bool) (obs : List (X × Y)) :
    (run size st obs).size = size ∧ (run size st obs).store_targets = st := by
  induction obs using List.reverseRecOn with
  | nil => exact (init_spec size st).2.2
  | append_singleton obs p ih =>
    rw [run_snoc, (update_spec _ _ _).2.2.1, (update_spec _ _ _).2.2.2]; exact ih

theorem run_exact (size : ℕ) (hsize : 1 ≤ size) (st : Bool) (obs : List (X × Y)) :
    (run size st obs).storage_x = (obs.map Prod.fst).drop (obs.length - size) ∧
    (run size st obs).storage_y = if st then (obs.map Prod.snd).drop (obs.length - size) else [] := by
  induction obs using List.reverseRecOn with
  | nil => rw [run_nil, (init_spec size st).1, (init_spec size st).2.1]; simp
  | append_singleton obs p ih =>
    obtain ⟨hx, hy, _⟩ := update_spec (run size st obs) p.1 p.2
    obtain ⟨hsz, hst⟩ := run_size_st size st obs
    rw [run_snoc, hx, hy, hsz, hst, ih.1, ih.2]
    have wx := Storage.window_step (obs.map Prod.fst) p.1 size hsize
    have wy := Storage.window_step (obs.map Prod.snd) p.2 size hsize
    simp only [List.length_map, List.length_drop, List.length_append, List.length_singleton,
      List.map_append, List.map_cons, List.map_nil] at wx wy ⊢
    refine ⟨wx, ?_⟩
    cases st
    · simp
    · simpa using wy

end Interval

/-! ### SequenceStorage (the generated class is a copy of IntervalStorage whose `init` fixes `size := 1`) -/
namespace Sequence
variable {X Y : Type}

def run (st : Bool) (obs : List (X × Y)) : SequenceStorage X Y :=
  obs.foldl (fun s p => s.update p.1 p.2) (SequenceStorage.init st)

theorem run_nil (st : Bool) : run st ([] : List (X × Y)) = SequenceStorage.init st := rfl
theorem run_snoc (st : Bool) (obs : List (X × Y)) (p : X × Y) :
    run st (obs ++ [p]) = (run st obs).update p.1 p.2 := by
  simp [run, List.foldl_append]

/-- one-step characterisation read off the generated code -/
theorem update_spec (s : SequenceStorage X Y) (x : X) (y : Y) :
    (s.update x y).storage_x =
      (if s.storage_x.length < s.size then s.storage_x ++ [x] else s.storage_x.tail ++ [x]) ∧
    (s.update x y).storage_y =
      (if s.store_targets then
        (if s.storage_x.length < s.size then s.storage_y ++ [y] else s.storage_y.tail ++ [y])
       else s.storage_y) ∧
    (s.update x y).size = s.size ∧ (s.update x y).store_targets = s.store_targets := by
  by_cases hlt : s.storage_x.length < s.size <;> cases h : s.store_targets <;>
    simp [SequenceStorage.update, hlt, h]

theorem init_spec (st : Bool) :
    (SequenceStorage.init st : SequenceStorage X Y).storage_x = [] ∧
    (SequenceStorage.init st : SequenceStorage X Y).storage_y = [] ∧
    (SequenceStorage.init st : SequenceStorage X Y).size = 1 ∧
    (SequenceStorage.init st : SequenceStorage X Y).store_targets = st := ⟨rfl, rfl, rfl, rfl⟩

theorem run_size_st (st : Bool) (obs : List (X × Y)) :
    (run st obs).size = 1 ∧ (run st obs).store_targets = st := by
  induction obs using List.reverseRecOn with
  | nil => exact (init_spec st).2.2
  | append_singleton obs p ih =>
    rw [run_snoc, (update_spec _ _ _).2.2.1, (update_spec _ _ _).2.2.2]; exact ih

theorem run_exact (st : Bool) (obs : List (X × Y)) :
    (run st obs).storage_x = (obs.map Prod.fst).drop (obs.length - 1) ∧
    (run st obs).storage_y = if st then (obs.map Prod.snd).drop (obs.length - 1) else [] := by
  induction obs using List.reverseRecOn with
  | nil => rw [run_nil, (init_spec st).1, (init_spec st).2.1]; simp
  | append_singleton obs p ih =>
    obtain ⟨hx, hy, _⟩ := update_spec (run st obs) p.1 p.2
    obtain ⟨hsz, hst⟩ := run_size_st st obs
    rw [run_snoc, hx, hy, hsz, hst, ih.1, ih.2]
    have wx := Storage.window_step (obs.map Prod.fst) p.1 1 le_rfl
    have wy := Storage.window_step (obs.map Prod.snd) p.2 1 le_rfl
    simp only [List.length_map, List.length_drop, List.length_append, List.length_singleton,
      List.map_append, List.map_cons, List.map_nil] at wx wy ⊢
    refine ⟨wx, ?_⟩
    cases st
    · simp
    · simpa using wy

end Sequence

/-- "the last element, if any" in the two forms used for SequenceStorage -/
theorem Storage.drop_length_sub_one {Z : Type} (l : List Z) : l.drop (l.length - 1) = l.getLast?.toList := by
  induction l using List.reverseRecOn with
  | nil => simp
  | append_singleton l z _ => simp

/-! ### GeometricReservoirStorage -/
namespace Geometric
variable {K : Type} {X : Type} {Y : Type} [Add K] [Sub K] [Mul K] [Div K] [NatCast K] [OfNat K 0] [OfNat K 1]
  [LE K] [DecidableLE K]

/-- left fold of the generated `update` from the generated `init`, threading the random source -/
def run (size : ℕ) (cp : Option K) (st : Bool) (rnd : Rnd K) (obs : List (X × Y)) :
    GeometricReservoirStorage K X Y × Rnd K :=
  obs.foldl (fun sr p => sr.1.update p.1 p.2 sr.2) (GeometricReservoirStorage.init size cp st, rnd)

theorem run_nil (size : ℕ) (cp : Option K) (st : Bool) (rnd : Rnd K) :
    run size cp st rnd ([] : List (X × Y)) = (GeometricReservoirStorage.init size cp st, rnd) := rfl
theorem run_snoc (size : ℕ) (cp : Option K) (st : Bool) (rnd : Rnd K) (obs : List (X × Y)) (p : X × Y) :
    run size cp st rnd (obs ++ [p]) = (run size cp st rnd obs).1.update p.1 p.2 (run size cp st rnd obs).2 := by
  simp [run, List.foldl_append]

/-- one-step characterisation read off the generated code -/
theorem update_spec (s : GeometricReservoirStorage K X Y) (x : X) (y : Y) (rnd : Rnd K) :
    (s.update x y rnd).1.storage_x =
      (if s.storage_x.length < s.size then s.storage_x ++ [x]
       else if rnd.reals rnd.rpos ≤ s.constant_probability then s.storage_x.set (rnd.idxs rnd.ipos s.size) x
       else s.storage_x) ∧
    (s.update x y rnd).1.storage_y =
      (if s.store_targets then
        (if s.storage_x.length < s.size then s.storage_y ++ [y]
         else if rnd.reals rnd.rpos ≤ s.constant_probability then s.storage_y.set (rnd.idxs rnd.ipos s.size) y
         else s.storage_y)
       else s.storage_y) ∧
    (s.update x y rnd).1.size = s.size ∧ (s.update x y rnd).1.store_targets = s.store_targets ∧
    (s.update x y rnd).1.constant_probability = s.constant_probability := by
  simp only [GeometricReservoirStorage.update, Rnd.nextReal, Rnd.nextIdx]
  by_cases hlt : s.storage_x.length < s.size <;> cases h : s.store_targets <;>
    by_cases hp : rnd.reals rnd.rpos ≤ s.constant_probability <;> simp [hlt, hp, h]

theorem init_spec (size : ℕ) (cp : Option K) (st : Bool) :
    (GeometricReservoirStorage.init size cp st : GeometricReservoirStorage K X Y).storage_x = [] ∧
    (GeometricReservoirStorage.init size cp st : GeometricReservoirStorage K X Y).storage_y = [] ∧
    (GeometricReservoirStorage.init size cp st : GeometricReservoirStorage K X Y).size = size ∧
    (GeometricReservoirStorage.init size cp st : GeometricReservoirStorage K X Y).store_targets = st :=
  ⟨rfl, rfl, rfl, rfl⟩

/-- the generated step is a reservoir step -/
theorem update_step (s : GeometricReservoirStorage K X Y) (x : X) (y : Y) (rnd : Rnd K) :
    Storage.Step s.size s.store_targets x y s.storage_x s.storage_y
      (s.update x y rnd).1.storage_x (s.update x y rnd).1.storage_y := by
  obtain ⟨hx, hy, _⟩ := update_spec s x y rnd
  rw [hx, hy]
  unfold Storage.Step
  by_cases hlt : s.storage_x.length < s.size
  · left; cases h : s.store_targets <;> simp [hlt]
  · by_cases hp : rnd.reals rnd.rpos ≤ s.constant_probability
    · right; left
      refine ⟨hlt, rnd.idxs rnd.ipos s.size, ?_⟩
      cases h : s.store_targets <;> simp [hlt, hp]
    · right; right
      cases h : s.store_targets <;> simp [hlt, hp]

theorem run_size_st (size : ℕ) (cp : Option K) (st : Bool) (rnd : Rnd K) (obs : List (X × Y)) :
    (run size cp st rnd obs).1.size = size ∧ (run size cp st rnd obs).1.store_targets = st := by
  induction obs using List.reverseRecOn with
  | nil => exact (init_spec size cp st).2.2
  | append_singleton obs p ih =>
    rw [run_snoc, (update_spec _ _ _ _).2.2.1, (update_spec _ _ _ _).2.2.2.1]; exact ih

theorem run_inv (size : ℕ) (cp : Option K) (st : Bool) (rnd : Rnd K) (obs : List (X × Y)) :
    (∃ idx, Storage.Tracks obs st idx (run size cp st rnd obs).1.storage_x (run size cp st rnd obs).1.storage_y) ∧
    (run size cp st rnd obs).1.storage_x.length = min obs.length size := by
  induction obs using List.reverseRecOn with
  | nil =>
    rw [run_nil]; simp only [(init_spec size cp st).1, (init_spec size cp st).2.1]
    exact ⟨⟨[], Storage.Tracks.nil st⟩, by simp⟩
  | append_singleton obs p ih =>
    obtain ⟨⟨idx, ht⟩, hl⟩ := ih
    obtain ⟨hsz, hst⟩ := run_size_st size cp st rnd obs
    have hs := update_step (run size cp st rnd obs).1 p.1 p.2 (run size cp st rnd obs).2
    rw [hsz, hst] at hs
    rw [run_snoc]
    exact hs.preserves ht hl

end Geometric

/-! ### UniformReservoirStorage -/
namespace Uniform
variable {K : Type} {X : Type} {Y : Type} [Add K] [Sub K] [Mul K] [Div K] [NatCast K] [OfNat K 0] [OfNat K 1]
  [DecidableEq K] [RealOps K]

/-- left fold of the generated `update` from the generated `init` (which already consumes two draws) -/
def run (size : ℕ) (st : Bool) (rnd : Rnd K) (obs : List (X × Y)) : UniformReservoirStorage K X Y × Rnd K :=
  obs.foldl (fun sr p => sr.1.update p.1 p.2 sr.2) (UniformReservoirStorage.init size st rnd)

theorem run_nil (size : ℕ) (st : Bool) (rnd : Rnd K) :
    run size st rnd ([] : List (X × Y)) = UniformReservoirStorage.init size st rnd := rfl
theorem run_snoc (size : ℕ) (st : Bool) (rnd : Rnd K) (obs : List (X × Y)) (p : X × Y) :
    run size st rnd (obs ++ [p]) = (run size st rnd obs).1.update p.1 p.2 (run size st rnd obs).2 := by
  simp [run, List.foldl_append]

/-- one-step characterisation read off the generated code (the skip-counter fields `algo_wt`,
    `algo_l_counter` only decide *whether* an arrival replaces a slot; they are left unconstrained) -/
theorem update_spec (s : UniformReservoirStorage K X Y) (x : X) (y : Y) (rnd : Rnd K) :
    (s.update x y rnd).1.storage_x =
      (if s.stored_samples + 1 ≤ s.size then s.storage_x ++ [x]
       else if s.algo_l_counter = ((s.stored_samples + 1 : ℕ) : K) then
         s.storage_x.set (rnd.idxs rnd.ipos s.size) x
       else s.storage_x) ∧
    (s.update x y rnd).1.storage_y =
      (if s.store_targets then
        (if s.stored_samples + 1 ≤ s.size then s.storage_y ++ [y]
         else if s.algo_l_counter = ((s.stored_samples + 1 : ℕ) : K) then
           s.storage_y.set (rnd.idxs rnd.ipos s.size) y
         else s.storage_y)
       else s.storage_y) ∧
    (s.update x y rnd).1.size = s.size ∧ (s.update x y rnd).1.store_targets = s.store_targets ∧
    (s.update x y rnd).1.stored_samples = s.stored_samples + 1 := by
  simp only [UniformReservoirStorage.update, Rnd.nextReal, Rnd.nextIdx]
  by_cases hlt : s.stored_samples + 1 ≤ s.size <;> cases h : s.store_targets <;>
    by_cases hp : s.algo_l_counter = ((s.stored_samples + 1 : ℕ) : K) <;> simp [hlt, hp, h]

theorem init_spec (size : ℕ) (st : Bool) (rnd : Rnd K) :
    (UniformReservoirStorage.init size st rnd : UniformReservoirStorage K X Y × Rnd K).1.storage_x = [] ∧
    (UniformReservoirStorage.init size st rnd : UniformReservoirStorage K X Y × Rnd K).1.storage_y = [] ∧
    (UniformReservoirStorage.init size st rnd : UniformReservoirStorage K X Y × Rnd K).1.size = size ∧
    (UniformReservoirStorage.init size st rnd : UniformReservoirStorage K X Y × Rnd K).1.store_targets = st ∧
    (UniformReservoirStorage.init size st rnd : UniformReservoirStorage K X Y × Rnd K).1.stored_samples = 0 :=
  ⟨rfl, rfl, rfl, rfl, rfl⟩

/-- the generated step is a reservoir step, as long as the arrival counter agrees with the fill level -/
theorem update_step (s : UniformReservoirStorage K X Y) (x : X) (y : Y) (rnd : Rnd K)
    (hfill : s.storage_x.length = min s.stored_samples s.size) :
    Storage.Step s.size s.store_targets x y s.storage_x s.storage_y
      (s.update x y rnd).1.storage_x (s.update x y rnd).1.storage_y := by
  obtain ⟨hx, hy, _⟩ := update_spec s x y rnd
  rw [hx, hy]
  unfold Storage.Step
  by_cases hlt : s.stored_samples + 1 ≤ s.size
  · left
    refine ⟨by omega, ?_⟩
    cases h : s.store_targets <;> simp [hlt]
  · have hge : ¬ s.storage_x.length < s.size := by omega
    by_cases hp : s.algo_l_counter = ((s.stored_samples + 1 : ℕ) : K)
    · right; left
      refine ⟨hge, rnd.idxs rnd.ipos s.size, ?_⟩
      cases h : s.store_targets <;> simp [hlt, hp]
    · right; right
      cases h : s.store_targets <;> simp [hlt, hp, hge]

theorem run_size_st (size : ℕ) (st : Bool) (rnd : Rnd K) (obs : List (X × Y)) :
    (run size st rnd obs).1.size = size ∧ (run size st rnd obs).1.store_targets = st ∧
    (run size st rnd obs).1.stored_samples = obs.length := by
  induction obs using List.reverseRecOn with
  | nil => exact (init_spec size st rnd).2.2
  | append_singleton obs p ih =>
    rw [run_snoc, (update_spec _ _ _ _).2.2.1, (update_spec _ _ _ _).2.2.2.1, (update_spec _ _ _ _).2.2.2.2]
    simpa using ih

theorem run_inv (size : ℕ) (st : Bool) (rnd : Rnd K) (obs : List (X × Y)) :
    (∃ idx, Storage.Tracks obs st idx (run size st rnd obs).1.storage_x (run size st rnd obs).1.storage_y) ∧
    (run size st rnd obs).1.storage_x.length = min obs.length size := by
  induction obs using List.reverseRecOn with
  | nil =>
    rw [run_nil]; simp only [(init_spec size st rnd).1, (init_spec size st rnd).2.1]
    exact ⟨⟨[], Storage.Tracks.nil st⟩, by simp⟩
  | append_singleton obs p ih =>
    obtain ⟨⟨idx, ht⟩, hl⟩ := ih
    obtain ⟨hsz, hst, hss⟩ := run_size_st size st rnd obs
    have hs := update_step (run size st rnd obs).1 p.1 p.2 (run size st rnd obs).2 (by rw [hl, hss, hsz])
    rw [hsz, hst] at hs
    rw [run_snoc]
    exact hs.preserves ht hl

end Uniform

/-! ### From positions to sub-multisets -/
namespace Storage
variable {X Y : Type}

theorem zip_fst_snd (l : List (X × Y)) : (l.map Prod.fst).zip (l.map Prod.snd) = l := by
  rw [List.zip_map']; simp

theorem subperm_map {A B : Type} (f : A → B) {l₁ l₂ : List A} (h : l₁.Subperm l₂) :
    (l₁.map f).Subperm (l₂.map f) := by
  obtain ⟨l, hp, hs⟩ := h
  exact ⟨l.map f, hp.map f, hs.map f⟩

/-- pairwise distinct positions select a sub-multiset of the stream -/
theorem fin_idx_subperm (obs : List (X × Y)) (idx : List (Fin obs.length)) (hn : idx.Nodup) :
    (idx.map (fun i => obs[i])).Subperm obs := by
  have h1 : idx.Subperm (List.finRange obs.length) :=
    List.subperm_of_subset hn (fun i _ => List.mem_finRange i)
  have h2 := subperm_map obs.get h1
  rw [List.map_get_finRange] at h2
  have e : idx.map (fun i => obs[i]) = idx.map obs.get := List.map_congr_left (fun i _ => rfl)
  rw [e]; exact h2

theorem fin_idx_subperm_fst (obs : List (X × Y)) (idx : List (Fin obs.length)) (hn : idx.Nodup) :
    (idx.map (fun i => obs[i].1)).Subperm (obs.map Prod.fst) := by
  have := subperm_map Prod.fst (fin_idx_subperm obs idx hn)
  simpa [List.map_map, Function.comp_def] using this

theorem fin_idx_zip (obs : List (X × Y)) (idx : List (Fin obs.length)) :
    (idx.map (fun i => obs[i].1)).zip (idx.map (fun i => obs[i].2)) = idx.map (fun i => obs[i]) := by
  rw [List.zip_map']

end Storage

end Ixai
