/-
  Reservoir.lean -- inclusion laws of two reservoir samplers, proved with a finite
  "expectation functional" semantics over an arbitrary field `K` of characteristic zero.

  A reservoir is a `List ℕ` of (1-based) arrival indices of fixed length `k ≥ 1`.
  Arrival `t > k` is accepted with probability `a t`; an accepted arrival overwrites a
  uniformly chosen slot `j ∈ {0..k-1}` (`r.set j t`).

  Main results
    * `uniform_inclusion`   (U)   P(A ⊆ reservoir after n arrivals) = ∏_{i<|A|} (k-i)/(n-i)
    * `uniform_single`      (U1)  P(x retained) = k/n
    * `uniform_exact`       (U2)  |A| = k  →  P(A ⊆ reservoir) = 1 / C(n,k)
    * `uniform_exact_eq`    (U2') |A| = k  →  P(reservoir, as a set, = A) = 1 / C(n,k)
    * `uniform_too_big`     (U3)  |A| > k  →  probability 0
    * `geom_retention_late` (G)   t > k    →  P(t retained) = p (1 - p/k)^(n-t)
    * `geom_retention_early`(G)   t ≤ k    →  P(t retained) = (1 - p/k)^(n-k)
    * `geom_newest_p_one`         p = 1    →  newest arrival retained with probability 1

  Changes w.r.t. the requested statements: none in meaning.  The definitions `stepE`, `runE`,
  `ind` are verbatim.  In `geom_retention_early` the hypothesis `k ≤ n` turned out not to be
  needed (for `n < k` one has `n - k = 0` in `ℕ` and both sides equal `1`); it is kept in the
  signature under the name `_hn`.  No order structure on `K` is used anywhere.

  Each main theorem is followed by concrete `example`s over `ℚ` (k = 2, n = 4): one evaluates
  the left-hand side by brute-force expansion of the definitions (`reservoir_eval`, which does
  not use any theorem of this file), the other obtains the same number from the theorem.
-/
import Mathlib.Algebra.Field.Basic
import Mathlib.Algebra.CharZero.Defs
import Mathlib.Algebra.BigOperators.Group.Finset.Basic
import Mathlib.Algebra.BigOperators.Ring.Finset
import Mathlib.Algebra.BigOperators.Intervals
import Mathlib.Algebra.BigOperators.Field
import Mathlib.Data.List.Nodup
import Mathlib.Data.Finset.Card
import Mathlib.Data.Nat.Choose.Basic
import Mathlib.Data.Nat.Factorial.BigOperators
import Mathlib.Data.Nat.Cast.Field
import Mathlib.Tactic.FieldSimp
import Mathlib.Tactic.Ring
import Mathlib.Tactic.LinearCombination
import Mathlib.Tactic.Push
import Mathlib.Tactic.NormNum
import Mathlib.Algebra.Order.Field.Rat
import Mathlib.Data.Rat.Cast.CharZero

namespace Ixai.Reservoir
open Finset

variable {K : Type} [Field K]

/-- expectation of `f` (a function of the reservoir) after processing arrival `t` -/
def stepE (k : ℕ) (a : K) (t : ℕ) (r : List ℕ) (f : List ℕ → K) : K :=
  (1 - a) * f r + a * ((1 : K) / k) * ∑ j ∈ Finset.range k, f (r.set j t)

/-- expectation of `f` after processing arrivals t0+1, …, t0+m in order, starting from `r`,
    where arrival t is accepted with probability `acc t` -/
def runE (k : ℕ) (acc : ℕ → K) : (t0 m : ℕ) → List ℕ → (List ℕ → K) → K
  | _, 0, r, f => f r
  | t0, m+1, r, f => stepE k (acc (t0+1)) (t0+1) r (fun r' => runE k acc (t0+1) m r' f)

/-- indicator of the event `A ⊆ reservoir` -/
def ind (A : Finset ℕ) (r : List ℕ) : K := if A ⊆ r.toFinset then 1 else 0

/-- indicator that the reservoir, as a set, is exactly `A` -/
def indEq (A : Finset ℕ) (r : List ℕ) : K := if r.toFinset = A then 1 else 0

/-- evaluate `runE` on concrete data by brute-force expansion of the definitions -/
macro "reservoir_eval" : tactic => `(tactic|
  (simp only [runE, stepE, Finset.sum_range_succ, Finset.sum_range_zero, List.range',
     List.set_cons_zero, List.set_cons_succ, Nat.reduceSub, Nat.reduceAdd]
   norm_num [ind, indEq, Finset.Subset.antisymm_iff, Finset.insert_subset_iff]))

/-- reachable reservoir states at time `t`: `k` distinct arrival indices in `1..t` -/
def Valid (k t : ℕ) (r : List ℕ) : Prop :=
  r.Nodup ∧ r.length = k ∧ ∀ x ∈ r, 1 ≤ x ∧ x ≤ t

/-- overwriting slot `j` of a duplicate-free list, seen as a set -/
theorem toFinset_set (t : ℕ) : ∀ (r : List ℕ) (j : ℕ), r.Nodup → j < r.length →
    (r.set j t).toFinset = insert t (r.toFinset.erase (r[j]?.getD 0))
  | [], j, _, h => by simp at h
  | a :: r, 0, hn, _ => by
    have : a ∉ r := (List.nodup_cons.1 hn).1
    ext x; simp; grind
  | a :: r, j+1, hn, h => by
    have ha : a ∉ r := (List.nodup_cons.1 hn).1
    have hj : j < r.length := by simpa using h
    have ih := toFinset_set t r j (List.nodup_cons.1 hn).2 hj
    have hy : r[j]?.getD 0 ∈ r := by
      simp [List.getElem?_eq_getElem hj]
    ext x
    simp only [List.set_cons_succ, List.toFinset_cons, ih, List.getElem?_cons_succ]
    simp only [mem_insert, mem_erase, List.mem_toFinset]
    grind

theorem sum_range_getD (g : ℕ → K) : ∀ r : List ℕ,
    ∑ j ∈ range r.length, g (r[j]?.getD 0) = (r.map g).sum
  | [] => by simp
  | a :: r => by
    have := sum_range_getD g r
    simp [Finset.sum_range_succ', this, add_comm]

theorem ind_set (t : ℕ) (r : List ℕ) (hn : r.Nodup) (A : Finset ℕ) (j : ℕ) (hj : j < r.length) :
    (ind A (r.set j t) : K) =
      if A.erase t ⊆ r.toFinset then (if r[j]?.getD 0 ∈ A.erase t then 0 else 1) else 0 := by
  unfold ind
  rw [toFinset_set t r j hn hj]
  simp only [Finset.subset_insert_iff, Finset.subset_erase]
  split_ifs <;> simp_all

/-- key counting lemma: summing an inclusion indicator over all `k` slot replacements -/
theorem sum_ind_set (k t : ℕ) (r : List ℕ) (hn : r.Nodup) (hl : r.length = k)
    (A : Finset ℕ) :
    ∑ j ∈ range k, (ind A (r.set j t) : K)
      = ((k : K) - (A.erase t).card) * ind (A.erase t) r := by
  subst hl
  rw [Finset.sum_congr rfl (fun j hj => ind_set t r hn A j (Finset.mem_range.1 hj))]
  by_cases h : A.erase t ⊆ r.toFinset
  · simp only [h, if_true, ind, mul_one]
    rw [sum_range_getD (fun x => if x ∈ A.erase t then (0 : K) else 1) r,
      ← List.sum_toFinset _ hn]
    have hc : (A.erase t).card ≤ r.length := by
      calc (A.erase t).card ≤ r.toFinset.card := Finset.card_le_card h
        _ = r.length := List.toFinset_card_of_nodup hn
    rw [Finset.sum_ite, Finset.sum_const_zero, zero_add, Finset.sum_const, nsmul_eq_mul, mul_one]
    have : r.toFinset.filter (fun x => x ∉ A.erase t) = r.toFinset \ A.erase t := by
      ext x; simp
    rw [this, Finset.card_sdiff_of_subset h, List.toFinset_card_of_nodup hn, Nat.cast_sub hc]
  · simp [h, ind]

/-! ### Validity -/

theorem Valid.mono {k t t' : ℕ} {r : List ℕ} (h : Valid k t r) (htt : t ≤ t') : Valid k t' r :=
  ⟨h.1, h.2.1, fun x hx => ⟨(h.2.2 x hx).1, le_trans (h.2.2 x hx).2 htt⟩⟩

theorem Valid.notMem {k t t' : ℕ} {r : List ℕ} (h : Valid k t r) (htt : t < t') : t' ∉ r :=
  fun hx => absurd (h.2.2 t' hx).2 (by omega)

theorem Valid.set {k t t' : ℕ} {r : List ℕ} (h : Valid k t r) (htt : t < t') (j : ℕ) :
    Valid k t' (r.set j t') := by
  refine ⟨h.1.set (h.notMem htt), by simpa using h.2.1, fun x hx => ?_⟩
  rcases List.mem_or_eq_of_mem_set hx with hx | rfl
  · exact ⟨(h.2.2 x hx).1, le_trans (h.2.2 x hx).2 htt.le⟩
  · exact ⟨by omega, le_rfl⟩

theorem valid_init (k : ℕ) : Valid k k (List.range' 1 k) := by
  refine ⟨List.nodup_range', by simp, fun x hx => ?_⟩
  rw [List.mem_range'_1] at hx; omega

/-! ### Structural lemmas about `stepE`, `runE` -/

theorem stepE_congr (k : ℕ) (a : K) (t : ℕ) (r : List ℕ) (f g : List ℕ → K)
    (h0 : f r = g r) (h1 : ∀ j, j < k → f (r.set j t) = g (r.set j t)) :
    stepE k a t r f = stepE k a t r g := by
  unfold stepE
  rw [h0, Finset.sum_congr rfl (fun j hj => h1 j (Finset.mem_range.1 hj))]

theorem stepE_mul_left (k : ℕ) (a : K) (t : ℕ) (r : List ℕ) (c : K) (f : List ℕ → K) :
    stepE k a t r (fun r' => c * f r') = c * stepE k a t r f := by
  unfold stepE
  rw [← Finset.mul_sum]; ring

theorem stepE_const (k : ℕ) (hk : (k : K) ≠ 0) (a : K) (t : ℕ) (r : List ℕ) (c : K) :
    stepE k a t r (fun _ => c) = c := by
  unfold stepE
  rw [Finset.sum_const, Finset.card_range, nsmul_eq_mul]
  field_simp
  ring

theorem runE_congr (k : ℕ) (acc : ℕ → K) (f g : List ℕ → K) :
    ∀ (m t0 : ℕ) (r : List ℕ), Valid k t0 r →
      (∀ r', Valid k (t0 + m) r' → f r' = g r') →
      runE k acc t0 m r f = runE k acc t0 m r g
  | 0, t0, r, hr, h => h r hr
  | m+1, t0, r, hr, h => by
    have h' : ∀ r', Valid k (t0 + 1 + m) r' → f r' = g r' := by
      intro r' hr'; apply h; rwa [Nat.add_assoc, Nat.add_comm 1 m] at hr'
    simp only [runE]
    apply stepE_congr
    · exact runE_congr k acc f g m (t0+1) r (hr.mono (Nat.le_succ _)) h'
    · intro j _
      exact runE_congr k acc f g m (t0+1) _ (hr.set (Nat.lt_succ_self _) j) h'

theorem runE_mul_left (k : ℕ) (acc : ℕ → K) (c : K) (f : List ℕ → K) :
    ∀ (m t0 : ℕ) (r : List ℕ),
      runE k acc t0 m r (fun r' => c * f r') = c * runE k acc t0 m r f
  | 0, _, _ => rfl
  | m+1, t0, r => by
    simp only [runE]
    rw [← stepE_mul_left]
    congr 1
    funext r'
    exact runE_mul_left k acc c f m (t0+1) r'

theorem runE_const (k : ℕ) (hk : (k : K) ≠ 0) (acc : ℕ → K) (c : K) :
    ∀ (m t0 : ℕ) (r : List ℕ), runE k acc t0 m r (fun _ => c) = c
  | 0, _, _ => rfl
  | m+1, t0, r => by
    simp only [runE]
    rw [show (fun r' => runE k acc (t0+1) m r' (fun _ => c)) = fun _ => c from
      funext (fun r' => runE_const k hk acc c m (t0+1) r')]
    exact stepE_const k hk _ _ _ _

theorem runE_snoc (k : ℕ) (acc : ℕ → K) (f : List ℕ → K) :
    ∀ (m t0 : ℕ) (r : List ℕ),
      runE k acc t0 (m+1) r f
        = runE k acc t0 m r (fun r' => stepE k (acc (t0+m+1)) (t0+m+1) r' f)
  | 0, _, _ => rfl
  | m+1, t0, r => by
    rw [runE]
    rw [show (fun r' => runE k acc (t0+1) (m+1) r' f) = fun r' => runE k acc (t0+1) m r'
        (fun r'' => stepE k (acc (t0+1+m+1)) (t0+1+m+1) r'' f) from
      funext (fun r' => runE_snoc k acc f m (t0+1) r')]
    have e : t0 + 1 + m + 1 = t0 + (m + 1) + 1 := by omega
    rw [e]
    rfl

/-- Peel the last arrival, provided the one-step expectation of `f` is `c * g` on valid states. -/
theorem runE_peel (k : ℕ) (acc : ℕ → K) (f g : List ℕ → K) (c : K) (m t0 : ℕ) (r : List ℕ)
    (hr : Valid k t0 r)
    (h : ∀ r', Valid k (t0 + m) r' → stepE k (acc (t0+m+1)) (t0+m+1) r' f = c * g r') :
    runE k acc t0 (m+1) r f = c * runE k acc t0 m r g := by
  rw [runE_snoc, ← runE_mul_left]
  exact runE_congr k acc _ _ m t0 r hr h

/-- One-step expectation of an inclusion indicator. -/
theorem stepE_ind (k t t' : ℕ) (a : K) (r : List ℕ) (hr : Valid k t r) (A : Finset ℕ) :
    stepE k a t' r (ind A)
      = (1 - a) * ind A r + a * ((1 : K) / k) * (((k : K) - (A.erase t').card) * ind (A.erase t') r) := by
  unfold stepE
  rw [sum_ind_set k t' r hr.1 hr.2.1 A]

/-! ### Uniform reservoir -/

section Uniform
variable [CharZero K]

omit [CharZero K] in
theorem ind_of_notMem (A : Finset ℕ) (r : List ℕ) (t : ℕ) (htA : t ∈ A) (htr : t ∉ r) :
    (ind A r : K) = 0 := by
  unfold ind
  rw [if_neg]
  intro h
  exact htr (List.mem_toFinset.1 (h htA))

theorem card_le_of_bounds (A : Finset ℕ) (n : ℕ) (hA : ∀ x ∈ A, 1 ≤ x ∧ x ≤ n) : A.card ≤ n := by
  have h : A ⊆ (List.range' 1 n).toFinset := by
    intro x hx
    rw [List.mem_toFinset, List.mem_range'_1]
    have := hA x hx; omega
  calc A.card ≤ (List.range' 1 n).toFinset.card := Finset.card_le_card h
    _ = n := by rw [List.toFinset_card_of_nodup List.nodup_range']; simp

theorem tele_notMem (k n : ℕ) : ∀ a : ℕ, a ≤ n →
    (((n+1 : ℕ) : K) - a) / ((n+1 : ℕ) : K) * ∏ i ∈ range a, ((k : K) - i) / ((n : K) - i)
      = ∏ i ∈ range a, ((k : K) - i) / (((n+1 : ℕ) : K) - i)
  | 0, _ => by
    have : ((n+1 : ℕ) : K) ≠ 0 := Nat.cast_ne_zero.2 (Nat.succ_ne_zero n)
    push_cast at this
    simp [this]
  | a+1, ha => by
    have ih := tele_notMem k n a (by omega)
    rw [Finset.prod_range_succ, Finset.prod_range_succ, ← ih]
    have h1 : ((n : K) - a) ≠ 0 := by
      rw [← Nat.cast_sub (by omega)]; exact Nat.cast_ne_zero.2 (by omega)
    have h2 : (((n+1 : ℕ) : K) - a) ≠ 0 := by
      rw [← Nat.cast_sub (by omega)]; exact Nat.cast_ne_zero.2 (by omega)
    have h3 : ((n+1 : ℕ) : K) ≠ 0 := Nat.cast_ne_zero.2 (Nat.succ_ne_zero n)
    push_cast at h2 h3 ⊢
    field_simp
    ring

omit [CharZero K] in
theorem tele_mem (k n b : ℕ) :
    ((k : K) - b) / ((n+1 : ℕ) : K) * ∏ i ∈ range b, ((k : K) - i) / ((n : K) - i)
      = ∏ i ∈ range (b+1), ((k : K) - i) / (((n+1 : ℕ) : K) - i) := by
  rw [Finset.prod_div_distrib, Finset.prod_div_distrib, Finset.prod_range_succ,
    Finset.prod_range_succ' (fun i => ((n+1 : ℕ) : K) - (i : K))]
  have : ∀ i : ℕ, ((n+1 : ℕ) : K) - ((i+1 : ℕ) : K) = (n : K) - i := by
    intro i; push_cast; ring
  simp only [this, Nat.cast_zero, sub_zero]
  rw [div_mul_div_comm, mul_comm]
  congr 1
  rw [mul_comm]

theorem uniform_aux (k : ℕ) (hk : 1 ≤ k) : ∀ (m : ℕ) (A : Finset ℕ),
    (∀ x ∈ A, 1 ≤ x ∧ x ≤ k + m) →
    runE k (fun t => (k : K) / t) k m (List.range' 1 k) (ind A)
      = ∏ i ∈ range A.card, ((k : K) - i) / (((k + m : ℕ) : K) - i)
  | 0, A, hA => by
    have hsub : A ⊆ (List.range' 1 k).toFinset := by
      intro x hx
      rw [List.mem_toFinset, List.mem_range'_1]
      have := hA x hx; omega
    have hc := card_le_of_bounds A k hA
    simp only [runE, ind, if_pos hsub, Nat.add_zero]
    symm
    apply Finset.prod_eq_one
    intro i hi
    have hi' : i < k := lt_of_lt_of_le (Finset.mem_range.1 hi) hc
    apply div_self
    rw [← Nat.cast_sub hi'.le]
    exact Nat.cast_ne_zero.2 (by omega)
  | m+1, A, hA => by
    have hk0 : (k : K) ≠ 0 := Nat.cast_ne_zero.2 (by omega)
    have ht0 : ((k + m + 1 : ℕ) : K) ≠ 0 := Nat.cast_ne_zero.2 (by omega)
    by_cases htA : k + m + 1 ∈ A
    · -- the newest arrival is in `A`
      have hA' : ∀ x ∈ A.erase (k+m+1), 1 ≤ x ∧ x ≤ k + m := by
        intro x hx
        rw [Finset.mem_erase] at hx
        have := hA x hx.2; omega
      have hcard : A.card = (A.erase (k+m+1)).card + 1 := by
        rw [Finset.card_erase_of_mem htA]
        have : 0 < A.card := Finset.card_pos.2 ⟨_, htA⟩
        omega
      rw [runE_peel k _ (ind A) (ind (A.erase (k+m+1)))
        (((k : K) - (A.erase (k+m+1)).card) / ((k + m + 1 : ℕ) : K)) m k _ (valid_init k),
        uniform_aux k hk m _ hA', hcard]
      · exact tele_mem k (k+m) _
      · intro r' hr'
        rw [stepE_ind k (k+m) (k+m+1) _ r' hr' A,
          ind_of_notMem A r' (k+m+1) htA (hr'.notMem (Nat.lt_succ_self _))]
        field_simp
        ring
    · have hA' : ∀ x ∈ A, 1 ≤ x ∧ x ≤ k + m := by
        intro x hx
        have := hA x hx
        have : x ≠ k + m + 1 := fun h => htA (h ▸ hx)
        omega
      have hc := card_le_of_bounds A (k+m) hA'
      rw [runE_peel k _ (ind A) (ind A)
        ((((k + m + 1 : ℕ) : K) - A.card) / ((k + m + 1 : ℕ) : K)) m k _ (valid_init k),
        uniform_aux k hk m _ hA']
      · exact tele_notMem k (k+m) _ hc
      · intro r' hr'
        rw [stepE_ind k (k+m) (k+m+1) _ r' hr' A, Finset.erase_eq_of_notMem htA]
        field_simp
        ring

/-- (U) inclusion law of the uniform reservoir (Algorithm R acceptance law `k / t`) -/
theorem uniform_inclusion (k n : ℕ) (hk : 1 ≤ k) (hn : k ≤ n) (A : Finset ℕ)
    (hA : ∀ x ∈ A, 1 ≤ x ∧ x ≤ n) :
    runE k (fun t => (k : K) / t) k (n - k) (List.range' 1 k) (ind A)
      = ∏ i ∈ Finset.range A.card, ((k : K) - i) / ((n : K) - i) := by
  have e : k + (n - k) = n := by omega
  have := uniform_aux (K := K) k hk (n - k) A (by rwa [e])
  rwa [e] at this

-- sanity check of (U) at k = 2, n = 4, A = {1, 3}: brute force, then via the theorem
example : runE 2 (fun t => (2 : ℚ) / t) 2 (4 - 2) (List.range' 1 2) (ind {1, 3}) = 1 / 6 := by
  reservoir_eval

example : runE 2 (fun t => (2 : ℚ) / t) 2 (4 - 2) (List.range' 1 2) (ind {1, 3}) = 1 / 6 := by
  have h := uniform_inclusion (K := ℚ) 2 4 (by norm_num) (by norm_num) {1, 3} (by decide)
  rw [show ({1, 3} : Finset ℕ).card = 2 from rfl] at h
  norm_num [Finset.prod_range_succ] at h
  exact h

/-- (U1) -/
theorem uniform_single (k n x : ℕ) (hk : 1 ≤ k) (hn : k ≤ n) (hx1 : 1 ≤ x) (hxn : x ≤ n) :
    runE k (fun t => (k : K) / t) k (n - k) (List.range' 1 k) (ind {x}) = (k : K) / n := by
  rw [uniform_inclusion k n hk hn {x} (by intro y hy; rw [Finset.mem_singleton] at hy; omega)]
  simp

-- sanity check of (U1) at k = 2, n = 4, x = 4
example : runE 2 (fun t => (2 : ℚ) / t) 2 (4 - 2) (List.range' 1 2) (ind {4}) = 2 / 4 := by
  reservoir_eval

example : runE 2 (fun t => (2 : ℚ) / t) 2 (4 - 2) (List.range' 1 2) (ind {4}) = 2 / 4 := by
  simpa using uniform_single (K := ℚ) 2 4 4 (by norm_num) (by norm_num) (by norm_num) (by norm_num)

omit [CharZero K] in
theorem prod_sub_eq_descFactorial (n : ℕ) : ∀ k : ℕ, k ≤ n →
    ∏ i ∈ range k, ((n : K) - i) = (n.descFactorial k : K) := by
  intro k hkn
  rw [Nat.descFactorial_eq_prod_range, Nat.cast_prod]
  apply Finset.prod_congr rfl
  intro i hi
  rw [Nat.cast_sub (by have := Finset.mem_range.1 hi; omega)]

theorem prod_eq_one_div_choose (k n : ℕ) (hkn : k ≤ n) :
    ∏ i ∈ range k, ((k : K) - i) / ((n : K) - i) = 1 / (n.choose k : K) := by
  rw [Finset.prod_div_distrib, prod_sub_eq_descFactorial k k le_rfl,
    prod_sub_eq_descFactorial n k hkn, Nat.descFactorial_self,
    Nat.descFactorial_eq_factorial_mul_choose, Nat.cast_mul]
  have h1 : ((k.factorial : ℕ) : K) ≠ 0 := Nat.cast_ne_zero.2 (Nat.factorial_ne_zero k)
  have h2 : ((n.choose k : ℕ) : K) ≠ 0 := Nat.cast_ne_zero.2 (Nat.choose_pos hkn).ne'
  field_simp

/-- (U2) -/
theorem uniform_exact (k n : ℕ) (hk : 1 ≤ k) (hn : k ≤ n) (A : Finset ℕ)
    (hA : ∀ x ∈ A, 1 ≤ x ∧ x ≤ n) (hcard : A.card = k) :
    runE k (fun t => (k : K) / t) k (n - k) (List.range' 1 k) (ind A)
      = 1 / (n.choose k : K) := by
  rw [uniform_inclusion k n hk hn A hA, hcard, prod_eq_one_div_choose k n hn]

-- sanity check of (U2) at k = 2, n = 4, A = {2, 4}:  1 / C(4,2) = 1/6
example : runE 2 (fun t => (2 : ℚ) / t) 2 (4 - 2) (List.range' 1 2) (ind {2, 4}) = 1 / 6 := by
  reservoir_eval

example : runE 2 (fun t => (2 : ℚ) / t) 2 (4 - 2) (List.range' 1 2) (ind {2, 4}) = 1 / 6 := by
  have h := uniform_exact (K := ℚ) 2 4 (by norm_num) (by norm_num) {2, 4} (by decide) rfl
  norm_num [Nat.choose] at h
  exact h

omit [CharZero K] in
theorem indEq_eq_ind (k t : ℕ) (A : Finset ℕ) (hcard : A.card = k) (r : List ℕ) (hr : Valid k t r) :
    (indEq A r : K) = ind A r := by
  unfold indEq ind
  have hrc : r.toFinset.card = k := by rw [List.toFinset_card_of_nodup hr.1, hr.2.1]
  by_cases h : A ⊆ r.toFinset
  · rw [if_pos h, if_pos (Finset.eq_of_subset_of_card_le h (by omega)).symm]
  · rw [if_neg h, if_neg (fun (e : r.toFinset = A) => h (by rw [e]))]

/-- (U2'), with equality of sets instead of inclusion -/
theorem uniform_exact_eq (k n : ℕ) (hk : 1 ≤ k) (hn : k ≤ n) (A : Finset ℕ)
    (hA : ∀ x ∈ A, 1 ≤ x ∧ x ≤ n) (hcard : A.card = k) :
    runE k (fun t => (k : K) / t) k (n - k) (List.range' 1 k) (indEq A)
      = 1 / (n.choose k : K) := by
  rw [← uniform_exact k n hk hn A hA hcard]
  exact runE_congr k _ _ _ _ _ _ (valid_init k) (fun r' hr' => indEq_eq_ind k _ A hcard r' hr')

-- sanity check of (U2') at k = 2, n = 4, A = {2, 4}
example : runE 2 (fun t => (2 : ℚ) / t) 2 (4 - 2) (List.range' 1 2) (indEq {2, 4}) = 1 / 6 := by
  reservoir_eval

example : runE 2 (fun t => (2 : ℚ) / t) 2 (4 - 2) (List.range' 1 2) (indEq {2, 4}) = 1 / 6 := by
  have h := uniform_exact_eq (K := ℚ) 2 4 (by norm_num) (by norm_num) {2, 4} (by decide) rfl
  norm_num [Nat.choose] at h
  exact h

/-- (U3) -/
theorem uniform_too_big (k n : ℕ) (hk : 1 ≤ k) (hn : k ≤ n) (A : Finset ℕ)
    (hA : ∀ x ∈ A, 1 ≤ x ∧ x ≤ n) (hcard : k < A.card) :
    runE k (fun t => (k : K) / t) k (n - k) (List.range' 1 k) (ind A) = 0 := by
  rw [uniform_inclusion k n hk hn A hA]
  apply Finset.prod_eq_zero (Finset.mem_range.2 hcard)
  simp

-- sanity check of (U3) at k = 2, n = 4, A = {1, 3, 4}
example : runE 2 (fun t => (2 : ℚ) / t) 2 (4 - 2) (List.range' 1 2) (ind {1, 3, 4}) = 0 := by
  reservoir_eval

example : runE 2 (fun t => (2 : ℚ) / t) 2 (4 - 2) (List.range' 1 2) (ind {1, 3, 4}) = 0 := by
  simpa using uniform_too_big (K := ℚ) 2 4 (by norm_num) (by norm_num) {1, 3, 4} (by decide)
    (by decide)

end Uniform

/-! ### Geometric reservoir -/

section Geometric
variable [CharZero K]

theorem geom_step_other (k t t' x : ℕ) (hk : 1 ≤ k) (p : K) (r : List ℕ) (hr : Valid k t r)
    (hx : x ≠ t') :
    stepE k p t' r (ind {x}) = (1 - p / k) * ind {x} r := by
  have hk0 : (k : K) ≠ 0 := Nat.cast_ne_zero.2 (by omega)
  rw [stepE_ind k t t' p r hr, Finset.erase_eq_of_notMem (by simpa using Ne.symm hx)]
  simp only [Finset.card_singleton, Nat.cast_one]
  field_simp
  ring

theorem geom_step_new (k t t' : ℕ) (hk : 1 ≤ k) (p : K) (r : List ℕ) (hr : Valid k t r)
    (htt : t < t') :
    stepE k p t' r (ind {t'}) = p * (fun _ => (1 : K)) r := by
  have hk0 : (k : K) ≠ 0 := Nat.cast_ne_zero.2 (by omega)
  rw [stepE_ind k t t' p r hr, ind_of_notMem {t'} r t' (Finset.mem_singleton_self _) (hr.notMem htt)]
  simp [ind]
  field_simp

theorem geom_survive (k x : ℕ) (hk : 1 ≤ k) (p : K) : ∀ (m t0 : ℕ) (r : List ℕ),
    Valid k t0 r → x ≤ t0 →
    runE k (fun _ => p) t0 m r (ind {x}) = (1 - p / k) ^ m * ind {x} r
  | 0, _, _, _, _ => by simp [runE]
  | m+1, t0, r, hr, hx => by
    rw [runE_peel k _ (ind {x}) (ind {x}) (1 - p / k) m t0 r hr
      (fun r' hr' => geom_step_other k (t0+m) (t0+m+1) x hk p r' hr' (by omega)),
      geom_survive k x hk p m t0 r hr hx]
    ring

theorem geom_late_aux (k s : ℕ) (hk : 1 ≤ k) (p : K) : ∀ d : ℕ,
    runE k (fun _ => p) k (s + 1 + d) (List.range' 1 k) (ind {k + s + 1})
      = p * (1 - p / k) ^ d
  | 0 => by
    have hk0 : (k : K) ≠ 0 := Nat.cast_ne_zero.2 (by omega)
    rw [Nat.add_zero, runE_peel k _ (ind {k+s+1}) (fun _ => 1) p s k _ (valid_init k)
      (fun r' hr' => geom_step_new k (k+s) (k+s+1) hk p r' hr' (Nat.lt_succ_self _)),
      runE_const k hk0]
    simp
  | d+1 => by
    rw [← Nat.add_assoc, runE_peel k _ (ind {k+s+1}) (ind {k+s+1}) (1 - p / k) (s+1+d) k _
      (valid_init k)
      (fun r' hr' => geom_step_other k (k+(s+1+d)) (k+(s+1+d)+1) (k+s+1) hk p r' hr' (by omega)),
      geom_late_aux k s hk p d]
    ring

theorem geom_retention_late (k n t : ℕ) (hk : 1 ≤ k) (ht : k < t) (htn : t ≤ n) (p : K) :
    runE k (fun _ => p) k (n - k) (List.range' 1 k) (ind {t}) = p * (1 - p / k) ^ (n - t) := by
  have e1 : n - k = (t - k - 1) + 1 + (n - t) := by omega
  have e2 : t = k + (t - k - 1) + 1 := by omega
  have := geom_late_aux k (t - k - 1) hk p (n - t)
  rw [← e1, ← e2] at this
  exact this

-- sanity check at k = 2, n = 4, t = 3, symbolic `p`
example (p : ℚ) :
    runE 2 (fun _ => p) 2 (4 - 2) (List.range' 1 2) (ind {3}) = p * (1 - p / 2) ^ (4 - 3) := by
  reservoir_eval
  ring

example (p : ℚ) :
    runE 2 (fun _ => p) 2 (4 - 2) (List.range' 1 2) (ind {3}) = p * (1 - p / 2) ^ (4 - 3) := by
  simpa using geom_retention_late (K := ℚ) 2 4 3 (by norm_num) (by norm_num) (by norm_num) p

theorem geom_retention_early (k n t : ℕ) (hk : 1 ≤ k) (ht1 : 1 ≤ t) (htk : t ≤ k) (_hn : k ≤ n)
    (p : K) :
    runE k (fun _ => p) k (n - k) (List.range' 1 k) (ind {t}) = (1 - p / k) ^ (n - k) := by
  rw [geom_survive k t hk p (n - k) k _ (valid_init k) htk]
  have : ({t} : Finset ℕ) ⊆ (List.range' 1 k).toFinset := by
    rw [Finset.singleton_subset_iff, List.mem_toFinset, List.mem_range'_1]; omega
  simp [ind, this]

-- sanity check at k = 2, n = 4, t = 1, symbolic `p`
example (p : ℚ) :
    runE 2 (fun _ => p) 2 (4 - 2) (List.range' 1 2) (ind {1}) = (1 - p / 2) ^ (4 - 2) := by
  reservoir_eval
  ring

example (p : ℚ) :
    runE 2 (fun _ => p) 2 (4 - 2) (List.range' 1 2) (ind {1}) = (1 - p / 2) ^ (4 - 2) := by
  simpa using geom_retention_early (K := ℚ) 2 4 1 (by norm_num) (by norm_num) (by norm_num)
    (by norm_num) p

/-- with `p = 1` the newest arrival is always in the reservoir -/
theorem geom_newest_p_one (k n : ℕ) (hk : 1 ≤ k) (hn : k < n) :
    runE k (fun _ => (1 : K)) k (n - k) (List.range' 1 k) (ind {n}) = 1 := by
  rw [geom_retention_late k n n hk hn le_rfl 1]
  simp

-- sanity check at k = 2, n = 4
example : runE 2 (fun _ => (1 : ℚ)) 2 (4 - 2) (List.range' 1 2) (ind {4}) = 1 := by
  reservoir_eval

example : runE 2 (fun _ => (1 : ℚ)) 2 (4 - 2) (List.range' 1 2) (ind {4}) = 1 := by
  simpa using geom_newest_p_one (K := ℚ) 2 4 (by norm_num) (by norm_num)

end Geometric


end Ixai.Reservoir
