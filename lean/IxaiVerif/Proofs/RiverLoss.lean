/-
  Helper definitions and lemmas for the river-metric loss adapter (`Model/RiverLoss.lean`), used by C13.
-/
import IxaiVerif.Model.RiverLoss
import Mathlib.Algebra.Field.Basic
import Mathlib.Algebra.CharZero.Defs
import Mathlib.Data.Nat.Cast.Basic
import Mathlib.Tactic.FieldSimp
import Mathlib.Tactic.Ring

set_option linter.unusedSectionVars false

namespace Ixai
namespace Metric
variable {σ A K : Type}

/-- river's contract for `revert`, as far as the adapter relies on it: reverting the pair that was just added to a
    fresh metric gives the fresh metric back -/
def RevertUndoesUpdateFromFresh (m : Metric σ A K) : Prop :=
  ∀ a, m.revert (m.update m.fresh a) a = m.fresh

/-- the same contract at an arbitrary state `st` of the shared metric object -/
def RevertUndoesUpdateAt (m : Metric σ A K) (st : σ) : Prop :=
  ∀ a, m.revert (m.update st a) a = st

variable [Neg K]

theorem lossCall_at (m : Metric σ A K) (st : σ) (h : m.RevertUndoesUpdateAt st) (a : A) :
    m.lossCall st a = (m.sign (m.get (m.update st a)), st) := by
  simp only [lossCall, h a]

theorem lossCalls_at (m : Metric σ A K) (st : σ) (h : m.RevertUndoesUpdateAt st) (as : List A) :
    m.lossCalls st as = (as.map (fun a => m.sign (m.get (m.update st a))), st) := by
  induction as with
  | nil => rfl
  | cons a as ih => simp only [lossCalls, lossCall_at m st h a, ih, List.map_cons]

end Metric

section MeanMetric
variable {A K : Type} [Field K]

theorem meanMetric_update_fresh (g : A → K) (bib : Bool) (a : A) :
    (meanMetric g bib).update (meanMetric g bib).fresh a = (1, g a) := by
  simp [meanMetric]

/-- in characteristic 0, `revert` undoes `update` at every state that has seen at least one pair -/
theorem meanMetric_revert_update [CharZero K] (g : A → K) (bib : Bool) (n : Nat) (μ : K) (hn : 1 ≤ n) (a : A) :
    (meanMetric g bib).revert ((meanMetric g bib).update (n, μ) a) a = (n, μ) := by
  have hn0 : n ≠ 0 := by omega
  have h1 : (n : K) ≠ 0 := by exact_mod_cast hn0
  have h2 : ((n : K) + 1) ≠ 0 := Nat.cast_add_one_ne_zero n
  simp only [meanMetric, Nat.add_sub_cancel, if_neg hn0, Nat.cast_add, Nat.cast_one]
  congr 1
  field_simp
  ring

end MeanMetric
end Ixai
