/-
  Helpers for the end-to-end theorems (`Props/E2E.lean`): streams of effectful `explain_one` calls in which callbacks
  may fail, the caller catches the exception and goes on.

   * inversion of successful runs (`bind_ok_inv`, …): the result of a successful run only depends on the answers the
     callbacks actually gave during this run;
   * `sageChainM_ok_inv`: a successful effectful permutation chain is the pure `sageChain` for the imputer function
     `imp` made of the answers the imputer computation returned during the run;
   * `sageExplainM_ok_pure`: a successful effectful `explain_one` of IncrementalSage is the pure `sageStep` for such an
     `imp`, for callbacks that are "deterministic where they answer" (`OAnswers`), failing wherever they like;
   * the trace of results of a stream with caught failures (`runResults`) and the count of `seen`.
-/
import IxaiVerif.Proofs.Effect
import IxaiVerif.Proofs.Explainer
import IxaiVerif.Proofs.Imputer

set_option linter.unusedSectionVars false
set_option linter.unusedVariables false

namespace Ixai.E2E
open Ixai

/-! ### inversion of successful runs -/
section Inv
variable {K : Type} {α β γ : Type}

theorem bind_ok_inv {m : M K α} {f : α → M K β} {w w' : World K} {b : β}
    (h : M.bind m f w = (.ok b, w')) : ∃ a w1, m w = (.ok a, w1) ∧ f a w1 = (.ok b, w') := by
  rcases M.run_cases m w with ⟨a, w1, hm⟩ | ⟨e, w1, hm⟩
  · rw [M.bind_of_ok hm] at h; exact ⟨a, w1, hm, h⟩
  · rw [M.bind_of_err hm] at h; cases h

theorem pure_ok_inv {a b : α} {w w' : World K} (h : (M.pure a : M K α) w = (.ok b, w')) : b = a ∧ w' = w := by
  have h' : ((Except.ok a : Except Err α), w) = (.ok b, w') := h
  cases h'; exact ⟨rfl, rfl⟩

theorem call_ok_inv {ev : Ev} {oracle : Nat → Except Err α} {a : α} {w w' : World K}
    (h : (M.call ev oracle : M K α) w = (.ok a, w')) : oracle w.calls = .ok a :=
  congrArg Prod.fst h

/-- a successful shaped run: the computation phase succeeded with some `c`, the estimates are `g c` of the old ones,
    one more sample is counted -/
theorem explainShape_ok_inv {A : World K → M K γ} {B : M K Unit} {g : γ → Est K → Est K} {w : World K} {d : Dict K}
    (hA : Frame (A w)) (hB : Frame B) (h : (explainShape A B g w).1 = .ok d) :
    ∃ c w1, A w w = (.ok c, w1) ∧ (explainShape A B g w).2.est = g c w.est ∧
      (explainShape A B g w).2.seen = w.seen + 1 := by
  rcases explainShape_cases A B g w with ⟨e', w1, hA', hr⟩ | ⟨c, w1, e', w2, hA', hB', hr⟩ |
      ⟨c, w1, u, w2, hA', hB', hr⟩
  · rw [hr] at h; cases h
  · rw [hr] at h; cases h
  · have h1 := hA w; rw [hA'] at h1
    have h2 := hB w1; rw [hB'] at h2
    have he : w2.est = w.est := h2.1.trans h1.1
    have hs : w2.seen = w.seen := h2.2.trans h1.2
    refine ⟨c, w1, hA', ?_, ?_⟩
    · rw [hr]; simp only [he]
    · rw [hr]; simp only [hs]

end Inv

/-! ### the trace of a stream with caught failures -/
section Trace
variable {K : Type} {α : Type}

def isOk {ε α : Type} : Except ε α → Bool
  | .ok _ => true
  | .error _ => false

/-- `for step in stream: try: r = step() except e: r = e` — the results, in order -/
def runResults : List (M K α) → World K → List (Except Err α)
  | [], _ => []
  | m :: ms, w => (m w).1 :: runResults ms (m w).2

/-- the world after the stream (the same as `C17.runCatching`, see `runWorld_eq_runCatching` in `Props/E2E.lean`) -/
def runWorld : List (M K α) → World K → World K
  | [], w => w
  | m :: ms, w => runWorld ms (m w).2

theorem runResults_length (steps : List (M K α)) (w : World K) : (runResults steps w).length = steps.length := by
  induction steps generalizing w with
  | nil => rfl
  | cons m ms ih => simp [runResults, ih]

/-- a step that counts one seen sample exactly when it succeeds -/
def SeenStep (m : M K α) : Prop := ∀ w, (m w).2.seen = w.seen + (if isOk (m w).1 then 1 else 0)

theorem seen_runWorld (steps : List (M K α)) (h : ∀ m ∈ steps, SeenStep m) (w : World K) :
    (runWorld steps w).seen = w.seen + (runResults steps w).countP isOk := by
  induction steps generalizing w with
  | nil => rfl
  | cons m ms ih =>
    have h1 := h m List.mem_cons_self w
    have h2 := ih (fun m' hm' => h m' (List.mem_cons_of_mem _ hm')) (m w).2
    simp only [runWorld, runResults, List.countP_cons]
    rw [h2, h1]; omega

theorem seenStep_of_shape {γ : Type} {A : World K → M K γ} {B : M K Unit} {g : γ → Est K → Est K}
    (hA : ∀ w0, Frame (A w0)) (hB : Frame B) : SeenStep (explainShape A B g) := by
  intro w
  rcases hr : (explainShape A B g w).1 with e | d
  · simp only [isOk]; exact (explainShape_atomic hA hB w e hr).2
  · obtain ⟨c, w1, -, -, hs⟩ := explainShape_ok_inv (hA w) hB hr
    simp only [isOk]; exact hs

end Trace

/-! ### the chain -/
section Chain
variable {K : Type} [Field K] [CharZero K] [RealOps K] [DecidableEq K] {V Y : Type}

/-- the chain over a duplicate-free order inside `notInS` only asks the imputer for subsets shorter than `notInS` -/
theorem sageChain_congr (loss : Y → Dict K → K) (y : Y) (imp imp' : List Nat → List (Dict K)) :
    ∀ (perm notInS : List Nat) (prev : K), perm.Nodup → (∀ g ∈ perm, g ∈ notInS) →
      (∀ S : List Nat, S.length < notInS.length → imp S = imp' S) →
      sageChain loss y imp perm notInS prev = sageChain loss y imp' perm notInS prev
  | [], _, _, _, _, _ => rfl
  | f :: rest, notInS, prev, hnd, hsub, himp => by
    have hf : f ∈ notInS := hsub f (by simp)
    have hpos := List.length_pos_of_mem hf
    have hlen : (notInS.erase f).length < notInS.length := by
      rw [List.length_erase_of_mem hf]; omega
    have hnd' := List.nodup_cons.mp hnd
    simp only [sageChain]
    rw [himp _ hlen]
    congr 1
    exact sageChain_congr loss y imp imp' rest (notInS.erase f) _ hnd'.2
      (fun g hg => (List.mem_erase_of_ne (by rintro rfl; exact hnd'.1 hg)).mpr (hsub g (by simp [hg])))
      (fun S hS => himp S (by omega))

/-- callbacks that are deterministic where they answer, but may fail at any invocation: every answer of the model
    oracle that is not an error is `model x`, every answer of the loss oracle that is not an error is `loss y p`.
    Nothing is assumed about the storage oracle or about WHERE the oracles fail. -/
structure OAnswers (O : Oracles K V Y) (model : Inst V → Dict K) (loss : Y → Dict K → K) : Prop where
  model : ∀ c x r, O.model c x = .ok r → r = model x
  loss : ∀ c y p r, O.loss c y p = .ok r → r = loss y p

variable {O : Oracles K V Y} {model : Inst V → Dict K} {loss : Y → Dict K → K}
variable {imputeM : List Nat → Nat → M K (List (Dict K))} {n : Nat} {x : Inst V} {y : Y}

theorem callModel_ok_inv (hO : OAnswers O model loss) {x : Inst V} {w w' : World K} {p : Dict K}
    (h : callModel O x w = (.ok p, w')) : p = model x := hO.model _ _ _ (call_ok_inv h)

theorem callLoss_ok_inv (hO : OAnswers O model loss) {y : Y} {p : Dict K} {w w' : World K} {l : K}
    (h : callLoss O y p w = (.ok l, w')) : l = loss y p := hO.loss _ _ _ _ (call_ok_inv h)

/-- a successful effectful chain is the pure chain for an imputer function made of the answers received during the
    run (`imp0` elsewhere); the answer for the last coalition (`notInS` minus the whole order) is among them -/
theorem sageChainM_ok_inv (hO : OAnswers O model loss) (imp0 : List Nat → List (Dict K)) :
    ∀ (perm notInS : List Nat) (prev : K) (w w' : World K) (cs : Dict K),
      perm.Nodup → notInS.Nodup → (∀ g ∈ perm, g ∈ notInS) →
      sageChainM O imputeM y n perm notInS prev w = (.ok cs, w') →
      ∃ imp : List Nat → List (Dict K), cs = sageChain loss y imp perm notInS prev ∧
        (∀ S, (∃ w0, (imputeM S n w0).1 = .ok (imp S)) ∨ imp S = imp0 S) ∧
        (perm ≠ [] → ∃ w0, (imputeM (notInS.diff perm) n w0).1 = .ok (imp (notInS.diff perm)))
  | [], notInS, prev, w, w', cs, _, _, _, h => by
    have h' : (M.pure [] : M K (Dict K)) w = (.ok cs, w') := h
    obtain ⟨rfl, -⟩ := pure_ok_inv h'
    exact ⟨imp0, rfl, fun S => .inr rfl, fun h => absurd rfl h⟩
  | f :: rest, notInS, prev, w, w', cs, hnd, hnn, hsub, h => by
    have hf : f ∈ notInS := hsub f (by simp)
    have hnd' := List.nodup_cons.mp hnd
    have hsub' : ∀ g ∈ rest, g ∈ notInS.erase f :=
      fun g hg => (List.mem_erase_of_ne (by rintro rfl; exact hnd'.1 hg)).mpr (hsub g (by simp [hg]))
    have h' : M.bind (imputeM (notInS.erase f) n) (fun preds =>
        M.bind (callLoss O y (meanOutput preds)) (fun fl =>
        M.bind (sageChainM O imputeM y n rest (notInS.erase f) fl) (fun tail =>
        M.pure ((f, prev - fl) :: tail)))) w = (.ok cs, w') := h
    obtain ⟨preds, w1, h1, h'⟩ := bind_ok_inv h'
    obtain ⟨fl, w2, h2, h'⟩ := bind_ok_inv h'
    obtain ⟨tl, w3, h3, h'⟩ := bind_ok_inv h'
    obtain ⟨rfl, -⟩ := pure_ok_inv h'
    have hfl : fl = loss y (meanOutput preds) := callLoss_ok_inv hO h2
    obtain ⟨imp', rfl, hans, hlast⟩ :=
      sageChainM_ok_inv hO imp0 rest (notInS.erase f) fl w2 w3 tl hnd'.2 (hnn.erase f) hsub' h3
    refine ⟨fun S => if S = notInS.erase f then preds else imp' S, ?_, ?_, ?_⟩
    · simp only [sageChain, if_true]
      rw [← hfl]
      congr 1
      apply sageChain_congr loss y _ _ rest (notInS.erase f) fl hnd'.2 hsub'
      intro S hS
      have : S ≠ notInS.erase f := by rintro rfl; exact absurd hS (Nat.lt_irrefl _)
      simp only [this, if_false]
    · intro S
      by_cases hS : S = notInS.erase f
      · subst hS; left; refine ⟨w, ?_⟩; simp only [if_true]; rw [h1]
      · simp only [hS, if_false]; exact hans S
    · intro _
      rw [List.diff_cons]
      by_cases hr : rest = []
      · subst hr; refine ⟨w, ?_⟩; simp only [List.diff_nil, if_true]; rw [h1]
      · have hne : (notInS.erase f).diff rest ≠ notInS.erase f := by
          obtain ⟨g, rest', rfl⟩ := List.exists_cons_of_ne_nil hr
          intro heq
          have hg : g ∈ notInS.erase f := hsub' g (by simp)
          rw [← heq, (hnn.erase f).mem_sdiff_iff] at hg
          exact hg.2 (by simp)
        simp only [hne, if_false]
        exact hlast hr

end Chain

/-! ### one successful `explain_one` of IncrementalSage is a pure step -/
section Step
variable {K : Type} [Field K] [CharZero K] [RealOps K] [DecidableEq K] {V Y : Type}
variable {O : Oracles K V Y} {model : Inst V → Dict K} {loss : Y → Dict K → K}
variable {imputeM : List Nat → Nat → M K (List (Dict K))} {n : Nat} {x : Inst V} {y : Y}

theorem sageComputeM_ok_inv (hO : OAnswers O model loss) (imp0 : List Nat → List (Dict K))
    {names perm : List Nat} (hp : perm.Perm names) (hn : names.Nodup) {w0 w w' : World K}
    {c : Option (K × MV K × Dict K × K × Dict K)}
    (h : sageComputeM O names imputeM x y n perm w0 w = (.ok c, w')) :
    ∃ imp : List Nat → List (Dict K),
      (∀ S, (∃ w1, (imputeM S n w1).1 = .ok (imp S)) ∨ imp S = imp0 S) ∧
      (1 ≤ w0.seen → names ≠ [] → ∃ w1, (imputeM [] n w1).1 = .ok (imp [])) ∧
      sageCommit names c w0.est = sageStep names model loss w0.est (decide (w0.seen = 0)) x y perm imp := by
  by_cases hs : w0.seen = 0
  · rw [sageComputeM_zero hs] at h
    obtain ⟨rfl, -⟩ := pure_ok_inv h
    refine ⟨imp0, fun S => .inr rfl, fun h1 => by omega, ?_⟩
    simp [sageStep, hs, sageCommit]
  · rw [sageComputeM_pos (by omega)] at h
    obtain ⟨pred, w1, h1, h⟩ := bind_ok_inv h
    obtain ⟨ml, w2, h2, h⟩ := bind_ok_inv h
    obtain ⟨margL, w3, h3, h⟩ := bind_ok_inv h
    obtain ⟨contribs, w4, h4, h⟩ := bind_ok_inv h
    obtain ⟨rfl, -⟩ := pure_ok_inv h
    have e1 : pred = model x := callModel_ok_inv hO h1
    subst e1
    have e2 : ml = loss y (model x) := callLoss_ok_inv hO h2
    have e3 : margL = loss y (w0.est.margPred.update (model x)).getNormalized := callLoss_ok_inv hO h3
    subst e2 e3
    obtain ⟨imp, rfl, hans, hlast⟩ := sageChainM_ok_inv hO imp0 perm names _ w3 w4 contribs
      (hp.nodup_iff.mpr hn) hn (fun g hg => hp.mem_iff.mp hg) h4
    refine ⟨imp, hans, fun _ hne => ?_, ?_⟩
    · have hpne : perm ≠ [] := by intro h; subst h; exact hne hp.symm.eq_nil
      have := hlast hpne
      rwa [diff_perm_eq_nil names perm hp hn] at this
    · simp [sageStep, hs, sageCommit]

/-- (a) A successful `explain_one` of the effectful layer, for callbacks that are deterministic where they answer
    (and fail wherever they like; any storage oracle) and any framed imputer computation, IS the pure `sageStep` for
    the imputer function `imp` made of the answers the imputer computation gave during this run: every `imp S` is an
    answer of `imputeM S n` (or `imp0 S`, for subsets that were not asked), and in a call that explains
    (`1 ≤ seen`) the answer for the empty subset is among them. -/
theorem sageExplainM_ok_pure (hO : OAnswers O model loss) (imp0 : List Nat → List (Dict K))
    {names perm : List Nat} (hp : perm.Perm names) (hn : names.Nodup) (hframe : ∀ S n, Frame (imputeM S n))
    (upd : Bool) (w : World K) (d : Dict K)
    (h : (sageExplainM O names imputeM x y n perm upd w).1 = .ok d) :
    ∃ imp : List Nat → List (Dict K),
      (∀ S, (∃ w1, (imputeM S n w1).1 = .ok (imp S)) ∨ imp S = imp0 S) ∧
      (1 ≤ w.seen → names ≠ [] → ∃ w1, (imputeM [] n w1).1 = .ok (imp [])) ∧
      (sageExplainM O names imputeM x y n perm upd w).2.est =
        sageStep names model loss w.est (decide (w.seen = 0)) x y perm imp ∧
      (sageExplainM O names imputeM x y n perm upd w).2.seen = w.seen + 1 := by
  rw [sageExplainM_eq] at h ⊢
  obtain ⟨c, w1, hA, he, hs⟩ := explainShape_ok_inv (Frame.sageComputeM hframe perm w) (Frame.storageM _) h
  obtain ⟨imp, hans, hlast, hc⟩ := sageComputeM_ok_inv hO imp0 hp hn hA
  exact ⟨imp, hans, hlast, he.trans hc, hs⟩

/-- the library imputer: a successful answer for the empty subset is `n` copies of the model's prediction -/
theorem imputeMarginalJoint_nil_ok (hO : OAnswers O model loss) (rows : Nat → Inst V) (rowOf : Nat → Nat → Nat)
    (x : Inst V) (n : Nat) (w : World K) (r : List (Dict K))
    (h : (imputeMarginalJoint O rows rowOf x [] n w).1 = .ok r) : r = List.replicate n (model x) := by
  have key : ∀ (l : List Nat) (w w' : World K) (r : List (Dict K)) (g : Nat → Inst V),
      (∀ j, g j = x) → M.mapM' (fun j => callModel O (g j)) l w = (.ok r, w') →
      r = List.replicate l.length (model x) := by
    intro l
    induction l with
    | nil =>
      intro w w' r g _ h
      have h' : (M.pure [] : M K (List (Dict K))) w = (.ok r, w') := h
      obtain ⟨rfl, -⟩ := pure_ok_inv h'; rfl
    | cons j l ih =>
      intro w w' r g hg h
      have h' : M.bind (callModel O (g j)) (fun b => M.bind (M.mapM' (fun j => callModel O (g j)) l)
          (fun bs => M.pure (b :: bs))) w = (.ok r, w') := h
      obtain ⟨b, w1, h1, h'⟩ := bind_ok_inv h'
      obtain ⟨bs, w2, h2, h'⟩ := bind_ok_inv h'
      obtain ⟨rfl, -⟩ := pure_ok_inv h'
      rw [callModel_ok_inv hO h1, ih w1 w2 bs g hg h2, hg j]; rfl
  have e : imputeMarginalJoint O rows rowOf x [] n w =
      M.mapM' (fun j => callModel O (overlay x [] (rows (rowOf w.calls j)))) (List.range n) w := rfl
  rcases hr : imputeMarginalJoint O rows rowOf x [] n w with ⟨r', w'⟩
  rw [hr] at h; simp only at h; subst h
  rw [e] at hr
  have := key (List.range n) w w' r (fun j => overlay x [] (rows (rowOf w.calls j)))
    (fun j => overlay_nil x _) hr
  simpa using this

/-- … hence it is faithful on the empty subset wherever it answers (distinct labels, `n ≥ 1`) -/
theorem imputeMarginalJoint_faithful (hO : OAnswers O model loss) (rows : Nat → Inst V) (rowOf : Nat → Nat → Nat)
    (x : Inst V) (n : Nat) (hn : 1 ≤ n) (hk : (model x).keys.Nodup) (w : World K) (r : List (Dict K))
    (h : (imputeMarginalJoint O rows rowOf x [] n w).1 = .ok r) : meanOutput r = model x := by
  rw [imputeMarginalJoint_nil_ok hO rows rowOf x n w r h]
  exact meanOutput_replicate _ hk n hn

/-- one successful effectful step preserves the efficiency invariant of C01 — whether or not it is a "first" call -/
theorem SageInv_of_ok (hO : OAnswers O model loss) {names perm : List Nat} (hne : names ≠ []) (hn : names.Nodup)
    (hp : perm.Perm names) (hframe : ∀ S n, Frame (imputeM S n))
    (hfaith : ∀ w r, (imputeM [] n w).1 = .ok r → meanOutput r = model x)
    (upd : Bool) (w : World K) (d : Dict K)
    (h : (sageExplainM O names imputeM x y n perm upd w).1 = .ok d) (hinv : SageInv names w.est) :
    SageInv names (sageExplainM O names imputeM x y n perm upd w).2.est := by
  obtain ⟨imp, -, hlast, he, -⟩ := sageExplainM_ok_pure hO (fun _ => []) hp hn hframe upd w d h
  rw [he]
  by_cases hs : w.seen = 0
  · simpa [sageStep, hs] using hinv
  · obtain ⟨w1, hw1⟩ := hlast (by omega) hne
    have := SageInv.step names model loss w.est ⟨x, y, perm, imp⟩ hne hn hp (hfaith w1 _ hw1) hinv
    simpa [sageStepObs, hs] using this

end Step

/-! ### variances -/
section Nonneg
variable {K : Type} [Field K] [LinearOrder K] [IsStrictOrderedRing K] [RealOps K]

theorem sageCommit_nonneg (names : List Nat) (c : Option (K × MV K × Dict K × K × Dict K)) (e : Est K)
    (h : e.variance.NonnegInv) : (sageCommit names c e).variance.NonnegInv := by
  match c with
  | none => exact h
  | some (ml, mp', mpn, margL, contribs) => exact commit_nonneg _ _ _ h

theorem pfiCommit_nonneg (names : List Nat) (c : Option (Dict K)) (e : Est K)
    (h : e.variance.NonnegInv) : (pfiCommit names c e).variance.NonnegInv := by
  match c with
  | none => exact h
  | some cs => exact commit_nonneg _ _ _ h

end Nonneg

end Ixai.E2E
