/-
  Helper lemmas for the `TreeStorage` / `TreeImputer` bookkeeping model (C19).
  Layers:
   (1) association-list lookups `l.find? (fun e => e.1 == k)` under key-preserving maps;
   (2) one leaf reservoir (the GENERATED `GeometricReservoirStorage` with p = 1): the invariant `GoodR`, read off
       `Geometric.update_spec`;
   (3) `updateFeature` (one feature's dict of reservoirs): keys, invariant, the newest observation;
   (4) the fold of `update` over the oracle list (`ustep`) and the run over a list of updates.
-/
import IxaiVerif.Model.Tree
import IxaiVerif.Proofs.Storage
import Mathlib.Data.List.Basic
import Mathlib.Data.List.Nodup
import Mathlib.Data.List.Count

set_option linter.unusedSectionVars false
set_option linter.unusedVariables false

namespace Ixai.Tree
open Ixai.Gen

/-! ### (1) association lists -/
section Assoc
variable {α : Type}

theorem find_map_fst (l : List (Nat × α)) (g : Nat × α → Nat × α) (hg : ∀ e, (g e).1 = e.1) (k : Nat) :
    (l.map g).find? (fun e => e.1 == k) = (l.find? (fun e => e.1 == k)).map g := by
  induction l with
  | nil => rfl
  | cons a l ih =>
    simp only [List.map_cons, List.find?_cons, hg]
    cases h : (a.1 == k) <;> simp [ih]

theorem find_eq_none_iff (l : List (Nat × α)) (k : Nat) :
    l.find? (fun e => e.1 == k) = none ↔ k ∉ l.map Prod.fst := by
  rw [List.find?_eq_none]
  constructor
  · intro h hk
    rw [List.mem_map] at hk
    obtain ⟨e, he, rfl⟩ := hk
    exact h e he (by simp)
  · intro h e he hk
    exact h (List.mem_map.2 ⟨e, he, by simpa using hk⟩)

theorem find_some_mem {l : List (Nat × α)} {k : Nat} {e : Nat × α}
    (h : l.find? (fun e => e.1 == k) = some e) : e ∈ l ∧ e.1 = k := by
  refine ⟨List.mem_of_find?_eq_some h, ?_⟩
  have := List.find?_some h
  simpa using this

theorem find_isSome_of_mem_keys {l : List (Nat × α)} {k : Nat} (h : k ∈ l.map Prod.fst) :
    ∃ e, l.find? (fun e => e.1 == k) = some e := by
  cases hf : l.find? (fun e => e.1 == k) with
  | none => exact absurd h ((find_eq_none_iff l k).1 hf)
  | some e => exact ⟨e, rfl⟩

/-- a key-preserving map that fixes the entries of key `k` does not change the lookup of `k` -/
theorem find_map_fix (l : List (Nat × α)) (g : Nat × α → Nat × α) (hg : ∀ e, (g e).1 = e.1) (k : Nat)
    (hfix : ∀ e, e.1 = k → g e = e) :
    (l.map g).find? (fun e => e.1 == k) = l.find? (fun e => e.1 == k) := by
  rw [find_map_fst l g hg k]
  cases hf : l.find? (fun e => e.1 == k) with
  | none => rfl
  | some e => simp [hfix e (find_some_mem hf).2]

theorem map_fst_map (l : List (Nat × α)) (g : Nat × α → Nat × α) (hg : ∀ e, (g e).1 = e.1) :
    (l.map g).map Prod.fst = l.map Prod.fst := by
  rw [List.map_map]; apply List.map_congr_left; intro e _; exact hg e

end Assoc

/-! ### lookups on a `State` -/
section Lookups
variable {K P : Type}

/-- the reservoirs (leaf id ↦ reservoir) stored for feature `f`: Python's `self._data_reservoirs[f]` -/
def featureRes (s : State K P) (f : Nat) : Option (Reservoirs K P) :=
  (s.reservoirs.find? (fun e => e.1 == f)).map Prod.snd

/-- the reservoir of leaf `leaf` of feature `f`: Python's `self._data_reservoirs[f][leaf]` -/
def leafRes (s : State K P) (f leaf : Nat) : Option (GeometricReservoirStorage K P Unit) :=
  (featureRes s f).bind (fun rs => findR rs leaf)

theorem findR_eq_none_iff (rs : Reservoirs K P) (leaf : Nat) : findR rs leaf = none ↔ leaf ∉ rs.map Prod.fst := by
  unfold findR
  rw [Option.map_eq_none_iff, find_eq_none_iff]

theorem findR_some_mem {rs : Reservoirs K P} {leaf : Nat} {r : GeometricReservoirStorage K P Unit}
    (h : findR rs leaf = some r) : (leaf, r) ∈ rs := by
  unfold findR at h
  rw [Option.map_eq_some_iff] at h
  obtain ⟨e, he, rfl⟩ := h
  obtain ⟨hm, hk⟩ := find_some_mem he
  rw [← hk]; exact hm

theorem featureRes_some_mem {s : State K P} {f : Nat} {rs : Reservoirs K P} (h : featureRes s f = some rs) :
    (f, rs) ∈ s.reservoirs := by
  unfold featureRes at h
  rw [Option.map_eq_some_iff] at h
  obtain ⟨e, he, rfl⟩ := h
  obtain ⟨hm, hk⟩ := find_some_mem he
  rw [← hk]; exact hm

theorem leafRes_some {s : State K P} {f leaf : Nat} {r : GeometricReservoirStorage K P Unit}
    (h : leafRes s f leaf = some r) : ∃ rs, featureRes s f = some rs ∧ findR rs leaf = some r := by
  unfold leafRes at h
  rw [Option.bind_eq_some_iff] at h
  exact h

end Lookups

/-! ### (2) one leaf reservoir -/
section Leaf
variable {K : Type} [Add K] [Sub K] [Mul K] [Div K] [NatCast K] [OfNat K 0] [OfNat K 1] [LE K] [DecidableLE K]
variable {P : Type}

/-- invariant of a leaf reservoir of a `TreeStorage` of capacity `L` that has seen the data points `obs` -/
structure GoodR (L : Nat) (obs : List P) (r : GeometricReservoirStorage K P Unit) : Prop where
  len_le : r.storage_x.length ≤ L
  observed : ∀ p ∈ r.storage_x, p ∈ obs
  size_eq : r.size = L
  cp_one : r.constant_probability = 1
  no_targets : r.store_targets = false

theorem GoodR.mono {L : Nat} {obs obs' : List P} {r : GeometricReservoirStorage K P Unit}
    (h : GoodR L obs r) (hsub : ∀ p ∈ obs, p ∈ obs') : GoodR L obs' r :=
  ⟨h.len_le, fun p hp => hsub p (h.observed p hp), h.size_eq, h.cp_one, h.no_targets⟩

theorem GoodR.init (L : Nat) (obs : List P) :
    GoodR L obs (GeometricReservoirStorage.init L (some (1 : K)) false : GeometricReservoirStorage K P Unit) :=
  ⟨by simp [GeometricReservoirStorage.init], by simp [GeometricReservoirStorage.init], rfl, rfl, rfl⟩

theorem GoodR.update {L : Nat} {obs : List P} {r : GeometricReservoirStorage K P Unit}
    (h : GoodR L obs r) (x : P) (hx : x ∈ obs) (rnd : Rnd K) : GoodR L obs (r.update x () rnd).1 := by
  obtain ⟨hsx, _, hsz, hst, hcp⟩ := Geometric.update_spec r x () rnd
  refine ⟨?_, ?_, hsz.trans h.size_eq, hcp.trans h.cp_one, hst.trans h.no_targets⟩
  · rw [hsx]
    have := h.len_le
    have := h.size_eq
    split
    · simp; omega
    · split
      · simpa using h.len_le
      · exact h.len_le
  · rw [hsx]
    intro p hp
    split at hp
    · rcases List.mem_append.1 hp with hp | hp
      · exact h.observed p hp
      · simp at hp; rw [hp]; exact hx
    · split at hp
      · rcases List.mem_or_eq_of_mem_set hp with hp | hp
        · exact h.observed p hp
        · rw [hp]; exact hx
      · exact h.observed p hp

set_option linter.unusedSimpArgs false in
/-- the generated update only advances the positions of the random source -/
theorem geom_update_rnd {X Y : Type} (r : GeometricReservoirStorage K X Y) (x : X) (y : Y) (rnd : Rnd K) :
    (r.update x y rnd).2.reals = rnd.reals ∧ (r.update x y rnd).2.idxs = rnd.idxs := by
  simp only [GeometricReservoirStorage.update, Rnd.nextReal, Rnd.nextIdx]
  by_cases hlt : r.storage_x.length < r.size <;> cases h : r.store_targets <;>
    by_cases hp : rnd.reals rnd.rpos ≤ r.constant_probability <;> simp [hlt, hp, h]

/-- p = 1, draws in [0,1] and in range: the new data point is in the reservoir after the update -/
theorem GoodR.mem_update {L : Nat} {obs : List P} {r : GeometricReservoirStorage K P Unit}
    (h : GoodR L obs r) (hL : 1 ≤ L) (x : P) (rnd : Rnd K)
    (hreal : ∀ i, rnd.reals i ≤ (1 : K)) (hidx : ∀ i n, 0 < n → rnd.idxs i n < n) :
    x ∈ (r.update x () rnd).1.storage_x := by
  rw [(Geometric.update_spec r x () rnd).1]
  by_cases hlt : r.storage_x.length < r.size
  · simp [hlt]
  · rw [if_neg hlt, h.cp_one, if_pos (hreal _)]
    have h1 := h.size_eq
    have h2 := h.len_le
    have h3 := hidx rnd.ipos r.size (by omega)
    exact List.mem_set (by omega) x

end Leaf

/-! ### (3) one feature -/
section Feature
variable {K : Type} [Add K] [Sub K] [Mul K] [Div K] [NatCast K] [OfNat K 0] [OfNat K 1] [LE K] [DecidableLE K]
variable {P : Type}

/-- invariant of one feature's dict of reservoirs -/
structure GoodRs (L : Nat) (obs : List P) (rs : Reservoirs K P) : Prop where
  good : ∀ e ∈ rs, GoodR L obs e.2
  nodup : (rs.map Prod.fst).Nodup

theorem GoodRs.mono {L : Nat} {obs obs' : List P} {rs : Reservoirs K P}
    (h : GoodRs L obs rs) (hsub : ∀ p ∈ obs, p ∈ obs') : GoodRs L obs' rs :=
  ⟨fun e he => (h.good e he).mono hsub, h.nodup⟩

theorem GoodRs.nil (L : Nat) (obs : List P) : GoodRs L obs ([] : Reservoirs K P) :=
  ⟨by simp, by simp⟩

/-- the dict after "create the routed leaf's reservoir if new, then clean up (on EVERY update)" and before the insertion -/
def prepare (L : Nat) (rs : Reservoirs K P) (leaf : Nat) (allLeaves : List Nat) : Reservoirs K P :=
  (if (findR rs leaf).isSome then rs
   else rs ++ [(leaf, GeometricReservoirStorage.init L (some (1 : K)) false)]).filter (fun e => allLeaves.contains e.1)

theorem updateFeature_eq (L : Nat) (rs : Reservoirs K P) (leaf : Nat) (allLeaves : List Nat) (x : P) (rnd : Rnd K) :
    updateFeature L rs leaf allLeaves x rnd =
      match findR (prepare L rs leaf allLeaves) leaf with
      | none => (prepare L rs leaf allLeaves, rnd)
      | some r => ((prepare L rs leaf allLeaves).map (fun e => if e.1 == leaf then (e.1, (r.update x () rnd).1) else e),
                   (r.update x () rnd).2) := rfl

theorem prepare_keys (L : Nat) (rs : Reservoirs K P) (leaf : Nat) (allLeaves : List Nat) :
    (prepare (K := K) L rs leaf allLeaves).map Prod.fst =
      (if leaf ∈ rs.map Prod.fst then rs.map Prod.fst
       else rs.map Prod.fst ++ [leaf]).filter (fun k => allLeaves.contains k) := by
  unfold prepare
  by_cases h : leaf ∈ rs.map Prod.fst
  · have : (findR rs leaf).isSome = true := by
      cases hf : findR rs leaf with
      | none => exact absurd h ((findR_eq_none_iff rs leaf).1 hf)
      | some r => rfl
    rw [if_pos this, if_pos h, List.filter_map]
    rfl
  · have : findR rs leaf = none := (findR_eq_none_iff rs leaf).2 h
    rw [this, if_neg h]
    simp only [Option.isSome_none, Bool.false_eq_true, if_false]
    rw [show rs.map Prod.fst ++ [leaf] =
        (rs ++ [(leaf, (GeometricReservoirStorage.init L (some (1 : K)) false : GeometricReservoirStorage K P Unit))]).map
          Prod.fst by simp, List.filter_map]
    rfl

theorem updateFeature_keys (L : Nat) (rs : Reservoirs K P) (leaf : Nat) (allLeaves : List Nat) (x : P) (rnd : Rnd K) :
    (updateFeature L rs leaf allLeaves x rnd).1.map Prod.fst = (prepare (K := K) L rs leaf allLeaves).map Prod.fst := by
  rw [updateFeature_eq]
  split
  · rfl
  · apply map_fst_map; intro e; split <;> rfl

theorem updateFeature_rnd (L : Nat) (rs : Reservoirs K P) (leaf : Nat) (allLeaves : List Nat) (x : P) (rnd : Rnd K) :
    (updateFeature L rs leaf allLeaves x rnd).2.reals = rnd.reals ∧
    (updateFeature L rs leaf allLeaves x rnd).2.idxs = rnd.idxs := by
  rw [updateFeature_eq]
  split
  · exact ⟨rfl, rfl⟩
  · exact geom_update_rnd _ _ _ _

theorem prepare_good {L : Nat} {obs : List P} {rs : Reservoirs K P} (h : GoodRs L obs rs) (leaf : Nat)
    (allLeaves : List Nat) : GoodRs L obs (prepare (K := K) L rs leaf allLeaves) := by
  refine ⟨?_, ?_⟩
  · intro e he
    unfold prepare at he
    rw [List.mem_filter] at he
    obtain ⟨he, _⟩ := he
    split at he
    · exact h.good e he
    · rw [List.mem_append] at he
      rcases he with he | he
      · exact h.good e he
      · simp at he; rw [he]; exact GoodR.init L obs
  · rw [prepare_keys]
    apply List.Nodup.filter
    split
    · exact h.nodup
    · rename_i hn
      rw [List.nodup_append]
      refine ⟨h.nodup, by simp, ?_⟩
      intro a ha b hb
      simp at hb
      rw [hb]; intro e; exact hn (e ▸ ha)

theorem updateFeature_good {L : Nat} {obs : List P} {rs : Reservoirs K P} (h : GoodRs L obs rs) (leaf : Nat)
    (allLeaves : List Nat) (x : P) (hx : x ∈ obs) (rnd : Rnd K) :
    GoodRs L obs (updateFeature L rs leaf allLeaves x rnd).1 := by
  have hp := prepare_good h leaf allLeaves
  refine ⟨?_, ?_⟩
  · rw [updateFeature_eq]
    split
    · exact hp.good
    · rename_i r hr
      intro e he
      rw [List.mem_map] at he
      obtain ⟨e0, he0, rfl⟩ := he
      split
      · exact (hp.good _ (findR_some_mem hr)).update x hx rnd
      · exact hp.good e0 he0
  · rw [updateFeature_keys]; exact hp.nodup

/-- which keys survive: the old keys (and the routed leaf if it is new), restricted to the current leaves — the clean-up
    runs on every update -/
theorem updateFeature_keys_eq (L : Nat) (rs : Reservoirs K P) (leaf : Nat) (allLeaves : List Nat) (x : P) (rnd : Rnd K) :
    (updateFeature L rs leaf allLeaves x rnd).1.map Prod.fst =
      (if leaf ∈ rs.map Prod.fst then rs.map Prod.fst
       else rs.map Prod.fst ++ [leaf]).filter (fun k => allLeaves.contains k) := by
  rw [updateFeature_keys, prepare_keys]

/-- after the update every key is a current leaf -/
theorem updateFeature_keys_leaves (L : Nat) (rs : Reservoirs K P) (leaf : Nat) (allLeaves : List Nat) (x : P)
    (rnd : Rnd K) : ∀ k ∈ (updateFeature L rs leaf allLeaves x rnd).1.map Prod.fst, k ∈ allLeaves := by
  intro k hk
  rw [updateFeature_keys_eq, List.mem_filter] at hk
  simpa using hk.2

/-- the routed leaf has a reservoir after the update and it holds the new data point -/
theorem updateFeature_newest {L : Nat} {obs : List P} {rs : Reservoirs K P} (h : GoodRs L obs rs) (hL : 1 ≤ L)
    (leaf : Nat) (allLeaves : List Nat) (hleaf : leaf ∈ allLeaves) (x : P) (rnd : Rnd K)
    (hreal : ∀ i, rnd.reals i ≤ (1 : K)) (hidx : ∀ i n, 0 < n → rnd.idxs i n < n) :
    ∃ r, findR (updateFeature L rs leaf allLeaves x rnd).1 leaf = some r ∧ x ∈ r.storage_x := by
  have hp := prepare_good h leaf allLeaves
  have hmem : leaf ∈ (prepare (K := K) L rs leaf allLeaves).map Prod.fst := by
    rw [prepare_keys, List.mem_filter]
    refine ⟨?_, by simpa using hleaf⟩
    split
    · assumption
    · simp
  rw [updateFeature_eq]
  cases hf : findR (prepare (K := K) L rs leaf allLeaves) leaf with
  | none => exact absurd hmem ((findR_eq_none_iff _ _).1 hf)
  | some r =>
    refine ⟨(r.update x () rnd).1, ?_, (hp.good _ (findR_some_mem hf)).mem_update hL x rnd hreal hidx⟩
    show findR (List.map _ _) leaf = _
    unfold findR at hf ⊢
    rw [find_map_fst _ _ (by intro e; split <;> rfl)]
    rw [Option.map_eq_some_iff] at hf
    obtain ⟨e, he, _⟩ := hf
    rw [he]
    have := (find_some_mem he).2
    simp [this]

/-- the SHIPPED behaviour (before `fix:` a088161), for documentation of the defect: when the routed leaf already has a
    reservoir no clean-up happens and the keys are unchanged, whatever `allLeaves` is -/
theorem updateFeatureShipped_keys_known (L : Nat) (rs : Reservoirs K P) (leaf : Nat) (allLeaves : List Nat) (x : P)
    (rnd : Rnd K) (h : leaf ∈ rs.map Prod.fst) :
    (updateFeatureShipped L rs leaf allLeaves x rnd).1.map Prod.fst = rs.map Prod.fst := by
  have hs : (findR rs leaf).isSome = true := by
    cases hf : findR rs leaf with
    | none => exact absurd h ((findR_eq_none_iff rs leaf).1 hf)
    | some r => rfl
  unfold updateFeatureShipped
  simp only [hs, if_true]
  split
  · rfl
  · apply map_fst_map; intro e; split <;> rfl

end Feature

/-! ### (4) one update and runs -/
section Update
variable {K : Type} [Add K] [Sub K] [Mul K] [Div K] [NatCast K] [OfNat K 0] [OfNat K 1] [LE K] [DecidableLE K]
variable {P : Type}

/-- the body of the loop over the instance's features in `update` -/
def ustep (L : Nat) (x : P) (acc : List (Nat × Reservoirs K P) × Rnd K) (o : Nat × (Nat × List Nat)) :
    List (Nat × Reservoirs K P) × Rnd K :=
  match acc.1.find? (fun e => e.1 == o.1) with
  | none => acc
  | some e =>
    ((acc.1.map (fun e' => if e'.1 == o.1 then (e'.1, (updateFeature L e.2 o.2.1 o.2.2 x acc.2).1) else e')),
     (updateFeature L e.2 o.2.1 o.2.2 x acc.2).2)

theorem update_eq (L : Nat) (s : State K P) (x : P) (oracle : UpdateOracle) (rnd : Rnd K) :
    update L s x oracle rnd =
      ({ reservoirs := (oracle.foldl (ustep L x) (s.reservoirs, rnd)).1, seen := s.seen + 1 },
       (oracle.foldl (ustep L x) (s.reservoirs, rnd)).2) := rfl

/-- invariant of the feature ↦ reservoirs table -/
structure GoodTable (L : Nat) (features : List Nat) (obs : List P) (t : List (Nat × Reservoirs K P)) : Prop where
  keys : t.map Prod.fst = features
  good : ∀ e ∈ t, GoodRs L obs e.2

theorem ustep_keys (L : Nat) (x : P) (acc : List (Nat × Reservoirs K P) × Rnd K) (o : Nat × (Nat × List Nat)) :
    (ustep L x acc o).1.map Prod.fst = acc.1.map Prod.fst := by
  unfold ustep
  split
  · rfl
  · apply map_fst_map; intro e; split <;> rfl

theorem ustep_rnd (L : Nat) (x : P) (acc : List (Nat × Reservoirs K P) × Rnd K) (o : Nat × (Nat × List Nat)) :
    (ustep L x acc o).2.reals = acc.2.reals ∧ (ustep L x acc o).2.idxs = acc.2.idxs := by
  unfold ustep
  split
  · exact ⟨rfl, rfl⟩
  · exact updateFeature_rnd _ _ _ _ _ _

theorem ustep_good {L : Nat} {features : List Nat} {obs : List P} {x : P} (hx : x ∈ obs)
    {acc : List (Nat × Reservoirs K P) × Rnd K} (h : GoodTable L features obs acc.1) (o : Nat × (Nat × List Nat)) :
    GoodTable L features obs (ustep L x acc o).1 := by
  refine ⟨(ustep_keys L x acc o).trans h.keys, ?_⟩
  unfold ustep
  split
  · exact h.good
  · rename_i e he
    intro e' he'
    rw [List.mem_map] at he'
    obtain ⟨e0, he0, rfl⟩ := he'
    split
    · exact updateFeature_good (h.good e (find_some_mem he).1) _ _ x hx _
    · exact h.good e0 he0

/-- a step for another feature does not touch the entry of `f` -/
theorem ustep_find_ne (L : Nat) (x : P) (acc : List (Nat × Reservoirs K P) × Rnd K) (o : Nat × (Nat × List Nat))
    (f : Nat) (hne : o.1 ≠ f) :
    (ustep L x acc o).1.find? (fun e => e.1 == f) = acc.1.find? (fun e => e.1 == f) := by
  unfold ustep
  split
  · rfl
  · apply find_map_fix
    · intro e; split <;> rfl
    · intro e he
      have : ¬ e.1 = o.1 := by rw [he]; exact fun h => hne h.symm
      simp [this]

/-- the step for feature `o.1` replaces its entry by the result of `updateFeature` -/
theorem ustep_find_eq (L : Nat) (x : P) (acc : List (Nat × Reservoirs K P) × Rnd K) (o : Nat × (Nat × List Nat))
    (e : Nat × Reservoirs K P) (he : acc.1.find? (fun e => e.1 == o.1) = some e) :
    (ustep L x acc o).1.find? (fun e => e.1 == o.1) =
      some (o.1, (updateFeature L e.2 o.2.1 o.2.2 x acc.2).1) := by
  unfold ustep
  rw [he]
  show List.find? _ (List.map _ _) = _
  rw [find_map_fst _ _ (by intro e; split <;> rfl), he]
  have := (find_some_mem he).2
  simp [this]

theorem foldl_ustep_keys (L : Nat) (x : P) (oracle : UpdateOracle) (acc : List (Nat × Reservoirs K P) × Rnd K) :
    (oracle.foldl (ustep L x) acc).1.map Prod.fst = acc.1.map Prod.fst := by
  induction oracle generalizing acc with
  | nil => rfl
  | cons o os ih => rw [List.foldl_cons, ih, ustep_keys]

theorem foldl_ustep_rnd (L : Nat) (x : P) (oracle : UpdateOracle) (acc : List (Nat × Reservoirs K P) × Rnd K) :
    (oracle.foldl (ustep L x) acc).2.reals = acc.2.reals ∧ (oracle.foldl (ustep L x) acc).2.idxs = acc.2.idxs := by
  induction oracle generalizing acc with
  | nil => exact ⟨rfl, rfl⟩
  | cons o os ih =>
    rw [List.foldl_cons]
    exact ⟨(ih _).1.trans (ustep_rnd L x acc o).1, (ih _).2.trans (ustep_rnd L x acc o).2⟩

theorem foldl_ustep_good {L : Nat} {features : List Nat} {obs : List P} {x : P} (hx : x ∈ obs)
    (oracle : UpdateOracle) {acc : List (Nat × Reservoirs K P) × Rnd K} (h : GoodTable L features obs acc.1) :
    GoodTable L features obs (oracle.foldl (ustep L x) acc).1 := by
  induction oracle generalizing acc with
  | nil => exact h
  | cons o os ih => rw [List.foldl_cons]; exact ih (ustep_good hx h o)

theorem foldl_ustep_find_ne (L : Nat) (x : P) (oracle : UpdateOracle) (acc : List (Nat × Reservoirs K P) × Rnd K)
    (f : Nat) (hne : f ∉ oracle.map Prod.fst) :
    (oracle.foldl (ustep L x) acc).1.find? (fun e => e.1 == f) = acc.1.find? (fun e => e.1 == f) := by
  induction oracle generalizing acc with
  | nil => rfl
  | cons o os ih =>
    simp only [List.map_cons, List.mem_cons, not_or] at hne
    rw [List.foldl_cons, ih _ hne.2, ustep_find_ne _ _ _ _ _ (fun h => hne.1 h.symm)]

/-- `f` occurs exactly once in the oracle list, with answer `(leaf, allLeaves)` -/
def OccursOnce (oracle : UpdateOracle) (f leaf : Nat) (allLeaves : List Nat) : Prop :=
  (f, (leaf, allLeaves)) ∈ oracle ∧ (oracle.map Prod.fst).count f = 1

theorem OccursOnce.split {oracle : UpdateOracle} {f leaf : Nat} {allLeaves : List Nat}
    (h : OccursOnce oracle f leaf allLeaves) :
    ∃ pre post, oracle = pre ++ (f, (leaf, allLeaves)) :: post ∧ f ∉ pre.map Prod.fst ∧ f ∉ post.map Prod.fst := by
  obtain ⟨hm, hc⟩ := h
  obtain ⟨pre, post, rfl⟩ := List.append_of_mem hm
  refine ⟨pre, post, rfl, ?_, ?_⟩
  all_goals
    simp only [List.map_append, List.map_cons, List.count_append, List.count_cons_self] at hc
    apply List.count_eq_zero.1
    omega

/-- the effect of one `update` on the entry of a feature that occurs once in the oracle list: it is the result of
    `updateFeature` on the old entry, run with a random source that has the same draw functions -/
theorem update_feature_entry (L : Nat) (s : State K P) (x : P) (oracle : UpdateOracle) (rnd : Rnd K)
    (f leaf : Nat) (allLeaves : List Nat) (rs : Reservoirs K P)
    (hocc : OccursOnce oracle f leaf allLeaves) (hrs : featureRes s f = some rs) :
    ∃ rnd1 : Rnd K, rnd1.reals = rnd.reals ∧ rnd1.idxs = rnd.idxs ∧
      featureRes (update L s x oracle rnd).1 f = some (updateFeature L rs leaf allLeaves x rnd1).1 := by
  obtain ⟨pre, post, rfl, hpre, hpost⟩ := hocc.split
  refine ⟨(pre.foldl (ustep L x) (s.reservoirs, rnd)).2, (foldl_ustep_rnd L x pre _).1, (foldl_ustep_rnd L x pre _).2, ?_⟩
  unfold featureRes at hrs ⊢
  rw [Option.map_eq_some_iff] at hrs
  obtain ⟨e, he, rfl⟩ := hrs
  rw [update_eq]
  rw [List.foldl_append, List.foldl_cons, foldl_ustep_find_ne _ _ _ _ _ hpost]
  have hfind : (pre.foldl (ustep L x) (s.reservoirs, rnd)).1.find? (fun e => e.1 == f) = some e := by
    rw [foldl_ustep_find_ne _ _ _ _ _ hpre]; exact he
  rw [ustep_find_eq L x _ (f, (leaf, allLeaves)) e hfind]
  rfl

/-! runs -/

/-- left fold of `update` over a list of (data point, oracle answers) from the empty storage -/
def run (L : Nat) (features : List Nat) (steps : List (P × UpdateOracle)) (rnd : Rnd K) : State K P × Rnd K :=
  steps.foldl (fun sr st => update L sr.1 st.1 st.2 sr.2) (init features, rnd)

theorem run_nil (L : Nat) (features : List Nat) (rnd : Rnd K) :
    run (P := P) L features [] rnd = (init features, rnd) := rfl

theorem run_snoc (L : Nat) (features : List Nat) (steps : List (P × UpdateOracle)) (st : P × UpdateOracle) (rnd : Rnd K) :
    run L features (steps ++ [st]) rnd =
      update L (run L features steps rnd).1 st.1 st.2 (run L features steps rnd).2 := by
  simp [run, List.foldl_append]

theorem update_seen (L : Nat) (s : State K P) (x : P) (oracle : UpdateOracle) (rnd : Rnd K) :
    (update L s x oracle rnd).1.seen = s.seen + 1 := rfl

theorem update_rnd (L : Nat) (s : State K P) (x : P) (oracle : UpdateOracle) (rnd : Rnd K) :
    (update L s x oracle rnd).2.reals = rnd.reals ∧ (update L s x oracle rnd).2.idxs = rnd.idxs := by
  rw [update_eq]; exact foldl_ustep_rnd L x oracle _

theorem update_good {L : Nat} {features : List Nat} {obs : List P} {s : State K P}
    (h : GoodTable L features obs s.reservoirs) (x : P) (oracle : UpdateOracle) (rnd : Rnd K) :
    GoodTable L features (obs ++ [x]) (update L s x oracle rnd).1.reservoirs := by
  rw [update_eq]
  apply foldl_ustep_good (by simp)
  exact ⟨h.keys, fun e he => (h.good e he).mono (by intro p hp; simp [hp])⟩

theorem init_good (L : Nat) (features : List Nat) :
    GoodTable (K := K) (P := P) L features [] (init (K := K) (P := P) features).reservoirs := by
  refine ⟨?_, ?_⟩
  · simp [init, Function.comp_def]
  · intro e he
    simp only [init, List.mem_map] at he
    obtain ⟨f, _, rfl⟩ := he
    exact GoodRs.nil L []

theorem run_good (L : Nat) (features : List Nat) (steps : List (P × UpdateOracle)) (rnd : Rnd K) :
    GoodTable L features (steps.map Prod.fst) (run L features steps rnd).1.reservoirs := by
  induction steps using List.reverseRecOn with
  | nil => exact init_good L features
  | append_singleton steps st ih =>
    rw [run_snoc, List.map_append]
    exact update_good ih st.1 st.2 _

theorem run_seen (L : Nat) (features : List Nat) (steps : List (P × UpdateOracle)) (rnd : Rnd K) :
    (run L features steps rnd).1.seen = steps.length := by
  induction steps using List.reverseRecOn with
  | nil => rfl
  | append_singleton steps st ih => rw [run_snoc, update_seen, ih]; simp

theorem run_rnd (L : Nat) (features : List Nat) (steps : List (P × UpdateOracle)) (rnd : Rnd K) :
    (run L features steps rnd).2.reals = rnd.reals ∧ (run L features steps rnd).2.idxs = rnd.idxs := by
  induction steps using List.reverseRecOn with
  | nil => exact ⟨rfl, rfl⟩
  | append_singleton steps st ih =>
    rw [run_snoc]
    exact ⟨(update_rnd _ _ _ _ _).1.trans ih.1, (update_rnd _ _ _ _ _).2.trans ih.2⟩

/-- `imputeValue` through the lookup `leafRes` -/
theorem imputeValue_eq {V : Type} (s : State K (ℕ → V)) (f leaf pick : ℕ) (fallback : V) :
    imputeValue s f leaf pick fallback =
      match leafRes s f leaf with
      | none => fallback
      | some r => match r.storage_x[pick]? with
        | some p => p f
        | none => fallback := by
  unfold imputeValue leafRes featureRes
  cases s.reservoirs.find? (fun e => e.1 == f) with
  | none => rfl
  | some e => simp only [Option.map_some, Option.bind_some]; rfl

end Update

end Ixai.Tree
