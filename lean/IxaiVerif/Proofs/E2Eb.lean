/-
  Helpers for `Props/E2Eb.lean`: a stream of effectful `explain_one` calls with caught failures IS the pure stream of
  its successful calls.

   * `pfiFeaturesM_ok_inv`, `pfiComputeM_ok_inv`, `pfiExplainM_ok_pure`: a successful effectful `explain_one` of
     IncrementalPFI is the pure `pfiStep` for the imputer function made of the answers the imputer computation gave
     during this run (the PFI analogue of `E2E.sageExplainM_ok_pure`);
   * `succCalls`: the successful calls of a stream with caught failures, in order, each with the world it started in;
   * `runFrom`: the fold of a pure step whose `first` flag is given for the head of the list and `false` afterwards;
   * `stream_fold`: for failure-atomic calls whose successful runs are pure steps, the estimates after the stream are
     `runFrom` over exactly the successful calls.
-/
import IxaiVerif.Proofs.E2E

set_option linter.unusedSectionVars false
set_option linter.unusedVariables false

namespace Ixai.E2Eb
open Ixai Ixai.E2E

/-! ### one successful `explain_one` of IncrementalPFI is a pure step -/
section Pfi
variable {K : Type} [Field K] [CharZero K] [RealOps K] [DecidableEq K] {V Y : Type}
variable {O : Oracles K V Y} {model : Inst V → Dict K} {loss : Y → Dict K → K}
variable {imputeM : List Nat → Nat → M K (List (Dict K))} {n : Nat} {x : Inst V} {y : Y}

/-- the losses of a list of predictions: a successful run returns `loss y` of each -/
theorem lossesM_ok_inv (hO : OAnswers O model loss) :
    ∀ (preds : List (Dict K)) (w w' : World K) (ls : List K),
      M.mapM' (callLoss O y) preds w = (.ok ls, w') → ls = preds.map (loss y)
  | [], w, w', ls, h => by
    have h' : (M.pure [] : M K (List K)) w = (.ok ls, w') := h
    obtain ⟨rfl, -⟩ := pure_ok_inv h'; rfl
  | p :: ps, w, w', ls, h => by
    have h' : M.bind (callLoss O y p) (fun b => M.bind (M.mapM' (callLoss O y) ps)
        (fun bs => M.pure (b :: bs))) w = (.ok ls, w') := h
    obtain ⟨b, w1, h1, h'⟩ := bind_ok_inv h'
    obtain ⟨bs, w2, h2, h'⟩ := bind_ok_inv h'
    obtain ⟨rfl, -⟩ := pure_ok_inv h'
    rw [callLoss_ok_inv hO h1, lossesM_ok_inv hO ps w1 w2 bs h2]; rfl

/-- the per-feature loop of PFI over a duplicate-free list of features: a successful run returns the pure
    contributions for an imputer function `imp` made of the answers received during the run -/
theorem pfiFeaturesM_ok_inv (hO : OAnswers O model loss) (imp0 : List Nat → List (Dict K)) (origLoss : K) :
    ∀ (l : List Nat) (w w' : World K) (cs : Dict K), l.Nodup →
      M.mapM' (fun f => M.bind (imputeM [f] n) (fun preds =>
          M.bind (M.mapM' (callLoss O y) preds) (fun losses =>
          M.pure (f, meanK losses - origLoss)))) l w = (.ok cs, w') →
      ∃ imp : List Nat → List (Dict K),
        cs = l.map (fun f => (f, meanK ((imp [f]).map (loss y)) - origLoss)) ∧
        (∀ S, (∃ w0, (imputeM S n w0).1 = .ok (imp S)) ∨ imp S = imp0 S) ∧
        (∀ f ∈ l, ∃ w0, (imputeM [f] n w0).1 = .ok (imp [f]))
  | [], w, w', cs, _, h => by
    have h' : (M.pure [] : M K (Dict K)) w = (.ok cs, w') := h
    obtain ⟨rfl, -⟩ := pure_ok_inv h'
    exact ⟨imp0, rfl, fun S => .inr rfl, fun f hf => by cases hf⟩
  | f :: rest, w, w', cs, hnd, h => by
    have hnd' := List.nodup_cons.mp hnd
    have h' : M.bind (M.bind (imputeM [f] n) (fun preds =>
          M.bind (M.mapM' (callLoss O y) preds) (fun losses =>
          M.pure (f, meanK losses - origLoss)))) (fun b => M.bind
        (M.mapM' (fun f => M.bind (imputeM [f] n) (fun preds =>
          M.bind (M.mapM' (callLoss O y) preds) (fun losses =>
          M.pure (f, meanK losses - origLoss)))) rest) (fun bs => M.pure (b :: bs))) w = (.ok cs, w') := h
    obtain ⟨b, w3, hb, h'⟩ := bind_ok_inv h'
    obtain ⟨preds, w1, h1, hb⟩ := bind_ok_inv hb
    obtain ⟨losses, w2, h2, hb⟩ := bind_ok_inv hb
    obtain ⟨rfl, -⟩ := pure_ok_inv hb
    obtain ⟨tl, w4, h4, h'⟩ := bind_ok_inv h'
    obtain ⟨rfl, -⟩ := pure_ok_inv h'
    have hl : losses = preds.map (loss y) := lossesM_ok_inv hO preds w1 w2 losses h2
    obtain ⟨imp', rfl, hans, hfeat⟩ := pfiFeaturesM_ok_inv hO imp0 origLoss rest w3 w4 tl hnd'.2 h4
    refine ⟨fun S => if S = [f] then preds else imp' S, ?_, ?_, ?_⟩
    · simp only [List.map_cons, if_true]
      rw [← hl]
      congr 1
      apply List.map_congr_left
      intro g hg
      have : [g] ≠ [f] := by
        intro e; cases e; exact hnd'.1 hg
      simp only [this, if_false]
    · intro S
      by_cases hS : S = [f]
      · subst hS; left; refine ⟨w, ?_⟩; simp only [if_true]; rw [h1]
      · simp only [hS, if_false]; exact hans S
    · intro g hg
      rcases List.mem_cons.mp hg with rfl | hg
      · refine ⟨w, ?_⟩; simp only [if_true]; rw [h1]
      · have : [g] ≠ [f] := by
          intro e; cases e; exact hnd'.1 hg
        simp only [this, if_false]; exact hfeat g hg

theorem pfiComputeM_ok_inv (hO : OAnswers O model loss) (imp0 : List Nat → List (Dict K))
    {names : List Nat} (hn : names.Nodup) {w0 w w' : World K} {c : Option (Dict K)}
    (h : pfiComputeM O names imputeM x y n w0 w = (.ok c, w')) :
    ∃ imp : List Nat → List (Dict K),
      (∀ S, (∃ w1, (imputeM S n w1).1 = .ok (imp S)) ∨ imp S = imp0 S) ∧
      (1 ≤ w0.seen → ∀ f ∈ names, ∃ w1, (imputeM [f] n w1).1 = .ok (imp [f])) ∧
      pfiCommit names c w0.est = pfiStep names model loss w0.est (decide (w0.seen = 0)) x y imp := by
  by_cases hs : w0.seen = 0
  · rw [pfiComputeM_zero hs] at h
    obtain ⟨rfl, -⟩ := pure_ok_inv h
    refine ⟨imp0, fun S => .inr rfl, fun h1 => by omega, ?_⟩
    simp [pfiStep, hs, pfiCommit]
  · rw [pfiComputeM_pos (by omega)] at h
    obtain ⟨orig, w1, h1, h⟩ := bind_ok_inv h
    obtain ⟨origLoss, w2, h2, h⟩ := bind_ok_inv h
    obtain ⟨cs, w3, h3, h⟩ := bind_ok_inv h
    obtain ⟨rfl, -⟩ := pure_ok_inv h
    have e1 : orig = model x := callModel_ok_inv hO h1
    subst e1
    have e2 : origLoss = loss y (model x) := callLoss_ok_inv hO h2
    subst e2
    obtain ⟨imp, rfl, hans, hfeat⟩ := pfiFeaturesM_ok_inv hO imp0 _ names w2 w3 cs hn h3
    refine ⟨imp, hans, fun _ => hfeat, ?_⟩
    simp [pfiStep, hs, pfiCommit, pfiContribs]

/-- A successful `explain_one` of IncrementalPFI in the effectful layer, for callbacks that are deterministic where
    they answer (and fail wherever they like; any storage oracle) and any framed imputer computation, IS the pure
    `pfiStep` for the imputer function `imp` made of the answers the imputer computation gave during this run:
    every `imp S` is an answer of `imputeM S n` (or `imp0 S`, for subsets that were not asked), and in a call that
    explains (`1 ≤ seen`) the answers for all single-feature subsets `[f]`, `f ∈ names`, are among them.
    `names.Nodup` is needed: with a repeated feature the effectful loop asks the imputer twice for `[f]` and may get
    two different answers, which no imputer FUNCTION models. -/
theorem pfiExplainM_ok_pure (hO : OAnswers O model loss) (imp0 : List Nat → List (Dict K))
    {names : List Nat} (hn : names.Nodup) (hframe : ∀ S n, Frame (imputeM S n))
    (upd : Bool) (w : World K) (d : Dict K)
    (h : (pfiExplainM O names imputeM x y n upd w).1 = .ok d) :
    ∃ imp : List Nat → List (Dict K),
      (∀ S, (∃ w1, (imputeM S n w1).1 = .ok (imp S)) ∨ imp S = imp0 S) ∧
      (1 ≤ w.seen → ∀ f ∈ names, ∃ w1, (imputeM [f] n w1).1 = .ok (imp [f])) ∧
      (pfiExplainM O names imputeM x y n upd w).2.est =
        pfiStep names model loss w.est (decide (w.seen = 0)) x y imp ∧
      (pfiExplainM O names imputeM x y n upd w).2.seen = w.seen + 1 := by
  rw [pfiExplainM_eq] at h ⊢
  obtain ⟨c, w1, hA, he, hs⟩ := explainShape_ok_inv (Frame.pfiComputeM hframe w) (Frame.storageM _) h
  obtain ⟨imp, hans, hfeat, hc⟩ := pfiComputeM_ok_inv hO imp0 hn hA
  exact ⟨imp, hans, hfeat, he.trans hc, hs⟩

end Pfi

/-! ### the successful calls of a stream, and the pure fold over them -/
section Stream
variable {K : Type} {α β S : Type}

/-- the successful calls of `for o in obs: try: f(o) except: pass` started in `w`: in order, each with the world it
    was started in -/
def succCalls (f : β → M K α) : List β → World K → List (β × World K)
  | [], _ => []
  | o :: os, w => if isOk (f o w).1 then (o, w) :: succCalls f os (f o w).2 else succCalls f os (f o w).2

theorem succCalls_ok {f : β → M K α} {o : β} {os : List β} {w : World K} {a : α} (h : (f o w).1 = .ok a) :
    succCalls f (o :: os) w = (o, w) :: succCalls f os (f o w).2 := by
  simp [succCalls, h, isOk]

theorem succCalls_err {f : β → M K α} {o : β} {os : List β} {w : World K} {e : Err} (h : (f o w).1 = .error e) :
    succCalls f (o :: os) w = succCalls f os (f o w).2 := by
  simp [succCalls, h, isOk]

/-- as many as there are `.ok` results -/
theorem succCalls_length (f : β → M K α) (obs : List β) (w : World K) :
    (succCalls f obs w).length = (runResults (obs.map f) w).countP isOk := by
  induction obs generalizing w with
  | nil => rfl
  | cons o os ih =>
    rcases hr : (f o w).1 with e | a
    · rw [succCalls_err hr]
      simp only [List.map_cons, runResults, hr, List.countP_cons, isOk, ih]; simp
    · rw [succCalls_ok hr]
      simp only [List.map_cons, runResults, hr, List.countP_cons, isOk, ih, List.length_cons]; simp

/-- the successful calls, without the worlds, are a sublist of the stream -/
theorem succCalls_sublist (f : β → M K α) (obs : List β) (w : World K) :
    ((succCalls f obs w).map Prod.fst).Sublist obs := by
  induction obs generalizing w with
  | nil => exact List.Sublist.slnil
  | cons o os ih =>
    rcases hr : (f o w).1 with e | a
    · rw [succCalls_err hr]; exact (ih _).cons _
    · rw [succCalls_ok hr]; exact (ih _).cons_cons _

/-- for calls that count one sample exactly when they succeed: the `i`-th successful call starts with
    `seen = w.seen + i` -/
theorem succCalls_seen (f : β → M K α) (obs : List β) (hseen : ∀ o ∈ obs, SeenStep (f o)) (w : World K) :
    (succCalls f obs w).map (fun ow => ow.2.seen) = List.range' w.seen (succCalls f obs w).length := by
  induction obs generalizing w with
  | nil => rfl
  | cons o os ih =>
    have h1 := hseen o List.mem_cons_self w
    have ih' := ih (fun o' ho' => hseen o' (List.mem_cons_of_mem _ ho')) (f o w).2
    rcases hr : (f o w).1 with e | a
    · rw [succCalls_err hr]
      rw [hr] at h1; simp only [isOk] at h1
      rw [ih', h1]; simp
    · rw [succCalls_ok hr]
      rw [hr] at h1; simp only [isOk] at h1
      simp only [List.map_cons, List.length_cons, List.range'_succ]
      rw [ih', h1]; simp

/-- fold of a pure step whose `first` flag is `first` for the head of the list and `false` afterwards -/
def runFrom (step : Bool → Est K → S → Est K) (first : Bool) (e : Est K) : List S → Est K
  | [] => e
  | s :: rest => rest.foldl (step false) (step first e s)

theorem runFrom_false (step : Bool → Est K → S → Est K) (e : Est K) (l : List S) :
    runFrom step false e l = l.foldl (step false) e := by
  cases l <;> rfl

theorem runFrom_cons (step : Bool → Est K → S → Est K) (first : Bool) (e : Est K) (s : S) (l : List S) :
    runFrom step first e (s :: l) = runFrom step false (step first e s) l := by
  rw [runFrom_false]; rfl

/-- **the stream lemma.** Calls that are failure-atomic (`hatomic`) and whose successful runs are a pure step for
    some `s` related to the call and its starting world by `R`, with `first` flag `seen = 0`, counting one sample
    (`hok`): the estimates after the stream with caught failures are the pure fold over exactly the successful
    calls, in order; the `first` flag is `true` for the first successful call iff the stream started with
    `seen = 0`. -/
theorem stream_fold (f : β → M K α) (step : Bool → Est K → S → Est K) (R : β → World K → S → Prop)
    (obs : List β)
    (hatomic : ∀ o ∈ obs, ∀ w e, (f o w).1 = .error e → (f o w).2.est = w.est ∧ (f o w).2.seen = w.seen)
    (hok : ∀ o ∈ obs, ∀ w a, (f o w).1 = .ok a →
      ∃ s, R o w s ∧ (f o w).2.est = step (decide (w.seen = 0)) w.est s ∧ (f o w).2.seen = w.seen + 1)
    (w : World K) :
    ∃ steps : List S, List.Forall₂ (fun s ow => R ow.1 ow.2 s) steps (succCalls f obs w) ∧
      (runWorld (obs.map f) w).est = runFrom step (decide (w.seen = 0)) w.est steps := by
  induction obs generalizing w with
  | nil => exact ⟨[], List.Forall₂.nil, rfl⟩
  | cons o os ih =>
    obtain ⟨steps, hm, hfin⟩ := ih (fun o' ho' => hatomic o' (List.mem_cons_of_mem _ ho'))
      (fun o' ho' => hok o' (List.mem_cons_of_mem _ ho')) (f o w).2
    rcases hr : (f o w).1 with e | a
    · obtain ⟨he, hs⟩ := hatomic o List.mem_cons_self w e hr
      refine ⟨steps, ?_, ?_⟩
      · rw [succCalls_err hr]; exact hm
      · simp only [List.map_cons, runWorld]
        rw [hfin, he, hs]
    · obtain ⟨s, hR, he, hs⟩ := hok o List.mem_cons_self w a hr
      refine ⟨s :: steps, ?_, ?_⟩
      · rw [succCalls_ok hr]; exact List.Forall₂.cons hR hm
      · simp only [List.map_cons, runWorld]
        rw [hfin, runFrom_cons, he, hs]
        simp

/-! ### `Forall₂` helpers -/

theorem forall₂_exists_right {A B : Type} {R : A → B → Prop} {l₁ : List A} {l₂ : List B}
    (h : List.Forall₂ R l₁ l₂) : ∀ a ∈ l₁, ∃ b ∈ l₂, R a b := by
  induction h with
  | nil => intro a ha; cases ha
  | cons hR _ ih =>
    intro a ha
    rcases List.mem_cons.mp ha with rfl | ha
    · exact ⟨_, List.mem_cons_self, hR⟩
    · obtain ⟨b, hb, hr⟩ := ih a ha
      exact ⟨b, List.mem_cons_of_mem _ hb, hr⟩

theorem forall₂_imp_of_right {A B : Type} {R Q : A → B → Prop} {P : B → Prop} {l₁ : List A} {l₂ : List B}
    (h : List.Forall₂ R l₁ l₂) (hP : ∀ b ∈ l₂, P b) (hQ : ∀ a b, R a b → P b → Q a b) :
    List.Forall₂ Q l₁ l₂ := by
  induction h with
  | nil => exact List.Forall₂.nil
  | cons hR _ ih =>
    exact List.Forall₂.cons (hQ _ _ hR (hP _ List.mem_cons_self)) (ih (fun b hb => hP b (List.mem_cons_of_mem _ hb)))

/-- the steps matched with all successful calls but the first: these calls started with `seen ≥ 1` -/
theorem forall₂_tail_of_seen {R Q : S → β × World K → Prop} {steps : List S} {l : List (β × World K)} {s0 : Nat}
    (h : List.Forall₂ R steps l) (hseen : l.map (fun ow => ow.2.seen) = List.range' s0 l.length)
    (hQ : ∀ s ow, R s ow → 1 ≤ ow.2.seen → Q s ow) : List.Forall₂ Q steps.tail l.tail := by
  cases h with
  | nil => exact List.Forall₂.nil
  | @cons s ow ss l' hR hrest =>
    simp only [List.tail_cons]
    simp only [List.map_cons, List.length_cons, List.range'_succ, List.cons.injEq] at hseen
    refine forall₂_imp_of_right (P := fun ow => 1 ≤ ow.2.seen) hrest ?_ hQ
    intro b hb
    have : b.2.seen ∈ List.range' (s0 + 1) l'.length := by
      rw [← hseen.2]; exact List.mem_map.mpr ⟨b, hb, rfl⟩
    have := (List.mem_range'_1.mp this).1
    omega

end Stream

end Ixai.E2Eb
