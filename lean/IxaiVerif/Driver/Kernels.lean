/- driver operations over the generated kernels (translation validation for trackers and storages) -/
import IxaiVerif.Driver.Proto
import IxaiVerif.Gen.WelfordTracker
import IxaiVerif.Gen.ExponentialSmoothingTracker
import IxaiVerif.Gen.BatchStorage
import IxaiVerif.Gen.IntervalStorage
import IxaiVerif.Gen.SequenceStorage
import IxaiVerif.Gen.GeometricReservoirStorage
import IxaiVerif.Gen.UniformReservoirStorage

namespace Ixai.Driver
open Lean Ixai.Gen

/-- exact stand-ins for exp/log/floor/sqrt, mirrored by the harness' fake `np` namespace; the theorems treat
    `RealOps` as uninterpreted, so any interpretation is a legitimate test of the translation -/
instance fakeRealOps : RealOps Rat where
  exp x := 1 / (1 - x)
  log x := x - 1
  floor x := (x.floor : Rat)
  sqrt x := x

def opWelford (j : Json) : Except String Json := do
  let vs ← getRats j "vs"
  let s := vs.foldl WelfordTracker.update (WelfordTracker.init : WelfordTracker Rat)
  pure <| Json.mkObj [("N", jNat s.N), ("mean", jRat s.mean), ("ss", jRat s.sum_squares),
    ("var", jRat s.var), ("get", jRat s.tracked_value)]

def opES (j : Json) : Except String Json := do
  let vs ← getRats j "vs"
  let a ← getRat j "alpha"
  let s := vs.foldl ExponentialSmoothingTracker.update (ExponentialSmoothingTracker.init a)
  pure <| Json.mkObj [("N", jNat s.N), ("get", jRat s.tracked_value)]

/-- arrivals are tagged: the i-th update carries x = i and y = 1000 + i -/
def opStorage (j : Json) : Except String Json := do
  let kind ← getStr j "kind"
  let n ← getNat j "n"
  let targets ← getBool j "targets"
  let arrivals := (List.range n).map (fun i => (i, 1000 + i))
  match kind with
  | "batch" =>
    let s := arrivals.foldl (fun s (a : Nat × Nat) => BatchStorage.update s a.1 a.2) (BatchStorage.init targets)
    pure <| Json.mkObj [("x", jNats s.storage_x), ("y", jNats s.storage_y)]
  | "interval" =>
    let size ← getNat j "size"
    let s := arrivals.foldl (fun s (a : Nat × Nat) => IntervalStorage.update s a.1 a.2) (IntervalStorage.init size targets)
    pure <| Json.mkObj [("x", jNats s.storage_x), ("y", jNats s.storage_y)]
  | "sequence" =>
    let s := arrivals.foldl (fun s (a : Nat × Nat) => SequenceStorage.update s a.1 a.2) (SequenceStorage.init targets)
    pure <| Json.mkObj [("x", jNats s.storage_x), ("y", jNats s.storage_y)]
  | "geom" =>
    let size ← getNat j "size"
    let p ← getOptRat j "p"
    let rnd := mkRnd (← getRats j "reals") (← getNats j "idxs")
    let s0 : GeometricReservoirStorage Rat Nat Nat := GeometricReservoirStorage.init size p targets
    let (s, rnd) := arrivals.foldl (fun (sr : GeometricReservoirStorage Rat Nat Nat × Rnd Rat) (a : Nat × Nat) =>
      GeometricReservoirStorage.update sr.1 a.1 a.2 sr.2) (s0, rnd)
    pure <| Json.mkObj [("x", jNats s.storage_x), ("y", jNats s.storage_y), ("p", jRat s.constant_probability),
      ("rpos", jNat rnd.rpos), ("ipos", jNat rnd.ipos)]
  | "uniform" =>
    let size ← getNat j "size"
    let rnd := mkRnd (← getRats j "reals") (← getNats j "idxs")
    let (s0, rnd) := (UniformReservoirStorage.init size targets rnd : UniformReservoirStorage Rat Nat Nat × Rnd Rat)
    let (s, rnd) := arrivals.foldl (fun (sr : UniformReservoirStorage Rat Nat Nat × Rnd Rat) (a : Nat × Nat) =>
      UniformReservoirStorage.update sr.1 a.1 a.2 sr.2) (s0, rnd)
    pure <| Json.mkObj [("x", jNats s.storage_x), ("y", jNats s.storage_y), ("wt", jRat s.algo_wt),
      ("counter", jRat s.algo_l_counter), ("seen", jNat s.stored_samples),
      ("rpos", jNat rnd.rpos), ("ipos", jNat rnd.ipos)]
  | k => .error s!"unknown storage kind {k}"

end Ixai.Driver

namespace Ixai.Driver
open Lean Ixai.Gen

/-! binary64 execution of the same generated kernels (each Lean `Float` operation rounds like Python's float):
    bit-for-bit comparison with the Python classes validates the operation ORDER of the translation (C20) -/
instance : NatCast Float := ⟨Float.ofNat⟩
instance floatRealOps : RealOps Float where
  exp := Float.exp
  log := Float.log
  floor := Float.floor
  sqrt := Float.sqrt

def asBits (j : Json) : Except String Float :=
  match j with
  | Json.str s => match s.toNat? with
    | some n => .ok (Float.ofBits n.toUInt64)
    | none => .error s!"bad float bits {s}"
  | _ => .error "float bits (decimal string) expected"

def getFloats (j : Json) (k : String) : Except String (List Float) := do
  (← getArr j k).mapM asBits

def jBits (f : Float) : Json := Json.str (toString f.toBits.toNat)

def opWelfordF (j : Json) : Except String Json := do
  let vs ← getFloats j "vs"
  let s := vs.foldl WelfordTracker.update (WelfordTracker.init : WelfordTracker Float)
  pure <| Json.mkObj [("N", jNat s.N), ("mean", jBits s.mean), ("ss", jBits s.sum_squares), ("var", jBits s.var),
    ("std", jBits s.std)]

def opESF (j : Json) : Except String Json := do
  let vs ← getFloats j "vs"
  let a ← asBits (← j.getObjVal? "alpha")
  let s := vs.foldl ExponentialSmoothingTracker.update (ExponentialSmoothingTracker.init a)
  pure <| Json.mkObj [("N", jNat s.N), ("get", jBits s.tracked_value)]

end Ixai.Driver
