import IxaiVerif.Driver.Kernels
import IxaiVerif.Driver.Explain

namespace Ixai.Driver
open Lean

def dispatch (j : Json) : Except String Json := do
  let op ← getStr j "op"
  match op with
  | "welford" => opWelford j
  | "es" => opES j
  | "storage" => opStorage j
  | "welford_f" => opWelfordF j
  | "es_f" => opESF j
  | "mv" => opMV j
  | "sw" => opSW j
  | "normalize" => opNormalize j
  | "confbound_f" => opConfBoundF j
  | "riverloss" => opRiverLoss j
  | "pfi_run" => opSageRun false j
  | "sage_run" => opSageRun true j
  | "batch_run" => opBatchRun j
  | "interval_run" => opIntervalRun j
  | "pfi_eff" => opEffRun false j
  | "sage_eff" => opEffRun true j
  | "impute_inputs" => opImputeInputs j
  | "wrapper" => opWrapper j
  | "river_wrap" => opRiverWrap j
  | "validate" => opValidate j
  | "tree_run" => opTreeRun j
  | "ping" => pure (Json.mkObj [("pong", Json.bool true)])
  | o => .error s!"unknown op {o}"

def handleLine (line : String) : String :=
  match Json.parse line with
  | .error e => (Json.mkObj [("error", Json.str s!"parse: {e}")]).compress
  | .ok j =>
    match dispatch j with
    | .ok r => r.compress
    | .error e => (Json.mkObj [("error", Json.str e)]).compress

partial def loop (h : IO.FS.Stream) (out : IO.FS.Stream) : IO Unit := do
  let line ← h.getLine
  if line.isEmpty then return ()
  let t := line.trimAscii.toString
  if !t.isEmpty then
    out.putStrLn (handleLine t)
  loop h out

def main : IO Unit := do
  let out ← IO.getStdout
  loop (← IO.getStdin) out
  out.flush

end Ixai.Driver
