/- driver operations over the hand-written models: MultiValue, sliding window, normalisation, explainers (pure and
   effectful layer).  Callbacks are finite tables recorded from the run of the real implementation; a query that is
   not in its table is reported as `MISSING-ORACLE` (and counts as a disagreement). -/
import IxaiVerif.Driver.Kernels
import IxaiVerif.Model.Explainer
import IxaiVerif.Model.Effect
import IxaiVerif.Model.SlidingWindow
import IxaiVerif.Model.RiverLoss
import IxaiVerif.Model.Wrapper
import IxaiVerif.Model.Tree

namespace Ixai.Driver
open Lean Ixai

def asDict (j : Json) : Except String (Dict Rat) := do
  match j with
  | Json.arr a => a.toList.mapM (fun e => do
      match e with
      | Json.arr #[k, v] => pure ((← asNat k), (← asRat v))
      | _ => .error "dict entry [key, value] expected")
  | _ => .error "dict (array of pairs) expected"

def getDict (j : Json) (k : String) : Except String (Dict Rat) := do asDict (← j.getObjVal? k)

def jDict (d : Dict Rat) : Json := Json.arr (d.map (fun kv => Json.arr #[jNat kv.1, jRat kv.2])).toArray

def sortDict (d : Dict Rat) : Dict Rat := (d.toArray.qsort (fun a b => a.1 < b.1)).toList

def optAlpha (j : Json) : Except String (Option Rat) := getOptRat j "alpha"

/-! MultiValueTracker -/
def jTrackerStates (m : MV Rat) : Json :=
  Json.mkObj [("get", jDict (sortDict m.get)), ("norm", jDict (sortDict m.getNormalized)), ("N", jNat m.N)]

def opMV (j : Json) : Except String Json := do
  let alpha ← optAlpha j
  let ups ← (← getArr j "updates").mapM asDict
  let (_, outs) := ups.foldl (fun (acc : MV Rat × List Json) u =>
    let m := acc.1.update u
    (m, acc.2 ++ [jTrackerStates m])) (MV.init (Tr.init alpha), [])
  pure (Json.mkObj [("steps", Json.arr outs.toArray)])

/-! SlidingWindowTracker -/
def opSW (j : Json) : Except String Json := do
  let k ← getNat j "k"
  let vs ← getRats j "vs"
  let (_, outs) := vs.foldl (fun (acc : SW Rat × List Json) v =>
    let s := acc.1.update v
    (s, acc.2 ++ [Json.mkObj [("mean", jRat s.mean), ("var", jRat s.var), ("count", jNat s.present.length)]]))
    ((SW.init k : SW Rat), [])
  pure (Json.mkObj [("steps", Json.arr outs.toArray)])

/-! normalisation -/
def opNormalize (j : Json) : Except String Json := do
  let vals ← getDict j "vals"
  let delta ← getBool j "delta"
  pure (Json.mkObj [("out", jDict (normalize vals delta))])

def opConfBoundF (j : Json) : Except String Json := do
  let a ← asBits (← j.getObjVal? "alpha")
  let v ← asBits (← j.getObjVal? "variance")
  let d ← asBits (← j.getObjVal? "delta")
  let t ← getNat j "seen"
  pure (Json.mkObj [("bound", jBits (confBound a t v d))])

/-! river loss adapter over the running-mean metric with score |y - p| (MAE) or (y - p)^2 (MSE) -/
def opRiverLoss (j : Json) : Except String Json := do
  let sq ← getBool j "squared"
  let bib ← getBool j "bib"
  let calls ← (← getArr j "calls").mapM (fun e => do
    match e with
    | Json.arr #[y, p] => pure ((← asRat y), (← asRat p))
    | _ => .error "call [y, p] expected")
  let g : Rat × Rat → Rat := fun a => if sq then (a.1 - a.2) * (a.1 - a.2) else (if a.1 - a.2 < 0 then a.2 - a.1 else a.1 - a.2)
  let m := meanMetric g bib
  let (vals, st) := m.lossCalls m.fresh calls
  pure (Json.mkObj [("losses", jRats vals), ("final_get", jRat (m.get st)), ("final_n", jNat st.1)])

/-! explainers: tables -/
structure Tables where
  model : List (List Rat × Dict Rat)
  loss : List ((Rat × Dict Rat) × Rat)
  d : Nat

def instKey (d : Nat) (x : Inst Rat) : List Rat := (List.range d).map x
def listInst (l : List Rat) : Inst Rat := fun i => l.getD i 0

def asRatList (j : Json) : Except String (List Rat) :=
  match j with
  | Json.arr a => a.toList.mapM asRat
  | _ => .error "array of rationals expected"

def asNatList (j : Json) : Except String (List Nat) :=
  match j with
  | Json.arr a => a.toList.mapM asNat
  | _ => .error "array of naturals expected"

def getTables (j : Json) : Except String Tables := do
  let d ← getNat j "d"
  let model ← (← getArr j "model").mapM (fun e => do
    match e with
    | Json.arr #[x, o] => pure ((← asRatList x), (← asDict o))
    | _ => .error "model entry [x, out] expected")
  let loss ← (← getArr j "loss").mapM (fun e => do
    match e with
    | Json.arr #[y, p, v] => pure (((← asRat y), sortDict (← asDict p)), (← asRat v))
    | _ => .error "loss entry [y, pred, value] expected")
  pure { model := model, loss := loss, d := d }

/-- table lookups; a miss yields a sentinel that the harness recognises (`missing` counter is reported) -/
def Tables.modelFn (t : Tables) (miss : Dict Rat) (x : Inst Rat) : Dict Rat :=
  match t.model.find? (fun e => e.1 == instKey t.d x) with
  | some e => e.2
  | none => miss

def Tables.lossFn (t : Tables) (miss : Rat) (y : Rat) (p : Dict Rat) : Rat :=
  match t.loss.find? (fun e => e.1.1 == y && e.1.2 == sortDict p) with
  | some e => e.2
  | none => miss

def Tables.modelHas (t : Tables) (x : Inst Rat) : Bool := (t.model.find? (fun e => e.1 == instKey t.d x)).isSome
def Tables.lossHas (t : Tables) (y : Rat) (p : Dict Rat) : Bool :=
  (t.loss.find? (fun e => e.1.1 == y && e.1.2 == sortDict p)).isSome

/-- imputer behaviour of one step: table subset(sorted) ↦ predictions -/
def asImp (j : Json) : Except String (List Nat → List (Dict Rat)) := do
  match j with
  | Json.arr a =>
    let entries ← a.toList.mapM (fun e => do
      match e with
      | Json.arr #[s, ps] =>
        let s ← asNatList s
        let ps ← match ps with
          | Json.arr pa => pa.toList.mapM asDict
          | _ => .error "prediction list expected"
        pure ((s.toArray.qsort (· < ·)).toList, ps)
      | _ => .error "imp entry [subset, preds] expected")
    pure (fun S => match entries.find? (fun e => e.1 == (S.toArray.qsort (· < ·)).toList) with
      | some e => e.2
      | none => [[(999999, 0)]])
  | _ => .error "imp table expected"

def jEst (e : Est Rat) (names : List Nat) (lbb : Bool) : Json :=
  Json.mkObj [("importance", jDict (sortDict e.importanceValues)), ("variance", jDict (sortDict e.variances)),
    ("marginal_loss", jRat (e.marginalLoss lbb)), ("model_loss", jRat (e.modelLossV lbb)),
    ("explained_loss", jRat (e.explainedLoss lbb)), ("marginal_prediction", jDict (sortDict e.margPredCur)),
    ("sum_importance", jRat (lsum (names.map (fun f => e.importance.getKey f))))]

/-- sentinel values for table misses: chosen so that they are visible in any output they reach -/
def missDict : Dict Rat := [(999998, 123456789)]
def missLoss : Rat := 987654321

def opSageRun (sage : Bool) (j : Json) : Except String Json := do
  let alpha ← optAlpha j
  let names ← getNats j "names"
  let lbb ← (getBool j "lbb" <|> pure false)
  let t ← getTables j
  let model := t.modelFn missDict
  let loss := t.lossFn missLoss
  let steps ← getArr j "steps"
  let mut e : Est Rat := Est.init alpha
  let mut outs : List Json := []
  let mut first := true
  for s in steps do
    let x := listInst (← getRats s "x")
    let y ← getRat s "y"
    let imp ← asImp (← s.getObjVal? "imp")
    if sage then
      let perm ← getNats s "perm"
      e := sageStep names model loss e first x y perm imp
    else
      e := pfiStep names model loss e first x y imp
    first := false
    outs := outs ++ [jEst e names lbb]
  pure (Json.mkObj [("steps", Json.arr outs.toArray)])

def opBatchRun (j : Json) : Except String Json := do
  let names ← getNats j "names"
  let t ← getTables j
  let model := t.modelFn missDict
  let loss := t.lossFn missLoss
  let obs ← getArr j "data"
  let mut data : List (Inst Rat × Rat) := []
  let mut perms : List (List Nat) := []
  let mut imps : List (List Nat → List (Dict Rat)) := []
  for s in obs do
    data := data ++ [(listInst (← getRats s "x"), (← getRat s "y"))]
    perms := perms ++ [(← getNats s "perm")]
    imps := imps ++ [(← asImp (← s.getObjVal? "imp"))]
  pure (Json.mkObj [("values", jDict (sortDict (batchSage names model loss data perms imps)))])

def opIntervalRun (j : Json) : Except String Json := do
  let names ← getNats j "names"
  let t ← getTables j
  let model := t.modelFn missDict
  let loss := t.lossFn missLoss
  let il ← getNat j "interval_length"
  let sl ← getNat j "storage_length"
  let calls ← getArr j "calls"
  let mut st : IntervalState Rat Rat Rat := IntervalState.init names sl
  let mut outs : List Json := []
  for c in calls do
    let x := listInst (← getRats c "x")
    let y ← getRat c "y"
    let upd ← getBool c "update_storage"
    let force ← getBool c "force"
    let obs ← (getArr c "window" <|> pure [])
    let mut perms : List (List Nat) := []
    let mut imps : List (List Nat → List (Dict Rat)) := []
    for s in obs do
      perms := perms ++ [(← getNats s "perm")]
      imps := imps ++ [(← asImp (← s.getObjVal? "imp"))]
    let (st', rec) := intervalStep names model loss il st x y upd force perms imps
    st := st'
    let win := st.storage.storage_x.map (fun xi => jRats (instKey t.d xi))
    outs := outs ++ [Json.mkObj [("values", jDict (sortDict st.values)), ("seen", jNat st.seen),
      ("recomputed", Json.bool rec), ("window", Json.arr win.toArray)]]
  pure (Json.mkObj [("steps", Json.arr outs.toArray)])

/-! effectful layer: fault injection -/
def evName : Ev → String
  | .model => "M" | .loss => "L" | .impute _ _ => "I" | .storage => "S"

def opEffRun (sage : Bool) (j : Json) : Except String Json := do
  let alpha ← optAlpha j
  let names ← getNats j "names"
  let t ← getTables j
  let n ← getNat j "n"
  -- faults: per callback kind, the (0-based, per kind, within the whole run) invocation ordinals that raise
  let fm ← (getNats j "fail_model" <|> pure [])
  let fl ← (getNats j "fail_loss" <|> pure [])
  let fs ← (getNats j "fail_storage" <|> pure [])
  let steps ← getArr j "steps"
  let mut w : World Rat := { est := Est.init alpha, seen := 0, calls := 0, log := [] }
  let mut outs : List Json := []
  for s in steps do
    let x := listInst (← getRats s "x")
    let y ← getRat s "y"
    let upd ← (getBool s "update_storage" <|> pure true)
    let perm ← (getNats s "perm" <|> pure [])
    -- rows: list of stored rows; rowOf: per imputer call (in call order) and inner sample the row index
    let rowsL ← (← getArr s "rows").mapM asRatList
    let rowChoices ← (← getArr s "row_choices").mapM asNatList
    let rows : Nat → Inst Rat := fun r => listInst (rowsL.getD r [])
    -- the oracles count invocations per kind from the log of the world they are called in
    let w0 := w
    let countKind : World Rat → String → Nat := fun ww k => (ww.log.filter (fun e => evName e == k)).length
    -- per-kind ordinals need the world; M.call only passes the global counter, so faults are expressed in global
    -- invocation numbers computed by the harness (it knows the call order of the model from a fault-free run)
    let O : Oracles Rat Rat Rat := {
      model := fun c xi => if fm.contains c then .error .model else
        (if t.modelHas xi then .ok (t.modelFn missDict xi) else .ok missDict),
      loss := fun c yy p => if fl.contains c then .error .loss else .ok (t.lossFn missLoss yy p),
      storage := fun c => if fs.contains c then .error .storage else .ok (),
      impute := fun _ _ _ => .error .imputer }
    let _ := countKind w0 "M"
    -- imputer call ordinal within this step = number of impute-entry reads so far; we thread it through `calls`
    -- by looking up the invocation counter at entry in a table the harness provides: entry_calls[i] for the i-th call
    let entry ← (getNats s "impute_entry_calls" <|> pure [])
    let rowOf : Nat → Nat → Nat := fun c jdx =>
      match entry.idxOf? c with
      | some i => (rowChoices.getD i []).getD jdx 0
      | none => 0
    let imputeM := fun (S : List Nat) (nn : Nat) => imputeMarginalJoint O rows rowOf x S nn
    let (res, w') := if sage then sageExplainM O names imputeM x y n perm upd w
                     else pfiExplainM O names imputeM x y n upd w
    w := w'
    let r := match res with
      | .ok d => Json.mkObj [("ok", jDict (sortDict d))]
      | .error e => Json.mkObj [("error", Json.str (match e with
          | .model => "model" | .loss => "loss" | .imputer => "imputer" | .storage => "storage"))]
    outs := outs ++ [Json.mkObj [("result", r), ("est", jEst w.est names false), ("seen", jNat w.seen),
      ("calls", jNat w.calls), ("log", Json.str (String.join (w.log.drop w0.log.length |>.map evName)))]]
  pure (Json.mkObj [("steps", Json.arr outs.toArray)])

end Ixai.Driver

namespace Ixai.Driver
open Lean Ixai

/-- model inputs produced by the library imputers: strategy joint (choices: one row per inner sample), product
    (choices: per inner sample one row per feature of S, aligned with S), default (values) -/
def opImputeInputs (j : Json) : Except String Json := do
  let strategy ← getStr j "strategy"
  let d ← getNat j "d"
  let x := listInst (← getRats j "x")
  let S ← getNats j "S"
  let n ← getNat j "n"
  let rowsL ← (← getArr j "rows").mapM asRatList
  let rows : Nat → Inst Rat := fun r => listInst (rowsL.getD r [])
  let inputs ← match strategy with
    | "joint" => do
      let ch ← getNats j "choices"
      pure (jointInputs rows S x n (fun jj => ch.getD jj 0))
    | "product" => do
      let ch ← (← getArr j "choices").mapM asNatList
      pure (productInputs rows S x n (fun jj f => (ch.getD jj []).getD (S.idxOf f) 0))
    | "default" => do
      let vals := listInst (← getRats j "values")
      pure (List.replicate n (defaultInput vals S x))
    | s => .error s!"unknown strategy {s}"
  pure (Json.mkObj [("inputs", Json.arr (inputs.map (fun z => jRats (instKey d z))).toArray)])

end Ixai.Driver

namespace Ixai.Driver
open Lean Ixai Ixai.Wrapper

def asArr (j : Json) : Except String (Arr Rat) := do
  let shape ← getNats j "shape"
  let data ← getRats j "data"
  pure { shape := shape, data := data }

def jLabel : Label → Json
  | .output => Json.str "output"
  | .idx i => jNat i

def jOut (d : List (Label × Rat)) : Json := Json.arr (d.map (fun kv => Json.arr #[jLabel kv.1, jRat kv.2])).toArray

def asFDict (j : Json) : Except String (FDict Rat) := asDict j

/-- wrapper call; `pred` is the recorded table input data ↦ output array of the wrapped prediction function -/
def opWrapper (j : Json) : Except String Json := do
  let names ← match j.getObjVal? "names" with
    | .ok Json.null => pure none
    | .ok v => (asNatList v).map some
    | .error _ => pure none
  let table ← (← getArr j "pred").mapM (fun e => do
    match e with
    | Json.arr #[i, o] => pure ((← asRatList i), (← asArr o))
    | _ => .error "pred entry [input data, output array] expected")
  let predict : Arr Rat → Arr Rat := fun a =>
    match table.find? (fun e => e.1 == a.data) with
    | some e => e.2
    | none => { shape := [1], data := [123456789] }
  match j.getObjVal? "x" with
  | .ok x => do
    let r := callOne names predict (← asFDict x)
    pure (Json.mkObj [("one", match r with | some d => jOut d | none => Json.str "KeyError")])
  | .error _ => do
    let xs ← (← getArr j "xs").mapM asFDict
    let r := callMany names predict xs
    pure (Json.mkObj [("many", match r with
      | some ds => Json.arr (ds.map jOut).toArray
      | none => Json.str "KeyError")])

/-- river wrapper over a stream of raw predictions: {"d": dict} | {"n": number} | {"l": label id} -/
def opRiverWrap (j : Json) : Except String Json := do
  let ys ← (← getArr j "stream").mapM (fun e => do
    match e.getObjVal? "d" with
    | .ok d => pure (RiverOut.dict (← asDict d))
    | .error _ =>
      match e.getObjVal? "n" with
      | .ok v => pure (RiverOut.num (← asRat v))
      | .error _ => pure (RiverOut.label (← asNat (← e.getObjVal? "l"))))
  let (outs, _) := ys.foldl (fun (acc : List Json × List Nat) y =>
    let (o, seen') := extendDict acc.2 y
    let jo := match o with
      | .inl d => Json.arr (d.map (fun kv => Json.arr #[jNat kv.1, jRat kv.2])).toArray
      | .inr d => jOut d
    (acc.1 ++ [jo], seen')) ([], [])
  pure (Json.mkObj [("outs", Json.arr outs.toArray)])

def opValidate (j : Json) : Except String Json := do
  let o ← getStr j "owner"
  let ow ← match o with
    | "wrapper" => pure Owner.wrapper | "boundSklearn" => pure Owner.boundSklearn | "boundRiver" => pure Owner.boundRiver
    | "boundOther" => pure Owner.boundOther | "torchModule" => pure Owner.torchModule | "plain" => pure Owner.plain
    | s => .error s!"unknown owner {s}"
  pure (Json.mkObj [("wrapped", Json.str (match validate ow with
    | .unchanged => "unchanged" | .sklearn => "sklearn" | .river => "river" | .torch => "torch"))])

end Ixai.Driver

namespace Ixai.Driver
open Lean Ixai

/-- TreeStorage bookkeeping over recorded oracle answers; data points are observation indices -/
def opTreeRun (j : Json) : Except String Json := do
  let L ← getNat j "L"
  let features ← getNats j "features"
  let idxs ← getNats j "idxs"
  let rnd : Rnd Rat := { reals := fun _ => 1/2, idxs := fun i _ => idxs.getD i 0 }
  let steps ← getArr j "steps"
  let mut st : Tree.State Rat Nat := Tree.init features
  let mut r := rnd
  let mut outs : List Json := []
  for s in steps do
    let x ← getNat s "x"
    let oracle ← (← getArr s "oracle").mapM (fun e => do
      match e with
      | Json.arr #[f, leaf, all] => pure ((← asNat f), ((← asNat leaf), (← asNatList all)))
      | _ => .error "oracle entry [feature, leaf, allLeaves] expected")
    let (st', r') := Tree.update L st x oracle r
    st := st'
    r := r'
    let view := st.reservoirs.map (fun e => Json.arr #[jNat e.1,
      Json.arr ((e.2.toArray.qsort (fun a b => a.1 < b.1)).toList.map (fun lr => Json.arr #[jNat lr.1, jNats lr.2.storage_x])).toArray])
    outs := outs ++ [Json.mkObj [("len", jNat (Tree.len st)), ("reservoirs", Json.arr view.toArray), ("ipos", jNat r.ipos)]]
  pure (Json.mkObj [("steps", Json.arr outs.toArray)])

end Ixai.Driver
