/-
  Line protocol of the model driver: one JSON object per input line, one JSON object per output line.
  Rationals travel as strings "p/q" (or "p"); this file is parser/printer glue and is part of the trusted base
  of the correspondence check (a bug here shows up as a disagreement on the unchanged tree).
-/
import Lean.Data.Json
import IxaiVerif.Model.Basic

namespace Ixai.Driver
open Lean

def parseInt? (s : String) : Option Int :=
  if s.startsWith "-" then (s.drop 1).toNat?.map (fun n => -(n : Int)) else s.toNat?.map (fun n => (n : Int))

def parseRat? (s : String) : Option Rat :=
  match s.splitOn "/" with
  | [p] => (parseInt? p).map (fun n => (n : Rat))
  | [p, q] => do
      let n ← parseInt? p
      let d ← q.toNat?
      if d = 0 then none else some ((n : Rat) / (d : Rat))
  | _ => none

def ratStr (r : Rat) : String :=
  if r.den = 1 then toString r.num else s!"{r.num}/{r.den}"

def jRat (r : Rat) : Json := Json.str (ratStr r)
def jRats (l : List Rat) : Json := Json.arr (l.map jRat).toArray
def jNat (n : Nat) : Json := Json.num (JsonNumber.fromNat n)
def jNats (l : List Nat) : Json := Json.arr (l.map jNat).toArray

def getStr (j : Json) (k : String) : Except String String := j.getObjValAs? String k
def getNat (j : Json) (k : String) : Except String Nat := j.getObjValAs? Nat k
def getBool (j : Json) (k : String) : Except String Bool := j.getObjValAs? Bool k

def asRat (j : Json) : Except String Rat :=
  match j with
  | Json.str s => match parseRat? s with
    | some r => .ok r
    | none => .error s!"bad rational {s}"
  | Json.num n => if n.exponent = 0 then .ok (n.mantissa : Rat) else .error "non-integer json number"
  | _ => .error "rational expected"

def getRat (j : Json) (k : String) : Except String Rat := do
  asRat (← j.getObjVal? k)

def getOptRat (j : Json) (k : String) : Except String (Option Rat) :=
  match j.getObjVal? k with
  | .ok Json.null => .ok none
  | .ok v => (asRat v).map some
  | .error _ => .ok none

def getArr (j : Json) (k : String) : Except String (List Json) := do
  let a ← j.getObjValAs? (Array Json) k
  pure a.toList

def getRats (j : Json) (k : String) : Except String (List Rat) := do
  (← getArr j k).mapM asRat

def asNat (j : Json) : Except String Nat :=
  match j with
  | Json.num n => if n.exponent = 0 ∧ n.mantissa ≥ 0 then .ok n.mantissa.toNat else .error "nat expected"
  | _ => .error "nat expected"

def getNats (j : Json) (k : String) : Except String (List Nat) := do
  (← getArr j k).mapM asNat

/-- draws given as finite lists; past the end the stream repeats its last element (the harness always sends
    enough draws and checks the consumed count, so the default is never observed on an agreeing run) -/
def mkRnd (reals : List Rat) (idxs : List Nat) : Rnd Rat :=
  { reals := fun i => reals.getD i 0, idxs := fun i _ => idxs.getD i 0 }

end Ixai.Driver
