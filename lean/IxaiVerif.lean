-- Root of the `IxaiVerif` library: model, generated kernels, specs, proofs, property theorems, audits.
import IxaiVerif.Model.Basic
import IxaiVerif.Gen.WelfordTracker
import IxaiVerif.Gen.ExponentialSmoothingTracker
import IxaiVerif.Gen.FlWelfordTracker
import IxaiVerif.Gen.FlExponentialSmoothingTracker
import IxaiVerif.Gen.BatchStorage
import IxaiVerif.Gen.IntervalStorage
import IxaiVerif.Gen.SequenceStorage
import IxaiVerif.Gen.GeometricReservoirStorage
import IxaiVerif.Gen.UniformReservoirStorage
import IxaiVerif.Proofs.Tracker
import IxaiVerif.Props.C10
import IxaiVerif.Audit.C10
import IxaiVerif.Driver.Main
