import IxaiVerif.Driver.Main
def main : IO Unit := Ixai.Driver.main
