#!/usr/bin/env python3
"""writes MANIFEST.json from the table below (kept in one place so it stays valid and consistent)"""
import json
import os

HERE = os.path.dirname(os.path.dirname(os.path.abspath(__file__)))
BASELINE = ("cd /repo && /venv/bin/python -m pytest -ra -q -p no:cacheprovider --timeout=900 "
            "--continue-on-collection-errors")

CHECKS = {
    "C10": dict(
        category="proof",
        text=("15 Lean theorems (any field of characteristic 0; ordered field for the hull/min-max/variance facts) about the "
              "Welford and exponential-smoothing kernels that py2lean regenerates from ixai/utils/tracker/*.py on every run: "
              "mean, sum of squared deviations, population variance, std, update counts, explicit weighted-sum closed form, "
              "linearity, min/max and convex-hull bounds, for every finite stream and every alpha. The generated kernels are "
              "validated against the Python classes by differential execution on exact rationals."),
        design_ref="DESIGN.md section 6, C10",
        note=("Trusted: Lean kernel; axioms propext/Classical.choice/Quot.sound; py2lean + field schema (differentially validated "
              "each run); Python evaluates left to right; inputs are field elements (floats: see C20); `** 0.5` is a square root."),
        technique="Lean 4 theorems over kernels regenerated from source + translation validation",
    ),
}

CHECKS["C07"] = dict(
    category="proof",
    text=("17 Lean theorems about the storage kernels that py2lean regenerates from ixai/storage/*.py on every run, for every "
          "update sequence, capacity, store_targets flag and every value of every random draw (uninterpreted exp/log/floor): "
          "stored instances are the images of a duplicate-free list of arrival positions (sub-multiset of the stream), the "
          "same positions index the stored targets (alignment), length = min(seen, capacity); Batch/Interval/Sequence hold "
          "exactly the whole stream / the last `size` / the last one in arrival order. Tie: generated kernels vs real classes "
          "under identical scripted draws, plus the invariant evaluated on the real classes."),
    design_ref="DESIGN.md section 6, C07",
    note=("Trusted: Lean kernel; axioms propext/Classical.choice/Quot.sound; py2lean + schema (differentially validated each run); "
          "Python list/deque semantics as modelled by List (append, popleft = tail, item assignment = set); capacity >= 1."),
    technique="Lean 4 theorems over kernels regenerated from source + translation validation",
)

CHECKS["C08"] = dict(
    category="proof",
    text=("Lean theorems: (L0) the kernel regenerated from uniform_reservoir_storage.py has Algorithm L's shape (slot for range `size`, weight "
          "multiplied first, next skip drawn from the updated weight; skipped arrivals change nothing); (analytic bridge, Mathlib measure "
          "theory) the moments of U^(1/k) are k/(k+m) and the skip floor(log U/log(1-w)) is geometric = a run of Bernoulli(w) rejections; "
          "(L2) with those moments every accept/reject history has the probability of independent Bernoulli(k/t) acceptances; (L1) for that "
          "chain, for every k>=1, n>=k and every set A of arrivals P(A in reservoir) = prod (k-i)/(n-i), hence k/n per observation and "
          "1/C(n,k) per k-subset; one generated accepting step summed over its slot outcomes is the chain's step. Still partial: the "
          "composition of the layers rests on the independence of successive library draws, which is assumed, not modelled."),
    design_ref="DESIGN.md section 6, C08",
    note=("Trusted: Lean kernel; standard axioms; py2lean (validated each run); independence of successive draws; random.random() uniform on "
          "[0,1) (2^-53 granularity ignored); randrange uniform. The fixed-seed frequency test only searches for a failing input."),
    technique="Lean 4 theorems (generated kernel shape + measure-theoretic bridge + finite-probability induction) + translation validation",
)
CHECKS["C09"] = dict(
    category="proof",
    text=("Lean theorems: a full reservoir of the kernel regenerated from geometric_reservoir_storage.py accepts iff the drawn real is "
          "<= p and then overwrites the slot drawn for range `size`; default p = 1/k; p = 1 always stores; summing one generated step "
          "over its draw outcomes is the abstract step; for the chain of such steps, for all k>=1, n, t and p in any field, an arrival "
          "t>k is retained with probability p(1-p/k)^(n-t) and each of the first k with (1-p/k)^(n-k). Tie: translation validation and "
          "the exact distribution of the real class (all scripts) for k<=3, n<=k+4."),
    design_ref="DESIGN.md section 6, C09",
    note=("Trusted: Lean kernel; standard axioms; py2lean (validated each run); P(U<=p)=p for random.random(); randrange uniform; "
          "independence of draws."),
    technique="Lean 4 theorems (generated kernel + finite-probability induction) + exhaustive small-case distribution check",
)
CHECKS["C20"] = dict(
    category="proof",
    text=("Partial. Lean theorems in the standard rounding model over the kernels regenerated with every arithmetic operation wrapped in "
          "fl (so in the source's operation order): |smoothed_fl - smoothed| <= 4 u max|v| / alpha (0<alpha<=1, 16u<=alpha), "
          "|mean_fl - mean| <= 6 n u max|v| (n u <= 1/100), all results bounded (mean, smoothed value, sum of squares, variance), and "
          "each exact sum-of-squares increment is N/(N+1) (v-mean)^2 >= 0. The relative variance bound c n u kappa is NOT proved; it is "
          "only searched for counterexamples. Tie: generated kernels run in binary64 agree bit for bit with the Python classes. 'All results are "
          "finite': every read-out of real float explainers (importance values, variances, both normalised views, confidence bounds, SAGE losses) "
          "is queried after every call for 1-3 features, linear and input-ignoring models, offsets 0 and 1e6."),
    design_ref="DESIGN.md section 6, C20",
    note=("Trusted: Lean kernel; standard axioms; py2lean fl-variant (validated bit-for-bit each run); IEEE-754 binary64 satisfies the "
          "standard model absent overflow/underflow; exact/90-digit references in the oracle."),
    technique="Lean 4 theorems in the standard rounding model over regenerated kernels + bitwise translation validation",
)

BRIDGE = (" Since round 2, explain_one of IncrementalPFI / IncrementalSage is additionally TRANSLATED statement by statement from the source on "
          "every run (tools/py2lean_eff.py) and Props/GenBridge.lean proves the generated definitions equal to the hand-written effectful model (a soft "
          "tie: a rejected or unprovable translation raises the search budget and is recorded in the evidence, it is not reported by itself).")
TRUST_H = ("Trusted: Lean kernel; axioms propext/Classical.choice/Quot.sound; the hand-written model (Model/*.lean) is tied to the code only by "
           "the correspondence run (same recorded callbacks, exact rationals) — code paths the generators do not reach are not covered; "
           "tracker kernels inside the model are regenerated from source; driver JSON glue; harness.q.Q.")
CHECKS["C01"] = dict(
    category="proof",
    text=("Lean theorem sage_efficiency: for every stream prefix, every model/loss/imputer behaviour (imputer faithful on the empty "
          "subset, proved for the library imputers in C06), every d>=1, n, every sequence of feature orders (permutations of the names), "
          "static mode and dynamic mode with ANY alpha, the importance values of the IncrementalSage model sum to marginal loss minus "
          "model loss = explained loss (both loss directions). The model is tied to incremental.py/base.py/multi_value.py by exact-"
          "arithmetic correspondence over the explainer configuration space; the identity is also evaluated on the real object, also after "
          "caught callback failures (E2E.sage_efficiency_with_failures, E2Eb.*_stream_is_pure_stream_of_successes) and with the library's own "
          "wrappers around a model that learns between the calls." + BRIDGE),
    design_ref="DESIGN.md section 6, C01", note=TRUST_H + " 'to within rounding' for floats is not a theorem (see C20).",
    technique="Lean 4 theorem (invariant by induction, joint linearity of trackers) over hand model + differential correspondence",
)
CHECKS["C02"] = dict(
    category="proof",
    text=("Lean theorems pfi_refines_spec / pfi_static_mean / pfi_dynamic / variance forms / pfi_first_only_seeds / "
          "pfi_ignored_feature_zero: for every stream and callbacks the importance and variance trackers of every feature are the base "
          "statistic (mean, or smoothing with alpha from zero) of mean-imputed-loss minus original loss, resp. of the squared deviation "
          "from the updated estimate (E2Eb: also for the successful calls of a stream with caught failures). Tied to pfi.py by exact-arithmetic "
          "correspondence; real outputs compared with the Lean spec." + BRIDGE),
    design_ref="DESIGN.md section 6, C02", note=TRUST_H,
    technique="Lean 4 refinement theorems over hand model + differential correspondence",
)
CHECKS["C03"] = dict(
    category="proof",
    text=("Lean theorems sage_refines_spec, sage_chain_closed_form, imputer_gets_complement, sage_reported_losses, ...: per observation "
          "the credited contribution is loss before minus loss after revealing the feature, the imputer receives exactly the features "
          "not yet revealed, the chain starts at the loss of the normalised running mean prediction, and all five trackers are the "
          "configured running statistics of these quantities (scalar and growing multi-label outputs). Tied to incremental.py by "
          "exact-arithmetic correspondence; real outputs (incl. subsets handed to the imputer) compared with the Lean spec." + BRIDGE),
    design_ref="DESIGN.md section 6, C03", note=TRUST_H,
    technique="Lean 4 refinement theorems over hand model + differential correspondence",
)
CHECKS["C12"] = dict(
    category="proof",
    text=("20 Lean theorems about the MultiValueTracker model for every update-dict history and both base kinds: per-key tracker = fold of "
          "the base update over the zero-filled series since first appearance (closed forms via C10), keys never dropped (prefix), no "
          "duplicate keys, N = number of updates, normalised view (single key raw, zero sum all zeros, otherwise sums to one and "
          "preserves ratios). Tied to multi_value.py by exact-arithmetic correspondence; numeric-type sweep for the NaN clause and, since round 6, narrow / unsigned NumPy dtypes (uint8, uint16, int8) through histories with late and omitted keys against the statistic of the zero-filled series of numbers. Additionally "
          "(soft tie) update / __call__ / get_normalized are translated statement by statement on every run and Props/GenMV.lean proves that "
          "the generated methods take states representing the model's MV to states representing MV.update, with equal get / get_normalized, "
          "for every sequence of updates from a fresh tracker."),
    design_ref="DESIGN.md section 6, C12", note=TRUST_H + " 'rather than NaN' is decided by the type sweep on the real class (a field has no NaN).",
    technique="Lean 4 theorems over hand model + differential correspondence + numeric-type sweep",
)

CHECKS["C05"] = dict(
    category="proof",
    text=("Lean theorems batch_values_are_means, batch_efficiency(_faithful), chain_telescopes, interval_schedule, interval_state: for every "
          "data set, callbacks, n, orders and rows the BatchSage values are the per-observation averages of the chain contributions and sum "
          "to the mean of loss(mean prediction) - loss(own prediction) (original mode = same theorem with the data-set imputer); "
          "IntervalSage recomputes iff forced or ordinal % interval_length = 0, over exactly the last min(#stored, storage_length) "
          "observations (via C07 on the regenerated window kernel), otherwise returns the previous values (no callback occurs in that "
          "branch), seen = number of calls. Tied to batch.py/interval.py by exact-arithmetic correspondence; additionally (soft tie) "
          "BatchSage.explain_many, IntervalSage.explain_one and _get_mean_model_output are translated statement by statement on every run and "
          "Props/GenBatch.lean, GenInterval.lean, GenMeanOutput.lean prove them equal to (an effectful model whose successful runs return) the pure "
          "batchSage / intervalStep / meanOutput these theorems are about, incl. that a call which is not due invokes no callback."),
    design_ref="DESIGN.md section 6, C05", note=TRUST_H + " names must be non-empty; original mode needs the names to cover the model's features.",
    technique="Lean 4 theorems over hand model (+ regenerated window kernel) + differential correspondence",
)
CHECKS["C06"] = dict(
    category="proof",
    text=("Lean theorems about the imputer model for every instance, subset, stored rows, n and row choice: inputs agree with the instance "
          "outside the subset; joint takes all subset features from ONE stored row, product each from some stored row, default from the "
          "configured values; exactly n predictions; empty subset gives n copies of the unperturbed prediction; meanOutput of n>=1 copies "
          "of an output with distinct labels is that output (faithfulness used by C01/C05). Non-modification of instance, subset and "
          "storage is established by deep snapshots in the correspondence run (the model is pure). Additionally (soft tie) MarginalImputer "
          "and DefaultImputer are translated statement by statement on every run and Props/GenImputer.lean proves the generated impute equal "
          "to this model with the row choices read off the sequence of randrange draws."),
    design_ref="DESIGN.md section 6, C06", note=TRUST_H,
    technique="Lean 4 theorems over hand model + differential correspondence with observable row provenance",
)
CHECKS["C11"] = dict(
    category="proof",
    text=("Lean theorems: the ring-buffer bookkeeping regenerated from sliding_window.py IS the modelled one; for every k>=1 and stream: present entries are a permutation of the last min(n,k) "
          "inputs, count, mean, variance, std (non-negative root) of exactly those. Tied to sliding_window.py by running the real class "
          "after every update for k<=5, all lengths <= 3k+2; construction on the installed NumPy is part of the run."),
    design_ref="DESIGN.md section 6, C11", note=TRUST_H + " np.nanmean/nanvar/nanstd semantics (NumPy) are trusted; comparison within 1e-9 (binary64 buffer).",
    technique="Lean 4 invariant proof over hand model + differential correspondence",
)
CHECKS["C13"] = dict(
    category="proof",
    text=("Partial. Lean theorems over an abstract metric with the named hypothesis `revert undoes update from fresh`: any call history "
          "through any number of adapters sharing the metric returns for each pair the (sign-adjusted) value of a fresh metric after that "
          "single pair and leaves the metric fresh; the validator probe leaves it fresh; the hypothesis is proved for running-mean metrics. "
          "River's metric classes themselves are outside /repo: the hypothesis and the property are MONITORED on every metric class the "
          "installed river offers that validate_loss_function accepts (41) and on four user-defined metrics (dict / single-value input x bigger / smaller is better), with interleaved shared histories. Additionally (soft tie) RiverMetricToLossFunction.__call__ is translated statement by statement on every run, once per value of dict_input_metric, and Props/GenRiverLoss.lean proves both specialisations equal to the model's lossCall. Since round 6 dict-metric histories repeat the same probability values under the other labels and key order (the loss is a function of the label-to-probability map)."),
    design_ref="DESIGN.md section 6, C13", note=TRUST_H + " river metrics' update/revert/get behaviour is monitored, not proved.",
    technique="Lean 4 theorems over abstract metric + monitored hypothesis on all accepted river metrics",
)
CHECKS["C15"] = dict(
    category="proof",
    text=("Partial. Lean theorems about the effectful explainer model (any total oracles, library imputer): one call counts one seen sample, "
          "logs exactly 1 + d*n model evaluations (none on the first call), exactly one storage update which is the last callback (none "
          "with update_storage=False), returns the importance values, and agrees with the pure layer. The Python-level clauses "
          "(construction from required arguments, positional loss signature, str/int/float/mixed names as keys, non-modification of x, y, "
          "names) are decided by sweeps on the real classes. Since round 6 a third of the call-contract configurations start from a storage that already holds observations (the first call still evaluates the model zero times)." + BRIDGE),
    design_ref="DESIGN.md section 6, C15", note=TRUST_H,
    technique="Lean 4 theorems over effectful model + constructor/name-type sweeps + call-log correspondence",
)
CHECKS["C16"] = dict(
    category="proof",
    text=("28 Lean theorems: the confidence-bound expression regenerated from base.py IS the modelled one; normalisation keeps keys and ratios, sums to one ('sum'), has range one ('delta'), is all zero for a zero "
          "normaliser; confidence bound = (1-a)^t + sqrt(var a/((2-a) delta)), non-negative, positive when a<1 or var>0, antitone in delta "
          "(genuine square root; instantiated for Real.sqrt); tracked variances are >= 0 in every reachable PFI/SAGE state (static, or "
          "0<=alpha<=1). 'Never NaN or infinite whatever numeric type' is decided by a numeric-type sweep on the real code. The empty "
          "importance dictionary (the state before the first estimate) is covered: generated_empty, and shipped_delta_raises_on_empty for the form repaired by fix 7374397; "
          "normalised views are queried on real explainers from before the first call on; since round 6 the bound is asked again with the same deltas after further calls of the same stream (it refers to the current state whatever was asked before)."),
    design_ref="DESIGN.md section 6, C16", note=TRUST_H + " math.sqrt is a genuine square root.",
    technique="Lean 4 theorems over hand model + differential correspondence + numeric-type sweep",
)
CHECKS["C17"] = dict(
    category="proof",
    text=("Lean theorems pfi/sage_failure_atomic for EVERY oracle (any callback failing at any position or positions, library or user "
          "imputer): a failing explain_one leaves estimates and seen unchanged; the error is a callback's error; any invariant of the "
          "estimates (e.g. the C01 identity) survives caught failures over a whole stream. Tied to pfi.py / incremental.py by enumerating "
          "every fault position (and random pairs) of small configurations on the real classes and comparing post-state, error and call "
          "log with the model; the identity is re-checked after resuming. BatchSage / IntervalSage are covered by the same enumeration on the real "
          "classes only (every callback position of short streams: exception propagates, importance values unchanged, stream resumes); there is no Lean theorem about their attribute after a failure." + BRIDGE),
    design_ref="DESIGN.md section 6, C17", note=TRUST_H + " BatchSage/IntervalSage are not modelled with faults in Lean; for them every callback position of short streams is enumerated on the real classes (importance values unchanged, the exception propagates, the stream resumes).",
    technique="Lean 4 theorems over state-keeping error monad + exhaustive fault enumeration on the real classes",
)

CHECKS["C04"] = dict(
    category="proof",
    text=("27 Lean theorems (finite probability as explicit averages over draw outcomes, weights in any field of characteristic 0, all d, m, n): "
          "marginalisation over independent uniform coordinates; E[PFI contribution] = mean loss under uniform resampling of the feature "
          "from the storage minus original loss; for a fixed order the expected SAGE contribution at position j is w(first j) - w(first j+1) "
          "with w the expected loss under the imputer; averaged over the d! orders it is the Shapley value of that game, in permutation "
          "form AND subset-weight form; same for the product strategy and for BatchSage's original mode (rows from the whole data set). "
          "Tie: the real code's exact expected update, obtained by enumerating every outcome of every draw it makes (weights = 1/requested "
          "range), equals an independent brute force of those quantities for d<=3, m<=3, n<=2; original mode is also called with other rows "
          "already collected in the explainer's storage (the background rows must still come from the data set handed in)."),
    design_ref="DESIGN.md section 6, C04", note=TRUST_H + " Uniformity and independence of np.random.permutation / random.randrange / randint are library contracts.",
    technique="Lean 4 finite-probability theorems + exhaustive draw enumeration on the real classes",
)
CHECKS["C14"] = dict(
    category="translation_validation",
    text=("Partial. 38 Lean theorems about an array model of the wrappers (size-one output of ANY shape -> {'output': v}; vector -> {i: v_i}; list "
          "input -> canonical dicts of the rows in order; equal to one-at-a-time calls for row-wise models; with feature names the row handed "
          "to the model is exactly those features in that order, independent of the dict's key order; river one-hot over the labels seen so "
          "far, never dropping one; dispatch table). NumPy/torch/sklearn behaviour is outside the model, so the claim rests on the "
          "correspondence: real wrappers over output shapes x dtypes x batch sizes x key orders vs the model and vs the canonical form, real "
          "sklearn/torch/river models, dispatch over sklearn's and river's estimator classes; the excluded column may hold a string and the raw dtype reaching the model is observed."),
    design_ref="DESIGN.md section 6, C14", note="Trusted: Lean kernel + standard axioms for the model theorems; NumPy conversion semantics, torch, sklearn, river are exercised, not modelled.",
    technique="Lean 4 theorems over array model + differential correspondence over shapes/dtypes/batches/key orders",
)
CHECKS["C18"] = dict(
    category="other",
    text=("Partial. A Lean function is deterministic by construction, so no theorem can exhibit hidden entropy; what is proved is LOCALITY of draws "
          "for the regenerated reservoir kernels and the joint imputer (a step is a function of state, observation and the draws it consumes; "
          "positions advance by the draws consumed). The property is decided by record/replay on the real library in float mode: for 16 "
          "explainer x storage x imputer configurations (incl. TreeStorage/TreeImputer) seeded replays are bit-identical, also after creating "
          "and using decoy objects, with per-call budgets below and above the configured one, with an unused default-constructed TreeStorage created after seeding, and under a virtual clock; recorded draw logs coincide, under three PYTHONHASHSEED values; static scan of ixai/ for other entropy sources."),
    design_ref="DESIGN.md section 6, C18", note="Trusted: random.seed/np.random.seed determine the global generators; TreeStorage given an explicit seed; same interpreter configuration within a pair.",
    technique="record/replay correspondence + Lean 4 locality theorems over regenerated kernels",
)
CHECKS["C19"] = dict(
    category="proof",
    text=("Partial. 17 Lean theorems about TreeStorage/TreeImputer bookkeeping over an abstract tree oracle, the leaf reservoirs being the regenerated "
          "GeometricReservoirStorage kernel with p = 1: length = number of updates; every reservoir holds <= L complete previously observed points; the "
          "newest observation is in the routed leaf's reservoir; no leaf id has two reservoirs; after EVERY update all keys are current leaves (no "
          "hypothesis on the tree any more since the repair a088161; the shipped clean-up-only-on-growth order is kept as `updateFeatureShipped` with its "
          "counterexample); the imputer changes only requested features and takes each value "
          "from a point in the routed leaf's reservoir or the fall-back. River's trees are an oracle recorded from the real objects; hypotheses and "
          "clauses are monitored after every update/imputation. Additionally (soft tie) _update_data_reservoirs / _delete_outdated_reservoirs are "
          "translated statement by statement on every run and Props/GenTree.lean proves the generated update equal to the model's updateFeature; "
          "likewise TreeImputer._sample_from_storages and Props/GenTreeImputer.lean (= the model's imputeValue)."),
    design_ref="DESIGN.md section 6, C19", note=TRUST_H + " river's Hoeffding trees (learn_one, routing, leaf enumeration) are an oracle: monitored, not proved.",
    technique="Lean 4 theorems over oracle-parametrised model + recorded-oracle correspondence + monitored hypotheses",
)

NOT_YET = {
}


def main():
    props = [json.loads(l) for l in open(os.path.join(HERE, "properties.jsonl"))]
    checks = []
    na = []
    for p in props:
        pid = p["id"]
        if pid in CHECKS:
            c = CHECKS[pid]
            checks.append({
                "property_id": pid,
                "quick_cmd": f"bin/check {pid} --tier quick",
                "thorough_cmd": f"bin/check {pid} --tier thorough",
                "evidence_file": f"evidence/{pid}.json",
                "replay_cmd_template": f"bin/check {pid} --replay {{path}}",
                "engine": "lean4-model",
                "level_claimed": {"category": c["category"], "text": c["text"], "design_ref": c["design_ref"]},
                "level_note": c["note"],
                "technique": c["technique"],
            })
        else:
            na.append({"property_id": pid,
                       "reason": NOT_YET.get(pid, "check not built yet in this round (model and theorems in progress; see DESIGN.md section 12)")})
    man = {
        "version": 1,
        "setup_cmd": "sh tools/setup.sh",
        "hooks": {
            "guard": "IXAI_VERIF",
            "enable": "no hooks are needed: checks import /repo's working tree directly (PYTHONPATH) and control random/np.random from outside",
            "baseline_off_cmd": BASELINE,
            "source_commits": [],
            "add_only": True,
        },
        "engines": [{
            "name": "lean4-model",
            "path": "lean/ (Lean 4 model + theorems), tools/py2lean.py + tools/py2lean_eff.py (translators), harness/ (correspondence), bin/check",
            "serves_properties": sorted(CHECKS),
            "kind_free_text": "machine-checked proof in Lean 4 over a model tied to the source by translation and by differential correspondence",
        }],
        "checks": checks,
        "notes": "See DESIGN.md. known_findings.txt records the fix: commits applied to /repo.",
        "not_applicable": na,
    }
    with open(os.path.join(HERE, "MANIFEST.json"), "w") as fh:
        json.dump(man, fh, indent=1)
    print(f"MANIFEST.json: {len(checks)} checks, {len(na)} not claimed")


if __name__ == "__main__":
    main()
