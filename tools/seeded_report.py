#!/usr/bin/env python3
"""Markdown table of the seeded changes and the verdict of the targeted check, from seeded/*/meta.json (+ notes.md first lines)"""
import glob
import json
import os
import re

HERE = os.path.dirname(os.path.dirname(os.path.abspath(__file__)))


def mechanism(d):
    p = os.path.join(d, "notes.md")
    if not os.path.exists(p):
        return ""
    txt = open(p).read()
    m = re.search(r"(?im)^\W*(?:\*\*)?mechanism(?:\*\*)?\W*[:\-]?\s*(.+)$", txt)
    line = m.group(1) if m else next((l for l in txt.splitlines() if l.strip() and not l.startswith("#")), "")
    return re.sub(r"[`*|]", "", line).strip()[:150]


def touched(d):
    p = os.path.join(d, "patch.diff")
    files = re.findall(r"^\+\+\+ b/(\S+)", open(p).read(), re.M) if os.path.exists(p) else []
    return ", ".join(os.path.basename(f) for f in files)


rows = []
for d in sorted(glob.glob(os.path.join(HERE, "seeded", "*"))):
    mp = os.path.join(d, "meta.json")
    if not os.path.exists(mp) or os.path.basename(d) == "harmless":
        continue
    m = json.load(open(mp))
    pid = m["breaks"]
    ck = m.get("checks", {}).get(pid, {})
    v = ck.get("violation") or ""
    verdict = "missed" if ck.get("exit") == 0 else ("no-failing-input-found" if "no-failing" in v else ("failing input" if v else f"exit {ck.get('exit')}"))
    conf = m.get("confirmed", {})
    ok = all(conf.get(k) for k in ("applies", "tests_pass", "demo_fails_with_change", "demo_passes_without"))
    first = m.get("first_evaluation_before_the_check_was_strengthened")
    if first:
        verdict += f" (first evaluation: {first['verdict']}; check strengthened)"
    rows.append((m["name"], pid, touched(d), mechanism(d), "yes" if ok else "NO", verdict, (ck.get("what") or "")[:110].replace("|", "/")))
print("| change | property | file(s) | mechanism (from the author's notes) | confirmed | verdict of the targeted check | what it reported |")
print("|---|---|---|---|---|---|---|")
for r in rows:
    print("| " + " | ".join(r) + " |")
tot = len(rows)
print(f"\n{tot} changes: " + ", ".join(f"{k}: {sum(1 for r in rows if r[5].split(' (')[0] == k)}" for k in sorted({r[5].split(' (')[0] for r in rows})))
hs = sorted(glob.glob(os.path.join(HERE, "seeded", "harmless", "*", "meta.json")))
if hs:
    print("\n| harmless refactoring | file(s) | checks run | alarms now | alarms at first evaluation (machinery repaired since) |")
    print("|---|---|---|---|---|")
    for mp in hs:
        m = json.load(open(mp))
        d = os.path.dirname(mp)
        al = [f"{c}: {v['verdict']}" for c, v in m["checks"].items() if v["verdict"] != "ok"]
        hist = m.get("earlier_alarms_since_repaired_in_the_machinery", {})
        hs_ = "; ".join(f"{c}: {(v.get('what') or v.get('verdict'))[:90]}" for c, v in hist.items()).replace("|", "/")
        print(f"| {m['name']} | {touched(d)} | {' '.join(m['checks'])} | {'; '.join(al) or 'none'} | {hs_ or '-'} |")
