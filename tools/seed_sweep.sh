#!/bin/sh
# run every registered check on the clean tree for several VERIF_SEED values, 6 at a time; print only non-held results
cd "$(dirname "$0")/.."
TIER="${TIER:-quick}"
IDS=$(python3 -c "import json;print(' '.join(c['property_id'] for c in json.load(open('MANIFEST.json'))['checks']))")
for sd in "$@"; do
  n=0
  for id in $IDS; do
    ( VERIF_SEED=$sd bin/check "$id" --tier "$TIER" > "/tmp/sweep.$sd.$id.log" 2>&1; echo "$sd $id rc=$? $(tail -1 /tmp/sweep.$sd.$id.log)" ) &
    n=$((n+1)); if [ $n -ge 6 ]; then wait; n=0; fi
  done
  wait
done | grep -v " held:" ; echo "sweep done: seeds $*"
rm -f /tmp/sweep.*.log
