#!/usr/bin/env python3
"""Re-run the targeted check against stored seeded changes (no re-confirmation of tests/demo): regression of the checks themselves.
usage: tools/recheck_seeded.py <name> [<name> ...]      (names of directories under seeded/; verdicts are written back to meta.json)"""
import json
import os
import shutil
import subprocess
import sys
import tempfile
import time

VERIF = os.path.dirname(os.path.dirname(os.path.abspath(__file__)))


def main():
    for name in sys.argv[1:]:
        d = os.path.join(VERIF, "seeded", name)
        mp = os.path.join(d, "meta.json")
        meta = json.load(open(mp))
        pid = meta["breaks"]
        tmp = tempfile.mkdtemp(prefix="ixai-recheck.", dir="/tmp")
        try:
            subprocess.run(["rsync", "-a", "--exclude", ".git", "--exclude", "__pycache__", "/repo/", tmp + "/"], check=True)
            p = subprocess.run(["patch", "-p1", "-s", "-i", os.path.join(d, "patch.diff")], cwd=tmp, capture_output=True, text=True)
            if p.returncode != 0:
                print(f"{name}: patch does not apply to the current /repo (kept as evaluated earlier)")
                continue
            t0 = time.time()
            r = subprocess.run([os.path.join(VERIF, "bin", "check"), pid], cwd=VERIF, env=dict(os.environ, IXAI_REPO=tmp), capture_output=True, text=True)
            viol = [l for l in r.stdout.splitlines() if l.startswith("VIOLATION")]
            what = ""
            if viol:
                rp = viol[0].split("replay=")[1].split()[0]
                try:
                    j = json.load(open(os.path.join(VERIF, rp)))
                    what = j.get("what") or "; ".join(f"{x['name']}: {x['detail'][:160]}" for x in j.get("no_longer_checks", [])[:2])
                except Exception:
                    pass
            verdict = "MISSED" if r.returncode == 0 else ("no-failing-input-found" if viol and "no-failing" in viol[0] else ("FAILING INPUT" if viol else f"exit{r.returncode}"))
            print(f"{name}: {pid} {verdict} {what[:140]}", flush=True)
            old = meta.get("checks", {}).get(pid, {})
            if r.returncode == 1:
                meta.setdefault("checks", {})[pid] = {"exit": 1, "violation": viol[0] if viol else None, "what": what[:500], "wall_s": round(time.time() - t0, 1)}
                json.dump(meta, open(mp, "w"), indent=1)
        finally:
            shutil.rmtree(tmp, ignore_errors=True)
            for t in ("py2lean.py", "py2lean_eff.py"):
                subprocess.run(["/venv/bin/python", os.path.join(VERIF, "tools", t)], capture_output=True)


if __name__ == "__main__":
    main()
