#!/bin/sh
# Pre-build for the checks: regenerate the Lean kernels from $IXAI_REPO (default /repo) and compile the whole Lean library once, so the
# per-property builds inside the checks are incremental.  On a tree that breaks a proof obligation some modules do not compile: that is for
# the checks to report (each rebuilds exactly what it needs), so this script only fails when the toolchain itself is missing.
cd "$(dirname "$0")/.."
command -v lake >/dev/null 2>&1 || { echo "lake not found on PATH"; exit 1; }
/venv/bin/python tools/py2lean.py
/venv/bin/python tools/py2lean_eff.py
/venv/bin/python tools/gen_audits.py
cd lean
lake build IxaiVerif IxaiVerif.AuditAll IxaiVerif.Driver.Main || echo "setup: some modules do not build on this tree; the checks report which obligations break"
lake build IxaiVerif.Props.GenBridge IxaiVerif.Props.GenCorollaries IxaiVerif.Props.GenImputer IxaiVerif.Props.GenBatch IxaiVerif.Props.GenNormalize IxaiVerif.Props.GenMV IxaiVerif.Props.GenTree IxaiVerif.Props.GenMeanOutput IxaiVerif.Props.GenInterval IxaiVerif.Props.GenMVCorollaries IxaiVerif.Props.GenImputerCorollaries IxaiVerif.Props.GenTreeImputer IxaiVerif.Props.GenRiverLoss || echo "setup: the generated-explainer bridge does not build on this tree (soft tie; see DESIGN.md 0.6)"
exit 0
