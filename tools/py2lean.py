#!/usr/bin/env python3
"""py2lean: translate the first-order kernels of iXAI (trackers, storages, two formulas) from the
Python source in $IXAI_REPO into Lean 4 definitions (lean/IxaiVerif/Gen/*.lean).

The translation is re-run by every check, so the Lean theorems are always about what the code says *now*.
Supported subset (anything else raises Unsupported with file:line):
  * classes with __init__ and methods over `self.<field>`; `super().__init__(...)` is inlined; inherited methods
    are re-translated in the subclass;
  * statements: Assign / AnnAssign / AugAssign to locals, to fields and to `self.f[i]`; If/elif/else;
    `self.f.append(e)`, `self.f.popleft()`, `self.f.pop(0)`; Return; Pass; docstrings; `assert` (recorded, not executed);
  * expressions: + - * / ** (`** 0.5` -> sqrt, `** n` for literal n -> repeated multiplication, `** e` with e : Nat -> npow),
    unary -, comparisons (also chained), and/or/not, len, max, min, abs, int/float literals, `None` tests on Optional
    parameters, field / local / parameter reads, math.sqrt, np.sqrt, np.exp, np.log, np.floor, math.exp/log/floor,
    random.random(), random.randrange(e), random.randint(a, b), `deque()`, `[]`, `list(e)`;
  * Python's left-to-right evaluation and statement order are preserved as a chain of `let`s; random draws are
    hoisted in evaluation order.
The per-class *schema* (field -> Lean type, parameter -> Lean type) below is part of the trusted base; it is validated
on every run by executing the generated definitions against the Python methods (harness/tv.py).
"""
import ast
import hashlib
import os
import sys

REPO = os.environ.get("IXAI_REPO", "/repo")


class Unsupported(Exception):
    pass


# ----------------------------------------------------------------------------------------------------------------
# schema
# ----------------------------------------------------------------------------------------------------------------
# types: K (number), Nat, Bool, X (instance), Y (target), LX (list of X), LY (list of Y), OptK (Optional number)
TRACKER_FILES = {
    "Tracker": "ixai/utils/tracker/base.py",
    "WelfordTracker": "ixai/utils/tracker/welford.py",
    "ExponentialSmoothingTracker": "ixai/utils/tracker/exponential_smoothing.py",
}
STORAGE_FILES = {
    "BaseStorage": "ixai/storage/base.py",
    "BatchStorage": "ixai/storage/batch_storage.py",
    "IntervalStorage": "ixai/storage/interval_storage.py",
    "SequenceStorage": "ixai/storage/sequence_storage.py",
    "ReservoirStorage": "ixai/storage/reservoir_storage.py",
    "GeometricReservoirStorage": "ixai/storage/geometric_reservoir_storage.py",
    "UniformReservoirStorage": "ixai/storage/uniform_reservoir_storage.py",
}
TRACKER_FILES["SlidingWindowTracker"] = "ixai/utils/tracker/sliding_window.py"
FILES = {**TRACKER_FILES, **STORAGE_FILES}

FIELD_TYPES = {
    "tracked_value": "K", "N": "Nat", "sum_squares": "K", "alpha": "K",
    "storage_x": "LX", "storage_y": "LY", "store_targets": "Bool", "size": "Nat",
    "constant_probability": "K", "stored_samples": "Nat", "algo_wt": "K", "algo_l_counter": "K",
    "window_k": "Nat", "k": "Nat", "sliding_window": "LOK",
}
PARAM_TYPES = {
    "value_i": "K", "alpha": "K", "x": "X", "y": "Y", "size": "Nat", "store_targets": "Bool",
    "constant_probability": "OptK", "k": "Nat",
}
# classes to emit, with the methods/properties to translate (inherited ones are looked up in the bases)
EMIT = {
    "WelfordTracker": dict(methods=["update"], props=["var", "std", "mean"], tparams="K"),
    "ExponentialSmoothingTracker": dict(methods=["update"], props=[], tparams="K"),
    "BatchStorage": dict(methods=["update"], props=[], tparams="XY"),
    "IntervalStorage": dict(methods=["update"], props=[], tparams="XY"),
    "SequenceStorage": dict(methods=["update"], props=[], tparams="XY"),
    "GeometricReservoirStorage": dict(methods=["update"], props=[], tparams="KXY"),
    "UniformReservoirStorage": dict(methods=["update"], props=[], tparams="KXY"),
    "SlidingWindowTracker": dict(methods=["update"], props=[], tparams="K"),
}
LEAN_TY = {"K": "K", "Nat": "Nat", "Bool": "Bool", "X": "X", "Y": "Y", "LX": "List X", "LY": "List Y",
           "OptK": "Option K", "LOK": "List (Option K)"}


def fld(name):
    return name.lstrip("_")


# ----------------------------------------------------------------------------------------------------------------
# source loading
# ----------------------------------------------------------------------------------------------------------------
class Source:
    def __init__(self, repo):
        self.repo = repo
        self.classes = {}
        self.sha = {}
        self.module_consts = {}
        for cname, rel in FILES.items():
            path = os.path.join(repo, rel)
            text = open(path).read()
            self.sha[cname] = hashlib.sha256(text.encode()).hexdigest()
            tree = ast.parse(text, filename=rel)
            found = [n for n in tree.body if isinstance(n, ast.ClassDef) and n.name == cname]
            if len(found) != 1:
                raise Unsupported(f"{rel}: class {cname} not found exactly once")
            self.classes[cname] = (found[0], rel)
            # module-level constants `NAME = <literal>` (used in place of literals)
            consts = self.module_consts.setdefault(rel, {})
            for n in tree.body:
                if isinstance(n, (ast.Assign, ast.AnnAssign)) and getattr(n, "value", None) is not None:
                    tg = n.targets[0] if isinstance(n, ast.Assign) and len(n.targets) == 1 else getattr(n, "target", None)
                    if isinstance(tg, ast.Name) and isinstance(n.value, (ast.Constant, ast.UnaryOp)):
                        consts[tg.id] = n.value

    def bases(self, cname):
        node, rel = self.classes[cname]
        out = []
        for b in node.bases:
            name = b.id if isinstance(b, ast.Name) else (b.attr if isinstance(b, ast.Attribute) else None)
            if name in self.classes:
                out.append(name)
        return out

    def mro(self, cname):
        # single inheritance among the modelled classes is all that occurs
        out = [cname]
        for b in self.bases(cname):
            for c in self.mro(b):
                if c not in out:
                    out.append(c)
        return out

    def find_method(self, cname, mname):
        for c in self.mro(cname):
            node, rel = self.classes[c]
            for item in node.body:
                if isinstance(item, ast.FunctionDef) and item.name == mname:
                    return item, rel, c
        return None, None, None


# ----------------------------------------------------------------------------------------------------------------
# translation context
# ----------------------------------------------------------------------------------------------------------------
class Ctx:
    def __init__(self, src, cname, rel):
        self.src = src
        self.cname = cname
        self.rel = rel
        self.locals = {}      # python local name -> (lean name, type)
        self.uses_rnd = False
        self.uses = set()     # 'realops', 'le', 'lt', 'deq'
        self.counter = 0
        self.fields_assigned = []  # order of first assignment in __init__
        self.asserts = []
        self.depth = 0
        self.partial_self = None  # during __init__: dict field -> lean local

    def fresh(self, base):
        self.counter += 1
        return f"{base}_{self.counter}"

    def err(self, node, msg):
        raise Unsupported(f"{self.rel}:{getattr(node, 'lineno', '?')}: {msg}: {ast.unparse(node)[:80]}")


def cast(expr, ty, want, ctx, node):
    """coerce a typed lean expression to `want`"""
    if ty == want:
        return expr
    if ty == "IntLit":
        n = int(expr)
        if want == "Nat":
            return f"({n} : Nat)"
        if want == "K":
            if n in (0, 1):
                return f"({n} : K)"
            return f"(({n} : Nat) : K)"
    if ty == "Nat" and want == "K":
        return f"(({expr} : Nat) : K)"
    if ty == "FloatLit" and want == "K":
        f = float(expr)
        if f == int(f):
            return cast(str(int(f)), "IntLit", "K", ctx, node)
    if ty == "EmptyList" and want in ("LX", "LY"):
        return "[]"
    if ty == "None" and want == "OptK":
        return "none"
    if ty == "K" and want == "OptK":
        return f"(some {expr})"
    ctx.err(node, f"cannot use a value of type {ty} where {want} is expected")


def unify_num(a, ta, b, tb, ctx, node):
    """numeric binary operands -> common type"""
    num = ("K", "Nat", "IntLit", "FloatLit")
    if ta not in num or tb not in num:
        ctx.err(node, f"non-numeric operands {ta}, {tb}")
    if "K" in (ta, tb) or "FloatLit" in (ta, tb):
        return cast(a, ta, "K", ctx, node), cast(b, tb, "K", ctx, node), "K"
    return cast(a, ta, "Nat", ctx, node), cast(b, tb, "Nat", ctx, node), "Nat"


class Tr:
    """statement/expression translator for one function body"""

    def __init__(self, ctx, in_init=False, fl=False):
        self.ctx = ctx
        self.in_init = in_init
        self.fl = fl  # wrap every K-arithmetic operation in `fl` (rounded variant for C20)
        self.pre = []  # hoisted draw bindings for the statement under translation

    # ---- expressions -----------------------------------------------------------------------------------------
    def rd(self, s):
        return f"(fl {s})" if self.fl else s

    def field_read(self, name, node):
        f = fld(name)
        if f not in FIELD_TYPES:
            c = self.ctx
            fn, frel, fcls = c.src.find_method(c.cname, name) if c.src is not None else (None, None, None)
            if fn is not None and any(ast.unparse(d) == "property" for d in fn.decorator_list) and getattr(self, "prop_depth", 0) < 3:
                body = [s_ for s_ in fn.body if not (isinstance(s_, ast.Expr) and isinstance(s_.value, ast.Constant))]
                if len(body) == 1 and isinstance(body[0], ast.Return) and body[0].value is not None:
                    # a (private) property read inside a method: its single `return <expr>` is inlined; it sees the current state
                    saved = (c.locals, c.rel)
                    c.locals, c.rel = {}, frel
                    self.prop_depth = getattr(self, "prop_depth", 0) + 1
                    try:
                        return self.expr(body[0].value)
                    finally:
                        self.prop_depth -= 1
                        c.locals, c.rel = saved
            self.ctx.err(node, f"unknown field {name} (not in the translator schema)")
        if self.in_init:
            if f not in self.ctx.partial_self:
                self.ctx.err(node, f"field {name} read before assignment in __init__")
            return self.ctx.partial_self[f], FIELD_TYPES[f]
        return f"self.{f}", FIELD_TYPES[f]

    def expr(self, e):
        c = self.ctx
        if isinstance(e, ast.Constant):
            if e.value is None:
                return "none", "None"
            if isinstance(e.value, bool):
                return ("true" if e.value else "false"), "Bool"
            if isinstance(e.value, int):
                return str(e.value), "IntLit"
            if isinstance(e.value, float):
                return repr(e.value), "FloatLit"
            c.err(e, "unsupported constant")
        if isinstance(e, ast.Name):
            if e.id in c.locals:
                return c.locals[e.id]
            mc = getattr(c.src, "module_consts", {}).get(c.rel, {}) if c.src is not None else {}
            if e.id in mc:
                return self.expr(mc[e.id])      # a module-level constant stands for its literal
            c.err(e, "unknown name")
        if isinstance(e, ast.NamedExpr) and isinstance(e.target, ast.Name):
            # walrus: the value is bound to a local where it is evaluated (hoisted in evaluation order) and is the expression's value
            v, t = self.expr(e.value)
            if t == "IntLit":
                v, t = cast(v, t, "Nat", c, e), "Nat"
            if t == "FloatLit":
                v, t = cast(v, t, "K", c, e), "K"
            ln = c.fresh(e.target.id)
            self.pre.append(f"let {ln} := {v}")
            c.locals[e.target.id] = (ln, t)
            return ln, t
        if isinstance(e, ast.Attribute):
            if isinstance(e.value, ast.Name) and e.value.id == "self":
                return self.field_read(e.attr, e)
            c.err(e, "unsupported attribute")
        if isinstance(e, ast.UnaryOp):
            v, t = self.expr(e.operand)
            if isinstance(e.op, ast.Not):
                if t != "Bool":
                    c.err(e, "`not` of a non-boolean")
                return f"(!{v})", "Bool"
            if isinstance(e.op, ast.USub):
                v = cast(v, t, "K", c, e)
                c.uses.add("neg")
                return f"(-{v})", "K"
            c.err(e, "unsupported unary operator")
        if isinstance(e, ast.BinOp):
            return self.binop(e)
        if isinstance(e, ast.BoolOp):
            parts = []
            for v in e.values:
                s, t = self.expr(v)
                if t != "Bool":
                    c.err(e, "and/or of non-booleans")
                parts.append(s)
            op = " && " if isinstance(e.op, ast.And) else " || "
            return "(" + op.join(parts) + ")", "Bool"
        if isinstance(e, ast.Compare):
            return self.compare(e)
        if isinstance(e, ast.Call):
            return self.call(e)
        if isinstance(e, ast.List) and not e.elts:
            return "[]", "EmptyList"
        if isinstance(e, ast.ListComp) and ast.unparse(e.elt) in ("np.nan", "np.NaN", "numpy.nan", "float('nan')", "math.nan") \
                and len(e.generators) == 1 and isinstance(e.generators[0].iter, ast.Call) and ast.unparse(e.generators[0].iter.func) == "range" \
                and len(e.generators[0].iter.args) == 1 and not e.generators[0].ifs:
            v, t = self.expr(e.generators[0].iter.args[0])
            return f"(List.replicate {cast(v, t, 'Nat', c, e)} none)", "LOK"
        if isinstance(e, ast.IfExp):
            tst = e.test
            if isinstance(tst, ast.Compare) and len(tst.ops) == 1 and isinstance(tst.ops[0], (ast.Is, ast.IsNot)) \
                    and isinstance(tst.left, ast.Name) and isinstance(tst.comparators[0], ast.Constant) \
                    and tst.comparators[0].value is None and c.locals.get(tst.left.id, (None, None))[1] == "OptK":
                # `p if p is not None else d` on an Optional parameter: a match that narrows p in the `some` branch
                name = tst.left.id
                some_e, none_e = (e.body, e.orelse) if isinstance(tst.ops[0], ast.IsNot) else (e.orelse, e.body)
                npre = len(self.pre)
                saved = dict(c.locals)
                opt = c.locals[name][0]
                c.locals[name] = (f"{name}_v", "K")
                a, ta = self.expr(some_e)
                c.locals = saved
                b, tb = self.expr(none_e)
                if len(self.pre) != npre:
                    c.err(e, "random draw or helper call inside a conditional expression")
                return f"(match {opt} with | some {name}_v => {cast(a, ta, 'K', c, e)} | none => {cast(b, tb, 'K', c, e)})", "K"
            # `a if cond else b`: only the chosen branch is evaluated in Python; both are pure here (draws are rejected below)
            cnd, tc = self.expr(e.test)
            if tc != "Bool":
                c.err(e, "condition of a conditional expression is not boolean")
            npre = len(self.pre)
            a, ta = self.expr(e.body)
            b, tb = self.expr(e.orelse)
            if len(self.pre) != npre:
                c.err(e, "random draw or helper call inside a conditional expression")
            if ta == tb:
                return f"(if {cnd} then {a} else {b})", ta
            num = ("K", "Nat", "IntLit", "FloatLit")
            if ta in num and tb in num:
                want = "Nat" if {ta, tb} <= {"Nat", "IntLit"} else "K"
                return f"(if {cnd} then {cast(a, ta, want, c, e)} else {cast(b, tb, want, c, e)})", want
            c.err(e, f"branches of a conditional expression have types {ta} and {tb}")
        if isinstance(e, ast.Subscript):
            c.err(e, "subscript reads are not part of the kernel subset")
        c.err(e, "unsupported expression")

    def binop(self, e):
        c = self.ctx
        if isinstance(e.op, ast.Pow):
            base, tb = self.expr(e.left)
            if isinstance(e.right, ast.Constant) and e.right.value == 0.5:
                c.uses.add("realops")
                return f"(RealOps.sqrt {cast(base, tb, 'K', c, e)})", "K"
            if isinstance(e.right, ast.Constant) and isinstance(e.right.value, int) and 1 <= e.right.value <= 4:
                b = cast(base, tb, "K", c, e)
                out = b
                for _ in range(e.right.value - 1):
                    out = self.rd(f"({out} * {b})")
                return out, "K"
            ex, te = self.expr(e.right)
            if te in ("Nat", "IntLit"):
                return f"(npow {cast(base, tb, 'K', c, e)} {cast(ex, te, 'Nat', c, e)})", "K"
            c.err(e, "unsupported power")
        a, ta = self.expr(e.left)
        b, tb = self.expr(e.right)
        if isinstance(e.op, ast.Div):
            a = cast(a, ta, "K", c, e)
            b = cast(b, tb, "K", c, e)
            return self.rd(f"({a} / {b})"), "K"
        ops = {ast.Add: "+", ast.Sub: "-", ast.Mult: "*"}
        for k, sym in ops.items():
            if isinstance(e.op, k):
                a2, b2, t = unify_num(a, ta, b, tb, c, e)
                if t == "Nat" and sym == "-":
                    c.err(e, "natural-number subtraction is not supported (truncation)")
                s = f"({a2} {sym} {b2})"
                return (self.rd(s) if t == "K" else s), t
        c.err(e, "unsupported binary operator")

    def compare(self, e):
        c = self.ctx
        parts = []
        left = e.left
        for op, right in zip(e.ops, e.comparators):
            # `x is None` / `x is not None` on Optional parameters
            if isinstance(op, (ast.Is, ast.IsNot)) and isinstance(right, ast.Constant) and right.value is None:
                v, t = self.expr(left)
                if t != "OptK":
                    c.err(e, "`is None` on a non-optional value")
                parts.append(f"({v}).isNone" if isinstance(op, ast.Is) else f"({v}).isSome")
                left = right
                continue
            a, ta = self.expr(left)
            b, tb = self.expr(right)
            a2, b2, t = unify_num(a, ta, b, tb, c, e)
            sym = {ast.Lt: "<", ast.LtE: "≤", ast.Gt: ">", ast.GtE: "≥", ast.Eq: "=", ast.NotEq: "≠"}.get(type(op))
            if sym is None:
                c.err(e, "unsupported comparison")
            if t == "K":
                c.uses.add({"<": "lt", ">": "lt", "≤": "le", "≥": "le", "=": "deq", "≠": "deq"}[sym])
            parts.append(f"decide ({a2} {sym} {b2})")
            left = right
        return ("(" + " && ".join(parts) + ")" if len(parts) > 1 else parts[0]), "Bool"

    def draw_real(self):
        c = self.ctx
        c.uses_rnd = True
        u = c.fresh("u")
        self.pre.append(f"let ({u}, rnd) := rnd.nextReal")
        return u, "K"

    def draw_idx(self, rng_expr):
        c = self.ctx
        c.uses_rnd = True
        j = c.fresh("j")
        self.pre.append(f"let ({j}, rnd) := rnd.nextIdx {rng_expr}")
        return j, "Nat"

    def call(self, e):
        c = self.ctx
        f = e.func
        name = ast.unparse(f)
        args = e.args
        if e.keywords and name not in ("random.choices",):
            c.err(e, "keyword arguments in kernel expressions")
        if isinstance(f, ast.Attribute) and isinstance(f.value, ast.Name) and f.value.id in ("self", c.cname) and not self.in_init \
                and fld(f.attr) not in FIELD_TYPES:
            return self.inline_helper_expr(e, e)
        if name == "len" and len(args) == 1:
            v, t = self.expr(args[0])
            if t not in ("LX", "LY"):
                c.err(e, "len of a non-list")
            return f"{v}.length", "Nat"
        if name in ("max", "min") and len(args) == 2:
            a, ta = self.expr(args[0])
            b, tb = self.expr(args[1])
            a2, b2, t = unify_num(a, ta, b, tb, c, e)
            if t == "Nat":
                return f"(Nat.{name} {a2} {b2})", "Nat"
            c.uses.add("le")
            if name == "max":
                return f"(if decide ({a2} ≥ {b2}) then {a2} else {b2})", "K"
            return f"(if decide ({a2} ≤ {b2}) then {a2} else {b2})", "K"
        if name in ("math.sqrt", "np.sqrt", "numpy.sqrt"):
            v, t = self.expr(args[0])
            c.uses.add("realops")
            return f"(RealOps.sqrt {cast(v, t, 'K', c, e)})", "K"
        for lib in ("np", "numpy", "math"):
            for fn in ("exp", "log", "floor"):
                if name == f"{lib}.{fn}":
                    v, t = self.expr(args[0])
                    c.uses.add("realops")
                    return f"(RealOps.{fn} {cast(v, t, 'K', c, e)})", "K"
        if name == "random.random" and not args:
            return self.draw_real()
        if name == "random.randrange" and len(args) == 1:
            v, t = self.expr(args[0])
            return self.draw_idx(cast(v, t, "Nat", c, e))
        if name == "random.randint" and len(args) == 2:
            lo, tlo = self.expr(args[0])
            if not (tlo == "IntLit" and int(lo) == 0):
                c.err(e, "randint with a lower bound other than 0")
            hi = args[1]
            # randint(0, n - 1)  ==  randrange(n)
            if isinstance(hi, ast.BinOp) and isinstance(hi.op, ast.Sub) and isinstance(hi.right, ast.Constant) \
                    and hi.right.value == 1:
                v, t = self.expr(hi.left)
                return self.draw_idx(cast(v, t, "Nat", c, e))
            v, t = self.expr(hi)
            return self.draw_idx(f"({cast(v, t, 'Nat', c, e)} + 1)")
        if name in ("np.array", "numpy.array", "np.asarray") and len(args) == 1 and isinstance(args[0], ast.Name) \
                and c.locals.get(args[0].id, (None, None))[1] == "LOK":
            return c.locals[args[0].id]
        if name in ("np.array", "numpy.array", "np.asarray") and len(args) == 1 and isinstance(args[0], ast.ListComp):
            lc = args[0]
            if ast.unparse(lc.elt) in ("np.nan", "np.NaN", "numpy.nan", "float('nan')", "math.nan") and len(lc.generators) == 1 \
                    and isinstance(lc.generators[0].iter, ast.Call) and ast.unparse(lc.generators[0].iter.func) == "range" \
                    and len(lc.generators[0].iter.args) == 1 and not lc.generators[0].ifs:
                v, t = self.expr(lc.generators[0].iter.args[0])
                return f"(List.replicate {cast(v, t, 'Nat', c, e)} none)", "LOK"
            c.err(e, "unsupported array construction")
        if name == "deque" and not args:
            return "[]", "EmptyList"
        if name == "list" and len(args) <= 1:
            if not args:
                return "[]", "EmptyList"
            return self.expr(args[0])
        if name in ("float", "int") and len(args) == 1:
            c.err(e, "numeric conversions are not part of the kernel subset")
        c.err(e, "unsupported call")

    # ---- statements ------------------------------------------------------------------------------------------
    def set_field(self, name, value_expr, vty, node):
        c = self.ctx
        f = fld(name)
        if f not in FIELD_TYPES:
            c.err(node, f"unknown field {name} (not in the translator schema)")
        v = cast(value_expr, vty, FIELD_TYPES[f], c, node)
        if self.in_init:
            ln = c.fresh(f"f_{f}")
            c.partial_self[f] = ln
            if f not in c.fields_assigned:
                c.fields_assigned.append(f)
            return [f"let {ln} : {LEAN_TY[FIELD_TYPES[f]]} := {v}"]
        return [f"let self := {{ self with {f} := {v} }}"]

    def flush(self, lines):
        out = self.pre + lines
        self.pre = []
        return out

    def stmt(self, s):
        """returns list of lean lines (let-bindings); control flow handled by block()"""
        c = self.ctx
        if isinstance(s, ast.Expr) and isinstance(s.value, ast.Constant) and isinstance(s.value.value, str):
            return []
        if isinstance(s, ast.Pass):
            return []
        if isinstance(s, ast.Assert):
            c.asserts.append(ast.unparse(s.test))
            return []
        if isinstance(s, (ast.Assign, ast.AnnAssign)):
            target = s.targets[0] if isinstance(s, ast.Assign) else s.target
            if isinstance(s, ast.Assign) and len(s.targets) != 1:
                # chained assignment `a = b = e`: e is evaluated once, then stored into the targets left to right
                v, t = self.expr(s.value)
                lines = self.flush([])
                if t not in ("IntLit", "FloatLit", "EmptyList", "None"):
                    tmp = c.fresh("rhs")
                    lines.append(f"let {tmp} := {v}")
                    v = tmp
                for tg in s.targets:
                    lines += self.assign(tg, v, t, s)
                return lines
            if s.value is None:
                c.err(s, "annotation without value")
            if isinstance(target, (ast.Tuple, ast.List)):
                # `a, b = e1, e2`: Python evaluates the whole right-hand side first, then stores left to right
                if not isinstance(s.value, (ast.Tuple, ast.List)) or len(s.value.elts) != len(target.elts):
                    c.err(s, "tuple assignment from something other than a tuple display of the same length")
                lines, vals = [], []
                for e_ in s.value.elts:
                    v, t = self.expr(e_)
                    lines = self.flush(lines)
                    if t in ("IntLit", "FloatLit", "EmptyList", "None"):
                        vals.append((v, t))
                    else:
                        tmp = c.fresh("rhs")
                        lines.append(f"let {tmp} := {v}")
                        vals.append((tmp, t))
                for tg, (v, t) in zip(target.elts, vals):
                    lines += self.assign(tg, v, t, s)
                return lines
            v, t = self.expr(s.value)
            return self.flush(self.assign(target, v, t, s))
        if isinstance(s, ast.AugAssign):
            cur = ast.BinOp(left=self.as_load(s.target), op=s.op, right=s.value)
            ast.copy_location(cur, s)
            ast.fix_missing_locations(cur)
            v, t = self.expr(cur)
            return self.flush(self.assign(s.target, v, t, s))
        if isinstance(s, ast.Expr) and isinstance(s.value, ast.Call):
            call = s.value
            f = call.func
            if isinstance(f, ast.Attribute) and isinstance(f.value, ast.Attribute) \
                    and isinstance(f.value.value, ast.Name) and f.value.value.id == "self":
                field = f.value.attr
                cur, ft = self.field_read(field, s)
                if ft not in ("LX", "LY"):
                    c.err(s, "method call on a non-list field")
                if f.attr == "append" and len(call.args) == 1:
                    v, t = self.expr(call.args[0])
                    v = cast(v, t, ft[1], c, s)
                    return self.flush(self.set_field(field, f"({cur} ++ [{v}])", ft, s))
                if f.attr == "popleft" and not call.args:
                    return self.flush(self.set_field(field, f"({cur}).tail", ft, s))
                if f.attr == "pop" and len(call.args) == 1 and isinstance(call.args[0], ast.Constant) \
                        and call.args[0].value == 0:
                    return self.flush(self.set_field(field, f"({cur}).tail", ft, s))
                c.err(s, "unsupported list method")
            if isinstance(f, ast.Attribute) and f.attr == "__init__" and isinstance(f.value, ast.Call) \
                    and ast.unparse(f.value.func) == "super":
                return self.inline_super(call, s)
            if isinstance(f, ast.Attribute) and isinstance(f.value, ast.Name) and f.value.id in ("self", c.cname) and not self.in_init:
                return self.inline_helper_stmt(call, s)
            c.err(s, "unsupported expression statement")
        c.err(s, "unsupported statement")

    def as_load(self, target):
        t = ast.parse(ast.unparse(target), mode="eval").body
        return t

    def assign(self, target, v, t, node):
        c = self.ctx
        if isinstance(target, ast.Name):
            if t in ("IntLit",):
                v, t = cast(v, t, "Nat", c, node), "Nat"
            if t == "FloatLit":
                v, t = cast(v, t, "K", c, node), "K"
            ln = c.fresh(target.id)
            c.locals[target.id] = (ln, t)
            return [f"let {ln} := {v}"]
        if isinstance(target, ast.Attribute) and isinstance(target.value, ast.Name) and target.value.id == "self":
            return self.set_field(target.attr, v, t, node)
        if isinstance(target, ast.Subscript) and isinstance(target.value, ast.Attribute) \
                and isinstance(target.value.value, ast.Name) and target.value.value.id == "self":
            field = target.value.attr
            cur, ft = self.field_read(field, node)
            if ft not in ("LX", "LY", "LOK"):
                c.err(node, "item assignment on a non-list field")
            i, ti = self.expr(target.slice)
            i = cast(i, ti, "Nat", c, node)
            v = f"(some {cast(v, t, 'K', c, node)})" if ft == "LOK" else cast(v, t, ft[1], c, node)
            return self.set_field(field, f"({cur}).set {i} {v}", ft, node)
        c.err(node, "unsupported assignment target")

    def inline_super(self, call, node):
        c = self.ctx
        # find the __init__ of the next class in the MRO after the class whose body we are translating
        mro = c.src.mro(self.cur_class)
        fn = None
        for base in mro[1:]:
            cls_node, rel = c.src.classes[base]
            for item in cls_node.body:
                if isinstance(item, ast.FunctionDef) and item.name == "__init__":
                    fn, frel, fcls = item, rel, base
                    break
            if fn is not None:
                break
        if fn is None:
            c.err(node, "super().__init__ target not found among the modelled classes")
        params = [a.arg for a in fn.args.args[1:]] + [a.arg for a in fn.args.kwonlyargs]
        defaults = {}
        pos = fn.args.args[1:]
        for a, d in zip(pos[len(pos) - len(fn.args.defaults):], fn.args.defaults):
            defaults[a.arg] = d
        for a, d in zip(fn.args.kwonlyargs, fn.args.kw_defaults):
            if d is not None:
                defaults[a.arg] = d
        bound = {}
        for p, a in zip(params, call.args):
            bound[p] = self.expr(a)
        for kw in call.keywords:
            if kw.arg is None:
                c.err(node, "**kwargs in super().__init__")
            bound[kw.arg] = self.expr(kw.value)
        for p in params:
            if p not in bound:
                if p not in defaults:
                    c.err(node, f"missing argument {p} for {fcls}.__init__")
                bound[p] = self.expr(defaults[p])
        lines = self.flush([])
        saved_locals, saved_rel, saved_cls = c.locals, c.rel, self.cur_class
        c.locals = {}
        for p, (v, t) in bound.items():
            want = PARAM_TYPES.get(p)
            if want is None:
                c.err(node, f"parameter {p} of {fcls}.__init__ is not in the translator schema")
            c.locals[p] = (cast(v, t, want, c, node), want)
        c.rel, self.cur_class = frel, fcls
        for st in fn.body:
            lines += self.block_stmt(st)
        c.locals, c.rel, self.cur_class = saved_locals, saved_rel, saved_cls
        return lines

    def state_tuple(self):
        if self.in_init:
            return None
        return "(self, rnd)" if self.ctx.uses_rnd_method else "self"

    def block_stmt(self, s):
        """translate one statement that may be an If (returns lines)"""
        c = self.ctx
        if isinstance(s, ast.If):
            tst = s.test
            # idiom `if p is None: p = <default>` on an Optional parameter: afterwards p is a plain number
            if isinstance(tst, ast.Compare) and len(tst.ops) == 1 and isinstance(tst.ops[0], ast.Is) \
                    and isinstance(tst.left, ast.Name) and isinstance(tst.comparators[0], ast.Constant) \
                    and tst.comparators[0].value is None and c.locals.get(tst.left.id, (None, None))[1] == "OptK" \
                    and not s.orelse and len(s.body) == 1 and isinstance(s.body[0], ast.Assign) and len(s.body[0].targets) == 1 \
                    and isinstance(s.body[0].targets[0], ast.Name) and s.body[0].targets[0].id == tst.left.id:
                name = tst.left.id
                opt = c.locals[name][0]
                dv, dt = self.expr(s.body[0].value)
                pre = self.flush([])
                if pre:
                    c.err(s, "random draw in the default of an Optional parameter")
                ln = c.fresh(name)
                c.locals[name] = (ln, "K")
                return [f"let {ln} : K := match {opt} with | some {name}_v => {name}_v | none => {cast(dv, dt, 'K', c, s)}"]
            # `if p is not None:` / `if p is None:` on an Optional parameter becomes a match that narrows p
            narrow = None
            if isinstance(tst, ast.Compare) and len(tst.ops) == 1 and isinstance(tst.ops[0], (ast.Is, ast.IsNot)) \
                    and isinstance(tst.left, ast.Name) and isinstance(tst.comparators[0], ast.Constant) \
                    and tst.comparators[0].value is None and c.locals.get(tst.left.id, (None, None))[1] == "OptK":
                narrow = (tst.left.id, isinstance(tst.ops[0], ast.IsNot))
                cond = None
            else:
                cond, t = self.expr(s.test)
                if t != "Bool":
                    c.err(s, "condition is not boolean")
            pre = self.flush([])

            def head(first):
                # opening line of the first / second branch
                if narrow is None:
                    return f"  if {cond} then" if first else "  else"
                name, some_first = narrow
                is_some = some_first if first else not some_first
                opener = f"  match {c.locals[name][0]} with\n" if first else ""
                return opener + (f"  | some {name}_v =>" if is_some else "  | none =>")

            def enter(first):
                if narrow is not None:
                    name, some_first = narrow
                    if (some_first if first else not some_first):
                        c.locals[name] = (f"{name}_v", "K")
            if self.in_init:
                # only `if p is not None: self.f = a  else: self.f = b` shapes (same fields in both branches)
                before = dict(c.partial_self)
                saved = dict(c.locals)
                tl = []
                enter(True)
                for st in s.body:
                    tl += self.block_stmt(st)
                after_t = dict(c.partial_self)
                c.partial_self = dict(before)
                c.locals = dict(saved)
                el = []
                enter(False)
                for st in s.orelse:
                    el += self.block_stmt(st)
                after_e = dict(c.partial_self)
                c.locals = dict(saved)
                changed_t = sorted(k for k in after_t if after_t[k] != before.get(k))
                changed_e = sorted(k for k in after_e if after_e[k] != before.get(k))
                if changed_t != changed_e:
                    c.err(s, "__init__ branches assign different fields")
                names = [c.fresh(f"f_{k}") for k in changed_t]
                tup_t = ", ".join(after_t[k] for k in changed_t)
                tup_e = ", ".join(after_e[k] for k in changed_e)
                pat = ", ".join(names)
                if len(names) > 1:
                    tup_t, tup_e, pat = f"({tup_t})", f"({tup_e})", f"({pat})"
                lines = pre + [f"let {pat} :="] + head(True).split("\n") + ["    " + x for x in tl] + [f"    {tup_t}", head(False)] \
                    + ["    " + x for x in el] + [f"    {tup_e}"]
                c.partial_self = dict(before)
                for k, n in zip(changed_t, names):
                    c.partial_self[k] = n
                return lines
            saved = dict(c.locals)
            tl = []
            enter(True)
            for st in s.body:
                tl += self.block_stmt(st)
            c.locals = dict(saved)
            el = []
            enter(False)
            for st in s.orelse:
                el += self.block_stmt(st)
            c.locals = dict(saved)
            tup = self.state_tuple()
            return pre + [f"let {tup} :="] + head(True).split("\n") + ["    " + x for x in tl] + [f"    {tup}", head(False)] \
                + ["    " + x for x in el] + [f"    {tup}"]
        if isinstance(s, ast.Return):
            if s.value is None:
                return []
            if isinstance(s.value, ast.Name) and s.value.id == "self":
                return []
            c.err(s, "return of a value inside a state-updating method")
        return self.stmt(s)

    # ---- whole blocks with early returns (continuation-passing) ---------------------------------------------------
    @staticmethod
    def always_returns(stmts):
        if not stmts:
            return False
        last = stmts[-1]
        if isinstance(last, ast.Return):
            return True
        if isinstance(last, ast.If):
            return Tr.always_returns(last.body) and Tr.always_returns(last.orelse)
        return False

    @staticmethod
    def has_return(stmts):
        return any(isinstance(n, ast.Return) for st in stmts for n in ast.walk(st))

    def block(self, stmts):
        """lines of a statement list of a state-updating method, ENDING with the resulting state expression; a `return` ends the
        method: when a branch of an `if` returns, the statements after the `if` go into the other branch only"""
        c = self.ctx
        stmts = list(stmts)
        if not stmts:
            return [self.state_tuple()]
        s, rest = stmts[0], stmts[1:]
        if isinstance(s, ast.Return):
            if s.value is not None and not (isinstance(s.value, ast.Name) and s.value.id == "self"):
                c.err(s, "return of a value inside a state-updating method")
            return [self.state_tuple()]
        if isinstance(s, ast.If) and (self.has_return(s.body) or self.has_return(s.orelse)):
            cond, t = self.expr(s.test)
            if t != "Bool":
                c.err(s, "condition is not boolean")
            pre = self.flush([])
            saved = dict(c.locals)
            tl = self.block(list(s.body) + ([] if self.always_returns(s.body) else rest))
            c.locals = dict(saved)
            el = self.block(list(s.orelse) + ([] if self.always_returns(s.orelse) else rest))
            c.locals = dict(saved)
            return pre + [f"if {cond} then"] + ["  " + x for x in tl] + ["else"] + ["  " + x for x in el]
        return self.block_stmt(s) + self.block(rest)

    # ---- calls of private helper methods of the same class are inlined ------------------------------------------
    def helper(self, name):
        fn, frel, fcls = self.ctx.src.find_method(self.ctx.cname, name)
        return fn, frel, fcls

    def bind_helper_args(self, fn, call, node):
        c = self.ctx
        skip = 1 if fn.args.args and fn.args.args[0].arg in ("self", "cls") else 0    # @staticmethod helpers have no receiver
        params = [a.arg for a in fn.args.args[skip:]] + [a.arg for a in fn.args.kwonlyargs]
        bound = {}
        for pn, a in zip(params, call.args):
            bound[pn] = self.expr(a)
        for kw in call.keywords:
            bound[kw.arg] = self.expr(kw.value)
        pos = fn.args.args[skip:]
        for a, d in zip(pos[len(pos) - len(fn.args.defaults):], fn.args.defaults):
            if a.arg not in bound:
                bound[a.arg] = self.expr(d)
        for pn in params:
            if pn not in bound:
                c.err(node, f"missing argument {pn} in the call of helper {fn.name}")
        lines = self.flush([])
        new_locals = {}
        for pn, (v, t) in bound.items():
            if t == "IntLit":
                v, t = cast(v, t, "Nat", c, node), "Nat"
            ln = c.fresh("arg_" + pn)
            lines.append(f"let {ln} := {v}")
            new_locals[pn] = (ln, t)
        return lines, new_locals

    def inline_helper_stmt(self, call, node):
        """`self._helper(args)` as a statement: the helper's body transforms the state"""
        c = self.ctx
        fn, frel, fcls = self.helper(call.func.attr)
        if fn is None or c.depth > 4:
            c.err(node, "unsupported expression statement")
        lines, new_locals = self.bind_helper_args(fn, call, node)
        saved = (c.locals, c.rel, self.cur_class)
        c.locals, c.rel, self.cur_class = new_locals, frel, fcls
        c.depth += 1
        body = self.block([st for st in fn.body])
        c.depth -= 1
        c.locals, c.rel, self.cur_class = saved
        tup = self.state_tuple()
        return lines + [f"let {tup} :="] + ["  " + x for x in body]

    def inline_helper_expr(self, call, node):
        """`self._helper(args)` as an expression: straight-line helper ending in `return <expr>`; its statements are hoisted"""
        c = self.ctx
        fn, frel, fcls = self.helper(call.func.attr)
        if fn is None or c.depth > 4:
            c.err(node, "unsupported call")
        body = [st for st in fn.body if not (isinstance(st, ast.Expr) and isinstance(st.value, ast.Constant))]
        if not body or not isinstance(body[-1], ast.Return) or body[-1].value is None or self.has_return(body[:-1]):
            c.err(node, "helper used as an expression must be straight-line code ending in `return <expr>`")
        lines, new_locals = self.bind_helper_args(fn, call, node)
        saved = (c.locals, c.rel, self.cur_class)
        c.locals, c.rel, self.cur_class = new_locals, frel, fcls
        c.depth += 1
        for st in body[:-1]:
            lines += self.block_stmt(st)
        v, t = self.expr(body[-1].value)
        lines += self.flush([])
        c.depth -= 1
        c.locals, c.rel, self.cur_class = saved
        self.pre = lines + self.pre
        return v, t


def uses_random(fn, src=None, cname=None, depth=0):
    for n in ast.walk(fn):
        if isinstance(n, ast.Call) and ast.unparse(n.func).startswith("random."):
            return True
        if src is not None and depth < 4 and isinstance(n, ast.Call) and isinstance(n.func, ast.Attribute) \
                and isinstance(n.func.value, ast.Name) and n.func.value.id == "self":
            h, _, _ = src.find_method(cname, n.func.attr)
            if h is not None and h is not fn and uses_random(h, src, cname, depth + 1):
                return True
    return False


def class_fields(src, cname):
    """fields assigned in __init__ (following super().__init__), in order"""
    seen = []
    for c in reversed(src.mro(cname)):
        node, rel = src.classes[c]
        for item in node.body:
            if isinstance(item, ast.FunctionDef) and item.name == "__init__":
                for n in ast.walk(item):
                    if isinstance(n, (ast.Assign, ast.AnnAssign)):
                        tg = n.targets[0] if isinstance(n, ast.Assign) else n.target
                        if isinstance(tg, ast.Attribute) and isinstance(tg.value, ast.Name) and tg.value.id == "self":
                            f = fld(tg.attr)
                            if f not in seen:
                                seen.append(f)
    return seen


def init_reaches(src, cname):
    """the classes whose __init__ bodies are executed when `cname` is constructed"""
    out = []
    cur = cname
    mro = src.mro(cname)
    i = 0
    while i < len(mro):
        c = mro[i]
        node, rel = src.classes[c]
        fn = next((it for it in node.body if isinstance(it, ast.FunctionDef) and it.name == "__init__"), None)
        if fn is None:
            i += 1
            continue
        out.append(c)
        calls_super = any(isinstance(n, ast.Call) and isinstance(n.func, ast.Attribute) and n.func.attr == "__init__"
                          and isinstance(n.func.value, ast.Call) and ast.unparse(n.func.value.func) == "super"
                          for n in ast.walk(fn))
        if not calls_super:
            break
        i += 1
    return out


def translate_class(src, cname, fl=False):
    spec = EMIT[cname]
    node, rel = src.classes[cname]
    tparams = spec["tparams"]
    # which fields exist: those assigned by the executed __init__ chain
    executed = init_reaches(src, cname)
    fields = []
    for c in reversed(executed):
        cn, _ = src.classes[c]
        fn = next(it for it in cn.body if isinstance(it, ast.FunctionDef) and it.name == "__init__")
        for n in ast.walk(fn):
            if isinstance(n, (ast.Assign, ast.AnnAssign)):
                tgs = list(n.targets) if isinstance(n, ast.Assign) else [n.target]      # chained assignment: several targets
                flat = []
                for tg in tgs:
                    flat += list(tg.elts) if isinstance(tg, (ast.Tuple, ast.List)) else [tg]   # tuple assignment
                for tg in flat:
                    if isinstance(tg, ast.Attribute) and isinstance(tg.value, ast.Name) and tg.value.id == "self":
                        f = fld(tg.attr)
                        if f not in FIELD_TYPES:
                            raise Unsupported(f"{rel}: field {tg.attr} is not in the translator schema")
                        if f not in fields:
                            fields.append(f)
    ctx = Ctx(src, cname, rel)
    tyargs = " ".join(f"({p} : Type)" for p in tparams)
    tyapp = " ".join(tparams)
    out = []
    sname = cname
    out.append(f"structure {sname} {tyargs} where")
    for f in fields:
        out.append(f"  {f} : {LEAN_TY[FIELD_TYPES[f]]}")
    out.append("")
    body_defs = []

    # ---- init
    init_cls = executed[0]
    init_fn = next(it for it in src.classes[init_cls][0].body if isinstance(it, ast.FunctionDef) and it.name == "__init__")
    ctx.rel = src.classes[init_cls][1]
    ctx.partial_self = {}
    tr = Tr(ctx, in_init=True, fl=fl)
    tr.cur_class = init_cls
    ctx.uses_rnd_method = uses_random(init_fn) or any(
        uses_random(next(it for it in src.classes[c][0].body if isinstance(it, ast.FunctionDef) and it.name == "__init__"))
        for c in executed)
    params = []
    pos = init_fn.args.args[1:]
    defaults = {}
    for a, d in zip(pos[len(pos) - len(init_fn.args.defaults):], init_fn.args.defaults):
        defaults[a.arg] = d
    for a in pos + init_fn.args.kwonlyargs:
        if a.arg not in PARAM_TYPES:
            raise Unsupported(f"{ctx.rel}: parameter {a.arg} of {init_cls}.__init__ is not in the translator schema")
        t = PARAM_TYPES[a.arg]
        ctx.locals[a.arg] = (a.arg, t)
        params.append(f"({a.arg} : {LEAN_TY[t]})")
    lines = []
    for st in init_fn.body:
        lines += tr.block_stmt(st)
    missing = [f for f in fields if f not in ctx.partial_self]
    if missing:
        raise Unsupported(f"{rel}: fields {missing} not assigned by __init__")
    ctor = "{ " + ", ".join(f"{f} := {ctx.partial_self[f]}" for f in fields) + " }"
    rnd_param = " (rnd : Rnd K)" if ctx.uses_rnd_method else ""
    ret = f"{sname} {tyapp} × Rnd K" if ctx.uses_rnd_method else f"{sname} {tyapp}"
    body_defs.append(f"def init {' '.join(params)}{rnd_param} : {ret} :=")
    for ln in lines:
        body_defs.append("  " + ln)
    body_defs.append(f"  ({ctor}, rnd)" if ctx.uses_rnd_method else f"  {ctor}")
    body_defs.append("")
    init_asserts = list(ctx.asserts)

    # ---- methods
    for m in spec["methods"]:
        fn, frel, fcls = src.find_method(cname, m)
        if fn is None:
            raise Unsupported(f"{rel}: method {m} not found")
        ctx.rel = frel
        ctx.locals = {}
        ctx.partial_self = None
        ctx.uses_rnd_method = uses_random(fn, src, cname)
        tr = Tr(ctx, in_init=False, fl=fl)
        tr.cur_class = fcls
        params = []
        for a in fn.args.args[1:] + fn.args.kwonlyargs:
            if a.arg not in PARAM_TYPES:
                raise Unsupported(f"{frel}: parameter {a.arg} of {fcls}.{m} is not in the translator schema")
            t = PARAM_TYPES[a.arg]
            ctx.locals[a.arg] = (a.arg, t)
            params.append(f"({a.arg} : {LEAN_TY[t]})")
        lines = tr.block(fn.body)
        rnd_param = " (rnd : Rnd K)" if ctx.uses_rnd_method else ""
        ret = f"{sname} {tyapp} × Rnd K" if ctx.uses_rnd_method else f"{sname} {tyapp}"
        body_defs.append(f"def {m} (self : {sname} {tyapp}) {' '.join(params)}{rnd_param} : {ret} :=")
        for ln in lines:
            body_defs.append("  " + ln)
        body_defs.append("")

    # ---- read-only properties
    for p in spec["props"]:
        fn, frel, fcls = src.find_method(cname, p)
        if fn is None:
            raise Unsupported(f"{rel}: property {p} not found")
        ctx.rel = frel
        ctx.locals = {}
        ctx.uses_rnd_method = False
        tr = Tr(ctx, in_init=False, fl=fl)
        tr.cur_class = fcls
        stmts = [s for s in fn.body if not (isinstance(s, ast.Expr) and isinstance(s.value, ast.Constant))]
        lines = []
        # a property may read another property of self (self.var etc.), in its locals as well as in the returned expression
        pe = PropExpr(tr, src, cname)
        for st in stmts[:-1]:
            lines += pe.wrap(lambda st=st: tr.block_stmt(st))
        last = stmts[-1]
        if not isinstance(last, ast.Return) or last.value is None:
            raise Unsupported(f"{frel}:{last.lineno}: property {p} does not end in `return <expr>`")
        v, t = pe.expr(last.value)
        v = cast(v, t, "K", ctx, last)
        body_defs.append(f"def {p} (self : {sname} {tyapp}) : K :=")
        for ln in lines:
            body_defs.append("  " + ln)
        body_defs.append(f"  {v}")
        body_defs.append("")

    # ---- header with the instance variables actually needed
    inst = []
    if "K" in tparams:
        inst = ["[Add K]", "[Sub K]", "[Mul K]", "[Div K]", "[NatCast K]", "[OfNat K 0]", "[OfNat K 1]"]
        if "neg" in ctx.uses:
            inst.append("[Neg K]")
        if "le" in ctx.uses:
            inst += ["[LE K]", "[DecidableLE K]"]
        if "lt" in ctx.uses:
            inst += ["[LT K]", "[DecidableLT K]"]
        if "deq" in ctx.uses:
            inst.append("[DecidableEq K]")
        if "realops" in ctx.uses:
            inst.append("[RealOps K]")
        if fl:
            inst.append("(fl : K → K)")
    tv = " ".join("{" + p + " : Type}" for p in tparams)
    out.append(f"namespace {sname}")
    out.append(f"variable {tv} {' '.join(inst)}".rstrip())
    out.append("")
    out += body_defs
    if init_asserts:
        out.append("/- assertions in the Python source (not executed by the model): " + "; ".join(init_asserts) + " -/")
    out.append(f"end {sname}")
    return "\n".join(out), [src.classes[c][1] for c in src.mro(cname)]


class PropExpr:
    """expression translator for properties: additionally resolves `self.<property>`"""

    def __init__(self, tr, src, cname):
        self.tr, self.src, self.cname = tr, src, cname

    def expr(self, e):
        return self.wrap(lambda: self.tr.expr(e))

    def wrap(self, thunk):
        tr = self.tr
        orig = tr.field_read

        def field_read(name, node):
            f = fld(name)
            if f in FIELD_TYPES:
                return orig(name, node)
            fn, _, _ = self.src.find_method(self.cname, name)
            if fn is not None and any(ast.unparse(d) == "property" for d in fn.decorator_list):
                return (f"({name} fl self)" if tr.fl else f"(self.{name})"), "K"
            return orig(name, node)
        tr.field_read = field_read
        try:
            return thunk()
        finally:
            tr.field_read = orig


EXPR_KERNELS = {
    "ConfBound": dict(
        file="ixai/explainer/base.py", cls="BaseIncrementalFeatureImportance", method="get_confidence_bound", name="confBound",
        params=[("alpha", "K"), ("seen", "Nat"), ("variance", "K"), ("delta", "K")],
        bindings={"self._smoothing_alpha": "alpha", "self.seen_samples": "seen", "self.variances[feature_name]": "variance",
                  "delta": "delta"}),
}


class BoundExpr(Tr):
    """expression translator in which named sub-expressions of the source are bound to parameters"""

    def __init__(self, ctx, bindings, types):
        super().__init__(ctx)
        self.bindings, self.types = bindings, types

    def expr(self, e):
        key = ast.unparse(e)
        if key in self.bindings:
            nm = self.bindings[key]
            return nm, self.types[nm]
        return super().expr(e)


def translate_expr_kernel(repo, kname):
    spec = EXPR_KERNELS[kname]
    path = os.path.join(repo, spec["file"])
    text = open(path).read()
    tree = ast.parse(text, filename=spec["file"])
    cls = [n for n in tree.body if isinstance(n, ast.ClassDef) and n.name == spec["cls"]]
    if len(cls) != 1:
        raise Unsupported(f"{spec['file']}: class {spec['cls']} not found")
    fn = [n for n in cls[0].body if isinstance(n, ast.FunctionDef) and n.name == spec["method"]]
    if len(fn) != 1:
        raise Unsupported(f"{spec['file']}: method {spec['method']} not found")
    rets = [n for n in ast.walk(fn[0]) if isinstance(n, ast.Return)]
    value = None
    if len(rets) == 1 and isinstance(rets[0].value, ast.DictComp) and len(rets[0].value.generators) == 1 \
            and ast.unparse(rets[0].value.generators[0].iter) == "self.feature_names" and not rets[0].value.generators[0].ifs \
            and ast.unparse(rets[0].value.key) == ast.unparse(rets[0].value.generators[0].target):
        value = rets[0].value.value
    elif len(rets) == 1 and isinstance(rets[0].value, ast.Name):
        # the same as an explicit loop: `out = {}; for feature_name in self.feature_names: out[feature_name] = <expr>; return out`
        out = rets[0].value.id
        body = [n for n in fn[0].body if not (isinstance(n, ast.Expr) and isinstance(n.value, ast.Constant)) and not isinstance(n, ast.Assert)]
        if len(body) == 3 and isinstance(body[0], ast.Assign) and ast.unparse(body[0]) == f"{out} = {{}}" and isinstance(body[1], ast.For) \
                and ast.unparse(body[1].iter) == "self.feature_names" and isinstance(body[1].target, ast.Name) and not body[1].orelse \
                and len(body[1].body) == 1 and isinstance(body[1].body[0], ast.Assign) \
                and ast.unparse(body[1].body[0].targets[0]) == f"{out}[{body[1].target.id}]":
            value = body[1].body[0].value
    if value is None:
        raise Unsupported(f"{spec['file']}:{fn[0].lineno}: {spec['method']} is neither one dict comprehension over self.feature_names nor "
                          f"the equivalent fill-a-dict loop")

    class Dummy:
        classes = {}
    ctx = Ctx(None, kname, spec["file"])
    tr = BoundExpr(ctx, spec["bindings"], dict(spec["params"]))
    v, t = tr.expr(value)
    v = cast(v, t, "K", ctx, value)
    inst = ["[Add K]", "[Sub K]", "[Mul K]", "[Div K]", "[NatCast K]", "[OfNat K 0]", "[OfNat K 1]"]
    if "realops" in ctx.uses:
        inst.append("[RealOps K]")
    params = " ".join(f"({n} : {LEAN_TY[ty]})" for n, ty in spec["params"])
    asserts = [ast.unparse(n.test) for n in ast.walk(fn[0]) if isinstance(n, ast.Assert)]
    body = f"namespace {kname}\nvariable {{K : Type}} {' '.join(inst)}\n\ndef {spec['name']} {params} : K :=\n  {v}\n\n"
    if asserts:
        body += "/- assertions in the Python source (not executed by the model): " + "; ".join(asserts) + " -/\n"
    body += f"end {kname}"
    return body, [spec["file"]], hashlib.sha256(text.encode()).hexdigest()[:16]


HEADER = """-- GENERATED by /verif/tools/py2lean.py — do not edit. Regenerated from the Python source on every check run.
-- source: {srcs}
-- sha256: {sha}
import IxaiVerif.Model.Basic
set_option linter.unusedVariables false

namespace Ixai.Gen{ns}

"""


def generate(repo, outdir):
    src = Source(repo)
    os.makedirs(outdir, exist_ok=True)
    report = {}
    for cname in EMIT:
        for flv in ((False, True) if cname in ("WelfordTracker", "ExponentialSmoothingTracker") else (False,)):
            try:
                text, rels = translate_class(src, cname, fl=flv)
            except Unsupported as ex:
                # one class outside the subset must not take the others down: keep the previous file, record the error
                report[("Fl" if flv else "") + cname] = {"sources": [FILES[cname]], "sha256": "", "changed": False, "error": str(ex)}
                continue
            sha = ",".join(src.sha[c][:16] for c in src.mro(cname))
            ns = ".Fl" if flv else ""
            full = HEADER.format(srcs=", ".join(rels), sha=sha, ns=ns) + text + f"\n\nend Ixai.Gen{ns}\n"
            fname = os.path.join(outdir, ("Fl" if flv else "") + cname + ".lean")
            old = open(fname).read() if os.path.exists(fname) else None
            if old != full:
                with open(fname, "w") as fh:
                    fh.write(full)
            report[("Fl" if flv else "") + cname] = {"sources": rels, "sha256": sha, "changed": old != full}
    for kname in EXPR_KERNELS:
        try:
            text, rels, sha = translate_expr_kernel(repo, kname)
        except Unsupported as ex:
            report[kname] = {"sources": [EXPR_KERNELS[kname]["file"]], "sha256": "", "changed": False, "error": str(ex)}
            continue
        full = HEADER.format(srcs=", ".join(rels), sha=sha, ns="") + text + "\n\nend Ixai.Gen\n"
        fname = os.path.join(outdir, kname + ".lean")
        old = open(fname).read() if os.path.exists(fname) else None
        if old != full:
            with open(fname, "w") as fh:
                fh.write(full)
        report[kname] = {"sources": rels, "sha256": sha, "changed": old != full}
    return report


if __name__ == "__main__":
    repo = REPO
    out = os.path.join(os.path.dirname(os.path.abspath(__file__)), "..", "lean", "IxaiVerif", "Gen")
    args = sys.argv[1:]
    if args:
        out = args[0]
    try:
        rep = generate(repo, out)
    except Unsupported as ex:
        print(f"UNSUPPORTED {ex}")
        sys.exit(3)
    for k, v in rep.items():
        print(k, ("UNSUPPORTED " + v["error"]) if v.get("error") else ("changed" if v["changed"] else "unchanged"), v["sources"][0])
