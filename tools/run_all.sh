#!/bin/sh
# run every registered check (quick by default) on /repo, then validate MANIFEST and evidence files against the schemas
cd "$(dirname "$0")/.."
TIER="${1:-quick}"
FAIL=0
for id in $(python3 -c "import json;print(' '.join(c['property_id'] for c in json.load(open('MANIFEST.json'))['checks']))"); do
  OUT=$(bin/check "$id" --tier "$TIER" 2>&1); RC=$?
  echo "$OUT" | tail -1
  if [ $RC -ne 0 ]; then echo "$OUT" | grep -E "VIOLATION|KNOWN" ; FAIL=1; fi
done
python3-vt - <<'PY'
import json, jsonschema, glob
man = json.load(open('MANIFEST.json'))
jsonschema.validate(man, json.load(open('/root/.vp/MANIFEST.schema.json')))
sch = json.load(open('/root/.vp/EVIDENCE.schema.json'))
for c in man['checks']:
    ev = json.load(open(c['evidence_file']))
    jsonschema.validate(ev, sch)
    cov = ev['coverage']
    assert ev['level'] == c['level_claimed']['category'], (c['property_id'], ev['level'])
    if ev['level'] == 'proof':
        assert cov['obligations'] == cov['discharged'] >= 1, c['property_id']
print("manifest and", len(man['checks']), "evidence files valid")
PY
exit $FAIL
