#!/bin/sh
# usage: tools/with_mutant.sh <patch.diff> <command...>
# Applies the patch to a scratch copy of /repo (outside /repo and /verif), runs the command with IXAI_REPO pointing at
# it, removes the copy, and regenerates the Lean kernels from /repo again.
set -u
PATCH="$(readlink -f "$1")"; shift
TMP="$(mktemp -d /tmp/ixai-mutant.XXXXXX)"
rsync -a --exclude .git --exclude '__pycache__' /repo/ "$TMP/"
( cd "$TMP" && patch -p1 -s < "$PATCH" ) || { echo "patch failed"; rm -rf "$TMP"; exit 2; }
IXAI_REPO="$TMP" "$@"
RC=$?
rm -rf "$TMP"
( cd "$(dirname "$0")/.." && python3 tools/py2lean.py >/dev/null 2>&1; python3 tools/py2lean_eff.py >/dev/null 2>&1 )
exit $RC
