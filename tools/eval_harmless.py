#!/usr/bin/env python3
"""Run checks against a behaviour-preserving refactoring: every check must exit 0 (a VIOLATION here is a false alarm;
`no-failing-input-found` is the permitted-but-undesirable kind).   usage: eval_harmless.py <dir with patch.diff> <name> <Cxx> [<Cxx> ...]"""
import json
import os
import shutil
import subprocess
import sys
import tempfile

VERIF = os.path.dirname(os.path.dirname(os.path.abspath(__file__)))


def main():
    src, name, ids = os.path.abspath(sys.argv[1]), sys.argv[2], sys.argv[3:]
    tmp = tempfile.mkdtemp(prefix="ixai-harmless.", dir="/tmp")
    meta = {"name": name, "kind": "harmless refactoring", "checks": {}}
    try:
        subprocess.run(["rsync", "-a", "--exclude", ".git", "--exclude", "__pycache__", "/repo/", tmp + "/"], check=True)
        p = subprocess.run(["patch", "-p1", "-s", "-i", os.path.join(src, "patch.diff")], cwd=tmp, capture_output=True, text=True)
        if p.returncode != 0:
            print(name, "patch does not apply")
            return
        for cid in ids:
            r = subprocess.run([os.path.join(VERIF, "bin", "check"), cid], cwd=VERIF, env=dict(os.environ, IXAI_REPO=tmp), capture_output=True, text=True)
            viol = [l for l in r.stdout.splitlines() if l.startswith("VIOLATION")]
            what = ""
            if viol:
                rp = viol[0].split("replay=")[1].split()[0]
                try:
                    j = json.load(open(os.path.join(VERIF, rp)))
                    what = j.get("what") or "; ".join(f"{x['name']}: {x['detail'][:200]}" for x in j.get("no_longer_checks", [])[:2])
                except Exception:
                    pass
            verdict = "ok" if r.returncode == 0 else ("ALARM-no-failing-input" if viol and "no-failing" in viol[0] else ("FALSE-ALARM-with-input" if viol else f"exit{r.returncode}"))
            meta["checks"][cid] = {"exit": r.returncode, "verdict": verdict, "what": what[:400]}
            print(f"  {name}: {cid} {verdict} {what[:200]}")
    finally:
        shutil.rmtree(tmp, ignore_errors=True)
        subprocess.run(["/venv/bin/python", os.path.join(VERIF, "tools", "py2lean.py")], capture_output=True)
        subprocess.run(["/venv/bin/python", os.path.join(VERIF, "tools", "py2lean_eff.py")], capture_output=True)
    dst = os.path.join(VERIF, "seeded", "harmless", name)
    os.makedirs(dst, exist_ok=True)
    for f in ("patch.diff", "notes.md"):
        if os.path.exists(os.path.join(src, f)) and os.path.realpath(src) != os.path.realpath(dst):
            shutil.copy(os.path.join(src, f), os.path.join(dst, f))
    mp = os.path.join(dst, "meta.json")
    if os.path.exists(mp):
        try:
            old = json.load(open(mp))
            alarms = {k: v for k, v in old.get("checks", {}).items() if v.get("verdict") != "ok"}
            hist = old.get("earlier_alarms_since_repaired_in_the_machinery", {})
            hist.update({k: v for k, v in alarms.items() if meta["checks"].get(k, {}).get("verdict") == "ok"})
            if hist:
                meta["earlier_alarms_since_repaired_in_the_machinery"] = hist
            for k, v in old.get("checks", {}).items():
                meta["checks"].setdefault(k, v)
        except Exception:
            pass
    json.dump(meta, open(mp, "w"), indent=1)


if __name__ == "__main__":
    main()
