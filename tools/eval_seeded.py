#!/usr/bin/env python3
"""Confirm a seeded change and run the checks against it.

usage: tools/eval_seeded.py <dir with patch.diff, demo.py[, notes.md]> <property id> <name> [--all] [--tier quick]
 1. scratch copy of /repo (outside /repo and /verif), patch applied;
 2. confirm: baseline test suite passes with the change, demo fails with the change, demo passes without it;
 3. run bin/check <property> (and with --all every registered check) with IXAI_REPO = scratch copy;
 4. store patch, demo, notes and meta.json under /verif/seeded/<name>/ ; remove the scratch copy.
"""
import json
import os
import shutil
import subprocess
import sys
import tempfile
import time

VERIF = os.path.dirname(os.path.dirname(os.path.abspath(__file__)))


def sh(cmd, cwd=None, env=None, timeout=3600):
    p = subprocess.run(cmd, cwd=cwd, env=env, capture_output=True, text=True, timeout=timeout)
    return p.returncode, p.stdout + p.stderr


def main():
    src, pid, name = os.path.abspath(sys.argv[1]), sys.argv[2], sys.argv[3]
    run_all = "--all" in sys.argv
    tier = sys.argv[sys.argv.index("--tier") + 1] if "--tier" in sys.argv else "quick"
    patch = os.path.join(src, "patch.diff")
    demo = os.path.join(src, "demo.py")
    tmp = tempfile.mkdtemp(prefix="ixai-seeded.", dir="/tmp")
    meta = {"name": name, "breaks": pid, "source_dir": src, "confirmed": {}, "checks": {}}
    try:
        sh(["rsync", "-a", "--exclude", ".git", "--exclude", "__pycache__", "/repo/", tmp + "/"])
        rc, out = sh(["patch", "-p1", "-s", "-i", patch], cwd=tmp)
        if rc != 0:
            print("patch does not apply:", out[-300:])
            meta["confirmed"]["applies"] = False
            return meta
        meta["confirmed"]["applies"] = True
        env = dict(os.environ, PYTHONPATH=tmp, PYTHONDONTWRITEBYTECODE="1")
        rc, out = sh(["/venv/bin/python", "-m", "pytest", "-q", "-p", "no:cacheprovider", "--timeout=900"], cwd=tmp, env=env)
        tail = [l for l in out.splitlines() if "passed" in l or "failed" in l]
        meta["confirmed"]["tests_with_change"] = tail[-1].strip() if tail else out[-200:]
        meta["confirmed"]["tests_pass"] = rc == 0
        rc, out = sh(["/venv/bin/python", "-W", "ignore", demo], cwd=tmp, env=env, timeout=1200)
        meta["confirmed"]["demo_fails_with_change"] = rc != 0
        meta["confirmed"]["demo_output_with_change"] = out.strip()[-400:]
        env0 = dict(os.environ, PYTHONPATH="/repo", PYTHONDONTWRITEBYTECODE="1")
        rc, out = sh(["/venv/bin/python", "-W", "ignore", demo], cwd="/repo", env=env0, timeout=1200)
        meta["confirmed"]["demo_passes_without"] = rc == 0
        ids = [pid]
        groups = [{"C01", "C02", "C03", "C04", "C05", "C06", "C15", "C16", "C17", "C18"}, {"C07", "C08", "C09", "C18", "C19", "C04", "C06"},
                  {"C10", "C11", "C12", "C20", "C01", "C02", "C03"}, {"C13", "C14", "C15"}]
        if "--related" in sys.argv:
            rel = set()
            for g in groups:
                if pid in g:
                    rel |= g
            ids = [pid] + sorted(rel - {pid})
        if run_all:
            man = json.load(open(os.path.join(VERIF, "MANIFEST.json")))
            ids = [pid] + [c["property_id"] for c in man["checks"] if c["property_id"] != pid]
        for cid in ids:
            t0 = time.time()
            rc, out = sh([os.path.join(VERIF, "bin", "check"), cid, "--tier", tier], cwd=VERIF, env=dict(os.environ, IXAI_REPO=tmp))
            viol = [l for l in out.splitlines() if l.startswith("VIOLATION")]
            what = ""
            if viol:
                rp = viol[0].split("replay=")[1].split()[0]
                try:
                    r = json.load(open(os.path.join(VERIF, rp)))
                    what = r.get("what") or "; ".join(f"{x['name']}: {x['detail'][:160]}" for x in r.get("no_longer_checks", [])[:2])
                except Exception:
                    pass
            meta["checks"][cid] = {"exit": rc, "violation": viol[0] if viol else None, "what": what[:500], "wall_s": round(time.time() - t0, 1)}
            print(f"  {name}: check {cid} exit={rc} {'no-failing-input-found' if viol and 'no-failing' in viol[0] else ('FAILING INPUT' if viol else 'MISSED')}  {what[:160]}")
    finally:
        shutil.rmtree(tmp, ignore_errors=True)
        subprocess.run(["/venv/bin/python", os.path.join(VERIF, "tools", "py2lean.py")], capture_output=True)
        subprocess.run(["/venv/bin/python", os.path.join(VERIF, "tools", "py2lean_eff.py")], capture_output=True)
    dst = os.path.join(VERIF, "seeded", name)
    os.makedirs(dst, exist_ok=True)
    for f in ("patch.diff", "demo.py", "notes.md"):
        if os.path.exists(os.path.join(src, f)) and os.path.abspath(src) != os.path.abspath(dst):
            shutil.copy(os.path.join(src, f), os.path.join(dst, f))
    meta["needs_to_manifest"] = "see notes.md"
    oldp = os.path.join(dst, "meta.json")
    if os.path.exists(oldp):
        try:
            old = json.load(open(oldp))
            hist = old.get("first_evaluation_before_the_check_was_strengthened")
            oc = old.get("checks", {}).get(pid, {})
            if hist is None and oc.get("exit") != 1 and meta["checks"].get(pid, {}).get("exit") == 1:
                hist = {"exit": oc.get("exit"), "verdict": "missed" if oc.get("exit") == 0 else f"check crashed (exit {oc.get('exit')})"}
            if hist is not None:
                meta["first_evaluation_before_the_check_was_strengthened"] = hist
        except Exception:
            pass
    meta["ran"] = ["baseline pytest with the change", "demo with and without the change", f"bin/check {' '.join(ids)} --tier {tier} with IXAI_REPO=<scratch copy>"]
    with open(os.path.join(dst, "meta.json"), "w") as fh:
        json.dump(meta, fh, indent=1)
    c = meta["confirmed"]
    print(f"{name}: applies={c.get('applies')} tests_pass={c.get('tests_pass')} demo_fails={c.get('demo_fails_with_change')} demo_passes_clean={c.get('demo_passes_without')} "
          f"caught_by_target={meta['checks'].get(pid, {}).get('exit') == 1}")
    return meta


if __name__ == "__main__":
    main()
